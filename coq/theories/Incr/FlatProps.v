(* C05 - the work-queue model produces node-level well-formed event traces (NodeProtocol.wq_wf) for
   every enabled run, by induction with a graph invariant preserved by every step - for FLAT work:
   groups with parents, tasks in any number of groups, root streams, but no nested work carried by
   task results or stream items (named _partial in Properties/C05.v for that reason). *)
From GV Require Import Base.Prelude Incr.Protocol Incr.WorkQueue Incr.Publisher Incr.NodeProtocol
  Incr.Explore Incr.Flat Incr.PublisherProps Incr.WorkQueueProps.

(* ------------------------------------------------------------------ the group graph only shrinks *)
Inductive shrink : list (N * gnode) -> list (N * gnode) -> Prop :=
| shrink_nil : shrink [] []
| shrink_keep k n n' l l' :
    shrink l l' -> gn_children n = gn_children n' -> shrink ((k, n) :: l) ((k, n') :: l')
| shrink_drop k n l l' : shrink l l' -> shrink ((k, n) :: l) l'.

Lemma shrink_refl l : shrink l l.
Proof. induction l as [|[k n] l IH]; [constructor|]. apply shrink_keep; auto. Qed.

Lemma shrink_trans a b c : shrink a b -> shrink b c -> shrink a c.
Proof.
  intro H. revert c. induction H as [|k n n' l l' H IH E|k n l l' H IH]; intros c Hc.
  - exact Hc.
  - inversion Hc as [|k2 n2 n3 l2 l3 H3 E3|k2 n2 l2 l3 H3]; subst.
    + apply shrink_keep; [apply IH; exact H3|congruence].
    + apply shrink_drop. apply IH. exact H3.
  - apply shrink_drop. apply IH. exact Hc.
Qed.

Lemma shrink_adel k l : shrink l (adel k l).
Proof.
  unfold adel. induction l as [|[k' n] l IH]; cbn [filter fst]; [constructor|].
  destruct (k' =? k); cbn [negb]; [apply shrink_drop|apply shrink_keep]; auto.
Qed.

Lemma shrink_aset k n n' l :
  aget k l = Some n -> gn_children n = gn_children n' -> shrink l (aset k n' l).
Proof.
  induction l as [|[k' m] l IH]; cbn [aget aset]; [discriminate|].
  destruct (k =? k') eqn:Ek; intros H Hc.
  - apply N.eqb_eq in Ek. subst k'. inversion H; subst. apply shrink_keep; [apply shrink_refl|exact Hc].
  - apply shrink_keep; [apply IH; assumption|reflexivity].
Qed.

Lemma shrink_aget l l' : shrink l l' -> forall k n', aget k l' = Some n' ->
  exists n, In (k, n) l /\ gn_children n = gn_children n'.
Proof.
  induction 1 as [|k0 n0 n0' l l' H IH E|k0 n0 l l' H IH]; intros k n' Hg; cbn [aget] in Hg.
  - discriminate.
  - destruct (k =? k0) eqn:Ek.
    + apply N.eqb_eq in Ek. subst. inversion Hg; subst. exists n0. split; [left; reflexivity|exact E].
    + destruct (IH _ _ Hg) as (n & Hin & Hc). exists n. split; [right; exact Hin|exact Hc].
  - destruct (IH _ _ Hg) as (n & Hin & Hc). exists n. split; [right; exact Hin|exact Hc].
Qed.

Lemma aget_in {A} k (l : list (N * A)) v : aget k l = Some v -> In (k, v) l.
Proof.
  induction l as [|[k' v'] l IH]; cbn; [discriminate|].
  destruct (k =? k') eqn:Ek; intro H.
  - apply N.eqb_eq in Ek. inversion H; subst. left; reflexivity.
  - right; auto.
Qed.

Lemma in_aget_nodup {A} k (l : list (N * A)) v :
  NoDup (map fst l) -> In (k, v) l -> aget k l = Some v.
Proof.
  induction l as [|[k' v'] l IH]; cbn [map fst In aget]; intros Hnd Hin; [contradiction|].
  inversion Hnd as [|? ? Hn Hnd']; subst.
  destruct Hin as [Hin|Hin].
  - inversion Hin; subst. rewrite N.eqb_refl. reflexivity.
  - destruct (k =? k') eqn:Ek.
    + apply N.eqb_eq in Ek. subst. exfalso. apply Hn. change k' with (fst (k', v)). apply in_map. exact Hin.
    + apply IH; assumption.
Qed.

Lemma shrink_keys l l' : shrink l l' -> forall k, In k (map fst l') -> In k (map fst l).
Proof.
  induction 1 as [|k0 n0 n0' l l' H IH E|k0 n0 l l' H IH]; intros k Hk; cbn [map fst In] in *; auto.
  - destruct Hk as [Hk|Hk]; [left; exact Hk|right; auto].
Qed.

Lemma shrink_nodup_keys l l' : shrink l l' -> NoDup (map fst l) -> NoDup (map fst l').
Proof.
  induction 1 as [|k0 n0 n0' l l' H IH E|k0 n0 l l' H IH]; intro Hnd; cbn [map fst] in *.
  - constructor.
  - inversion Hnd as [|? ? Hn Hnd']; subst. constructor; [|auto].
    intro X. apply Hn. exact (shrink_keys _ _ H _ X).
  - inversion Hnd; subst. auto.
Qed.

Lemma shrink_livech_incl l l' : shrink l l' -> incl (livech l') (livech l).
Proof.
  induction 1 as [|k0 n0 n0' l l' H IH E|k0 n0 l l' H IH]; unfold livech in *; cbn [flat_map snd].
  - intros x [].
  - rewrite E. intros x Hx. apply in_app_or in Hx as [Hx|Hx]; apply in_or_app; [left; exact Hx|right; auto].
  - intros x Hx. apply in_or_app. right. auto.
Qed.

Lemma NoDup_app_l {A} (a b : list A) : NoDup (a ++ b) -> NoDup a.
Proof. induction a as [|x a IH]; cbn; intro H; [constructor|]. inversion H; subst. constructor; [intro X; apply H2; apply in_or_app; left; exact X|auto]. Qed.

Lemma NoDup_app_r {A} (a b : list A) : NoDup (a ++ b) -> NoDup b.
Proof. induction a as [|x a IH]; cbn; intro H; [exact H|]. inversion H; subst. auto. Qed.

Lemma NoDup_app_disj {A} (a b : list A) x : NoDup (a ++ b) -> In x a -> In x b -> False.
Proof.
  induction a as [|y a IH]; cbn; intros H Ha Hb; [contradiction|].
  inversion H; subst. destruct Ha as [->|Ha]; [apply H2; apply in_or_app; right; exact Hb|eauto].
Qed.

Lemma NoDup_app_intro {A} (a b : list A) :
  NoDup a -> NoDup b -> (forall x, In x a -> In x b -> False) -> NoDup (a ++ b).
Proof.
  induction a as [|y a IH]; cbn; intros Ha Hb Hd; [exact Hb|].
  inversion Ha; subst. constructor.
  - intro X. apply in_app_or in X as [X|X]; [contradiction|]. apply (Hd y); [left; reflexivity|exact X].
  - apply IH; auto. intros x Hx1 Hx2. apply (Hd x); [right; exact Hx1|exact Hx2].
Qed.

Lemma shrink_nodup_livech l l' : shrink l l' -> NoDup (livech l) -> NoDup (livech l').
Proof.
  induction 1 as [|k0 n0 n0' l l' H IH E|k0 n0 l l' H IH]; unfold livech in *; cbn [flat_map snd]; intro Hnd.
  - constructor.
  - rewrite <- E. apply NoDup_app_intro.
    + exact (NoDup_app_l _ _ Hnd).
    + apply IH. exact (NoDup_app_r _ _ Hnd).
    + intros x Hx1 Hx2. apply (NoDup_app_disj _ _ x Hnd Hx1). exact (shrink_livech_incl _ _ H _ Hx2).
  - apply IH. exact (NoDup_app_r _ _ Hnd).
Qed.

Lemma shrink_in l l' : shrink l l' -> forall k n', In (k, n') l' ->
  exists n, In (k, n) l /\ gn_children n = gn_children n'.
Proof.
  induction 1 as [|k0 n0 n0' l l' H IH E|k0 n0 l l' H IH]; intros k n' Hin; cbn [In] in *.
  - contradiction.
  - destruct Hin as [Hin|Hin].
    + inversion Hin; subst. exists n0. split; [left; reflexivity|exact E].
    + destruct (IH _ _ Hin) as (n & Hn & Hc). exists n. split; [right; exact Hn|exact Hc].
  - destruct (IH _ _ Hin) as (n & Hn & Hc). exists n. split; [right; exact Hn|exact Hc].
Qed.

(* ------------------------------------------------------------------ invariants of the graph part *)
Record GI (E : env) (seen : list N) (s : state) : Prop := mkGI {
  gi_keys : NoDup (map fst (gnodes s));
  gi_livech : NoDup (livech (gnodes s));
  gi_child : forall g n c, In (g, n) (gnodes s) -> In c (gn_children n) ->
             ~ In (gkey c) seen /\ parent E c = Some g;
  gi_tstreams : forall t tn, In (t, tn) (tnodes s) -> tn_streams tn = []
}.

(* what every graph operation of the flat fragment does to the rest of the state *)
Record frame (s s' : state) : Prop := mkFrame {
  fr_shrink : shrink (gnodes s) (gnodes s');
  fr_rstreams : rstreams s' = rstreams s;
  fr_spos : spos s' = spos s;
  fr_sst : sstarted s' = sstarted s /\ sended s' = sended s;
  fr_tst : (forall t tn, In (t, tn) (tnodes s) -> tn_streams tn = []) ->
           (forall t tn, In (t, tn) (tnodes s') -> tn_streams tn = [])
}.

Lemma frame_refl s : frame s s.
Proof. constructor; auto. apply shrink_refl. Qed.

Lemma frame_trans a b c : frame a b -> frame b c -> frame a c.
Proof.
  intros [A1 A2 A3 [A4 A4'] A5] [B1 B2 B3 [B4 B4'] B5]. constructor.
  - eapply shrink_trans; eassumption.
  - congruence.
  - congruence.
  - split; congruence.
  - intro H. apply B5. apply A5. exact H.
Qed.

Lemma GI_frame E seen s s' : GI E seen s -> frame s s' -> GI E seen s'.
Proof.
  intros [K L C T] [Sh _ _ _ Ft]. constructor.
  - exact (shrink_nodup_keys _ _ Sh K).
  - exact (shrink_nodup_livech _ _ Sh L).
  - intros g n' c Hin Hc. destruct (shrink_in _ _ Sh _ _ Hin) as (n & Hn & E').
    rewrite <- E' in Hc. exact (C _ _ _ Hn Hc).
  - exact (Ft T).
Qed.

Lemma adel_in {A} k (l : list (N * A)) x : In x (adel k l) -> In x l.
Proof. unfold adel. intro H. apply filter_In in H as [H _]. exact H. Qed.

Lemma remove_task_frame E t s :
  frame s (remove_task E t s) /\ roots (remove_task E t s) = roots s.
Proof.
  unfold remove_task. split; [|reflexivity]. constructor; cbn [gnodes set_tnodes set_gnodes rstreams spos sstarted sended tnodes]; auto.
  - generalize (gnodes s) as gn. induction (tgroups E t) as [|g l IH]; intro gn; cbn [fold_left]; [apply shrink_refl|].
    destruct (aget g gn) as [n|] eqn:A; [|apply IH].
    eapply shrink_trans; [|apply IH]. eapply shrink_aset; [exact A|reflexivity].
  - intros H t' tn Hin. apply adel_in in Hin. exact (H _ _ Hin).
Qed.

Lemma aset_in0 {A} k (v : A) l k' v' : In (k', v') (aset k v l) -> (k' = k /\ v' = v) \/ In (k', v') l.
Proof.
  induction l as [|[k2 v2] l IH]; cbn [aset In].
  - intros [H|[]]. inversion H; subst. left. auto.
  - destruct (k =? k2) eqn:E; cbn [In].
    + intros [H|H]; [inversion H; subst; left; auto|right; right; exact H].
    + intros [H|H]; [right; left; exact H|]. destruct (IH H) as [X|X]; [left; exact X|right; right; exact X].
Qed.

(* marking a task node as owed changes nothing the invariants look at *)
Lemma mark_owed_frame s t tn :
  aget t (tnodes s) = Some tn ->
  let s' := set_tnodes (aset t (mkT (tn_done tn) (tn_streams tn) true) (tnodes s)) s in
  frame s s' /\ roots s' = roots s /\ gnodes s' = gnodes s.
Proof.
  intros A s'. split; [|split; reflexivity].
  constructor; cbn [s' set_tnodes gnodes rstreams spos sstarted sended tnodes]; auto.
  - apply shrink_refl.
  - intros H t' tn' Hin. apply aset_in0 in Hin as [[_ ->]|Hin]; [|exact (H _ _ Hin)].
    cbn [tn_streams]. apply (H t tn). clear -A.
    induction (tnodes s) as [|[k v] l IH]; cbn in *; [discriminate|].
    destruct (t =? k) eqn:E; [apply N.eqb_eq in E; inversion A; subst; left; reflexivity|right; auto].
Qed.

Lemma collect_frame E oo n vals nss s :
  let r := collect_completed E oo n (vals, nss, s) in
  frame s (snd r) /\ roots (snd r) = roots s /\
  ((forall t tn, In (t, tn) (tnodes s) -> tn_streams tn = []) -> snd (fst r) = nss).
Proof.
  unfold collect_completed.
  set (f := fun (st : list N * list N * state) t => _).
  assert (H : forall l v x s0,
    (forall t tn, In (t, tn) (tnodes s0) -> tn_streams tn = []) \/ True ->
    frame s0 (snd (fold_left f l (v, x, s0))) /\ roots (snd (fold_left f l (v, x, s0))) = roots s0 /\
    ((forall t tn, In (t, tn) (tnodes s0) -> tn_streams tn = []) -> snd (fst (fold_left f l (v, x, s0))) = x)).
  { induction l as [|t l IH]; intros v x s0 _; cbn [fold_left].
    - split; [apply frame_refl|]. split; [reflexivity|]. intros _. reflexivity.
    - subst f. cbn beta iota.
      destruct (oo && existsb (fun g => ahas g (gnodes s0)) (tgroups E t)).
      { destruct (aget t (tnodes s0)) as [tn|] eqn:A; [|apply IH; right; exact I].
        destruct (mark_owed_frame s0 t tn A) as (F & R & _). cbn zeta in F, R.
        destruct (IH v x (set_tnodes (aset t (mkT (tn_done tn) (tn_streams tn) true) (tnodes s0)) s0) (or_intror I))
          as (F2 & R2 & X2).
        split; [eapply frame_trans; eassumption|]. split; [congruence|].
        intro Ht. apply X2. exact (fr_tst _ _ F Ht). }
      destruct (aget t (tnodes s0)) as [tn|] eqn:A.
      + destruct (remove_task_frame E t s0) as [F R].
        destruct (IH (if tn_done tn then v ++ [t] else v) (x ++ tn_streams tn) (remove_task E t s0) (or_intror I))
          as (F2 & R2 & X2).
        split; [eapply frame_trans; eassumption|]. split; [congruence|].
        intro Ht. rewrite X2.
        * rewrite (Ht _ _ (aget_in _ _ _ A)). apply app_nil_r.
        * exact (fr_tst _ _ F Ht).
      + apply IH. right. exact I. }
  apply H. right. exact I.
Qed.

(* ------------------------------------------------------------------ ancestors, nodes *)
Definition anc (E : env) (g : N) : list N := ancestors (S (length (e_parent E))) (e_parent E) g.

Lemma anc_mono parents : forall f x a, In a (ancestors f parents x) -> In a (ancestors (S f) parents x).
Proof.
  induction f as [|f IH]; intros x a H; [contradiction|].
  cbn [ancestors] in *. destruct (agetN x parents) as [p|]; [|contradiction].
  destruct H as [H|H]; [left; exact H|right; apply IH; exact H].
Qed.

Lemma anc_step E c d a : parent E c = Some d -> In a (anc E c) -> a = d \/ In a (anc E d).
Proof.
  unfold anc, parent. intros Hp H. cbn [ancestors] in H. rewrite Hp in H.
  destruct H as [H|H]; [left; symmetry; exact H|right; apply anc_mono; exact H].
Qed.

Lemma in_aget_some {A} k (l : list (N * A)) v : In (k, v) l -> aget k l <> None.
Proof.
  induction l as [|[k' v'] l IH]; cbn [In aget]; [contradiction|].
  intros [H|H].
  - inversion H; subst. rewrite N.eqb_refl. discriminate.
  - destruct (k =? k'); [discriminate|auto].
Qed.

Lemma shrink_none l l' k : shrink l l' -> aget k l = None -> aget k l' = None.
Proof.
  intros Sh H. destruct (aget k l') as [n'|] eqn:A; [|reflexivity].
  destruct (shrink_aget _ _ Sh _ _ A) as (n & Hin & _). exfalso. exact (in_aget_some _ _ _ Hin H).
Qed.

Lemma aget_adel_same {A} k (l : list (N * A)) : aget k (adel k l) = None.
Proof.
  unfold adel. induction l as [|[k' v] l IH]; cbn [filter fst aget]; [reflexivity|].
  destruct (k' =? k) eqn:E; cbn [negb]; [exact IH|].
  cbn [aget]. rewrite N.eqb_sym, E. exact IH.
Qed.

Lemma aget_adel_other {A} k k' (l : list (N * A)) : k' <> k -> aget k' (adel k l) = aget k' l.
Proof.
  intro Hne. unfold adel. induction l as [|[k2 v] l IH]; cbn [filter fst aget]; [reflexivity|].
  destruct (k2 =? k) eqn:E; cbn [negb aget].
  - apply N.eqb_eq in E. subst k2. destruct (k' =? k) eqn:E2; [apply N.eqb_eq in E2; contradiction|exact IH].
  - destruct (k' =? k2); [reflexivity|exact IH].
Qed.

Definition candok (E : env) (seen : list N) (s : state) (c : N) : Prop :=
  ~ In (gkey c) seen /\ (forall a, In a (anc E c) -> aget a (gnodes s) = None) /\ ~ In c (livech (gnodes s)).

Lemma candok_frame E seen s s' c : candok E seen s c -> frame s s' -> candok E seen s' c.
Proof.
  intros (A & B & C) F. split; [exact A|]. split.
  - intros a Ha. exact (shrink_none _ _ _ (fr_shrink _ _ F) (B _ Ha)).
  - intro X. apply C. exact (shrink_livech_incl _ _ (fr_shrink _ _ F) _ X).
Qed.

Lemma children_in_livech gn g n c : In (g, n) gn -> In c (gn_children n) -> In c (livech gn).
Proof.
  intros Hin Hc. unfold livech. apply in_flat_map. exists (g, n). split; [exact Hin|exact Hc].
Qed.

Lemma children_nodup gn g n : In (g, n) gn -> NoDup (livech gn) -> NoDup (gn_children n).
Proof.
  unfold livech. induction gn as [|[k m] gn IH]; cbn [In flat_map snd]; [contradiction|].
  intros [H|H] Hnd.
  - inversion H; subst. exact (NoDup_app_l _ _ Hnd).
  - apply IH; [exact H|exact (NoDup_app_r _ _ Hnd)].
Qed.

Lemma livech_adel_notin gn g n x :
  NoDup (map fst gn) -> NoDup (livech gn) -> In (g, n) gn -> In x (gn_children n) ->
  ~ In x (livech (adel g gn)).
Proof.
  unfold livech, adel. induction gn as [|[k m] gn IH]; cbn [In map fst flat_map snd filter]; [contradiction|].
  intros Hk Hl Hin Hx. inversion Hk as [|? ? Hnk Hk']; subst.
  destruct Hin as [Hin|Hin].
  - inversion Hin; subst. rewrite N.eqb_refl. cbn [negb].
    (* g occurs only here: the rest is untouched *)
    assert (Hsame : filter (fun p : N * gnode => negb (fst p =? g)) gn = gn).
    { clear -Hnk. induction gn as [|[k2 m2] gn IH]; cbn [filter fst]; [reflexivity|].
      destruct (k2 =? g) eqn:E.
      - apply N.eqb_eq in E. subst. exfalso. apply Hnk. left. reflexivity.
      - cbn [negb]. f_equal. apply IH. intro X. apply Hnk. right. exact X. }
    rewrite Hsame. intro X. exact (NoDup_app_disj _ _ x Hl Hx X).
  - destruct (k =? g) eqn:E.
    + apply N.eqb_eq in E. subst. exfalso. apply Hnk. change g with (fst (g, n)). apply in_map. exact Hin.
    + cbn [negb flat_map snd]. intro X. apply in_app_or in X as [X|X].
      * apply (NoDup_app_disj _ _ x Hl X). apply in_flat_map. exists (g, n). split; [exact Hin|exact Hx].
      * exact (IH Hk' (NoDup_app_r _ _ Hl) Hin Hx X).
Qed.

(* ------------------------------------------------------------------ _prune_empty_groups *)
Lemma aset_keeps {A} k k' (v : A) l : aget k l <> None -> aget k (aset k' v l) <> None.
Proof.
  induction l as [|[k2 v2] l IH]; cbn [aget aset]; [intro H; contradiction|].
  destruct (k' =? k2) eqn:E'; cbn [aget].
  - apply N.eqb_eq in E'. subst. destruct (k =? k2); [discriminate|auto].
  - destruct (k =? k2); [discriminate|auto].
Qed.

Definition keeps (s s' : state) : Prop :=
  forall k, aget k (gnodes s) <> None -> aget k (gnodes s') <> None.

Lemma remove_task_keeps E t s : keeps s (remove_task E t s).
Proof.
  unfold keeps, remove_task. cbn [gnodes set_tnodes set_gnodes]. intros k.
  generalize (gnodes s) as gn. induction (tgroups E t) as [|g l IH]; intros gn H; cbn [fold_left]; [exact H|].
  destruct (aget g gn) as [n|]; [|apply IH; exact H]. apply IH. apply aset_keeps. exact H.
Qed.

Lemma collect_keeps E oo n vals nss s : keeps s (snd (collect_completed E oo n (vals, nss, s))).
Proof.
  unfold collect_completed.
  set (f := fun (st : list N * list N * state) t => _).
  assert (H : forall l v x s0, keeps s0 (snd (fold_left f l (v, x, s0)))).
  { induction l as [|t l IH]; intros v x s0; cbn [fold_left]; [intros k Hk; exact Hk|].
    subst f. cbn beta iota.
    destruct (oo && existsb (fun g => ahas g (gnodes s0)) (tgroups E t)).
    { destruct (aget t (tnodes s0)) as [tn|]; [|apply IH]. intros k Hk. apply IH. exact Hk. }
    destruct (aget t (tnodes s0)) as [tn|]; [|apply IH].
    intros k Hk. apply IH. apply remove_task_keeps. exact Hk. }
  apply H.
Qed.

Definition prune_post (E : env) (seen gs ne nss : list N) (s : state)
  (r : list N * list N * list N * state) : Prop :=
  let '(ne', vals', nss', s') := r in
  frame s s' /\ roots s' = roots s /\ nss' = nss /\
  (forall k, aget k (gnodes s) <> None -> aget k (gnodes s') = None -> In k (gs ++ livech (gnodes s))) /\
  exists added, ne' = ne ++ added /\ NoDup added /\ incl added (gs ++ livech (gnodes s)) /\
    (forall c, In c added -> candok E seen s' c /\ aget c (gnodes s') <> None).

Lemma frame_set_oof s : frame s (set_oof s).
Proof. constructor; cbn; auto. apply shrink_refl. Qed.

Lemma frame_adel s g : frame s (set_gnodes (adel g (gnodes s)) s).
Proof. constructor; cbn; auto. apply shrink_adel. Qed.

Lemma prune_ok E seen flush : forall fuel gs ne vals nss s,
  GI E seen s -> NoDup gs -> (forall c, In c gs -> candok E seen s c) ->
  prune_post E seen gs ne nss s (prune fuel E flush gs (ne, vals, nss, s)).
Proof.
  induction fuel as [|f IHf]; intros gs ne vals nss s HGI Hnd Hc; cbn [prune].
  - destruct gs as [|g gs]; cbn [prune_post].
    + split; [apply frame_refl|]. split; [reflexivity|]. split; [reflexivity|].
      split; [intros k H1 H2; contradiction|].
      exists []. rewrite app_nil_r. split; [reflexivity|]. split; [constructor|]. split; [intros x []|intros c []].
    + split; [apply frame_set_oof|]. split; [reflexivity|]. split; [reflexivity|].
      split; [intros k H1 H2; cbn in H2; contradiction|].
      exists []. rewrite app_nil_r. split; [reflexivity|]. split; [constructor|]. split; [intros x []|intros c []].
  - set (F := fun (st : list N * list N * list N * state) g => _).
    revert ne vals nss s HGI Hnd Hc.
    induction gs as [|c rest IHg]; intros ne vals nss s HGI Hnd Hc; cbn [fold_left].
    + cbn [prune_post]. split; [apply frame_refl|]. split; [reflexivity|]. split; [reflexivity|].
      split; [intros k H1 H2; contradiction|].
      exists []. rewrite app_nil_r. split; [reflexivity|]. split; [constructor|]. split; [intros x []|intros x []].
    + inversion Hnd as [|? ? Hcr Hnd']; subst.
      assert (Hc' : forall r, In r rest -> candok E seen s r) by (intros r Hr; apply Hc; right; exact Hr).
      unfold F at 2. cbn beta iota.
      destruct (aget c (gnodes s)) as [n|] eqn:A.
      2:{ (* no node: skipped *)
          specialize (IHg ne vals nss s HGI Hnd' Hc').
          destruct (fold_left F rest (ne, vals, nss, s)) as [[[ne' vals'] nss'] s'].
          destruct IHg as (Fr & R & X & D & added & E1 & N1 & I1 & C1).
          split; [exact Fr|]. split; [exact R|]. split; [exact X|]. split.
          - intros k H1 H2. specialize (D k H1 H2). cbn [app]. right. exact D.
          - exists added. split; [exact E1|]. split; [exact N1|]. split; [|exact C1].
            intros x Hx. right. exact (I1 x Hx). }
      destruct (gn_pending n) as [|pn] eqn:P.
      * (* empty: pruned, its children are the next candidates *)
        set (s1 := set_gnodes (adel c (gnodes s)) s).
        assert (F1 : frame s s1) by apply frame_adel.
        pose proof (aget_in _ _ _ A) as Hin.
        (* the optional flush *)
        assert (Hfl : exists vals1 s2,
          (if flush
           then collect_completed E (match gn_children n with [] => true | _ :: _ => false end) n (vals, nss, s1)
           else (vals, nss, s1)) = (vals1, nss, s2) /\ frame s1 s2 /\ roots s2 = roots s1 /\ keeps s1 s2).
        { destruct flush.
          - set (oo := match gn_children n with [] => true | _ :: _ => false end).
            pose proof (collect_frame E oo n vals nss s1) as CF. pose proof (collect_keeps E oo n vals nss s1) as CK.
            destruct (collect_completed E oo n (vals, nss, s1)) as [[v1 x1] s2]. cbn [fst snd] in CF, CK.
            destruct CF as (CF1 & CF2 & CF3).
            assert (x1 = nss).
            { apply CF3. intros t tn Ht. apply (gi_tstreams _ _ _ HGI t tn). exact Ht. }
            subst x1. exists v1, s2. auto.
          - exists vals, s1. split; [reflexivity|]. split; [apply frame_refl|]. split; [reflexivity|intros k Hk; exact Hk]. }
        destruct Hfl as (vals1 & s2 & Efl & F2 & R2 & K2). rewrite Efl.
        assert (F02 : frame s s2) by (eapply frame_trans; eassumption).
        assert (HGI2 : GI E seen s2) by (eapply GI_frame; eassumption).
        (* recursive call on the children *)
        assert (Hndc : NoDup (gn_children n)) by (eapply children_nodup; [exact Hin|exact (gi_livech _ _ _ HGI)]).
        assert (Hcc : forall c', In c' (gn_children n) -> candok E seen s2 c').
        { intros c' Hc'0. destruct (gi_child _ _ _ HGI _ _ _ Hin Hc'0) as [Hu Hp].
          split; [exact Hu|]. split.
          - intros a Ha. destruct (anc_step _ _ _ _ Hp Ha) as [->|Ha'].
            + apply (shrink_none _ _ _ (fr_shrink _ _ F2)). cbn [s1 gnodes set_gnodes]. apply aget_adel_same.
            + destruct (Hc c (or_introl eq_refl)) as (_ & B & _).
              exact (shrink_none _ _ _ (fr_shrink _ _ F02) (B _ Ha')).
          - intro X. apply (shrink_livech_incl _ _ (fr_shrink _ _ F2)) in X. cbn [s1 gnodes set_gnodes] in X.
            exact (livech_adel_notin _ _ _ _ (gi_keys _ _ _ HGI) (gi_livech _ _ _ HGI) Hin Hc'0 X). }
        pose proof (IHf (gn_children n) ne vals1 nss s2 HGI2 Hndc Hcc) as P1.
        destruct (prune f E flush (gn_children n) (ne, vals1, nss, s2)) as [[[ne1 v1] x1] s3].
        destruct P1 as (F3 & R3 & X3 & D3 & added1 & E1 & N1 & I1 & C1). subst x1.
        assert (F03 : frame s s3) by (eapply frame_trans; eassumption).
        assert (HGI3 : GI E seen s3) by (eapply GI_frame; eassumption).
        assert (Hc3 : forall r, In r rest -> candok E seen s3 r)
          by (intros r Hr; eapply candok_frame; [apply Hc'; exact Hr|exact F03]).
        specialize (IHg ne1 v1 nss s3 HGI3 Hnd' Hc3).
        destruct (fold_left F rest (ne1, v1, nss, s3)) as [[[ne' vals'] nss'] s'].
        destruct IHg as (F4 & R4 & X4 & D4 & added2 & E2 & N2 & I2 & C2).
        (* everything found below c was a child of a live node of s *)
        assert (Hsub1 : incl (gn_children n ++ livech (gnodes s2)) (livech (gnodes s))).
        { intros x Hx. apply in_app_or in Hx as [Hx|Hx].
          - eapply children_in_livech; eassumption.
          - exact (shrink_livech_incl _ _ (fr_shrink _ _ F02) _ Hx). }
        assert (Hrest_nl : forall r, In r rest -> ~ In r (livech (gnodes s)))
          by (intros r Hr; destruct (Hc' r Hr) as (_ & _ & Z); exact Z).
        split; [eapply frame_trans; eassumption|].
        split; [cbn [s1 roots set_gnodes] in R2; congruence|]. split; [exact X4|]. split.
        -- intros k H1 H2.
           destruct (aget k (gnodes s3)) as [n3|] eqn:A3.
           ++ assert (H3 : aget k (gnodes s3) <> None) by (rewrite A3; discriminate).
              specialize (D4 k H3 H2). apply in_app_or in D4 as [D4|D4].
              ** apply in_or_app. left. right. exact D4.
              ** apply in_or_app. right. exact (shrink_livech_incl _ _ (fr_shrink _ _ F03) _ D4).
           ++ destruct (N.eq_dec k c) as [->|Hne]; [apply in_or_app; left; left; reflexivity|].
              assert (H1' : aget k (gnodes s2) <> None).
              { apply K2. cbn [s1 gnodes set_gnodes]. rewrite (aget_adel_other _ _ _ Hne). exact H1. }
              specialize (D3 k H1' A3). apply in_or_app. right. exact (Hsub1 _ D3).
        -- exists (added1 ++ added2). split; [rewrite E2, E1, app_assoc; reflexivity|]. split.
           ++ apply NoDup_app_intro; [exact N1|exact N2|].
              intros x Hx1 Hx2. specialize (I2 x Hx2). apply in_app_or in I2 as [I2|I2].
              ** apply (Hrest_nl x I2). apply Hsub1. exact (I1 x Hx1).
              ** destruct (C1 x Hx1) as ((_ & _ & Z) & _). exact (Z I2).
           ++ split.
              ** intros x Hx. apply in_app_or in Hx as [Hx|Hx].
                 --- apply in_or_app. right. apply Hsub1. exact (I1 x Hx).
                 --- specialize (I2 x Hx). apply in_app_or in I2 as [I2|I2].
                     +++ apply in_or_app. left. right. exact I2.
                     +++ apply in_or_app. right. exact (shrink_livech_incl _ _ (fr_shrink _ _ F03) _ I2).
              ** intros x Hx. apply in_app_or in Hx as [Hx|Hx]; [|exact (C2 x Hx)].
                 destruct (C1 x Hx) as (Ck & Hn). split; [eapply candok_frame; eassumption|].
                 intro Hdel. specialize (D4 x Hn Hdel). apply in_app_or in D4 as [D4|D4].
                 --- apply (Hrest_nl x D4). apply Hsub1. exact (I1 x Hx).
                 --- destruct Ck as (_ & _ & Z). exact (Z D4).
      * (* non-empty: kept and promoted *)
        specialize (IHg (ne ++ [c]) vals nss s HGI Hnd' Hc').
        destruct (fold_left F rest (ne ++ [c], vals, nss, s)) as [[[ne' vals'] nss'] s'].
        destruct IHg as (Fr & R & X & D & added & E1 & N1 & I1 & C1).
        destruct (Hc c (or_introl eq_refl)) as (Cu & Ca & Cl).
        split; [exact Fr|]. split; [exact R|]. split; [exact X|]. split.
        -- intros k H1 H2. specialize (D k H1 H2). cbn [app]. right. exact D.
        -- exists (c :: added). split; [rewrite E1, <- app_assoc; reflexivity|]. split.
           ++ constructor; [|exact N1]. intro Hx. specialize (I1 c Hx). apply in_app_or in I1 as [I1|I1]; contradiction.
           ++ split.
              ** intros x [<-|Hx]; [left; reflexivity|]. right. exact (I1 x Hx).
              ** intros x [<-|Hx]; [|exact (C1 x Hx)].
                 split; [eapply candok_frame; [split; [exact Cu|split; [exact Ca|exact Cl]]|exact Fr]|].
                 intro Hdel. assert (Hn : aget c (gnodes s) <> None) by (rewrite A; discriminate).
                 specialize (D c Hn Hdel). apply in_app_or in D as [D|D]; contradiction.
Qed.

(* ------------------------------------------------------------------ _finish_group_success *)
Lemma finish_ok E seen g n s :
  GI E seen s -> aget g (gnodes s) = Some n ->
  (forall a, In a (anc E g) -> aget a (gnodes s) = None) ->
  let '(evs, ngs, nss, s') := finish_group_success E g n s in
  frame s s' /\ roots s' = sdel g (roots s) /\ nss = [] /\
  (exists vals, evs = (match vals with [] => [] | _ => [GroupValues g vals] end) ++ [GroupSuccess g ngs []]) /\
  aget g (gnodes s') = None /\
  NoDup ngs /\
  (forall c, In c ngs -> candok E seen s' c /\ aget c (gnodes s') <> None) /\
  (forall k, aget k (gnodes s) <> None -> aget k (gnodes s') = None -> k = g \/ In k (livech (gnodes s))).
Proof.
  intros HGI A Hanc. unfold finish_group_success.
  set (s1 := set_gnodes (adel g (gnodes s)) s).
  assert (F1 : frame s s1) by apply frame_adel.
  pose proof (aget_in _ _ _ A) as Hin.
  pose proof (collect_frame E false n [] [] s1) as CF. pose proof (collect_keeps E false n [] [] s1) as CK.
  destruct (collect_completed E false n ([], [], s1)) as [[vals0 nss0] s2]. cbn [fst snd] in CF, CK.
  destruct CF as (F2 & R2 & X2).
  assert (nss0 = []) by (apply X2; intros t tn Ht; exact (gi_tstreams _ _ _ HGI t tn Ht)). subst nss0.
  assert (F02 : frame s s2) by (eapply frame_trans; eassumption).
  assert (HGI2 : GI E seen s2) by (eapply GI_frame; eassumption).
  assert (Hndc : NoDup (gn_children n)) by (eapply children_nodup; [exact Hin|exact (gi_livech _ _ _ HGI)]).
  assert (Hcc : forall c', In c' (gn_children n) -> candok E seen s2 c').
  { intros c' Hc'. destruct (gi_child _ _ _ HGI _ _ _ Hin Hc') as [Hu Hp].
    split; [exact Hu|]. split.
    - intros a Ha. destruct (anc_step _ _ _ _ Hp Ha) as [->|Ha'].
      + apply (shrink_none _ _ _ (fr_shrink _ _ F2)). cbn [s1 gnodes set_gnodes]. apply aget_adel_same.
      + exact (shrink_none _ _ _ (fr_shrink _ _ F02) (Hanc _ Ha')).
    - intro X. apply (shrink_livech_incl _ _ (fr_shrink _ _ F2)) in X. cbn [s1 gnodes set_gnodes] in X.
      exact (livech_adel_notin _ _ _ _ (gi_keys _ _ _ HGI) (gi_livech _ _ _ HGI) Hin Hc' X). }
  pose proof (prune_ok E seen true (S (length (gnodes s2))) (gn_children n) [] vals0 [] s2 HGI2 Hndc Hcc) as P.
  destruct (prune (S (length (gnodes s2))) E true (gn_children n) ([], vals0, [], s2)) as [[[ngs vals] nss] s3].
  destruct P as (F3 & R3 & X3 & D3 & added & E1 & N1 & I1 & C1). cbn [app] in E1. subst ngs nss.
  assert (F03 : frame s s3) by (eapply frame_trans; eassumption).
  split.
  - destruct F03 as [a b c0 d e]. constructor; cbn [set_roots gnodes rstreams spos sstarted sended tnodes]; auto.
  - split; [cbn [set_roots roots]; cbn [s1 roots set_gnodes] in R2; congruence|].
    split; [reflexivity|]. split; [exists vals; reflexivity|]. split.
    + cbn [set_roots gnodes]. apply (shrink_none _ _ _ (fr_shrink _ _ F3)).
      apply (shrink_none _ _ _ (fr_shrink _ _ F2)). cbn [s1 gnodes set_gnodes]. apply aget_adel_same.
    + split; [exact N1|]. split.
      * intros c Hc. exact (C1 c Hc).
      * cbn [set_roots gnodes]. intros k H1 H2.
        destruct (N.eq_dec k g) as [->|Hne]; [left; reflexivity|right].
        assert (H1' : aget k (gnodes s2) <> None).
        { apply CK. cbn [s1 gnodes set_gnodes]. rewrite (aget_adel_other _ _ _ Hne). exact H1. }
        specialize (D3 k H1' H2). apply in_app_or in D3 as [D3|D3].
        -- eapply children_in_livech; eassumption.
        -- exact (shrink_livech_incl _ _ (fr_shrink _ _ F02) _ D3).
Qed.

(* ------------------------------------------------------------------ the node-level monitor *)
Lemma gkey_inj a b : gkey a = gkey b -> a = b.
Proof. unfold gkey. lia. Qed.
Lemma skey_inj a b : skey a = skey b -> a = b.
Proof. unfold skey. lia. Qed.
Lemma gkey_skey a b : gkey a <> skey b.
Proof. unfold gkey, skey. lia. Qed.

Lemma memN_false_iff k l : memN k l = false <-> ~ In k l.
Proof.
  unfold memN. split.
  - intros H X. apply not_true_iff_false in H. apply H. apply existsb_exists. exists k. split; [exact X|apply N.eqb_refl].
  - intro H. apply not_true_iff_false. intro X. apply existsb_exists in X as [x [Hx E]]. apply N.eqb_eq in E. subst. contradiction.
Qed.

Lemma memN_true k l : memN k l = true <-> In k l.
Proof.
  unfold memN. split.
  - intro X. apply existsb_exists in X as [x [Hx E]]. apply N.eqb_eq in E. subst. exact Hx.
  - intro X. apply existsb_exists. exists k. split; [exact X|apply N.eqb_refl].
Qed.

Lemma n_announce_ok ks : forall nst,
  NoDup ks -> (forall k, In k ks -> ~ In k (n_seen nst)) ->
  exists nst', n_announce ks nst = Some nst' /\ n_open nst' = n_open nst ++ ks /\
    (forall k, In k (n_seen nst') <-> In k ks \/ In k (n_seen nst)) /\
    n_next nst' = n_next nst /\ n_closed nst' = n_closed nst.
Proof.
  induction ks as [|k ks IH]; intros nst Hnd Hf; cbn [n_announce].
  - exists nst. rewrite app_nil_r. split; [reflexivity|]. split; [reflexivity|].
    split; [intro k; split; [intro; right; assumption|intros [[]|H]; exact H]|]. auto.
  - inversion Hnd as [|? ? Hk Hnd']; subst.
    assert (Hm : memN k (n_seen nst) = false) by (apply memN_false_iff; apply Hf; left; reflexivity).
    rewrite Hm.
    destruct (IH (mkNS (k :: n_seen nst) (n_open nst ++ [k]) (n_next nst) (n_closed nst)) Hnd') as (nst' & A & B & C & D & F).
    + intros k' Hk' [X|X]; [subst; contradiction|]. apply (Hf k'); [right; exact Hk'|exact X].
    + exists nst'. split; [exact A|]. split; [rewrite B; cbn [n_open]; rewrite <- app_assoc; reflexivity|].
      split; [|split; [exact D|exact F]].
      intro k'. rewrite C. cbn [n_seen In]. tauto.
Qed.

Lemma sdel_in k x l : In x (sdel k l) <-> In x l /\ x <> k.
Proof.
  unfold sdel. rewrite filter_In. split; intros [A B]; split; auto.
  - apply negb_true_iff, N.eqb_neq in B. exact B.
  - apply negb_true_iff, N.eqb_neq. exact B.
Qed.

Lemma sdel_nodup k l : NoDup l -> NoDup (sdel k l).
Proof.
  unfold sdel. induction 1 as [|x l Hn Hd IH]; cbn; [constructor|].
  destruct (negb (x =? k)); [|exact IH]. constructor; [|exact IH].
  intro X. apply filter_In in X as [X _]. contradiction.
Qed.

Lemma sadd_in k x l : In x (sadd k l) <-> In x l \/ x = k.
Proof.
  unfold sadd. destruct (memN k l) eqn:M.
  - apply memN_true in M. split; [intro; left; assumption|intros [H|H]; [exact H|subst; exact M]].
  - rewrite in_app_iff. cbn [In]. intuition congruence.
Qed.

Lemma sadd_nodup k l : NoDup l -> NoDup (sadd k l).
Proof.
  unfold sadd. intro H. destruct (memN k l) eqn:M; [exact H|].
  apply memN_false_iff in M. apply NoDup_app_intro; [exact H|repeat constructor; intros []|].
  intros x Hx [Hk|[]]. subst. contradiction.
Qed.

Definition agok (E : env) (s : state) (ag : list N) : Prop :=
  forall a, In a ag -> forall p, In p (anc E a) -> aget p (gnodes s) = None.

Lemma agok_shrink E s s' ag : agok E s ag -> shrink (gnodes s) (gnodes s') -> agok E s' ag.
Proof. intros H Sh a Ha p Hp. exact (shrink_none _ _ _ Sh (H a Ha p Hp)). Qed.

(* the invariant tying the graph state to the node-level monitor; P = groups promoted by the
   current handler that are not yet in the root set *)
Record PhiP (E : env) (s : state) (nst : nstate) (P : list N) : Prop := mkPhiP {
  ph_gi : GI E (n_seen nst) s;
  ph_closed : n_closed nst = false;
  ph_roots_nd : NoDup (roots s ++ P);
  ph_rs_nd : NoDup (rstreams s);
  ph_open : forall k, In k (n_open nst) <->
            (exists g, k = gkey g /\ In g (roots s ++ P)) \/ (exists x, k = skey x /\ In x (rstreams s));
  ph_seen : incl (n_open nst) (n_seen nst);
  ph_nodes : forall r, In r (roots s ++ P) -> aget r (gnodes s) <> None;
  ph_anc : forall r, In r (roots s ++ P) -> forall a, In a (anc E r) -> aget a (gnodes s) = None;
  ph_next : forall x, In x (rstreams s) -> next_of (skey x) nst = stream_pos x s
}.

Definition Phi (E : env) (s : state) (nst : nstate) : Prop := PhiP E s nst [].

Lemma NoDup_map_inj {A B} (f : A -> B) l :
  (forall a b, f a = f b -> a = b) -> NoDup l -> NoDup (map f l).
Proof.
  intros Hinj. induction 1 as [|x l Hn Hd IH]; cbn; [constructor|]. constructor; [|exact IH].
  intro X. apply in_map_iff in X as [y [E Hy]]. apply Hinj in E. subst. contradiction.
Qed.

Lemma in_livech gn r : In r (livech gn) -> exists g n, In (g, n) gn /\ In r (gn_children n).
Proof.
  unfold livech. intro H. apply in_flat_map in H as [[g n] [Hin Hc]]. exists g, n. auto.
Qed.

Lemma NoDup_sdel_app g (l P : list N) : NoDup (l ++ P) -> NoDup (sdel g l ++ P).
Proof.
  intro H. apply NoDup_app_intro.
  - apply sdel_nodup. exact (NoDup_app_l _ _ H).
  - exact (NoDup_app_r _ _ H).
  - intros x Hx Hp. apply sdel_in in Hx as [Hx _]. exact (NoDup_app_disj _ _ x H Hx Hp).
Qed.

Lemma announced_finish g vals ngs :
  announced_groups ((match vals with [] => [] | _ :: _ => [GroupValues g vals] end) ++ [GroupSuccess g ngs []]) = ngs.
Proof. destruct vals; cbn; rewrite app_nil_r; reflexivity. Qed.

Lemma finish_step E s nst P g n :
  PhiP E s nst P -> aget g (gnodes s) = Some n -> In g (roots s) ->
  let '(evs, ngs, nss, s') := finish_group_success E g n s in
  exists nst', nsteps nst evs = Some nst' /\ PhiP E s' nst' (P ++ ngs) /\ nss = [] /\
    frame s s' /\ announced_groups evs = ngs /\ agok E s' ngs.
Proof.
  intros HP A Hroot. destruct HP as [Hgi Hcl Hrnd Hsnd Hopen Hseen Hnodes Hanc Hnext].
  assert (HgR : In g (roots s ++ P)) by (apply in_or_app; left; exact Hroot).
  pose proof (finish_ok E (n_seen nst) g n s Hgi A (Hanc g HgR)) as FO.
  destruct (finish_group_success E g n s) as [[[evs ngs] nss] s'].
  destruct FO as (Fr & R & X & (vals & Ev) & Hg' & Nng & Cng & Dng). subst nss evs.
  assert (HgP : ~ In g P) by (intro Y; exact (NoDup_app_disj _ _ g Hrnd Hroot Y)).
  assert (Hgo : In (gkey g) (n_open nst)) by (apply Hopen; left; exists g; auto).
  (* the announcement *)
  assert (Hnk : NoDup (map gkey ngs)) by (apply NoDup_map_inj; [exact gkey_inj|exact Nng]).
  assert (Hfresh : forall k, In k (map gkey ngs) -> ~ In k (n_seen (n_close (gkey g) nst))).
  { intros k Hk. apply in_map_iff in Hk as [c [<- Hc]]. destruct (Cng c Hc) as ((U & _) & _). exact U. }
  destruct (n_announce_ok (map gkey ngs) (n_close (gkey g) nst) Hnk Hfresh) as (nst' & An & Op & Se & Nx & Cl).
  exists nst'. split.
  - (* the events are accepted *)
    assert (Hm : memN (gkey g) (n_open nst) = true) by (apply memN_true; exact Hgo).
    assert (HGS : nstep nst (GroupSuccess g ngs []) = Some nst').
    { unfold nstep. rewrite Hcl, Hm. unfold new_keys. cbn [map]. rewrite app_nil_r. exact An. }
    destruct vals as [|v vs]; cbn [app nsteps].
    + rewrite HGS. reflexivity.
    + assert (HGV : nstep nst (GroupValues g (v :: vs)) = Some nst) by (unfold nstep; rewrite Hcl, Hm; reflexivity).
      rewrite HGV, HGS. reflexivity.
  - split.
    + (* the invariant *)
      assert (Hunseen_ngs : forall c, In c ngs -> ~ In c (roots s ++ P)).
      { intros c Hc Hin. destruct (Cng c Hc) as ((U & _) & _). apply U. apply Hseen. apply Hopen. left. exists c. auto. }
      constructor.
      * pose proof (GI_frame _ _ _ _ Hgi Fr) as [K L C T]. constructor; auto.
        intros g0 n0 c0 Hin0 Hc0. destruct (C _ _ _ Hin0 Hc0) as [U Pp]. split; [|exact Pp].
        intro Y. apply Se in Y as [Y|Y]; [|cbn [n_close n_seen] in Y; contradiction].
        apply in_map_iff in Y as [c [Ec Hc]]. apply gkey_inj in Ec. subst c0.
        destruct (Cng c Hc) as ((_ & _ & Z) & _). apply Z. eapply children_in_livech; eassumption.
      * rewrite Cl. exact Hcl.
      * rewrite R, app_assoc. apply NoDup_app_intro; [apply NoDup_sdel_app; exact Hrnd|exact Nng|].
        intros x Hx Hn. apply (Hunseen_ngs x Hn). apply in_app_or in Hx as [Hx|Hx]; apply in_or_app;
          [left; apply sdel_in in Hx as [Hx _]; exact Hx|right; exact Hx].
      * rewrite (fr_rstreams _ _ Fr). exact Hsnd.
      * intro k. rewrite Op, in_app_iff. cbn [n_close n_open]. rewrite filter_In, (fr_rstreams _ _ Fr), R.
        split.
        -- intros [[Hk Hne]|Hk].
           ++ apply negb_true_iff, N.eqb_neq in Hne. apply Hopen in Hk as [(g0 & -> & Hg0)|Hk]; [left|right; exact Hk].
              exists g0. split; [reflexivity|]. apply in_app_or in Hg0 as [Hg0|Hg0]; apply in_or_app.
              ** left. apply sdel_in. split; [exact Hg0|]. intro Y. subst. apply Hne. reflexivity.
              ** right. apply in_or_app. left. exact Hg0.
           ++ apply in_map_iff in Hk as [c [<- Hc]]. left. exists c. split; [reflexivity|].
              apply in_or_app. right. apply in_or_app. right. exact Hc.
        -- intros [(g0 & -> & Hg0)|(x & -> & Hx)].
           ++ apply in_app_or in Hg0 as [Hg0|Hg0].
              ** apply sdel_in in Hg0 as [Hg0 Hne]. left. split.
                 --- apply Hopen. left. exists g0. split; [reflexivity|apply in_or_app; left; exact Hg0].
                 --- apply negb_true_iff, N.eqb_neq. intro Y. apply gkey_inj in Y. contradiction.
              ** apply in_app_or in Hg0 as [Hg0|Hg0].
                 --- left. split.
                     +++ apply Hopen. left. exists g0. split; [reflexivity|apply in_or_app; right; exact Hg0].
                     +++ apply negb_true_iff, N.eqb_neq. intro Y. apply gkey_inj in Y. subst. contradiction.
                 --- right. apply in_map. exact Hg0.
           ++ left. split.
              ** apply Hopen. right. exists x. auto.
              ** apply negb_true_iff, N.eqb_neq. intro Y. symmetry in Y. exact (gkey_skey _ _ Y).
      * intros k Hk. rewrite Op in Hk. apply Se. apply in_app_or in Hk as [Hk|Hk]; [right|left; exact Hk].
        cbn [n_close n_open n_seen] in *. apply filter_In in Hk as [Hk _]. apply Hseen. exact Hk.
      * intros r Hr. rewrite R in Hr. rewrite app_assoc in Hr. apply in_app_or in Hr as [Hr|Hr].
        -- assert (Hr0 : In r (roots s ++ P)).
           { apply in_app_or in Hr as [Hr|Hr]; apply in_or_app; [left; apply sdel_in in Hr as [Hr _]; exact Hr|right; exact Hr]. }
           assert (Hrg : r <> g).
           { apply in_app_or in Hr as [Hr|Hr]; [apply sdel_in in Hr as [_ Hr]; exact Hr|intro; subst; contradiction]. }
           intro Hdel. destruct (Dng r (Hnodes r Hr0) Hdel) as [->|Hl]; [contradiction|].
           apply in_livech in Hl as (g0 & n0 & Hin0 & Hc0).
           destruct (gi_child _ _ _ Hgi _ _ _ Hin0 Hc0) as [U _]. apply U. apply Hseen. apply Hopen. left. exists r. auto.
        -- destruct (Cng r Hr) as (_ & Hn). exact Hn.
      * intros r Hr a Ha. rewrite R in Hr. rewrite app_assoc in Hr. apply in_app_or in Hr as [Hr|Hr].
        -- assert (Hr0 : In r (roots s ++ P)).
           { apply in_app_or in Hr as [Hr|Hr]; apply in_or_app; [left; apply sdel_in in Hr as [Hr _]; exact Hr|right; exact Hr]. }
           exact (shrink_none _ _ _ (fr_shrink _ _ Fr) (Hanc r Hr0 a Ha)).
        -- destruct (Cng r Hr) as ((_ & B & _) & _). exact (B a Ha).
      * intros x Hx. rewrite (fr_rstreams _ _ Fr) in Hx. unfold next_of, stream_pos. rewrite Nx, (fr_spos _ _ Fr).
        cbn [n_close n_next]. exact (Hnext x Hx).
    + split; [reflexivity|]. split; [exact Fr|]. split; [apply announced_finish|].
      intros a Ha p Hp. destruct (Cng a Ha) as ((_ & B & _) & _). exact (B p Hp).
Qed.

(* ------------------------------------------------------------------ transport of the invariant *)
Lemma PhiP_transport E s s' nst P :
  PhiP E s nst P -> frame s s' -> roots s' = roots s -> keeps s s' -> PhiP E s' nst P.
Proof.
  intros [Hgi Hcl Hrnd Hsnd Hopen Hseen Hnodes Hanc Hnext] Fr R K. constructor.
  - eapply GI_frame; eassumption.
  - exact Hcl.
  - rewrite R. exact Hrnd.
  - rewrite (fr_rstreams _ _ Fr). exact Hsnd.
  - intro k. rewrite R, (fr_rstreams _ _ Fr). apply Hopen.
  - exact Hseen.
  - intros r Hr. rewrite R in Hr. apply K. exact (Hnodes r Hr).
  - intros r Hr a Ha. rewrite R in Hr. exact (shrink_none _ _ _ (fr_shrink _ _ Fr) (Hanc r Hr a Ha)).
  - intros x Hx. rewrite (fr_rstreams _ _ Fr) in Hx. unfold stream_pos. rewrite (fr_spos _ _ Fr). exact (Hnext x Hx).
Qed.

Lemma aset_in {A} k (v : A) l k' v' : In (k', v') (aset k v l) -> (k' = k /\ v' = v) \/ In (k', v') l.
Proof.
  induction l as [|[k2 v2] l IH]; cbn [aset In].
  - intros [H|[]]. inversion H; subst. left. auto.
  - destruct (k =? k2) eqn:E; cbn [In].
    + intros [H|H]; [inversion H; subst; left; auto|right; right; exact H].
    + intros [H|H]; [right; left; exact H|]. destruct (IH H) as [X|X]; [left; exact X|right; right; exact X].
Qed.

Lemma frame_same_gnodes s s' :
  gnodes s' = gnodes s -> rstreams s' = rstreams s -> spos s' = spos s ->
  sstarted s' = sstarted s -> sended s' = sended s ->
  ((forall t tn, In (t, tn) (tnodes s) -> tn_streams tn = []) ->
   (forall t tn, In (t, tn) (tnodes s') -> tn_streams tn = [])) ->
  frame s s' /\ keeps s s'.
Proof.
  intros G R S A B T. split.
  - constructor; auto. rewrite G. apply shrink_refl.
  - intros k Hk. rewrite G. exact Hk.
Qed.

Lemma start_task_frame t s :
  frame s (start_task t s) /\ keeps s (start_task t s) /\ roots (start_task t s) = roots s.
Proof.
  unfold start_task. destruct (ahas t (tnodes s)).
  - split; [apply frame_refl|]. split; [intros k Hk; exact Hk|reflexivity].
  - destruct (frame_same_gnodes s (set_started (sadd t (started s)) (set_tnodes (aset t (mkT false [] false) (tnodes s)) s)))
      as [F K]; cbn; auto.
    intros H t' tn Hin. apply aset_in in Hin as [[_ ->]|Hin]; [reflexivity|exact (H _ _ Hin)].
Qed.

Lemma start_group_frame g s :
  frame s (start_group g s) /\ keeps s (start_group g s) /\ roots (start_group g s) = roots s.
Proof.
  unfold start_group. destruct (aget g (gnodes s)) as [n|].
  - generalize (gn_tasks n) as l. intro l. revert s. induction l as [|t l IH]; intro s; cbn [fold_left].
    + split; [apply frame_refl|]. split; [intros k Hk; exact Hk|reflexivity].
    + destruct (start_task_frame t s) as (F & K & R). destruct (IH (start_task t s)) as (F2 & K2 & R2).
      split; [eapply frame_trans; eassumption|]. split; [intros k Hk; apply K2, K, Hk|congruence].
  - split; [apply frame_refl|]. split; [intros k Hk; exact Hk|reflexivity].
Qed.

Lemma start_promoted E nst : forall P s,
  PhiP E s nst P -> PhiP E (start_new_work P [] s) nst [].
Proof.
  unfold start_new_work. cbn [fold_left].
  induction P as [|g P IH]; intros s H; cbn [fold_left]; [exact H|].
  apply IH.
  set (s1 := set_roots (sadd g (roots s)) s).
  assert (Hg : ~ In g (roots s)).
  { intro X. destruct H as [_ _ Hnd _ _ _ _ _ _]. apply (NoDup_app_disj _ _ g Hnd X). left. reflexivity. }
  assert (Hsadd : sadd g (roots s) = roots s ++ [g]).
  { unfold sadd. apply memN_false_iff in Hg. rewrite Hg. reflexivity. }
  assert (H1 : PhiP E s1 nst P).
  { destruct H as [Hgi Hcl Hrnd Hsnd Hopen Hseen Hnodes Hanc Hnext].
    constructor; cbn [s1 set_roots roots rstreams gnodes tnodes spos]; rewrite ?Hsadd, <- ?app_assoc; cbn [app]; auto.
    destruct Hgi as [K L C T]. constructor; auto. }
  destruct (start_group_frame g s1) as (F & K & R).
  eapply PhiP_transport; eassumption.
Qed.

Lemma nsteps_app a : forall b nst,
  nsteps nst (a ++ b) = match nsteps nst a with Some st => nsteps st b | None => None end.
Proof.
  induction a as [|e a IH]; intros b nst; cbn [app nsteps]; [reflexivity|].
  destruct (nstep nst e); [apply IH|reflexivity].
Qed.

Lemma announced_groups_app a b : announced_groups (a ++ b) = announced_groups a ++ announced_groups b.
Proof. unfold announced_groups. apply flat_map_app. Qed.

(* the second loop of _task_success *)
Lemma finish_fold E l : forall evs ngs nss s nst,
  PhiP E s nst ngs -> nss = [] ->
  let '(evs', ngs', nss', s') :=
    fold_left (fun (st : list wqevent * list N * list N * state) g =>
      let '(evs, ngs, nss, s) := st in
      match aget g (gnodes s) with
      | Some n =>
          if memN g (roots s) && Nat.eqb (gn_pending n) 0 then
            let '(e, cg, cs, s'') := finish_group_success E g n s in
            (evs ++ e, ngs ++ cg, nss ++ cs, s'')
          else st
      | None => st
      end) l (evs, ngs, nss, s) in
  exists nst' added extra,
    evs' = evs ++ added /\ nsteps nst added = Some nst' /\ PhiP E s' nst' ngs' /\ nss' = [] /\
    frame s s' /\ ngs' = ngs ++ extra /\ announced_groups added = extra /\ agok E s' extra.
Proof.
  induction l as [|g l IH]; intros evs ngs nss s nst HP Hn; cbn [fold_left].
  - exists nst, [], []. rewrite !app_nil_r. split; [reflexivity|]. split; [reflexivity|]. split; [exact HP|].
    split; [exact Hn|]. split; [apply frame_refl|]. split; [reflexivity|]. split; [reflexivity|]. intros a [].
  - destruct (aget g (gnodes s)) as [n|] eqn:A; [|apply IH; assumption].
    destruct (memN g (roots s) && Nat.eqb (gn_pending n) 0) eqn:C; [|apply IH; assumption].
    apply andb_true_iff in C as [C _]. apply memN_true in C.
    pose proof (finish_step E s nst ngs g n HP A C) as FS.
    destruct (finish_group_success E g n s) as [[[e cg] cs] s''].
    destruct FS as (nst1 & Hs1 & HP1 & Hcs & Fr1 & Hag1 & Hok1). subst cs nss. cbn [app].
    specialize (IH (evs ++ e) (ngs ++ cg) [] s'' nst1 HP1 eq_refl).
    destruct (fold_left _ l (evs ++ e, ngs ++ cg, [], s'')) as [[[evs' ngs'] nss'] s'].
    destruct IH as (nst' & added & extra & E1 & S1 & P1 & N1 & F1 & G1 & A1 & O1).
    exists nst', (e ++ added), (cg ++ extra).
    split; [rewrite E1, app_assoc; reflexivity|].
    split; [rewrite nsteps_app, Hs1; exact S1|].
    split; [exact P1|]. split; [exact N1|]. split; [eapply frame_trans; eassumption|].
    split; [rewrite G1, app_assoc; reflexivity|].
    split; [rewrite announced_groups_app, Hag1, A1; reflexivity|].
    intros a Ha. apply in_app_or in Ha as [Ha|Ha]; [|exact (O1 a Ha)].
    intros p Hp. exact (shrink_none _ _ _ (fr_shrink _ _ F1) (Hok1 a Ha p Hp)).
Qed.

(* ------------------------------------------------------------------ _task_success *)
Definition flat_tasks (E : env) : Prop := forall t, twork E t = no_work.

Lemma frame_keeps_trans a b c :
  (frame a b /\ keeps a b /\ roots b = roots a) -> (frame b c /\ keeps b c /\ roots c = roots b) ->
  frame a c /\ keeps a c /\ roots c = roots a.
Proof.
  intros (F1 & K1 & R1) (F2 & K2 & R2). split; [eapply frame_trans; eassumption|].
  split; [intros k Hk; apply K2, K1, Hk|congruence].
Qed.

Lemma pass1_frame l : forall s,
  let s' := fold_left (fun s g =>
      match aget g (gnodes s) with
      | Some n => set_gnodes (aset g (mkG (gn_children n) (gn_tasks n) (pred (gn_pending n))) (gnodes s)) s
      | None => s
      end) l s in
  frame s s' /\ keeps s s' /\ roots s' = roots s.
Proof.
  induction l as [|g l IH]; intro s; cbn [fold_left].
  - split; [apply frame_refl|]. split; [intros k Hk; exact Hk|reflexivity].
  - destruct (aget g (gnodes s)) as [n|] eqn:A; [|apply IH].
    eapply frame_keeps_trans; [|apply IH].
    split; [|split; [|reflexivity]].
    + constructor; cbn [set_gnodes gnodes rstreams spos sstarted sended tnodes]; auto.
      eapply shrink_aset; [exact A|reflexivity].
    + intros k Hk. cbn [set_gnodes gnodes]. apply aset_keeps. exact Hk.
Qed.

Lemma task_success_ok E s nst t :
  flat_tasks E -> Phi E s nst ->
  let '(evs, s') := task_success E t s in
  exists nst', nsteps nst evs = Some nst' /\ Phi E s' nst' /\
    shrink (gnodes s) (gnodes s') /\ agok E s' (announced_groups evs).
Proof.
  intros Hflat HP. unfold task_success. rewrite (Hflat t).
  set (s0 := set_settled (sadd t (settled s)) s).
  set (s1 := match aget t (tnodes s0) with
             | Some tn => set_tnodes (aset t (mkT true (tn_streams tn) (tn_owed tn)) (tnodes s0)) s0
             | None => s0 end).
  assert (H01 : frame s s1 /\ keeps s s1 /\ roots s1 = roots s).
  { subst s1. destruct (aget t (tnodes s0)) as [tn|] eqn:A.
    - destruct (frame_same_gnodes s (set_tnodes (aset t (mkT true (tn_streams tn) (tn_owed tn)) (tnodes s0)) s0)) as [F K]; cbn; auto.
      intros H t' tn' Hin. apply aset_in in Hin as [[_ ->]|Hin]; [|exact (H _ _ Hin)].
      cbn [tn_streams]. apply (H t tn). apply aget_in. exact A.
    - destruct (frame_same_gnodes s s0) as [F K]; cbn; auto. }
  unfold integrate. cbn [no_work w_groups w_tasks w_streams fold_left].
  set (s2 := set_gnodes (gnodes s1) s1).
  assert (H12 : frame s1 s2 /\ keeps s1 s2 /\ roots s2 = roots s1).
  { destruct (frame_same_gnodes s1 s2) as [F K]; cbn; auto. }
  pose proof (pass1_frame (tgroups E t) s2) as H23. cbn zeta in H23.
  match goal with |- context [fold_left ?f (tgroups E t) s2] => set (s2' := fold_left f (tgroups E t) s2) in * end.
  pose proof (frame_keeps_trans _ _ _ (frame_keeps_trans _ _ _ H01 H12) H23) as (F03 & K03 & R03).
  pose proof (PhiP_transport E s s2' nst [] HP F03 R03 K03) as HP3.
  pose proof (finish_fold E (tgroups E t) [] [] [] s2' nst HP3 eq_refl) as FF.
  match goal with |- context [fold_left ?f (tgroups E t) (?a, ?b, ?c, s2')] =>
    destruct (fold_left f (tgroups E t) (a, b, c, s2')) as [[[evs ngs] nss] s3] end.
  destruct FF as (nst' & added & extra & E1 & S1 & P1 & N1 & F1 & G1 & A1 & O1).
  cbn [app] in E1, G1. subst evs ngs nss.
  exists nst'. split; [exact S1|].
  pose proof (start_promoted E nst' extra s3 P1) as HP4.
  split; [exact HP4|]. split.
  - (* the graph only shrinks *)
    eapply shrink_trans; [exact (fr_shrink _ _ F03)|]. eapply shrink_trans; [exact (fr_shrink _ _ F1)|].
    unfold start_new_work. cbn [fold_left].
    clear. generalize s3. induction extra as [|g l IH]; intro s; cbn [fold_left]; [apply shrink_refl|].
    eapply shrink_trans; [|apply IH].
    destruct (start_group_frame g (set_roots (sadd g (roots s)) s)) as (F & _ & _).
    exact (fr_shrink _ _ F).
  - rewrite A1. eapply agok_shrink; [exact O1|].
    unfold start_new_work. cbn [fold_left].
    clear. generalize s3. induction extra as [|g l IH]; intro s; cbn [fold_left]; [apply shrink_refl|].
    eapply shrink_trans; [|apply IH].
    destruct (start_group_frame g (set_roots (sadd g (roots s)) s)) as (F & _ & _).
    exact (fr_shrink _ _ F).
Qed.

(* ------------------------------------------------------------------ _remove_group / _task_failure *)
Lemma remove_group_ok E : forall fuel g n s,
  aget g (gnodes s) = Some n ->
  let s' := remove_group fuel E g n s in
  frame s s' /\ roots s' = roots s /\
  (forall k, aget k (gnodes s) <> None -> aget k (gnodes s') = None -> k = g \/ In k (livech (gnodes s))).
Proof.
  induction fuel as [|f IH]; intros g n s A; cbn [remove_group].
  - split; [apply frame_set_oof|]. split; [reflexivity|]. intros k H1 H2. cbn in H2. contradiction.
  - set (s1 := set_gnodes (adel g (gnodes s)) s).
    assert (F1 : frame s s1) by apply frame_adel.
    (* the tasks *)
    match goal with |- context [fold_left ?f (gn_tasks n) s1] => set (ft := f); set (s2 := fold_left ft (gn_tasks n) s1) end.
    assert (H12 : frame s1 s2 /\ keeps s1 s2 /\ roots s2 = roots s1).
    { subst s2. generalize (gn_tasks n) as l. intro l. generalize s1 as s0. induction l as [|t l IHl]; intro s0; cbn [fold_left].
      - split; [apply frame_refl|]. split; [intros k Hk; exact Hk|reflexivity].
      - eapply frame_keeps_trans; [|apply IHl]. subst ft. cbn beta.
        destruct (forallb _ (tgroups E t)).
        + destruct (remove_task_frame E t s0) as [F R]. split; [exact F|]. split; [apply remove_task_keeps|exact R].
        + split; [apply frame_refl|]. split; [intros k Hk; exact Hk|reflexivity]. }
    destruct H12 as (F12 & K12 & R12).
    (* the children *)
    pose proof (aget_in _ _ _ A) as Hin.
    assert (Hch : forall l s0, incl l (gn_children n) ->
      let s' := fold_left (fun s c => match aget c (gnodes s) with
                                      | Some cn => remove_group f E c cn s | None => s end) l s0 in
      frame s0 s' /\ roots s' = roots s0 /\
      (forall k, aget k (gnodes s0) <> None -> aget k (gnodes s') = None -> In k l \/ In k (livech (gnodes s0)))).
    { induction l as [|c l IHl]; intros s0 Hl; cbn [fold_left].
      - split; [apply frame_refl|]. split; [reflexivity|]. intros k H1 H2. contradiction.
      - assert (Hl' : incl l (gn_children n)) by (intros x Hx; apply Hl; right; exact Hx).
        destruct (aget c (gnodes s0)) as [cn|] eqn:Ac.
        + destruct (IH c cn s0 Ac) as (Fa & Ra & Da).
          destruct (IHl (remove_group f E c cn s0) Hl') as (Fb & Rb & Db).
          split; [eapply frame_trans; eassumption|]. split; [congruence|].
          intros k H1 H2.
          destruct (aget k (gnodes (remove_group f E c cn s0))) as [x|] eqn:Ak.
          * assert (Hk : aget k (gnodes (remove_group f E c cn s0)) <> None) by (rewrite Ak; discriminate).
            destruct (Db k Hk H2) as [X|X]; [left; right; exact X|].
            right. exact (shrink_livech_incl _ _ (fr_shrink _ _ Fa) _ X).
          * destruct (Da k H1 Ak) as [->|X]; [left; left; reflexivity|right; exact X].
        + destruct (IHl s0 Hl') as (Fb & Rb & Db).
          split; [exact Fb|]. split; [exact Rb|]. intros k H1 H2.
          destruct (Db k H1 H2) as [X|X]; [left; right; exact X|right; exact X]. }
    destruct (Hch (gn_children n) s2 (fun x Hx => Hx)) as (F23 & R23 & D23).
    split; [eapply frame_trans; [exact F1|eapply frame_trans; eassumption]|].
    split; [cbn [s1 roots set_gnodes] in R12; congruence|].
    intros k H1 H2.
    destruct (N.eq_dec k g) as [->|Hne]; [left; reflexivity|right].
    assert (H1' : aget k (gnodes s2) <> None).
    { apply K12. cbn [s1 gnodes set_gnodes]. rewrite (aget_adel_other _ _ _ Hne). exact H1. }
    destruct (D23 k H1' H2) as [X|X].
    + eapply children_in_livech; eassumption.
    + apply (shrink_livech_incl _ _ (fr_shrink _ _ (frame_trans _ _ _ F1 F12))). exact X.
Qed.

Lemma n_close_open k nst x : In x (n_open (n_close k nst)) <-> In x (n_open nst) /\ x <> k.
Proof.
  cbn [n_close n_open]. rewrite filter_In. split; intros [A B]; split; auto.
  - apply negb_true_iff, N.eqb_neq in B. exact B.
  - apply negb_true_iff, N.eqb_neq. exact B.
Qed.

(* failure of one group (root or not) *)
Lemma fail_step E s nst g n :
  Phi E s nst -> aget g (gnodes s) = Some n ->
  let s' := remove_group_top E g n s in
  let s'' := set_roots (sdel g (roots s')) s' in
  Phi E s'' (n_close (gkey g) nst) /\ shrink (gnodes s) (gnodes s'').
Proof.
  intros HP A. destruct HP as [Hgi Hcl Hrnd Hsnd Hopen Hseen Hnodes Hanc Hnext].
  rewrite app_nil_r in *.
  unfold remove_group_top. destruct (remove_group_ok E (S (length (gnodes s))) g n s A) as (Fr & R & D).
  set (s' := remove_group (S (length (gnodes s))) E g n s) in *. cbn zeta.
  split; [|cbn [set_roots gnodes]; exact (fr_shrink _ _ Fr)].
  constructor; cbn [set_roots roots rstreams gnodes tnodes spos n_close n_seen n_closed n_next]; rewrite ?app_nil_r.
  - pose proof (GI_frame _ _ _ _ Hgi Fr) as [K L C T]. constructor; auto.
  - exact Hcl.
  - rewrite R. apply sdel_nodup. exact Hrnd.
  - rewrite (fr_rstreams _ _ Fr). exact Hsnd.
  - intro k. rewrite n_close_open, R, (fr_rstreams _ _ Fr). rewrite Hopen. split.
    + intros [[(g0 & -> & Hg0)|Hx] Hne]; [left|right; exact Hx].
      exists g0. split; [reflexivity|]. apply sdel_in. split; [exact Hg0|]. intro Y. subst. apply Hne. reflexivity.
    + intros [(g0 & -> & Hg0)|(x & -> & Hx)].
      * apply sdel_in in Hg0 as [Hg0 Hne]. split; [left; exists g0; auto|]. intro Y. apply gkey_inj in Y. contradiction.
      * split; [right; exists x; auto|]. intro Y. symmetry in Y. exact (gkey_skey _ _ Y).
  - intros k Hk. apply n_close_open in Hk as [Hk _]. exact (Hseen k Hk).
  - intros r Hr. rewrite R in Hr. apply sdel_in in Hr as [Hr Hne]. intro Hdel.
    destruct (D r (Hnodes r Hr) Hdel) as [->|Hl]; [contradiction|].
    apply in_livech in Hl as (g0 & n0 & Hin0 & Hc0).
    destruct (gi_child _ _ _ Hgi _ _ _ Hin0 Hc0) as [U _]. apply U. apply Hseen. apply Hopen. left. exists r. auto.
  - intros r Hr a Ha. rewrite R in Hr. apply sdel_in in Hr as [Hr _].
    exact (shrink_none _ _ _ (fr_shrink _ _ Fr) (Hanc r Hr a Ha)).
  - intros x Hx. rewrite (fr_rstreams _ _ Fr) in Hx. unfold next_of, stream_pos. cbn [set_roots spos].
    rewrite (fr_spos _ _ Fr). exact (Hnext x Hx).
Qed.

Lemma rescue_frame E g n s :
  let r := rescue E g n s in
  frame s (snd r) /\ keeps s (snd r) /\ roots (snd r) = roots s.
Proof.
  unfold rescue.
  set (f := fun (st : list N * state) t => _).
  assert (H : forall l v s0, frame s0 (snd (fold_left f l (v, s0))) /\ keeps s0 (snd (fold_left f l (v, s0)))
                             /\ roots (snd (fold_left f l (v, s0))) = roots s0).
  { induction l as [|t l IH]; intros v s0; cbn [fold_left].
    - split; [apply frame_refl|]. split; [intros k Hk; exact Hk|reflexivity].
    - subst f. cbn beta iota. destruct (aget t (tnodes s0)) as [tn|]; [|apply IH].
      destruct (tn_owed tn && tn_done tn && _); [|apply IH].
      eapply frame_keeps_trans; [|apply IH].
      destruct (remove_task_frame E t s0) as [F R]. split; [exact F|]. split; [apply remove_task_keeps|exact R]. }
  apply H.
Qed.

(* failure of one group with the rescue of the values owed to pruned groups *)
Lemma fail_step_rescue E s nst g n :
  Phi E s nst -> aget g (gnodes s) = Some n ->
  let '(vals, sr) := if memN g (roots s) then rescue E g n s else ([], s) in
  let n' := match aget g (gnodes sr) with Some m => m | None => n end in
  let s' := remove_group_top E g n' sr in
  let s'' := set_roots (sdel g (roots s')) s' in
  let evs := (match vals with [] => [] | _ :: _ => [GroupValues g vals] end) ++ [GroupFailure g] in
  nsteps nst evs = Some (n_close (gkey g) nst) /\ Phi E s'' (n_close (gkey g) nst) /\
  shrink (gnodes s) (gnodes s'') /\ announced_groups evs = [].
Proof.
  intros HP A.
  assert (Hsr : exists vals sr, (if memN g (roots s) then rescue E g n s else ([], s)) = (vals, sr) /\
            frame s sr /\ keeps s sr /\ roots sr = roots s /\ (vals <> [] -> memN g (roots s) = true)).
  { destruct (memN g (roots s)) eqn:M.
    - pose proof (rescue_frame E g n s) as RF. destruct (rescue E g n s) as [vals sr]. cbn [snd] in RF.
      destruct RF as (F & K & R). exists vals, sr. auto.
    - exists [], s. split; [reflexivity|]. split; [apply frame_refl|]. split; [intros k Hk; exact Hk|].
      split; [reflexivity|]. intro X. contradiction. }
  destruct Hsr as (vals & sr & -> & F & K & R & Hv).
  pose proof (PhiP_transport E s sr nst [] HP F R K) as HPr.
  assert (Hn : aget g (gnodes sr) <> None) by (apply K; rewrite A; discriminate).
  destruct (aget g (gnodes sr)) as [m|] eqn:Am; [|contradiction].
  destruct (fail_step E sr nst g m HPr Am) as (HP3 & Sh3). cbn zeta in HP3, Sh3 |- *.
  split.
  - assert (HGF : nstep nst (GroupFailure g) = Some (n_close (gkey g) nst)).
    { unfold nstep. rewrite (ph_closed _ _ _ _ HP). reflexivity. }
    destruct vals as [|v vs]; cbn [app nsteps].
    + rewrite HGF. reflexivity.
    + assert (HGV : nstep nst (GroupValues g (v :: vs)) = Some nst).
      { unfold nstep. rewrite (ph_closed _ _ _ _ HP).
        assert (Hm : memN (gkey g) (n_open nst) = true).
        { apply memN_true. apply (ph_open _ _ _ _ HP). left. exists g. split; [reflexivity|].
          rewrite app_nil_r. apply memN_true. apply Hv. discriminate. }
        rewrite Hm. reflexivity. }
      rewrite HGV, HGF. reflexivity.
  - split; [exact HP3|]. split; [eapply shrink_trans; [exact (fr_shrink _ _ F)|exact Sh3]|].
    destruct vals; reflexivity.
Qed.

Lemma task_failure_ok E s nst t :
  Phi E s nst ->
  let '(evs, s') := task_failure E t s in
  exists nst', nsteps nst evs = Some nst' /\ Phi E s' nst' /\
    shrink (gnodes s) (gnodes s') /\ announced_groups evs = [].
Proof.
  intro HP. unfold task_failure.
  set (s0 := set_settled (sadd t (settled s)) s).
  set (s1 := set_tnodes (adel t (tnodes s0)) s0).
  assert (H01 : frame s s1 /\ keeps s s1).
  { apply frame_same_gnodes; cbn; auto. intros H t' tn Hin. apply adel_in in Hin. exact (H _ _ Hin). }
  destruct H01 as (F01 & K01).
  pose proof (PhiP_transport E s s1 nst [] HP F01 eq_refl K01) as HP1.
  match goal with |- context [fold_left ?f (tgroups E t) _] => set (FF := f) end.
  assert (H : forall l evs s2 nst2, Phi E s2 nst2 ->
    let '(evs', s') := fold_left FF l (evs, s2) in
    exists nst' added, evs' = evs ++ added /\ nsteps nst2 added = Some nst' /\ Phi E s' nst' /\
      shrink (gnodes s2) (gnodes s') /\ announced_groups added = []).
  { induction l as [|g l IH]; intros evs s2 nst2 HP2; cbn [fold_left].
    - exists nst2, []. rewrite app_nil_r. split; [reflexivity|]. split; [reflexivity|]. split; [exact HP2|].
      split; [apply shrink_refl|reflexivity].
    - unfold FF at 2. cbn beta iota.
      destruct (aget g (gnodes s2)) as [n|] eqn:A; [|apply IH; exact HP2].
      pose proof (fail_step_rescue E s2 nst2 g n HP2 A) as FS.
      destruct (if memN g (roots s2) then rescue E g n s2 else ([], s2)) as [vals sr].
      cbn zeta in FS. destruct FS as (S3 & HP3 & Sh3 & A3).
      specialize (IH (evs ++ (match vals with [] => [] | _ :: _ => [GroupValues g vals] end) ++ [GroupFailure g]) _ _ HP3).
      match goal with |- context [fold_left FF l ?i] => destruct (fold_left FF l i) as [evs' s'] end.
      destruct IH as (nst' & added & E1 & S1 & P1 & Sh1 & A1).
      exists nst', (((match vals with [] => [] | _ :: _ => [GroupValues g vals] end) ++ [GroupFailure g]) ++ added).
      split; [rewrite E1, <- !app_assoc; reflexivity|].
      split; [rewrite nsteps_app, S3; exact S1|].
      split; [exact P1|]. split; [eapply shrink_trans; eassumption|].
      rewrite announced_groups_app, A3, A1. reflexivity. }
  specialize (H (tgroups E t) [] s1 nst HP1).
  destruct (fold_left FF (tgroups E t) ([], s1)) as [evs s'].
  destruct H as (nst' & added & E1 & S1 & P1 & Sh1 & A1). cbn [app] in E1. subst evs.
  exists nst'. split; [exact S1|]. split; [exact P1|]. split; [|exact A1].
  eapply shrink_trans; [exact (fr_shrink _ _ F01)|exact Sh1].
Qed.

(* ------------------------------------------------------------------ stream events *)
Definition flat_items (E : env) : Prop := forall x w, In w (sitems E x) -> w = no_work.

Lemma set_gnodes_id s : set_gnodes (gnodes s) s = s.
Proof. destruct s; reflexivity. Qed.

Lemma stream_items_flat E x n b s :
  flat_items E ->
  let pos := stream_pos x s in
  let cnt := length (firstn n (skipn pos (sitems E x))) in
  stream_items E x n b s =
    (if b then [StreamValues x pos cnt [] []; StreamSuccess x] else [StreamValues x pos cnt [] []],
     let s1 := set_spos (aset x (pos + cnt)%nat (spos s)) s in
     if b then set_rstreams (sdel x (rstreams s1)) s1 else s1).
Proof.
  intro Hf. cbn zeta. unfold stream_items.
  set (items := firstn n (skipn (stream_pos x s) (sitems E x))).
  assert (Hitems : forall w, In w items -> w = no_work).
  { intros w Hw. apply (Hf x). unfold items in Hw.
    assert (H1 : In w (skipn (stream_pos x s) (sitems E x))).
    { rewrite <- (firstn_skipn n (skipn (stream_pos x s) (sitems E x))). apply in_or_app. left. exact Hw. }
    rewrite <- (firstn_skipn (stream_pos x s) (sitems E x)). apply in_or_app. right. exact H1. }
  set (s0 := set_spos (aset x (stream_pos x s + length items)%nat (spos s)) s).
  assert (Hfold : forall l s1, (forall w, In w l -> w = no_work) ->
    fold_left (fun (st : list N * list N * state) w =>
      let '(ngs, nss, s) := st in
      let '(ig, is_, s1) := integrate E w None s in
      let '(ne, s2) := prune_groups E ig s1 in
      (ngs ++ ne, nss ++ is_, start_new_work ne is_ s2)) l ([], [], s1) = ([], [], s1)).
  { induction l as [|w l IH]; intros s1 Hl; cbn [fold_left]; [reflexivity|].
    rewrite (Hl w (or_introl eq_refl)).
    unfold integrate. cbn [no_work w_groups w_tasks w_streams fold_left].
    unfold prune_groups. cbn [prune fold_left]. unfold start_new_work. cbn [fold_left app].
    rewrite !set_gnodes_id. apply IH. intros w' Hw'. apply Hl. right. exact Hw'. }
  rewrite (Hfold items s0 Hitems). destruct b; reflexivity.
Qed.

Lemma phi_stream_values E s nst x cnt :
  Phi E s nst -> In x (rstreams s) ->
  let pos := stream_pos x s in
  nstep nst (StreamValues x pos cnt [] []) =
    Some (mkNS (n_seen nst) (n_open nst) (aset (skey x) (pos + cnt)%nat (n_next nst)) (n_closed nst)) /\
  Phi E (set_spos (aset x (pos + cnt)%nat (spos s)) s)
        (mkNS (n_seen nst) (n_open nst) (aset (skey x) (pos + cnt)%nat (n_next nst)) (n_closed nst)).
Proof.
  intros HP Hx. destruct HP as [Hgi Hcl Hrnd Hsnd Hopen Hseen Hnodes Hanc Hnext]. cbn zeta. split.
  - unfold nstep. rewrite Hcl.
    assert (Hm : memN (skey x) (n_open nst) = true) by (apply memN_true; apply Hopen; right; exists x; auto).
    rewrite Hm, (Hnext x Hx), Nat.eqb_refl. cbn [andb new_keys map app n_announce]. reflexivity.
  - constructor; cbn [set_spos roots rstreams gnodes tnodes spos n_seen n_open n_next n_closed]; auto.
    + destruct Hgi as [K0 L0 C0 T0]. constructor; auto.
    + intros y Hy. unfold next_of, stream_pos. cbn [n_next spos set_spos].
      destruct (N.eq_dec y x) as [->|Hne].
      * rewrite !aget_aset_same. reflexivity.
      * rewrite (aget_aset_other _ _ _ _ Hne).
        assert (Hk : skey y <> skey x) by (intro Y; apply skey_inj in Y; contradiction).
        rewrite (aget_aset_other _ _ _ _ Hk). exact (Hnext y Hy).
Qed.

Lemma phi_stream_close E s nst x :
  Phi E s nst -> In x (rstreams s) ->
  Phi E (set_rstreams (sdel x (rstreams s)) s) (n_close (skey x) nst).
Proof.
  intros HP Hx. destruct HP as [Hgi Hcl Hrnd Hsnd Hopen Hseen Hnodes Hanc Hnext].
  constructor; cbn [set_rstreams roots rstreams gnodes tnodes spos n_close n_seen n_next n_closed]; auto.
  - destruct Hgi as [K0 L0 C0 T0]. constructor; auto.
  - apply sdel_nodup. exact Hsnd.
  - intro k. rewrite n_close_open, Hopen. split.
    + intros [[Hg|(y & -> & Hy)] Hne]; [left; exact Hg|right].
      exists y. split; [reflexivity|]. apply sdel_in. split; [exact Hy|]. intro Y. subst. apply Hne. reflexivity.
    + intros [(g0 & -> & Hg0)|(y & -> & Hy)].
      * split; [left; exists g0; auto|]. exact (gkey_skey _ _).
      * apply sdel_in in Hy as [Hy Hne]. split; [right; exists y; auto|]. intro Y. apply skey_inj in Y. contradiction.
  - intros k Hk. apply n_close_open in Hk as [Hk _]. exact (Hseen k Hk).
  - intros y Hy. apply sdel_in in Hy as [Hy _]. unfold next_of. cbn [n_close n_next]. exact (Hnext y Hy).
Qed.

(* ------------------------------------------------------------------ every graph event *)
Lemma phi_sended E s nst l : Phi E s nst -> Phi E (set_sended l s) nst.
Proof.
  intros [Hgi Hcl Hrnd Hsnd Hopen Hseen Hnodes Hanc Hnext].
  constructor; cbn [set_sended roots rstreams gnodes tnodes spos]; auto.
  destruct Hgi as [K0 L0 C0 T0]. constructor; auto.
Qed.

Lemma nstep_close_stream E s nst x (fail : bool) :
  Phi E s nst -> In x (rstreams s) ->
  nstep nst (if fail then StreamFailure x else StreamSuccess x) = Some (n_close (skey x) nst).
Proof.
  intros HP Hx. unfold nstep. rewrite (ph_closed _ _ _ _ HP).
  assert (Hm : memN (skey x) (n_open nst) = true).
  { apply memN_true. apply (ph_open _ _ _ _ HP). right. exists x. auto. }
  destruct fail; rewrite Hm; reflexivity.
Qed.

Lemma agok_nil E s : agok E s [].
Proof. intros a []. Qed.

Lemma step_ok E s nst e :
  flat_tasks E -> flat_items E -> Phi E s nst -> enabled1 E s e = true ->
  let '(s', evs) := step E s e in
  exists nst', nsteps nst evs = Some nst' /\ Phi E s' nst' /\
    shrink (gnodes s) (gnodes s') /\ agok E s' (announced_groups evs).
Proof.
  intros Hft Hfi HP Hen. destruct e as [t|t|x n b|x|x]; cbn [step].
  - pose proof (task_success_ok E s nst t Hft HP) as H. destruct (task_success E t s) as [evs s']. exact H.
  - pose proof (task_failure_ok E s nst t HP) as H. destruct (task_failure E t s) as [evs s'].
    destruct H as (nst' & A & B & C & D). exists nst'. rewrite D.
    split; [exact A|]. split; [exact B|]. split; [exact C|apply agok_nil].
  - rewrite (stream_items_flat E x n b s Hfi). cbn zeta.
    cbn [enabled1] in Hen. repeat (apply andb_true_iff in Hen as [Hen ?]).
    assert (Hx : In x (rstreams s)) by (apply memN_true; assumption).
    set (pos := stream_pos x s). set (cnt := length (firstn n (skipn pos (sitems E x)))).
    destruct (phi_stream_values E s nst x cnt HP Hx) as (Hs1 & HP1). fold pos in Hs1, HP1.
    destruct b.
    + assert (Hx1 : In x (rstreams (set_spos (aset x (pos + cnt)%nat (spos s)) s))) by exact Hx.
      pose proof (phi_stream_close E _ _ x HP1 Hx1) as HP2.
      pose proof (nstep_close_stream E _ _ x false HP1 Hx1) as Hs2. cbn [andb] in Hs2.
      eexists. split; [cbn [nsteps]; rewrite Hs1, Hs2; reflexivity|].
      split; [exact HP2|]. split; [cbn; apply shrink_refl|apply agok_nil].
    + eexists. split; [cbn [nsteps]; rewrite Hs1; reflexivity|].
      split; [exact HP1|]. split; [cbn; apply shrink_refl|apply agok_nil].
  - set (s1 := set_sended (sadd x (sended s)) s).
    pose proof (phi_sended E s nst (sadd x (sended s)) HP) as HP1. fold s1 in HP1.
    destruct (memN x (rstreams s1)) eqn:M.
    + apply memN_true in M.
      pose proof (phi_stream_close E s1 nst x HP1 M) as HP2.
      pose proof (nstep_close_stream E s1 nst x false HP1 M) as Hs2. cbn [andb] in Hs2.
      eexists. split; [cbn [nsteps]; rewrite Hs2; reflexivity|].
      split; [exact HP2|]. split; [cbn; apply shrink_refl|apply agok_nil].
    + exists nst. split; [reflexivity|]. split; [exact HP1|]. split; [cbn; apply shrink_refl|apply agok_nil].
  - set (s1 := set_sended (sadd x (sended s)) s).
    pose proof (phi_sended E s nst (sadd x (sended s)) HP) as HP1. fold s1 in HP1.
    cbn [enabled1] in Hen. repeat (apply andb_true_iff in Hen as [Hen ?]).
    assert (M : In x (rstreams s1)) by (apply memN_true; assumption).
    pose proof (phi_stream_close E s1 nst x HP1 M) as HP2.
    pose proof (nstep_close_stream E s1 nst x true HP1 M) as Hs2. cbn [andb] in Hs2.
    eexists. split; [cbn [nsteps]; rewrite Hs2; reflexivity|].
    split; [exact HP2|]. split; [cbn; apply shrink_refl|apply agok_nil].
Qed.

(* ------------------------------------------------------------------ batches *)
Lemma steps_ok E : forall evs s nst out0 ag,
  flat_tasks E -> flat_items E -> Phi E s nst -> agok E s ag -> enabled_seq E s evs = true ->
  let '(s1, out) := fold_left (fun (st : state * list wqevent) e =>
      let '(s, out) := st in let '(s', o) := step E s e in (s', out ++ o)) evs (s, out0) in
  exists nst1 added, out = out0 ++ added /\ nsteps nst added = Some nst1 /\ Phi E s1 nst1 /\
    agok E s1 (ag ++ announced_groups added).
Proof.
  induction evs as [|e evs IH]; intros s nst out0 ag Hft Hfi HP Hag Hen; cbn [fold_left].
  - exists nst, []. rewrite !app_nil_r. auto.
  - cbn [enabled_seq] in Hen. apply andb_true_iff in Hen as [He1 He2].
    pose proof (step_ok E s nst e Hft Hfi HP He1) as HS.
    destruct (step E s e) as [s' o] eqn:St. cbn [fst] in He2.
    destruct HS as (nst' & S1 & P1 & Sh1 & A1).
    assert (Hag' : agok E s' (ag ++ announced_groups o)).
    { intros a Ha. apply in_app_or in Ha as [Ha|Ha]; [exact (agok_shrink _ _ _ _ Hag Sh1 a Ha)|exact (A1 a Ha)]. }
    specialize (IH s' nst' (out0 ++ o) (ag ++ announced_groups o) Hft Hfi P1 Hag' He2).
    destruct (fold_left _ evs (s', out0 ++ o)) as [s1 out].
    destruct IH as (nst1 & added & E1 & S2 & P2 & A2).
    exists nst1, (o ++ added). split; [rewrite E1, app_assoc; reflexivity|].
    split; [rewrite nsteps_app, S1; exact S2|]. split; [exact P2|].
    rewrite announced_groups_app, app_assoc. exact A2.
Qed.

Lemma nesting_from_agok E s nst ag : Phi E s nst -> agok E s ag -> n_nesting_ok E ag nst = true.
Proof.
  intros HP Hag. unfold n_nesting_ok. apply forallb_forall. intros a Ha. apply forallb_forall. intros p Hp.
  apply negb_true_iff. apply memN_false_iff. intro Hk.
  apply (ph_open _ _ _ _ HP) in Hk as [(g & Eg & Hg)|(x & Ex & _)].
  - apply gkey_inj in Eg. subst g. exact (ph_nodes _ _ _ _ HP p Hg (Hag a Ha p Hp)).
  - exact (gkey_skey _ _ Ex).
Qed.

Lemma open_empty E s nst : Phi E s nst -> roots s = [] -> rstreams s = [] -> n_open nst = [].
Proof.
  intros HP R RS. destruct (n_open nst) as [|k l] eqn:O; [reflexivity|exfalso].
  assert (Hk : In k (n_open nst)) by (rewrite O; left; reflexivity).
  apply (ph_open _ _ _ _ HP) in Hk as [(g & _ & Hg)|(x & _ & Hx)]; [rewrite R in Hg|rewrite RS in Hx]; contradiction.
Qed.

Lemma run_batch_ok E s nst evs :
  flat_tasks E -> flat_items E -> Phi E s nst -> stopped s = false -> enabled_seq E s evs = true ->
  let '(s', out) := run_batch E s evs in
  exists nst', nbatch E nst out = Some nst' /\
    ((stopped s' = false /\ Phi E s' nst') \/ (stopped s' = true /\ out <> [] /\ n_closed nst' = true)).
Proof.
  intros Hft Hfi HP Hst Hen. unfold run_batch. rewrite Hst.
  pose proof (steps_ok E evs s nst [] [] Hft Hfi HP (agok_nil E s) Hen) as HS.
  destruct (fold_left _ evs (s, [])) as [s1 out] eqn:F.
  destruct HS as (nst1 & added & E1 & S1 & P1 & A1). cbn [app] in E1, A1. subst added.
  assert (Hst1 : stopped s1 = false).
  { clear -F Hst. revert s out s1 F Hst. generalize (@nil wqevent).
    induction evs as [|e evs IH]; intros acc s out s1 F Hst; cbn [fold_left] in F.
    - inversion F; subst. exact Hst.
    - pose proof (stopped_step E s e) as Hp. destruct (step E s e) as [sx o].
      eapply IH; [exact F|]. cbn in Hp. congruence. }
  unfold nbatch. rewrite (ph_closed _ _ _ _ HP).
  destruct (roots s1) eqn:R; [destruct (rstreams s1) eqn:RS|].
  - (* termination *)
    pose proof (open_empty E s1 nst1 P1 R RS) as Ho.
    rewrite nsteps_app, S1. cbn [nsteps]. unfold nstep. rewrite (ph_closed _ _ _ _ P1), Ho.
    eexists. split.
    + assert (Hn : n_nesting_ok E (announced_groups (out ++ [Termination]))
                     (mkNS (n_seen nst1) [] (n_next nst1) true) = true).
      { unfold n_nesting_ok. apply forallb_forall. intros a _. apply forallb_forall. intros p _. reflexivity. }
      rewrite Hn. reflexivity.
    + right. split; [reflexivity|]. split; [destruct out; discriminate|reflexivity].
  - rewrite S1, (nesting_from_agok E s1 nst1 _ P1 A1). exists nst1. split; [reflexivity|]. left. auto.
  - rewrite S1, (nesting_from_agok E s1 nst1 _ P1 A1). exists nst1. split; [reflexivity|]. left. auto.
Qed.

Lemma nbatch_nil E nst : n_closed nst = false -> nbatch E nst [] = Some nst.
Proof. intro H. unfold nbatch. rewrite H. reflexivity. Qed.

Lemma batches_ok E : forall bs s nst,
  flat_tasks E -> flat_items E -> Phi E s nst -> stopped s = false -> enabled_batches E s bs = true ->
  exists nst', nbatches E nst (snd (run_batches E s bs)) = Some nst' /\
    n_closed nst' = stopped (fst (run_batches E s bs)).
Proof.
  induction bs as [|b bs IH]; intros s nst Hft Hfi HP Hst Hen; cbn [run_batches].
  - exists nst. split; [reflexivity|]. cbn [fst]. rewrite Hst. exact (ph_closed _ _ _ _ HP).
  - destruct b as [|e b].
    + cbn [enabled_batches] in Hen. specialize (IH s nst Hft Hfi HP Hst Hen).
      destruct (run_batches E s bs) as [s2 outs]. exact IH.
    + cbn [enabled_batches] in Hen. apply andb_true_iff in Hen as [Hen He3]. apply andb_true_iff in Hen as [_ He2].
      pose proof (run_batch_ok E s nst (e :: b) Hft Hfi HP Hst He2) as HB.
      destruct (run_batch E s (e :: b)) as [s1 out] eqn:RB. cbn [fst] in He3.
      destruct HB as (nst1 & Hb1 & [[St1 P1]|(St1 & Hne & Hc1)]).
      * specialize (IH s1 nst1 Hft Hfi P1 St1 He3).
        destruct (run_batches E s1 bs) as [s2 outs]. cbn [fst snd] in *.
        destruct IH as (nst' & Hn' & Hc'). exists nst'. split; [|exact Hc'].
        destruct out as [|o out].
        -- rewrite (nbatch_nil E nst (ph_closed _ _ _ _ HP)) in Hb1. inversion Hb1; subst. exact Hn'.
        -- cbn [nbatches]. rewrite Hb1. exact Hn'.
      * rewrite (run_batches_stopped E bs s1 St1). cbn [fst snd].
        destruct out as [|o out]; [contradiction|]. cbn [nbatches]. rewrite Hb1.
        exists nst1. split; [reflexivity|]. rewrite St1. exact Hc1.
Qed.

(* ------------------------------------------------------------------ the initial state and the theorem *)
Lemma nodupb_NoDup l : nodupb l = true -> NoDup l.
Proof.
  induction l as [|x l IH]; cbn; intro H; [constructor|].
  apply andb_true_iff in H as [H1 H2]. constructor; [|auto].
  apply negb_true_iff in H1. apply memN_false_iff in H1. exact H1.
Qed.

Lemma is_no_work_eq w : is_no_work w = true -> w = no_work.
Proof. destruct w as [[|? ?] [|? ?] [|? ?]]; cbn; intro H; try discriminate; reflexivity. Qed.

Lemma flatb_tasks E : flatb E = true -> flat_tasks E.
Proof.
  unfold flatb. intro H. apply andb_true_iff in H as [H _]. rewrite forallb_forall in H.
  intro t. unfold twork. destruct (aget t (e_twork E)) as [w|] eqn:A; [|reflexivity].
  apply is_no_work_eq. exact (H (t, w) (aget_in _ _ _ A)).
Qed.

Lemma flatb_items E : flatb E = true -> flat_items E.
Proof.
  unfold flatb. intro H. apply andb_true_iff in H as [_ H]. rewrite forallb_forall in H.
  intros x w Hw. unfold sitems in Hw. destruct (aget x (e_items E)) as [l|] eqn:A; [|contradiction].
  specialize (H (x, l) (aget_in _ _ _ A)). cbn [snd] in H. rewrite forallb_forall in H.
  apply is_no_work_eq. exact (H w Hw).
Qed.

Lemma ahas_true {A} k (l : list (N * A)) : ahas k l = true -> aget k l <> None.
Proof. unfold ahas. destruct (aget k l); [discriminate|discriminate]. Qed.

Lemma ahas_false {A} k (l : list (N * A)) : ahas k l = false -> aget k l = None.
Proof. unfold ahas. destruct (aget k l); [discriminate|reflexivity]. Qed.

Lemma init_phi E w :
  init_ok E w = true ->
  let '(ig, is_, s0) := init E w in
  exists nst0, n_announce (new_keys ig is_) ns_init = Some nst0 /\ Phi E s0 nst0 /\
    n_nesting_ok E ig nst0 = true /\ stopped s0 = false.
Proof.
  unfold init_ok. destruct (init E w) as [[ig is_] s0]. intro H.
  repeat (apply andb_true_iff in H as [H ?]).
  match goal with X : negb (stopped s0) = true |- _ => apply negb_true_iff in X; rename X into Hst end.
  match goal with X : nat_list_eqb (roots s0) ig = true |- _ => apply nat_list_eqb_eq in X; rename X into HR end.
  match goal with X : nat_list_eqb (rstreams s0) is_ = true |- _ => apply nat_list_eqb_eq in X; rename X into HRS end.
  match goal with X : nodupb ig = true |- _ => apply nodupb_NoDup in X; rename X into Nig end.
  match goal with X : nodupb is_ = true |- _ => apply nodupb_NoDup in X; rename X into Nis end.
  match goal with X : nodupb (livech (gnodes s0)) = true |- _ => apply nodupb_NoDup in X; rename X into Nlc end.
  apply nodupb_NoDup in H. rename H into Nk.
  match goal with X : forallb _ (gnodes s0) = true |- _ => rewrite forallb_forall in X; rename X into Hch end.
  match goal with X : forallb _ (tnodes s0) = true |- _ => rewrite forallb_forall in X; rename X into Hts end.
  match goal with X : forallb _ ig = true |- _ => rewrite forallb_forall in X; rename X into Hig end.
  match goal with X : forallb _ is_ = true |- _ => rewrite forallb_forall in X; rename X into His end.
  assert (Hnk : NoDup (new_keys ig is_)).
  { unfold new_keys. apply NoDup_app_intro.
    - apply NoDup_map_inj; [exact gkey_inj|exact Nig].
    - apply NoDup_map_inj; [exact skey_inj|exact Nis].
    - intros k H1 H2. apply in_map_iff in H1 as [g [<- _]]. apply in_map_iff in H2 as [x [Ex _]].
      symmetry in Ex. exact (gkey_skey _ _ Ex). }
  destruct (n_announce_ok (new_keys ig is_) ns_init Hnk (fun k _ X => X)) as (nst0 & An & Op & Se & Nx & Cl).
  cbn [ns_init n_open n_seen n_next n_closed app] in Op, Se, Nx, Cl.
  assert (Hseen : forall k, In k (n_seen nst0) <-> In k (new_keys ig is_)).
  { intro k. rewrite Se. cbn. tauto. }
  assert (HP : Phi E s0 nst0).
  { constructor; rewrite ?app_nil_r.
    - constructor; [exact Nk|exact Nlc| |].
      + intros g n c Hin Hc. specialize (Hch (g, n) Hin). cbn [snd fst] in Hch. rewrite forallb_forall in Hch.
        specialize (Hch c Hc). apply andb_true_iff in Hch as [Hp Hn]. split.
        * intro X. apply Hseen in X. unfold new_keys in X. apply in_app_or in X as [X|X].
          -- apply in_map_iff in X as [c' [Ec Hc']]. apply gkey_inj in Ec. subst c'.
             apply negb_true_iff, memN_false_iff in Hn. contradiction.
          -- apply in_map_iff in X as [x [Ex _]]. symmetry in Ex. exact (gkey_skey _ _ Ex).
        * destruct (parent E c) as [p|]; [|discriminate]. apply N.eqb_eq in Hp. subst. reflexivity.
      + intros t tn Hin. specialize (Hts (t, tn) Hin). cbn [snd] in Hts. destruct (tn_streams tn); [reflexivity|discriminate].
    - exact Cl.
    - rewrite HR. exact Nig.
    - rewrite HRS. exact Nis.
    - intro k. rewrite Op, HR, HRS. unfold new_keys. rewrite in_app_iff, !in_map_iff. split.
      + intros [(g & <- & Hg)|(x & <- & Hx)]; [left; exists g; auto|right; exists x; auto].
      + intros [(g & -> & Hg)|(x & -> & Hx)]; [left; exists g; auto|right; exists x; auto].
    - intros k Hk. apply Hseen. rewrite Op in Hk. exact Hk.
    - intros r Hr. rewrite HR in Hr. specialize (Hig r Hr). apply andb_true_iff in Hig as [Hn _].
      apply ahas_true. exact Hn.
    - intros r Hr a Ha. rewrite HR in Hr. specialize (Hig r Hr). apply andb_true_iff in Hig as [_ Hn].
      rewrite forallb_forall in Hn. specialize (Hn a Ha). apply negb_true_iff in Hn. apply ahas_false. exact Hn.
    - intros x Hx. rewrite HRS in Hx. specialize (His x Hx). apply Nat.eqb_eq in His. rewrite His.
      unfold next_of. rewrite Nx. reflexivity. }
  exists nst0. split; [exact An|]. split; [exact HP|]. split; [|exact Hst].
  apply (nesting_from_agok E s0 nst0 ig HP).
  intros a Ha p Hp. apply (ph_anc _ _ _ _ HP a); [rewrite app_nil_r, HR; exact Ha|exact Hp].
Qed.

(* For flat work whose initial graph state passes the executable check, EVERY enabled sequence of
   graph-event batches (any length, any batching) yields a work-queue event trace that is well
   formed at node level; it is closed exactly when the queue has stopped. *)
Theorem flat_wq_wf E w bs :
  flatb E = true -> init_ok E w = true ->
  let '(ig, is_, s0) := init E w in
  enabled_batches E s0 bs = true ->
  wq_wf E ig is_ (snd (run_batches E s0 bs)) = true /\
  wq_wf_closed E ig is_ (snd (run_batches E s0 bs)) = stopped (fst (run_batches E s0 bs)).
Proof.
  intros Hf Hi. pose proof (init_phi E w Hi) as H0.
  destruct (init E w) as [[ig is_] s0]. destruct H0 as (nst0 & An & HP & Hn & Hst). intro Hen.
  destruct (batches_ok E bs s0 nst0 (flatb_tasks E Hf) (flatb_items E Hf) HP Hst Hen) as (nst' & Hb & Hc).
  unfold wq_wf, wq_wf_closed, nrun. rewrite An, Hn, Hb. split; [reflexivity|exact Hc].
Qed.

(* ... and therefore a payload stream accepted by the protocol validator *)
Theorem flat_protocol E w bs :
  flatb E = true -> init_ok E w = true ->
  enabled_batches E (snd (init E w)) bs = true ->
  valid_prefix (e_parent E) (respond E w bs) = true /\
  (stopped (fst (run_batches E (snd (init E w)) bs)) = true -> valid (e_parent E) (respond E w bs) = true).
Proof.
  intros Hf Hi. pose proof (flat_wq_wf E w bs Hf Hi) as H. unfold respond.
  destruct (init E w) as [[ig is_] s0]. cbn [snd]. intro Hen. destruct (H Hen) as [H1 H2]. split.
  - apply publish_valid_prefix. exact H1.
  - intro Hs. apply publish_valid_complete. rewrite H2. exact Hs.
Qed.
