(* C05 - the publisher turns every well-formed work-queue event trace (NodeProtocol.wq_wf) into a
   payload stream accepted by the protocol validator.  General: induction over arbitrary traces. *)
From GV Require Import Base.Prelude Incr.Protocol Incr.WorkQueue Incr.Publisher Incr.NodeProtocol.

(* ------------------------------------------------------------------ A. pend lists *)
Lemma find_pend_app_l i pd x q : find_pend i pd = Some q -> find_pend i (pd ++ x) = Some q.
Proof.
  induction pd as [|p pd IH]; cbn; [discriminate|]. destruct (p_id p =? i); auto.
Qed.

Lemma find_pend_in i pd q : find_pend i pd = Some q -> In q pd /\ p_id q = i.
Proof.
  induction pd as [|p pd IH]; cbn; [discriminate|].
  destruct (p_id p =? i) eqn:E; intro H.
  - inversion H; subst. apply N.eqb_eq in E. auto.
  - destruct (IH H). auto.
Qed.

Lemma set_next_app_l i n pd x q :
  find_pend i pd = Some q -> set_next i n (pd ++ x) = set_next i n pd ++ x.
Proof.
  induction pd as [|p pd IH]; cbn; [discriminate|].
  destruct (p_id p =? i); intro H; [reflexivity|]. rewrite (IH H). reflexivity.
Qed.

Lemma deliver_app_l es : forall pd pd2 x,
  deliver es pd = Some pd2 -> deliver es (pd ++ x) = Some (pd2 ++ x).
Proof.
  induction es as [|e es IH]; intros pd pd2 x H; cbn in *.
  - inversion H; reflexivity.
  - destruct e as [i|i items].
    + destruct (find_pend i pd) as [q|] eqn:F; [|discriminate].
      rewrite (find_pend_app_l _ _ x _ F). destruct (p_stream q); [discriminate|]. auto.
    + destruct (find_pend i pd) as [q|] eqn:F; [|discriminate].
      rewrite (find_pend_app_l _ _ x _ F).
      destruct (p_stream q && natl_eqb items (seq (p_next q) (length items))); [|discriminate].
      rewrite (set_next_app_l _ _ _ x _ F). auto.
Qed.

Lemma deliver_app es1 es2 pd :
  deliver (es1 ++ es2) pd = match deliver es1 pd with Some pd' => deliver es2 pd' | None => None end.
Proof.
  revert pd. induction es1 as [|e es IH]; intro pd; cbn; [reflexivity|].
  destruct e as [i|i items]; destruct (find_pend i pd) as [q|]; auto.
  - destruct (p_stream q); auto.
  - destruct (p_stream q && _); auto.
Qed.

Lemma remove_pend_app i a b : remove_pend i (a ++ b) = remove_pend i a ++ remove_pend i b.
Proof. unfold remove_pend. apply filter_app. Qed.

Lemma complete_app_l cs : forall pd pd3 p,
  complete cs pd = Some pd3 -> ~ In (p_id p) cs -> complete cs (pd ++ [p]) = Some (pd3 ++ [p]).
Proof.
  induction cs as [|i cs IH]; intros pd pd3 p H Hn; cbn in *.
  - inversion H; reflexivity.
  - destruct (find_pend i pd) as [q|] eqn:F; [|discriminate].
    rewrite (find_pend_app_l _ _ [p] _ F). rewrite remove_pend_app.
    assert (Hr : remove_pend i [p] = [p]).
    { cbn. destruct (p_id p =? i) eqn:E; [|reflexivity]. apply N.eqb_eq in E. exfalso. apply Hn. auto. }
    rewrite Hr. apply IH; [exact H|]. intro X. apply Hn. auto.
Qed.

Lemma complete_app cs1 cs2 pd :
  complete (cs1 ++ cs2) pd = match complete cs1 pd with Some pd' => complete cs2 pd' | None => None end.
Proof.
  revert pd. induction cs1 as [|i cs IH]; intro pd; cbn; [reflexivity|].
  destruct (find_pend i pd); auto.
Qed.

Lemma find_pend_remove i j pd :
  find_pend i (remove_pend j pd) = if i =? j then None else find_pend i pd.
Proof.
  unfold remove_pend. induction pd as [|p pd IH]; cbn [filter find_pend].
  - destruct (i =? j); reflexivity.
  - destruct (p_id p =? j) eqn:Ej; cbn [negb find_pend].
    + rewrite IH. destruct (i =? j) eqn:Eij; [reflexivity|].
      destruct (p_id p =? i) eqn:Ei; [|reflexivity].
      apply N.eqb_eq in Ej, Ei. apply N.eqb_neq in Eij. congruence.
    + destruct (p_id p =? i) eqn:Ei.
      * destruct (i =? j) eqn:Eij; [|reflexivity].
        apply N.eqb_eq in Ei, Eij. apply N.eqb_neq in Ej. congruence.
      * exact IH.
Qed.

(* an id that survives the completions is found (same record) before them *)
Lemma complete_find cs : forall pd pd3 i q,
  complete cs pd = Some pd3 -> find_pend i pd3 = Some q -> find_pend i pd = Some q.
Proof.
  induction cs as [|j cs IH]; intros pd pd3 i q H F; cbn in H.
  - inversion H; subst; exact F.
  - destruct (find_pend j pd) as [qj|]; [|discriminate].
    pose proof (IH _ _ _ _ H F) as F2. rewrite find_pend_remove in F2.
    destruct (i =? j); [discriminate|exact F2].
Qed.

Lemma find_pend_set_next i j n pd :
  find_pend i (set_next j n pd) =
  match find_pend i pd with
  | Some q => if i =? j then Some (mkPend (p_id q) (p_path q) (p_label q) (p_stream q) n) else Some q
  | None => None
  end.
Proof.
  induction pd as [|p pd IH]; cbn; [reflexivity|].
  destruct (p_id p =? j) eqn:Ej; cbn.
  - destruct (p_id p =? i) eqn:Ei.
    + apply N.eqb_eq in Ej, Ei. assert (i = j) by congruence. subst. rewrite N.eqb_refl. reflexivity.
    + destruct (find_pend i pd) as [q|]; [|reflexivity].
      destruct (i =? j) eqn:Eij; [|reflexivity].
      apply N.eqb_eq in Ej, Eij. apply N.eqb_neq in Ei. congruence.
  - destruct (p_id p =? i) eqn:Ei.
    + destruct (i =? j) eqn:Eij; [|reflexivity].
      apply N.eqb_eq in Ei, Eij. apply N.eqb_neq in Ej. congruence.
    + exact IH.
Qed.

Lemma set_next_noop i n l : (forall q, In q l -> p_id q <> i) -> set_next i n l = l.
Proof.
  induction l as [|p l IH]; intro H; cbn [set_next]; [reflexivity|].
  destruct (p_id p =? i) eqn:E.
  - apply N.eqb_eq in E. exfalso. apply (H p); [left; reflexivity|exact E].
  - f_equal. apply IH. intros q Hq. apply H. right. exact Hq.
Qed.

Lemma remove_set_next i j n pd :
  remove_pend j (set_next i n pd) = set_next i n (remove_pend j pd).
Proof.
  unfold remove_pend. induction pd as [|p pd IH]; cbn [filter set_next]; [reflexivity|].
  destruct (p_id p =? i) eqn:Ei; cbn [filter p_id].
  - destruct (p_id p =? j) eqn:Ej; cbn [negb set_next].
    + apply N.eqb_eq in Ei, Ej.
      symmetry. apply set_next_noop. intros q Hq. apply filter_In in Hq as [_ Hq].
      apply negb_true_iff, N.eqb_neq in Hq. congruence.
    + rewrite Ei. reflexivity.
  - destruct (p_id p =? j) eqn:Ej; cbn [negb set_next].
    + exact IH.
    + rewrite Ei. f_equal. exact IH.
Qed.

Lemma complete_set_next cs : forall pd pd3 i n,
  complete cs pd = Some pd3 -> complete cs (set_next i n pd) = Some (set_next i n pd3).
Proof.
  induction cs as [|j cs IH]; intros pd pd3 i n H; cbn in *.
  - inversion H; reflexivity.
  - rewrite find_pend_set_next. destruct (find_pend j pd) as [q|]; [|discriminate].
    assert (X : exists q', (if j =? i then Some (mkPend (p_id q) (p_path q) (p_label q) (p_stream q) n) else Some q) = Some q')
      by (destruct (j =? i); eauto).
    destruct X as [q' ->]. rewrite remove_set_next. apply IH. exact H.
Qed.

Lemma announce_app l1 l2 st :
  announce (l1 ++ l2) st = match announce l1 st with Some st' => announce l2 st' | None => None end.
Proof.
  revert st. induction l1 as [|p l IH]; intro st; cbn; [reflexivity|].
  destruct (memN (p_id p) (m_used st)); auto.
Qed.

(* ------------------------------------------------------------------ B. the id table as a pend list *)
Definition pend_of (E : env) (nx : N -> nat) (e : N * N) : pend :=
  let '(k, i) := e in
  if N.even k then group_pend E i (N.div2 k)
  else mkPend i (stream_path (N.div2 k)) (N.div2 k) true (nx k).

Definition table_pend (E : env) (nx : N -> nat) (tbl : list (N * N)) : list pend :=
  map (pend_of E nx) tbl.

Lemma gkey_even g : N.even (gkey g) = true.
Proof. unfold gkey. destruct g; reflexivity. Qed.
Lemma gkey_div2 g : N.div2 (gkey g) = g.
Proof. unfold gkey. destruct g; reflexivity. Qed.
Lemma skey_even s : N.even (skey s) = false.
Proof. unfold skey. destruct s; reflexivity. Qed.
Lemma skey_div2 s : N.div2 (skey s) = s.
Proof. unfold skey. destruct s; reflexivity. Qed.

Lemma pend_of_group E nx g i : pend_of E nx (gkey g, i) = group_pend E i g.
Proof. unfold pend_of. rewrite gkey_even, gkey_div2. reflexivity. Qed.
Lemma pend_of_stream E nx s i :
  pend_of E nx (skey s, i) = mkPend i (stream_path s) s true (nx (skey s)).
Proof. unfold pend_of. rewrite skey_even, skey_div2. reflexivity. Qed.

Lemma pend_of_id E nx k i : p_id (pend_of E nx (k, i)) = i.
Proof. unfold pend_of. destruct (N.even k); reflexivity. Qed.

Lemma pend_of_stream_flag E nx k i : p_stream (pend_of E nx (k, i)) = negb (N.even k).
Proof. unfold pend_of. destruct (N.even k); reflexivity. Qed.

Lemma agetN_in k tbl i : agetN k tbl = Some i -> In (k, i) tbl.
Proof.
  induction tbl as [|[k' v] tbl IH]; cbn; [discriminate|].
  destruct (k =? k') eqn:Ek; intro H.
  - apply N.eqb_eq in Ek. inversion H; subst. left; reflexivity.
  - right; auto.
Qed.

Lemma agetN_none k tbl : ~ In k (map fst tbl) -> agetN k tbl = None.
Proof.
  induction tbl as [|[k' v] tbl IH]; cbn; intro H; [reflexivity|].
  destruct (k =? k') eqn:Ek.
  - apply N.eqb_eq in Ek. exfalso. apply H. left. auto.
  - apply IH. intro X. apply H. right. exact X.
Qed.

Lemma agetN_some k tbl : In k (map fst tbl) -> exists i, agetN k tbl = Some i.
Proof.
  induction tbl as [|[k' v] tbl IH]; cbn; intro H; [contradiction|].
  destruct (k =? k') eqn:Ek; [eauto|].
  destruct H as [H|H]; [apply N.eqb_neq in Ek; congruence|auto].
Qed.

Lemma find_table E nx tbl k i :
  In (k, i) tbl -> NoDup (map snd tbl) ->
  find_pend i (table_pend E nx tbl) = Some (pend_of E nx (k, i)).
Proof.
  induction tbl as [|[k' i'] tbl IH]; cbn [In map table_pend find_pend snd]; [contradiction|].
  intros [H|H] Hnd.
  - inversion H; subst. rewrite pend_of_id, N.eqb_refl. reflexivity.
  - rewrite pend_of_id. inversion Hnd as [|? ? Hni Hnd']; subst.
    destruct (i' =? i) eqn:Ei.
    + apply N.eqb_eq in Ei. subst. exfalso. apply Hni.
      change i with (snd (k, i)). apply in_map. exact H.
    + apply IH; assumption.
Qed.

Lemma remove_table_absent E nx tbl k i :
  ~ In i (map snd tbl) -> ~ In k (map fst tbl) ->
  filter (fun p => negb (p_id p =? i)) (map (pend_of E nx) tbl) =
  map (pend_of E nx) (filter (fun e => negb (fst e =? k)) tbl).
Proof.
  induction tbl as [|[k2 i2] tbl IH]; cbn [map filter fst snd]; intros Hni Hnk; [reflexivity|].
  rewrite pend_of_id.
  destruct (i2 =? i) eqn:E1.
  { apply N.eqb_eq in E1. subst. exfalso. apply Hni. left. reflexivity. }
  destruct (k2 =? k) eqn:E2.
  { apply N.eqb_eq in E2. subst. exfalso. apply Hnk. left. reflexivity. }
  cbn [negb map]. f_equal. apply IH.
  - intro X. apply Hni. right. exact X.
  - intro X. apply Hnk. right. exact X.
Qed.

Lemma remove_table E nx tbl k i :
  In (k, i) tbl -> NoDup (map snd tbl) -> NoDup (map fst tbl) ->
  remove_pend i (table_pend E nx tbl) =
  table_pend E nx (filter (fun e => negb (fst e =? k)) tbl).
Proof.
  unfold remove_pend, table_pend.
  induction tbl as [|[k' i'] tbl IH]; cbn [In map filter fst snd]; [contradiction|].
  intros Hin Hi Hk. inversion Hi as [|? ? Hni Hi']; inversion Hk as [|? ? Hnk Hk']; subst.
  rewrite pend_of_id.
  destruct Hin as [H|H].
  - inversion H; subst. rewrite !N.eqb_refl. cbn [negb].
    apply remove_table_absent; assumption.
  - destruct (i' =? i) eqn:E1.
    { apply N.eqb_eq in E1. subst. exfalso. apply Hni. change i with (snd (k, i)). apply in_map. exact H. }
    destruct (k' =? k) eqn:E2.
    { apply N.eqb_eq in E2. subst. exfalso. apply Hnk. change k with (fst (k, i)). apply in_map. exact H. }
    cbn [negb map]. f_equal. apply IH; assumption.
Qed.

Lemma set_next_table E nx tbl k i n :
  In (k, i) tbl -> N.even k = false -> NoDup (map snd tbl) -> NoDup (map fst tbl) ->
  set_next i n (table_pend E nx tbl) =
  table_pend E (fun k' => if k' =? k then n else nx k') tbl.
Proof.
  unfold table_pend.
  induction tbl as [|[k' i'] tbl IH]; cbn [In map set_next fst snd]; [contradiction|].
  intros Hin Hodd Hi Hk. inversion Hi as [|? ? Hni Hi']; inversion Hk as [|? ? Hnk Hk']; subst.
  rewrite pend_of_id.
  destruct Hin as [H|H].
  - inversion H; subst. rewrite N.eqb_refl. f_equal.
    + unfold pend_of. rewrite Hodd, N.eqb_refl. reflexivity.
    + (* the rest does not mention the key *)
      apply map_ext_in. intros [k2 i2] Hin2. unfold pend_of.
      destruct (N.even k2); [reflexivity|].
      destruct (k2 =? k) eqn:E2; [|reflexivity].
      apply N.eqb_eq in E2. subst. exfalso. apply Hnk. change k with (fst (k, i2)). apply in_map. exact Hin2.
  - destruct (i' =? i) eqn:E1.
    { apply N.eqb_eq in E1. subst. exfalso. apply Hni. change i with (snd (k, i)). apply in_map. exact H. }
    f_equal.
    + unfold pend_of. destruct (N.even k'); [reflexivity|].
      destruct (k' =? k) eqn:E2; [|reflexivity].
      apply N.eqb_eq in E2. subst. exfalso. apply Hnk. change k with (fst (k, i)). apply in_map. exact H.
    + apply IH; assumption.
Qed.

Lemma table_pend_ext E nx nx' tbl :
  (forall k, In k (map fst tbl) -> nx k = nx' k) -> table_pend E nx tbl = table_pend E nx' tbl.
Proof.
  intro H. unfold table_pend. apply map_ext_in. intros [k i] Hin. unfold pend_of.
  destruct (N.even k); [reflexivity|]. rewrite (H k); [reflexivity|].
  change k with (fst (k, i)). apply in_map. exact Hin.
Qed.

(* ------------------------------------------------------------------ C. invariants *)
Definition nxf (nst : nstate) : N -> nat := fun k => next_of k nst.

Record T (nst : nstate) (p : pub) : Prop := mkT_ {
  t_keys : map fst (ids p) = n_open nst;
  t_nodup_open : NoDup (n_open nst);
  t_open_seen : incl (n_open nst) (n_seen nst);
  t_nodup_ids : NoDup (map snd (ids p));
  t_ids_lt : forall k i, In (k, i) (ids p) -> i < next_id p;
  t_next_seen : forall k, aget k (n_next nst) <> None -> In k (n_seen nst);
  t_closed : n_closed nst = true -> n_open nst = []
}.

Definition J (E : env) (st0 : mstate) (nst : nstate) (p : pub) (c : parts) (ag : list N) : Prop :=
  exists M1 pd2,
    announce (pa_pending c) st0 = Some M1 /\
    deliver (pa_incr c) (m_pend M1) = Some pd2 /\
    complete (pa_completed c) pd2 = Some (table_pend E (nxf nst) (ids p)) /\
    (forall i, In i (m_used M1) -> i < next_id p) /\
    Forall (fun i => i < next_id p) (pa_completed c) /\
    T nst p /\
    pa_has_next c = negb (n_closed nst) /\
    (forall a, In a (pa_pending c) -> p_stream a = false -> In (p_label a) ag).

Lemma map_fst_filter (tbl : list (N * N)) k :
  map fst (filter (fun e => negb (fst e =? k)) tbl) = filter (fun x => negb (x =? k)) (map fst tbl).
Proof.
  induction tbl as [|[k' i] tbl IH]; cbn [map filter fst]; [reflexivity|].
  destruct (k' =? k); cbn [negb map fst]; [exact IH|]. f_equal. exact IH.
Qed.

Lemma NoDup_filter {A} (f : A -> bool) l : NoDup l -> NoDup (filter f l).
Proof.
  induction 1 as [|x l Hn Hd IH]; cbn; [constructor|].
  destruct (f x); [|exact IH]. constructor; [|exact IH].
  intro X. apply filter_In in X as [X _]. contradiction.
Qed.

Lemma NoDup_map_snd_filter (tbl : list (N * N)) f :
  NoDup (map snd tbl) -> NoDup (map snd (filter f tbl)).
Proof.
  induction tbl as [|[k i] tbl IH]; cbn [map filter snd]; intro H; [constructor|].
  inversion H as [|? ? Hn Hd]; subst.
  destruct (f (k, i)); cbn [map snd]; [|auto]. constructor; [|auto].
  intro X. apply Hn. apply in_map_iff in X as [[k' i'] [E X]]. cbn in E. subst.
  apply filter_In in X as [X _]. change i with (snd (k', i)). apply in_map. exact X.
Qed.

(* completing the node with key k / id i *)
Lemma J_complete E st0 nst p c ag k i :
  J E st0 nst p c ag -> In (k, i) (ids p) ->
  J E st0 (n_close k nst) (del_id k p)
    (mkParts (pa_pending c) (pa_incr c) (pa_completed c ++ [i]) (pa_has_next c)) ag.
Proof.
  intros (M1 & pd2 & Ha & Hd & Hc & Hu & Hl & HT & Hn & Hag) Hin.
  destruct HT as [Tk Tno Tos Tni Tlt Tns Tcl].
  assert (Hndk : NoDup (map fst (ids p))) by (rewrite Tk; exact Tno).
  exists M1, pd2. cbn [pa_pending pa_incr pa_completed pa_has_next].
  split; [exact Ha|]. split; [exact Hd|]. split.
  - rewrite complete_app, Hc. cbn [complete].
    rewrite (find_table E (nxf nst) _ _ _ Hin Tni).
    rewrite (remove_table E (nxf nst) _ _ _ Hin Tni Hndk). reflexivity.
  - split; [exact Hu|]. split.
    + apply Forall_app. split; [exact Hl|]. constructor; [|constructor]. exact (Tlt _ _ Hin).
    + split; [|split; [exact Hn|exact Hag]].
      constructor; cbn [n_close n_open n_seen n_next n_closed del_id ids next_id].
      * rewrite map_fst_filter, Tk. reflexivity.
      * apply NoDup_filter. exact Tno.
      * intros x Hx. apply filter_In in Hx as [Hx _]. apply Tos. exact Hx.
      * apply NoDup_map_snd_filter. exact Tni.
      * intros k' i' H'. apply filter_In in H' as [H' _]. exact (Tlt _ _ H').
      * exact Tns.
      * intro Hc'. rewrite (Tcl Hc'). reflexivity.
Qed.

Lemma NoDup_app_intro_single {A} (l : list A) x : NoDup l -> ~ In x l -> NoDup (l ++ [x]).
Proof.
  induction 1 as [|y l Hn Hd IH]; cbn; intro Hx.
  - constructor; [intros []|constructor].
  - constructor.
    + intro X. apply in_app_or in X as [X|[X|[]]]; [contradiction|]. subst. apply Hx. left; reflexivity.
    + apply IH. intro X. apply Hx. right. exact X.
Qed.

Definition ns_announce1 (k : N) (nst : nstate) : nstate :=
  mkNS (k :: n_seen nst) (n_open nst ++ [k]) (n_next nst) (n_closed nst).

Definition pub_add (k : N) (p : pub) : pub := mkPub (ids p ++ [(k, next_id p)]) (next_id p + 1).

Lemma ensure_id_fresh k p : ~ In k (map fst (ids p)) -> ensure_id k p = (next_id p, pub_add k p).
Proof. intro H. unfold ensure_id. rewrite (agetN_none _ _ H). reflexivity. Qed.

Lemma ensure_id_present k p i : agetN k (ids p) = Some i -> ensure_id k p = (i, p).
Proof. intro H. unfold ensure_id. rewrite H. reflexivity. Qed.

Lemma next_of_unseen nst p k : T nst p -> ~ In k (n_seen nst) -> next_of k nst = O.
Proof.
  intros HT Hn. unfold next_of. destruct (aget k (n_next nst)) eqn:A; [|reflexivity].
  exfalso. apply Hn. apply (t_next_seen _ _ HT). rewrite A. discriminate.
Qed.

(* announcing one fresh node *)
Lemma J_announce1 E st0 nst p c ag k :
  J E st0 nst p c ag -> ~ In k (n_seen nst) -> n_closed nst = false ->
  J E st0 (ns_announce1 k nst) (pub_add k p)
    (mkParts (pa_pending c ++ [pend_of E (fun _ => O) (k, next_id p)]) (pa_incr c) (pa_completed c) (pa_has_next c))
    (if N.even k then ag ++ [N.div2 k] else ag).
Proof.
  intros (M1 & pd2 & Ha & Hd & Hc & Hu & Hl & HT & Hn & Hag) Hns Hcl.
  pose proof (next_of_unseen _ _ k HT Hns) as Hnx.
  destruct HT as [Tk Tno Tos Tni Tlt Tns Tcl].
  set (pn := pend_of E (fun _ => O) (k, next_id p)).
  assert (Hpid : p_id pn = next_id p) by apply pend_of_id.
  assert (Hfresh : memN (p_id pn) (m_used M1) = false).
  { rewrite Hpid. unfold memN. apply not_true_is_false. intro X. apply existsb_exists in X as [x [Hx Ex]].
    apply N.eqb_eq in Ex. subst x. specialize (Hu _ Hx). lia. }
  eexists. exists (pd2 ++ [pn]). cbn [pa_pending pa_incr pa_completed pa_has_next].
  split; [rewrite announce_app, Ha; cbn [announce]; rewrite Hfresh; reflexivity|].
  cbn [m_pend m_used].
  split; [apply deliver_app_l; exact Hd|]. split.
  - rewrite (complete_app_l _ _ _ pn Hc).
    + f_equal. unfold pub_add, table_pend. cbn [ids]. rewrite map_app. cbn [map]. f_equal.
      unfold pn, pend_of. destruct (N.even k); [reflexivity|].
      unfold nxf, ns_announce1, next_of. cbn [n_next]. fold (next_of k nst). rewrite Hnx. reflexivity.
    + rewrite Hpid. intro X. rewrite Forall_forall in Hl. specialize (Hl _ X). lia.
  - split.
    + intros i [Hi|Hi]; cbn [pub_add next_id]; [rewrite <- Hi, Hpid; lia|]. specialize (Hu _ Hi). lia.
    + split.
      * eapply Forall_impl; [|exact Hl]. cbn [pub_add next_id]. intros; lia.
      * split; [|split].
        -- constructor; cbn [ns_announce1 pub_add n_open n_seen n_next n_closed ids next_id].
           ++ rewrite map_app, Tk. reflexivity.
           ++ apply NoDup_app_intro_single; [exact Tno|]. intro X. apply Hns. apply Tos. exact X.
           ++ intros x Hx. apply in_app_or in Hx as [Hx|[Hx|[]]]; [right; apply Tos; exact Hx|left; exact Hx].
           ++ rewrite map_app. cbn [map snd]. apply NoDup_app_intro_single; [exact Tni|].
              intro X. apply in_map_iff in X as [[k' i'] [E' X]]. cbn in E'. subst. specialize (Tlt _ _ X). lia.
           ++ intros k' i' H'. apply in_app_or in H' as [H'|[H'|[]]].
              ** specialize (Tlt _ _ H'). lia.
              ** inversion H'; subst. lia.
           ++ intros k' H'. right. apply Tns. exact H'.
           ++ rewrite Hcl. discriminate.
        -- cbn [ns_announce1 n_closed]. exact Hn.
        -- intros a Ha' Hs. apply in_app_or in Ha' as [Ha'|[Ha'|[]]].
           ++ specialize (Hag _ Ha' Hs). destruct (N.even k); [apply in_or_app; left|]; exact Hag.
           ++ subst a. unfold pn in *. rewrite pend_of_stream_flag in Hs. apply negb_false_iff in Hs.
              rewrite Hs. apply in_or_app. right. left. unfold pend_of. rewrite Hs. reflexivity.
Qed.

(* to_pending as one pass over the keys *)
Fixpoint announce_keys (E : env) (ks : list N) (p : pub) : list pend * pub :=
  match ks with
  | [] => ([], p)
  | k :: r => let '(i, p1) := ensure_id k p in
              let '(l, p2) := announce_keys E r p1 in
              (pend_of E (fun _ => O) (k, i) :: l, p2)
  end.

Lemma announce_keys_app E ks1 ks2 p :
  announce_keys E (ks1 ++ ks2) p =
  let '(l1, p1) := announce_keys E ks1 p in
  let '(l2, p2) := announce_keys E ks2 p1 in (l1 ++ l2, p2).
Proof.
  revert p. induction ks1 as [|k ks IH]; intro p; cbn [app announce_keys].
  - destruct (announce_keys E ks2 p); reflexivity.
  - destruct (ensure_id k p) as [i p1]. rewrite IH.
    destruct (announce_keys E ks p1) as [l1 p1']. destruct (announce_keys E ks2 p1') as [l2 p2]. reflexivity.
Qed.

Lemma to_pending_groups E ngs : forall l p,
  fold_left (fun (st : list pend * pub) g =>
      let '(l, p) := st in let '(i, p') := ensure_id (gkey g) p in (l ++ [group_pend E i g], p')) ngs (l, p)
  = let '(l', p') := announce_keys E (map gkey ngs) p in (l ++ l', p').
Proof.
  induction ngs as [|g ngs IH]; intros l p; cbn [fold_left map announce_keys].
  - rewrite app_nil_r. reflexivity.
  - destruct (ensure_id (gkey g) p) as [i p1]. rewrite IH.
    destruct (announce_keys E (map gkey ngs) p1) as [l' p']. rewrite pend_of_group, <- app_assoc. reflexivity.
Qed.

Lemma to_pending_streams E nss : forall l p,
  fold_left (fun (st : list pend * pub) s =>
      let '(l, p) := st in let '(i, p') := ensure_id (skey s) p in (l ++ [stream_pend i s], p')) nss (l, p)
  = let '(l', p') := announce_keys E (map skey nss) p in (l ++ l', p').
Proof.
  induction nss as [|s nss IH]; intros l p; cbn [fold_left map announce_keys].
  - rewrite app_nil_r. reflexivity.
  - destruct (ensure_id (skey s) p) as [i p1]. rewrite IH.
    destruct (announce_keys E (map skey nss) p1) as [l' p']. rewrite pend_of_stream, <- app_assoc. reflexivity.
Qed.

Lemma to_pending_eq E ngs nss p : to_pending E ngs nss p = announce_keys E (new_keys ngs nss) p.
Proof.
  unfold to_pending, new_keys.
  pose proof (to_pending_groups E ngs [] p) as Hg. cbn [app] in Hg.
  rewrite announce_keys_app.
  destruct (announce_keys E (map gkey ngs) p) as [l1 p1].
  match type of Hg with ?lhs = _ => destruct lhs as [la pa] end.
  inversion Hg; subst; clear Hg.
  rewrite (to_pending_streams E nss l1 p1).
  destruct (announce_keys E (map skey nss) p1) as [l2 p2]. reflexivity.
Qed.

(* groups among a list of keys *)
Definition groups_of_keys (ks : list N) : list N :=
  flat_map (fun k => if N.even k then [N.div2 k] else []) ks.

Lemma groups_of_new_keys ngs nss : groups_of_keys (new_keys ngs nss) = ngs.
Proof.
  unfold groups_of_keys, new_keys. rewrite flat_map_app.
  assert (A : flat_map (fun k => if N.even k then [N.div2 k] else []) (map gkey ngs) = ngs).
  { induction ngs as [|g l IH]; cbn [map flat_map]; [reflexivity|]. rewrite gkey_even, gkey_div2. cbn [app]. f_equal. exact IH. }
  assert (B : flat_map (fun k => if N.even k then [N.div2 k] else []) (map skey nss) = []).
  { induction nss as [|s l IH]; cbn [map flat_map]; [reflexivity|]. rewrite skey_even. exact IH. }
  rewrite A, B, app_nil_r. reflexivity.
Qed.

(* announcing a list of fresh nodes *)
Lemma J_announce E st0 ks : forall nst nst' p c ag,
  J E st0 nst p c ag -> n_closed nst = false -> n_announce ks nst = Some nst' ->
  let '(pn, p') := announce_keys E ks p in
  J E st0 nst' p' (mkParts (pa_pending c ++ pn) (pa_incr c) (pa_completed c) (pa_has_next c))
    (ag ++ groups_of_keys ks)
  /\ n_closed nst' = false /\ n_next nst' = n_next nst.
Proof.
  induction ks as [|k ks IH]; intros nst nst' p c ag HJ Hcl Hn; cbn [n_announce announce_keys] in *.
  - inversion Hn; subst. cbn. rewrite !app_nil_r. destruct c; auto.
  - destruct (memN k (n_seen nst)) eqn:Hm; [discriminate|].
    assert (Hns : ~ In k (n_seen nst)).
    { intro X. unfold memN in Hm. apply not_true_iff_false in Hm. apply Hm.
      apply existsb_exists. exists k. split; [exact X|apply N.eqb_refl]. }
    assert (Hk : ~ In k (map fst (ids p))).
    { destruct HJ as (_ & _ & _ & _ & _ & _ & _ & HT & _). rewrite (t_keys _ _ HT). intro X. apply Hns.
      apply (t_open_seen _ _ HT). exact X. }
    rewrite (ensure_id_fresh _ _ Hk).
    pose proof (J_announce1 E st0 nst p c ag k HJ Hns Hcl) as HJ1.
    fold (ns_announce1 k nst) in Hn.
    specialize (IH _ _ _ _ _ HJ1 Hcl Hn).
    destruct (announce_keys E ks (pub_add k p)) as [l p2].
    destruct IH as (HJ2 & Hc2 & Hx2).
    cbn [pa_pending pa_incr pa_completed pa_has_next] in HJ2.
    rewrite <- app_assoc in HJ2. cbn [app] in HJ2.
    split; [|split; [exact Hc2|exact Hx2]].
    assert (Hag : (if N.even k then ag ++ [N.div2 k] else ag) ++ groups_of_keys ks
                  = ag ++ groups_of_keys (k :: ks)).
    { cbn [groups_of_keys flat_map]. destruct (N.even k); [rewrite <- app_assoc|]; reflexivity. }
    rewrite <- Hag. exact HJ2.
Qed.

(* ---- incremental entries *)
Lemma deliver_defers js : forall pd,
  (forall j, In j js -> exists q, find_pend j pd = Some q /\ p_stream q = false) ->
  deliver (map IDefer js) pd = Some pd.
Proof.
  induction js as [|j js IH]; intros pd H; cbn [map deliver]; [reflexivity|].
  destruct (H j (or_introl eq_refl)) as (q & Hq & Hs). rewrite Hq, Hs.
  apply IH. intros j' Hj'. apply H. right. exact Hj'.
Qed.

Lemma J_defers E st0 nst p c ag js :
  J E st0 nst p c ag ->
  (forall j, In j js -> exists k, N.even k = true /\ In (k, j) (ids p)) ->
  J E st0 nst p (mkParts (pa_pending c) (pa_incr c ++ map IDefer js) (pa_completed c) (pa_has_next c)) ag.
Proof.
  intros (M1 & pd2 & Ha & Hd & Hc & Hu & Hl & HT & Hn & Hag) Hjs.
  exists M1, pd2. cbn [pa_pending pa_incr pa_completed pa_has_next].
  split; [exact Ha|]. split.
  - rewrite deliver_app, Hd. apply deliver_defers. intros j Hj.
    destruct (Hjs j Hj) as (k & Hk & Hin).
    exists (pend_of E (nxf nst) (k, j)). split.
    + eapply complete_find; [exact Hc|]. apply find_table; [exact Hin|exact (t_nodup_ids _ _ HT)].
    + rewrite pend_of_stream_flag, Hk. reflexivity.
  - split; [exact Hc|]. split; [exact Hu|]. split; [exact Hl|]. split; [exact HT|]. split; [exact Hn|exact Hag].
Qed.

Lemma natl_eqb_refl l : natl_eqb l l = true.
Proof. induction l as [|x l IH]; cbn; [reflexivity|]. rewrite Nat.eqb_refl. exact IH. Qed.

Lemma aget_aset_same {A} k (v : A) l : aget k (aset k v l) = Some v.
Proof.
  induction l as [|[k' v'] l IH]; cbn; [rewrite N.eqb_refl; reflexivity|].
  destruct (k =? k') eqn:E; cbn; [rewrite N.eqb_refl; reflexivity|]. rewrite E. exact IH.
Qed.

Lemma aget_aset_other {A} k k' (v : A) l : k' <> k -> aget k' (aset k v l) = aget k' l.
Proof.
  intro Hne. induction l as [|[k2 v2] l IH]; cbn.
  - destruct (k' =? k) eqn:E; [apply N.eqb_eq in E; contradiction|reflexivity].
  - destruct (k =? k2) eqn:E; cbn.
    + apply N.eqb_eq in E. subst k2.
      destruct (k' =? k) eqn:E2; [apply N.eqb_eq in E2; contradiction|reflexivity].
    + destruct (k' =? k2); [reflexivity|exact IH].
Qed.

Definition ns_set_next (k : N) (n : nat) (nst : nstate) : nstate :=
  mkNS (n_seen nst) (n_open nst) (aset k n (n_next nst)) (n_closed nst).

Lemma J_stream E st0 nst p c ag x i count :
  J E st0 nst p c ag -> In (skey x, i) (ids p) ->
  J E st0 (ns_set_next (skey x) (next_of (skey x) nst + count)%nat nst) p
    (mkParts (pa_pending c) (pa_incr c ++ [IStream i (seq (next_of (skey x) nst) count)])
             (pa_completed c) (pa_has_next c)) ag.
Proof.
  intros (M1 & pd2 & Ha & Hd & Hc & Hu & Hl & HT & Hn & Hag) Hin.
  destruct HT as [Tk Tno Tos Tni Tlt Tns Tcl].
  assert (Hndk : NoDup (map fst (ids p))) by (rewrite Tk; exact Tno).
  set (first := next_of (skey x) nst).
  assert (Hf3 : find_pend i (table_pend E (nxf nst) (ids p)) = Some (pend_of E (nxf nst) (skey x, i)))
    by (apply find_table; assumption).
  pose proof (complete_find _ _ _ _ _ Hc Hf3) as Hf2.
  exists M1, (set_next i (first + count)%nat pd2). cbn [pa_pending pa_incr pa_completed pa_has_next].
  split; [exact Ha|]. split.
  - rewrite deliver_app, Hd. cbn [deliver]. rewrite Hf2, pend_of_stream. cbn [p_stream p_next andb].
    unfold nxf. fold first. rewrite seq_length, natl_eqb_refl. reflexivity.
  - split.
    + rewrite (complete_set_next _ _ _ i (first + count)%nat Hc). f_equal.
      rewrite (set_next_table E (nxf nst) _ (skey x) i _ Hin (skey_even x) Tni Hndk).
      apply table_pend_ext. intros k _. unfold nxf, ns_set_next, next_of. cbn [n_next].
      destruct (k =? skey x) eqn:Ek.
      * apply N.eqb_eq in Ek. subst k. rewrite aget_aset_same. reflexivity.
      * apply N.eqb_neq in Ek. rewrite (aget_aset_other _ _ _ _ Ek). reflexivity.
    + split; [exact Hu|]. split; [exact Hl|]. split; [|split; [exact Hn|exact Hag]].
      constructor; cbn [ns_set_next n_open n_seen n_next n_closed]; auto.
      intros k Hk. destruct (N.eq_dec k (skey x)) as [->|Hne].
      * apply Tos. rewrite <- Tk. change (skey x) with (fst (skey x, i)). apply in_map. exact Hin.
      * rewrite (aget_aset_other _ _ _ _ Hne) in Hk. apply Tns. exact Hk.
Qed.

(* the id chosen by _get_best_id_and_sub_path is the id of a group in the table *)
Lemma best_id_in E i g t p :
  In (gkey g, i) (ids p) ->
  exists k, N.even k = true /\ In (k, best_id E i g t p) (ids p).
Proof.
  intro Hin. unfold best_id.
  set (f := fun (st : N * nat) dg => _).
  assert (H : forall l st, (exists k, N.even k = true /\ In (k, fst st) (ids p)) ->
                           exists k, N.even k = true /\ In (k, fst (fold_left f l st)) (ids p)).
  { induction l as [|dg l IH]; intros st Hst; cbn [fold_left]; [exact Hst|].
    apply IH. subst f. cbn beta. destruct st as [best maxlen].
    destruct (dg =? g); [exact Hst|].
    destruct (agetN (gkey dg) (ids p)) as [j|] eqn:A; [|exact Hst].
    destruct (Nat.ltb maxlen (length (group_path E dg))); [|exact Hst].
    exists (gkey dg). split; [apply gkey_even|]. cbn [fst]. apply agetN_in. exact A. }
  apply H. exists (gkey g). split; [apply gkey_even|exact Hin].
Qed.

(* ------------------------------------------------------------------ D. events, batches, traces *)
Lemma memN_in k l : memN k l = true -> In k l.
Proof.
  unfold memN. intro H. apply existsb_exists in H as [x [Hx E]]. apply N.eqb_eq in E. subst. exact Hx.
Qed.

Lemma open_in_table nst p k :
  T nst p -> memN k (n_open nst) = true -> exists i, agetN k (ids p) = Some i /\ In (k, i) (ids p).
Proof.
  intros HT Hm. apply memN_in in Hm. rewrite <- (t_keys _ _ HT) in Hm.
  destruct (agetN_some _ _ Hm) as [i Hi]. exists i. split; [exact Hi|apply agetN_in; exact Hi].
Qed.

Lemma filter_noop k l : ~ In k l -> filter (fun x => negb (x =? k)) l = l.
Proof.
  induction l as [|y l IH]; cbn; intro H; [reflexivity|].
  destruct (y =? k) eqn:E.
  - apply N.eqb_eq in E. subst. exfalso. apply H. left. reflexivity.
  - cbn. f_equal. apply IH. intro X. apply H. right. exact X.
Qed.

Lemma J_T E st0 nst p c ag : J E st0 nst p c ag -> T nst p.
Proof. intros (? & ? & _ & _ & _ & _ & _ & HT & _). exact HT. Qed.

Lemma J_event E st0 nst nst' p c ag e :
  J E st0 nst p c ag -> nstep nst e = Some nst' ->
  let '(p', c') := handle_event E (p, c) e in
  J E st0 nst' p' c' (ag ++ announced_groups [e]).
Proof.
  intros HJ Hs. pose proof (J_T _ _ _ _ _ _ HJ) as HT.
  unfold nstep in Hs. destruct (n_closed nst) eqn:Hcl; [discriminate|].
  destruct e as [g ts|g ngs nss|g|x first count ngs nss|x|x|]; cbn [handle_event announced_groups flat_map];
    rewrite ?app_nil_r.
  - (* GroupValues *)
    destruct (memN (gkey g) (n_open nst)) eqn:Hm; [|discriminate]. inversion Hs; subst nst'; clear Hs.
    destruct (open_in_table _ _ _ HT Hm) as (i & Hi & Hin).
    rewrite (ensure_id_present _ _ _ Hi).
    rewrite <- (map_map (fun t => best_id E i g t p) IDefer).
    apply J_defers; [exact HJ|]. intros j Hj. apply in_map_iff in Hj as [t [<- _]].
    apply best_id_in. exact Hin.
  - (* GroupSuccess *)
    destruct (memN (gkey g) (n_open nst)) eqn:Hm; [|discriminate].
    destruct (open_in_table _ _ _ HT Hm) as (i & Hi & Hin).
    rewrite (ensure_id_present _ _ _ Hi).
    pose proof (J_complete _ _ _ _ _ _ _ _ HJ Hin) as HJ1.
    rewrite to_pending_eq.
    pose proof (J_announce E st0 (new_keys ngs nss) _ _ _ _ _ HJ1 Hcl Hs) as HJ2.
    destruct (announce_keys E (new_keys ngs nss) (del_id (gkey g) p)) as [pn p3].
    destruct HJ2 as (HJ2 & _ & _). rewrite groups_of_new_keys in HJ2. exact HJ2.
  - (* GroupFailure *)
    inversion Hs; subst nst'; clear Hs.
    destruct (agetN (gkey g) (ids p)) as [i|] eqn:A.
    + apply J_complete; [exact HJ|apply agetN_in; exact A].
    + assert (Hno : ~ In (gkey g) (n_open nst)).
      { rewrite <- (t_keys _ _ HT). intro X. destruct (agetN_some _ _ X) as [i Hi]. congruence. }
      assert (Heq : n_close (gkey g) nst = nst).
      { unfold n_close. rewrite (filter_noop _ _ Hno). destruct nst; reflexivity. }
      rewrite Heq. exact HJ.
  - (* StreamValues *)
    destruct (memN (skey x) (n_open nst)) eqn:Hm; [|discriminate].
    destruct (Nat.eqb first (next_of (skey x) nst)) eqn:Hf; [|discriminate].
    apply Nat.eqb_eq in Hf. subst first. cbn [andb] in Hs.
    destruct (open_in_table _ _ _ HT Hm) as (i & Hi & Hin).
    rewrite (ensure_id_present _ _ _ Hi).
    pose proof (J_stream _ _ _ _ _ _ x i count HJ Hin) as HJ1.
    rewrite to_pending_eq.
    assert (Heq : mkNS (n_seen nst) (n_open nst)
                    (aset (skey x) (next_of (skey x) nst + count)%nat (n_next nst)) false
                  = ns_set_next (skey x) (next_of (skey x) nst + count)%nat nst)
      by (unfold ns_set_next; rewrite Hcl; reflexivity).
    rewrite Heq in Hs.
    pose proof (J_announce E st0 (new_keys ngs nss) _ _ _ _ _ HJ1 Hcl Hs) as HJ2.
    destruct (announce_keys E (new_keys ngs nss) p) as [pn p3].
    destruct HJ2 as (HJ2 & _ & _). rewrite groups_of_new_keys in HJ2. exact HJ2.
  - (* StreamSuccess *)
    destruct (memN (skey x) (n_open nst)) eqn:Hm; [|discriminate]. inversion Hs; subst nst'; clear Hs.
    destruct (open_in_table _ _ _ HT Hm) as (i & Hi & Hin).
    rewrite (ensure_id_present _ _ _ Hi). apply J_complete; assumption.
  - (* StreamFailure *)
    destruct (memN (skey x) (n_open nst)) eqn:Hm; [|discriminate]. inversion Hs; subst nst'; clear Hs.
    destruct (open_in_table _ _ _ HT Hm) as (i & Hi & Hin).
    rewrite (ensure_id_present _ _ _ Hi). apply J_complete; assumption.
  - (* Termination *)
    destruct (n_open nst) eqn:Ho; [|discriminate]. inversion Hs; subst nst'; clear Hs.
    destruct HJ as (M1 & pd2 & Ha & Hd & Hc & Hu & Hl & _ & Hn & Hag).
    exists M1, pd2. cbn [pa_pending pa_incr pa_completed pa_has_next].
    split; [exact Ha|]. split; [exact Hd|]. split; [exact Hc|]. split; [exact Hu|]. split; [exact Hl|].
    split; [|split; [reflexivity|exact Hag]].
    destruct HT as [Tk Tno Tos Tni Tlt Tns Tcl].
    constructor; cbn [n_open n_seen n_next n_closed]; auto.
    + rewrite Tk, Ho. reflexivity.
    + constructor.
    + intros y [].
Qed.

Lemma announced_groups_cons e b : announced_groups (e :: b) = announced_groups [e] ++ announced_groups b.
Proof. unfold announced_groups. cbn [flat_map]. rewrite app_nil_r. reflexivity. Qed.

Lemma J_events E st0 b : forall nst nst' p c ag,
  J E st0 nst p c ag -> nsteps nst b = Some nst' ->
  let '(p', c') := fold_left (handle_event E) b (p, c) in
  J E st0 nst' p' c' (ag ++ announced_groups b).
Proof.
  induction b as [|e b IH]; intros nst nst' p c ag HJ Hs; cbn [nsteps fold_left] in *.
  - inversion Hs; subst. rewrite app_nil_r. exact HJ.
  - destruct (nstep nst e) as [nst1|] eqn:S1; [|discriminate].
    pose proof (J_event _ _ _ _ _ _ _ _ HJ S1) as HJ1.
    destruct (handle_event E (p, c) e) as [p1 c1].
    specialize (IH _ _ _ _ _ HJ1 Hs).
    destruct (fold_left (handle_event E) b (p1, c1)) as [p' c'].
    rewrite announced_groups_cons, app_assoc. exact IH.
Qed.

Definition K (E : env) (nst : nstate) (p : pub) (M : mstate) : Prop :=
  m_pend M = table_pend E (nxf nst) (ids p) /\
  (forall i, In i (m_used M) -> i < next_id p) /\
  T nst p.

Lemma gkey_div2_even k : N.even k = true -> gkey (N.div2 k) = k.
Proof. unfold gkey. destruct k as [|[q|q|]]; cbn; try discriminate; reflexivity. Qed.

Lemma memN_true_iff k l : memN k l = true <-> In k l.
Proof.
  split; [apply memN_in|]. intro H. unfold memN. apply existsb_exists. exists k. split; [exact H|apply N.eqb_refl].
Qed.

Lemma nesting_from_nodes E nst p streams (pending : list pend) ag :
  T nst p ->
  (forall a, In a pending -> p_stream a = false -> In (p_label a) ag) ->
  n_nesting_ok E ag nst = true ->
  nesting_ok (e_parent E) streams pending (table_pend E (nxf nst) (ids p)) = true.
Proof.
  intros HT Hag Hn. unfold nesting_ok. apply forallb_forall. intros a Ha.
  apply forallb_forall. intros q Hq. apply negb_true_iff. unfold encloses.
  destruct (p_stream q) eqn:Sq; [reflexivity|].
  destruct (p_stream a) eqn:Sa; [reflexivity|]. cbn [negb andb].
  destruct (memN (p_label q) (ancestors (S (length (e_parent E))) (e_parent E) (p_label a))) eqn:Hm;
    [|reflexivity].
  exfalso.
  unfold table_pend in Hq. apply in_map_iff in Hq as [[k i] [Eq Hin]]. subst q.
  rewrite pend_of_stream_flag in Sq. apply negb_false_iff in Sq.
  assert (Hlab : p_label (pend_of E (nxf nst) (k, i)) = N.div2 k) by (unfold pend_of; rewrite Sq; reflexivity).
  rewrite Hlab in Hm. apply memN_in in Hm.
  unfold n_nesting_ok in Hn. rewrite forallb_forall in Hn.
  specialize (Hn _ (Hag _ Ha Sa)). rewrite forallb_forall in Hn. specialize (Hn _ Hm).
  apply negb_true_iff in Hn. rewrite (gkey_div2_even _ Sq) in Hn.
  apply not_true_iff_false in Hn. apply Hn. apply memN_true_iff.
  rewrite <- (t_keys _ _ HT). change k with (fst (k, i)). apply in_map. exact Hin.
Qed.

Lemma K_batch E nst nst' p M b :
  K E nst p M -> nbatch E nst b = Some nst' ->
  let '(p', pl) := handle_batch E p b in
  exists M', mstep (e_parent E) M pl = Some M' /\ K E nst' p' M' /\ pl_has_next pl = negb (n_closed nst').
Proof.
  intros (Kp & Ku & KT) Hb. unfold nbatch in Hb.
  destruct (n_closed nst) eqn:Hcl; [discriminate|].
  destruct (nsteps nst b) as [nst1|] eqn:Hs; [|discriminate].
  destruct (n_nesting_ok E (announced_groups b) nst1) eqn:Hn; [|discriminate].
  inversion Hb; subst nst1; clear Hb.
  assert (HJ0 : J E M nst p parts_init []).
  { exists M, (m_pend M). cbn [parts_init pa_pending pa_incr pa_completed pa_has_next announce deliver complete].
    split; [reflexivity|]. split; [reflexivity|]. split; [rewrite Kp; reflexivity|].
    split; [exact Ku|]. split; [constructor|]. split; [exact KT|]. split; [rewrite Hcl; reflexivity|].
    intros a []. }
  pose proof (J_events E M b _ _ _ _ _ HJ0 Hs) as HJ.
  unfold handle_batch. destruct (fold_left (handle_event E) b (p, parts_init)) as [p' c'].
  cbn [app] in HJ. destruct HJ as (M1 & pd2 & Ha & Hd & Hc & Hu & Hl & HT & Hhn & Hag).
  eexists. unfold mstep. cbn [pl_pending pl_incr pl_completed pl_has_next].
  rewrite Ha, Hd, Hc.
  rewrite (nesting_from_nodes E nst' p' (m_streams M1) (pa_pending c') (announced_groups b) HT Hag Hn).
  split; [reflexivity|]. split; [|exact Hhn].
  split; [reflexivity|]. split; [exact Hu|exact HT].
Qed.

Lemma nbatches_closed E bs nst nst' : n_closed nst = true -> nbatches E nst bs = Some nst' -> bs = [].
Proof.
  intros Hc H. destruct bs as [|b bs]; [reflexivity|]. cbn in H. unfold nbatch in H. rewrite Hc in H. discriminate.
Qed.

Lemma K_batches E : forall bs nst nst' p M,
  K E nst p M -> n_closed nst = false -> nbatches E nst bs = Some nst' ->
  exists M', vrun (e_parent E) M (handle_batches E p bs) = Some (M', n_closed nst').
Proof.
  induction bs as [|b bs IH]; intros nst nst' p M HK Hcl Hb; cbn [nbatches handle_batches vrun] in *.
  - inversion Hb; subst. exists M. rewrite Hcl. reflexivity.
  - destruct (nbatch E nst b) as [nst1|] eqn:B1; [|discriminate].
    pose proof (K_batch _ _ _ _ _ _ HK B1) as HB.
    destruct (handle_batch E p b) as [p1 pl]. destruct HB as (M1 & Hm & HK1 & Hhn).
    cbn [vrun]. rewrite Hm. destruct (pl_has_next pl) eqn:Hn.
    + symmetry in Hhn. apply negb_true_iff in Hhn. exact (IH _ _ _ _ HK1 Hhn Hb).
    + symmetry in Hhn. apply negb_false_iff in Hhn.
      pose proof (nbatches_closed _ _ _ _ Hhn Hb) as Hnil. subst bs. cbn in Hb. inversion Hb; subst nst'.
      cbn [handle_batches].
      destruct HK1 as (Kp & _ & KT). rewrite Kp.
      assert (Hids : ids p1 = []).
      { pose proof (t_keys _ _ KT) as Tk. rewrite (t_closed _ _ KT Hhn) in Tk.
        destruct (ids p1); [reflexivity|discriminate]. }
      rewrite Hids. cbn. rewrite Hhn. eauto.
Qed.

Lemma T_init : T ns_init pub_init.
Proof.
  constructor; cbn [ns_init pub_init ids next_id n_open n_seen n_next n_closed map].
  - reflexivity.
  - constructor.
  - intros x [].
  - constructor.
  - intros k i [].
  - intros k Hk. exfalso. apply Hk. reflexivity.
  - discriminate.
Qed.

(* Every well-formed trace of work-queue event batches is published as a payload stream that the
   protocol validator accepts; the stream is complete exactly when the trace ended with the
   termination event. *)
Theorem publish_valid E ig is_ bs nst :
  nrun E ig is_ bs = Some nst ->
  exists M, vrun (e_parent E) m_init (publish E ig is_ bs) = Some (M, n_closed nst).
Proof.
  unfold nrun. intro H.
  destruct (n_announce (new_keys ig is_) ns_init) as [st0|] eqn:A; [|discriminate].
  destruct (n_nesting_ok E ig st0) eqn:Hn; [|discriminate].
  assert (HJ0 : J E m_init ns_init pub_init parts_init []).
  { exists m_init, []. cbn. repeat (split; [reflexivity|]). split; [intros i []|].
    split; [constructor|]. split; [exact T_init|]. split; [reflexivity|intros a []]. }
  pose proof (J_announce E m_init (new_keys ig is_) _ _ _ _ _ HJ0 eq_refl A) as HJ.
  unfold publish. rewrite to_pending_eq.
  destruct (announce_keys E (new_keys ig is_) pub_init) as [pn p].
  destruct HJ as (HJ & Hcl & _). rewrite groups_of_new_keys in HJ. cbn [app parts_init pa_pending pa_incr pa_completed pa_has_next] in HJ.
  destruct HJ as (M1 & pd2 & Ha & Hd & Hc & Hu & Hl & HT & Hhn & Hag).
  cbn [app parts_init pa_pending pa_incr pa_completed pa_has_next] in Ha, Hd, Hc, Hag.
  cbn [deliver] in Hd. inversion Hd; subst pd2; clear Hd. cbn [complete] in Hc. inversion Hc as [Hp]; clear Hc.
  cbn [vrun]. unfold mstep. cbn [pl_pending pl_incr pl_completed pl_has_next].
  rewrite Ha. cbn [deliver complete]. rewrite Hp.
  rewrite (nesting_from_nodes E st0 p (m_streams M1) pn ig HT Hag Hn).
  apply (K_batches E bs st0 nst p); [|exact Hcl|exact H].
  split; [reflexivity|]. split; [exact Hu|exact HT].
Qed.

Corollary publish_valid_prefix E ig is_ bs :
  wq_wf E ig is_ bs = true -> valid_prefix (e_parent E) (publish E ig is_ bs) = true.
Proof.
  unfold wq_wf, valid_prefix. destruct (nrun E ig is_ bs) as [nst|] eqn:R; [|discriminate].
  intros _. destruct (publish_valid _ _ _ _ _ R) as [M HM]. rewrite HM. reflexivity.
Qed.

Corollary publish_valid_complete E ig is_ bs :
  wq_wf_closed E ig is_ bs = true -> valid (e_parent E) (publish E ig is_ bs) = true.
Proof.
  unfold wq_wf_closed, valid. destruct (nrun E ig is_ bs) as [nst|] eqn:R; [|discriminate].
  intro Hc. destruct (publish_valid _ _ _ _ _ R) as [M HM]. rewrite HM. exact Hc.
Qed.
