(* C05 - the flat fragment (no nested work) and the executable check of the initial graph state
   used as a hypothesis of the general theorem.  Definitions only. *)
From GV Require Import Base.Prelude Incr.Protocol Incr.WorkQueue Incr.Publisher Incr.NodeProtocol Incr.Explore.

Definition is_no_work (w : work) : bool :=
  match w with mkWork [] [] [] => true | _ => false end.

(* no task result and no stream item carries nested work *)
Definition flatb (E : env) : bool :=
  forallb (fun e => is_no_work (snd e)) (e_twork E)
  && forallb (fun e => forallb is_no_work (snd e)) (e_items E).

(* all children of the live group nodes, in node order *)
Definition livech (gn : list (N * gnode)) : list N := flat_map (fun e => gn_children (snd e)) gn.

(* the initial graph state (after WorkQueue(work) and the start of events()) is well formed *)
Definition init_ok (E : env) (w : work) : bool :=
  let '(ig, is_, s0) := init E w in
  nodupb (map fst (gnodes s0)) && nodupb (livech (gnodes s0))
  && forallb (fun gn => forallb (fun c =>
        match parent E c with Some p => p =? fst gn | None => false end && negb (memN c ig))
        (gn_children (snd gn))) (gnodes s0)
  && forallb (fun tn => match tn_streams (snd tn) with [] => true | _ => false end) (tnodes s0)
  && nodupb ig && nodupb is_
  && nat_list_eqb (roots s0) ig && nat_list_eqb (rstreams s0) is_
  && forallb (fun r => ahas r (gnodes s0)
                       && forallb (fun a => negb (ahas a (gnodes s0)))
                                  (ancestors (S (length (e_parent E))) (e_parent E) r)) ig
  && forallb (fun x => Nat.eqb (stream_pos x s0) 0) is_
  && negb (stopped s0).
