(* Client-side reassembly of an incremental delivery response (the merge oracle of C04). *)
From GV Require Import Base.Prelude Exec.Value.

Fixpoint set_key (k : str) (v : json) (kvs : list (str * json)) : list (str * json) :=
  match kvs with
  | [] => [(k, v)]
  | (k', v') :: r => if str_eqb k k' then (k', v) :: r else (k', v') :: set_key k v r
  end.

(* deep merge of a patch object into an existing value; recursion on fuel (nesting depth) *)
Fixpoint merge (fuel : nat) (old new : json) : json :=
  match fuel with
  | O => new
  | S f =>
    match old, new with
    | JObj okvs, JObj nkvs =>
      JObj (fold_left (fun acc kv =>
                         match lookup (fst kv) acc with
                         | Some ov => set_key (fst kv) (merge f ov (snd kv)) acc
                         | None => acc ++ [kv]
                         end) nkvs okvs)
    | _, _ => new
    end
  end.

Fixpoint set_nth (i : nat) (f : json -> option json) (l : list json) : option (list json) :=
  match l, i with
  | [], _ => None
  | x :: r, O => match f x with Some y => Some (y :: r) | None => None end
  | x :: r, S j => match set_nth j f r with Some r' => Some (x :: r') | None => None end
  end.

Fixpoint upd_key (k : str) (f : json -> option json) (kvs : list (str * json))
  : option (list (str * json)) :=
  match kvs with
  | [] => None
  | (k', v) :: r =>
    if str_eqb k k' then match f v with Some v' => Some ((k', v') :: r) | None => None end
    else match upd_key k f r with Some r' => Some ((k', v) :: r') | None => None end
  end.

(* apply f to the value at path p; None when the path does not lead to an existing value *)
Fixpoint update_at (p : path) (f : json -> option json) (j : json) : option json :=
  match p with
  | [] => f j
  | PKey k :: r =>
    match j with
    | JObj kvs => match upd_key k (update_at r f) kvs with Some kvs' => Some (JObj kvs') | None => None end
    | _ => None
    end
  | PIdx i :: r =>
    match j with
    | JList l => match set_nth i (update_at r f) l with Some l' => Some (JList l') | None => None end
    | _ => None
    end
  end.

Inductive incr :=
| IDefer (id : N) (sub : path) (data : json)
| IStream (id : N) (items : list json).

Record payload := mkPayload {
  p_pending : list (N * path); p_incremental : list incr; p_completed : list N }.

Fixpoint find_pending (id : N) (t : list (N * path)) : option path :=
  match t with
  | [] => None
  | (i, p) :: r => if i =? id then Some p else find_pending id r
  end.

Definition apply_incr (st : json * list (N * path)) (e : incr) : option (json * list (N * path)) :=
  let '(d, t) := st in
  match e with
  | IDefer id sub data =>
    match find_pending id t with
    | Some p =>
      match update_at (p ++ sub) (fun old => match old with JObj _ => Some (merge 200 old data) | _ => None end) d with
      | Some d' => Some (d', t)
      | None => None
      end
    | None => None
    end
  | IStream id items =>
    match find_pending id t with
    | Some p =>
      match update_at p (fun old => match old with JList l => Some (JList (l ++ items)) | _ => None end) d with
      | Some d' => Some (d', t)
      | None => None
      end
    | None => None
    end
  end.

Fixpoint apply_incrs (st : json * list (N * path)) (es : list incr) : option (json * list (N * path)) :=
  match es with
  | [] => Some st
  | e :: r => match apply_incr st e with Some st' => apply_incrs st' r | None => None end
  end.

Definition apply_payload (st : json * list (N * path)) (p : payload) : option (json * list (N * path)) :=
  let '(d, t) := st in
  match apply_incrs (d, t ++ p_pending p) (p_incremental p) with
  | Some (d', t') => Some (d', filter (fun e => negb (existsb (N.eqb (fst e)) (p_completed p))) t')
  | None => None
  end.

Fixpoint apply_payloads (st : json * list (N * path)) (ps : list payload) : option (json * list (N * path)) :=
  match ps with
  | [] => Some st
  | p :: r => match apply_payload st p with Some st' => apply_payloads st' r | None => None end
  end.

(* initial data + initial pending + subsequent payloads -> reassembled data; None = a payload
   targeted an id that is not pending or a position that does not exist *)
Definition reassemble (d0 : json) (pending0 : list (N * path)) (ps : list payload) : option json :=
  match apply_payloads (d0, pending0) ps with Some (d, _) => Some d | None => None end.
