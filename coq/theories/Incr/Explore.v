(* C05 - executable graph invariant, event alphabet, path enumeration and the per-path check used by
   the bounded exhaustive exploration inside Coq.  Definitions only. *)
From GV Require Import Base.Prelude Incr.Protocol Incr.WorkQueue Incr.Publisher Incr.NodeProtocol.

Fixpoint nodupb (l : list N) : bool :=
  match l with [] => true | x :: r => negb (memN x r) && nodupb r end.

Definition task_done (s : state) (t : N) : bool :=
  match aget t (tnodes s) with Some tn => tn_done tn | None => false end.

Definition count_unfinished (s : state) (ts : list N) : nat :=
  length (filter (fun t => negb (task_done s t)) ts).

(* the graph invariant *)
Definition inv_group (E : env) (s : state) (gn : N * gnode) : bool :=
  let '(g, n) := gn in
  (* the pending counter is the number of unfinished tasks of the group *)
  Nat.eqb (gn_pending n) (count_unfinished s (gn_tasks n))
  && nodupb (gn_tasks n)
  && forallb (fun t => memN g (tgroups E t)) (gn_tasks n)
  (* parent/child consistency: a listed child has this group as parent and is not a root *)
  && forallb (fun c => match parent E c with Some p => p =? g | None => false end
                       && negb (memN c (roots s))) (gn_children n).

Definition inv_root (E : env) (s : state) (r : N) : bool :=
  match aget r (gnodes s) with
  | Some n =>
      (* a root group is non-empty and all its unfinished tasks are running *)
      Nat.ltb 0 (gn_pending n)
      && forallb (fun t => task_done s t
                           || (memN t (started s) && negb (memN t (settled s)) && ahas t (tnodes s)))
                 (gn_tasks n)
  | None => false
  end
  (* no enclosing group of a root is still in the graph *)
  && forallb (fun a => negb (ahas a (gnodes s)))
             (ancestors (S (length (e_parent E))) (e_parent E) r).

Definition inv (E : env) (s : state) : bool :=
  negb (oof s)
  && nodupb (roots s) && nodupb (rstreams s)
  && nodupb (map fst (gnodes s)) && nodupb (map fst (tnodes s))
  && forallb (inv_group E s) (gnodes s)
  && forallb (inv_root E s) (roots s)
  && forallb (fun x => memN x (sstarted s) && negb (memN x (sended s))) (rstreams s)
  && forallb (fun tn => memN (fst tn) (started s)
                        && implb (tn_done (snd tn)) (memN (fst tn) (settled s))) (tnodes s)
  && (if stopped s then match roots s, rstreams s with [], [] => true | _, _ => false end else true).

(* nodes reachable from g through the child lists *)
Fixpoint subtree (fuel : nat) (s : state) (g : N) : list N :=
  match fuel with
  | O => [g]
  | S f => g :: match aget g (gnodes s) with
                | Some n => flat_map (subtree f s) (gn_children n)
                | None => []
                end
  end.

(* after the failure of task t, the subtree of each of its groups is gone *)
Definition failed_subtrees_removed (E : env) (s s' : state) (t : N) : bool :=
  forallb (fun g =>
    if ahas g (gnodes s)
    then forallb (fun d => negb (ahas d (gnodes s'))) (subtree (length (gnodes s)) s g)
         && negb (memN g (roots s'))
    else true) (tgroups E t).

(* ---------------------------------------------------------------- data dependency, abstractly *)
(* Work declared by a task result (or a stream item) lives inside the data that this result
   delivers: a value produced by such work must be delivered, and a group / stream declared by it
   must be announced, only after the declaring value has been delivered. *)
Inductive origin := OInit | OTask (t : N) | OItem (x : N) (k : nat).

Fixpoint find_idx (p : work -> bool) (l : list work) (k : nat) : option nat :=
  match l with
  | [] => None
  | w :: r => if p w then Some k else find_idx p r (S k)
  end.

Fixpoint find_item (p : work -> bool) (l : list (N * list work)) : option (N * nat) :=
  match l with
  | [] => None
  | (x, items) :: r => match find_idx p items 0 with
                       | Some k => Some (x, k)
                       | None => find_item p r
                       end
  end.

Definition origin_of (E : env) (sel : work -> list N) (id : N) : origin :=
  match find (fun e => memN id (sel (snd e))) (e_twork E) with
  | Some (t, _) => OTask t
  | None => match find_item (fun w => memN id (sel w)) (e_items E) with
            | Some (x, k) => OItem x k
            | None => OInit
            end
  end.

(* delivered so far: task values, number of items per stream *)
Definition dstate := (list N * list (N * nat))%type.

Definition origin_ok (d : dstate) (o : origin) : bool :=
  match o with
  | OInit => true
  | OTask t => memN t (fst d)
  | OItem x k => match aget x (snd d) with Some c => Nat.ltb k c | None => false end
  end.

Definition creation_step (E : env) (d : dstate) (e : wqevent) : option dstate :=
  let announce_ok d ngs nss :=
    forallb (fun g => origin_ok d (origin_of E w_groups g)) ngs
    && forallb (fun x => origin_ok d (origin_of E w_streams x)) nss in
  match e with
  | GroupValues _ ts =>
      fold_left (fun (od : option dstate) t =>
        match od with
        | Some d => if origin_ok d (origin_of E w_tasks t) then Some (t :: fst d, snd d) else None
        | None => None
        end) ts (Some d)
  | GroupSuccess _ ngs nss => if announce_ok d ngs nss then Some d else None
  | StreamValues x first count ngs nss =>
      let d' := (fst d, aset x (first + count)%nat (snd d)) in
      if announce_ok d' ngs nss then Some d' else None
  | _ => Some d
  end.

Definition creation_ok (E : env) (evs : list wqevent) : bool :=
  match fold_left (fun (od : option dstate) e =>
          match od with Some d => creation_step E d e | None => None end) evs (Some ([], [])) with
  | Some _ => true
  | None => false
  end.

(* event alphabet of an environment *)
Definition candidates (E : env) : list gevent :=
  flat_map (fun e => [TaskOk (fst e); TaskFail (fst e)]) (e_tgroups E)
  ++ flat_map (fun e =>
       let x := fst e in
       flat_map (fun n => [Items x n false; Items x n true]) (seq 1 (length (snd e)))
       ++ [StreamOk x; StreamFail x]) (e_items E).

(* one event per batch *)
Definition en_single (E : env) (s : state) (e : gevent) : bool := negb (stopped s) && enabled1 E s e.
Definition step_single (E : env) (s : state) (e : gevent) : state := fst (run_batch E s [e]).

Fixpoint enabled_path (E : env) (s : state) (evs : list gevent) : bool :=
  match evs with
  | [] => true
  | e :: r => en_single E s e && enabled_path E (step_single E s e) r
  end.

(* all enabled paths of length <= n over the alphabet *)
Fixpoint paths (E : env) (cands : list gevent) (n : nat) (s : state) : list (list gevent) :=
  [] :: match n with
        | O => []
        | S k => flat_map (fun e => if en_single E s e
                                    then map (cons e) (paths E cands k (step_single E s e))
                                    else []) cands
        end.

Definition single (evs : list gevent) : list (list gevent) := map (fun e => [e]) evs.

Definition last_step_ok (E : env) (s0 : state) (evs : list gevent) : bool :=
  match rev evs with
  | TaskFail t :: before =>
      let sp := fst (run_batches E s0 (single (rev before))) in
      failed_subtrees_removed E sp (step_single E sp (TaskFail t)) t
  | _ => true
  end.

(* what is checked for every explored path *)
Definition check_path (E : env) (w : work) (evs : list gevent) : bool :=
  let '(ig, is_, s0) := init E w in
  let '(s1, outs) := run_batches E s0 (single evs) in
  let ps := publish E ig is_ outs in
  inv E s1
  && (stopped s1 || existsb (en_single E s1) (candidates E))     (* never stuck *)
  && last_step_ok E s0 evs
  && valid_prefix (e_parent E) ps
  && (if stopped s1 then valid (e_parent E) ps else true)
  && creation_ok E (concat outs)
  (* the event trace is well formed at node level (hypothesis of the general publisher theorem) *)
  && wq_wf E ig is_ outs && Bool.eqb (wq_wf_closed E ig is_ outs) (stopped s1).

Definition explore (n : nat) (g : env * work) : bool :=
  let '(E, w) := g in
  forallb (check_path E w) (paths E (candidates E) n (snd (init E w))).

(* graphs whose whole state space is small enough to be explored to the end *)
Definition small_graph (g : env * work) : bool :=
  Nat.ltb (length (paths (fst g) (candidates (fst g)) 6 (snd (init (fst g) (snd g))))) 5000.
