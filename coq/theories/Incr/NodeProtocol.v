(* C05 - the delivery protocol at the level of work-queue events (nodes instead of ids).
   Definitions only.  A trace of work-queue event batches is well formed when every group / stream
   is announced at most once and before any event about it, every values / success / failure
   event concerns an announced node that is not finished yet (a failure of a group that was never
   announced is allowed and ignored, as the publisher does), stream values continue at the next
   index, no group is announced while one of its enclosing groups is still open at the end of the
   batch, and the termination event comes last with nothing open. *)
From GV Require Import Base.Prelude Incr.Protocol Incr.WorkQueue Incr.Publisher.

Record nstate := mkNS {
  n_seen : list N;           (* keys of the nodes announced so far *)
  n_open : list N;           (* keys of the announced, unfinished nodes (announcement order) *)
  n_next : list (N * nat);   (* stream key -> next item index *)
  n_closed : bool            (* the termination event has been seen *)
}.
Definition ns_init : nstate := mkNS [] [] [] false.

Definition next_of (k : N) (st : nstate) : nat :=
  match aget k (n_next st) with Some n => n | None => O end.

(* announce the nodes with these keys: all fresh *)
Fixpoint n_announce (ks : list N) (st : nstate) : option nstate :=
  match ks with
  | [] => Some st
  | k :: r => if memN k (n_seen st) then None
              else n_announce r (mkNS (k :: n_seen st) (n_open st ++ [k]) (n_next st) (n_closed st))
  end.

Definition n_close (k : N) (st : nstate) : nstate :=
  mkNS (n_seen st) (filter (fun x => negb (x =? k)) (n_open st)) (n_next st) (n_closed st).

Definition new_keys (ngs nss : list N) : list N := map gkey ngs ++ map skey nss.

Definition nstep (st : nstate) (e : wqevent) : option nstate :=
  if n_closed st then None else
  match e with
  | GroupValues g _ => if memN (gkey g) (n_open st) then Some st else None
  | GroupSuccess g ngs nss =>
      if memN (gkey g) (n_open st) then n_announce (new_keys ngs nss) (n_close (gkey g) st) else None
  | GroupFailure g => Some (n_close (gkey g) st)
  | StreamValues x first count ngs nss =>
      if memN (skey x) (n_open st) && Nat.eqb first (next_of (skey x) st)
      then n_announce (new_keys ngs nss)
             (mkNS (n_seen st) (n_open st) (aset (skey x) (first + count)%nat (n_next st)) (n_closed st))
      else None
  | StreamSuccess x | StreamFailure x =>
      if memN (skey x) (n_open st) then Some (n_close (skey x) st) else None
  | Termination =>
      match n_open st with
      | [] => Some (mkNS (n_seen st) [] (n_next st) true)
      | _ => None
      end
  end.

Fixpoint nsteps (st : nstate) (es : list wqevent) : option nstate :=
  match es with
  | [] => Some st
  | e :: r => match nstep st e with Some st' => nsteps st' r | None => None end
  end.

(* groups announced by a batch *)
Definition announced_groups (es : list wqevent) : list N :=
  flat_map (fun e => match e with
                     | GroupSuccess _ ngs _ => ngs
                     | StreamValues _ _ _ ngs _ => ngs
                     | _ => []
                     end) es.

(* no group announced by the batch has an enclosing group that is still open after the batch *)
Definition n_nesting_ok (E : env) (announced : list N) (st : nstate) : bool :=
  forallb (fun a =>
    forallb (fun p => negb (memN (gkey p) (n_open st)))
            (ancestors (S (length (e_parent E))) (e_parent E) a)) announced.

Definition nbatch (E : env) (st : nstate) (b : list wqevent) : option nstate :=
  if n_closed st then None else
  match nsteps st b with
  | Some st' => if n_nesting_ok E (announced_groups b) st' then Some st' else None
  | None => None
  end.

Fixpoint nbatches (E : env) (st : nstate) (bs : list (list wqevent)) : option nstate :=
  match bs with
  | [] => Some st
  | b :: r => match nbatch E st b with Some st' => nbatches E st' r | None => None end
  end.

Definition nrun (E : env) (ig is_ : list N) (bs : list (list wqevent)) : option nstate :=
  match n_announce (new_keys ig is_) ns_init with
  | Some st0 => if n_nesting_ok E ig st0 then nbatches E st0 bs else None
  | None => None
  end.

Definition wq_wf (E : env) (ig is_ : list N) (bs : list (list wqevent)) : bool :=
  match nrun E ig is_ bs with Some _ => true | None => false end.

Definition wq_wf_closed (E : env) (ig is_ : list N) (bs : list (list wqevent)) : bool :=
  match nrun E ig is_ bs with Some st => n_closed st | None => false end.
