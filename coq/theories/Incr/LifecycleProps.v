(* C06 - proofs about the stream queue control machine, the hook bookkeeping and aclosing. *)
From GV Require Import Base.Prelude Incr.Lifecycle.

(* ---------------------------------------------------------------- stream item queue *)

Example ex_abort_running_producer :
  let c := {| q_eager := true; q_has_cb := true; q_cb_async := true |} in
  let s := qrun c (qinit c) [QPushFut; QAbort; QAbort; QTick] in
  (q_cb_calls s, quiescent s, q_aborted s) = (1%nat, true, true).
Proof. reflexivity. Qed.

Example ex_finished_source_not_closed_again :
  let c := {| q_eager := false; q_has_cb := true; q_cb_async := false |} in
  let s := qrun c (qinit c) [QStart; QPush; QFinish; QTick; QAbort; QTick] in
  (q_cb_calls s, quiescent s, q_finished s) = (0%nat, true, true).
Proof. reflexivity. Qed.

Example ex_cancellation_turned_into_failure_closes_once :
  let c := {| q_eager := true; q_has_cb := true; q_cb_async := true |} in
  let s := qrun c (qinit c) [QAbort; QFailCancelled; QTick] in
  (q_cb_calls s, quiescent s, q_aborted s) = (1%nat, true, true).
Proof. reflexivity. Qed.

Example ex_failure_waits_for_earlier_items :
  let c := {| q_eager := true; q_has_cb := true; q_cb_async := false |} in
  let s1 := qrun c (qinit c) [QPushFut; QFail; QTick] in
  let s2 := qrun c s1 [QItemSettle; QTick; QAbort; QTick] in
  (q_cb_calls s1, q_aborted s1, q_cb_calls s2, q_aborted s2, quiescent s2) = (0%nat, false, 1%nat, true, true).
Proof. reflexivity. Qed.

Definition qinv (c : qconf) (s : qstate) : Prop :=
  q_cb_calls s = (if q_cleaned s && q_has_cb c then 1%nat else 0%nat) /\
  (q_finished s = true -> q_cleaned s = false /\ q_due s <> DCleanup /\ q_prod s = PDone) /\
  (q_aborted s = true -> q_finished s = false -> q_cleaned s = true \/ q_due s = DCleanup) /\
  (q_cleaned s = true -> q_aborted s = true) /\
  (q_due s = DCleanup -> q_aborted s = true) /\
  (q_prod s = PRun -> q_cancel_req s = false -> q_aborted s = false).

Ltac qcrush :=
  cbn in *; repeat split; intros; subst; cbn in *;
  try discriminate; try congruence; auto;
  try (left; reflexivity); try (right; reflexivity); try lia.

Lemma qinv_init c : qinv c (qinit c).
Proof. unfold qinv, qinit. destruct (q_eager c); qcrush. Qed.

Lemma qinv_call_cb c s : qinv c s -> q_aborted s = true -> q_finished s = false -> qinv c (call_cb c s).
Proof.
  destruct s as [p cr ab fi n pc cl k d]. unfold qinv, call_cb; cbn.
  intros (H1 & H2 & H3 & H4 & H5 & H6) Ha Hf. subst.
  destruct cl; cbn; [qcrush; tauto|].
  destruct (q_has_cb c); cbn in *; subst; qcrush.
Qed.

Lemma qinv_settle c s : qinv c s -> qinv c (settle c s).
Proof.
  destruct s as [p cr ab fi n pc cl k d]. destruct c as [eg hc ca].
  unfold qinv. cbn [q_cb_calls q_cleaned q_has_cb q_finished q_due q_prod q_aborted q_cancel_req].
  intros (H1 & H2 & H3 & H4 & H5 & H6).
  destruct p, cr, pc, n, d, cl, hc, fi, ab;
    try (exfalso; (destruct H2 as (? & ? & ?); [reflexivity|]); congruence);
    try (exfalso; specialize (H4 eq_refl); congruence);
    try (exfalso; specialize (H5 eq_refl); congruence);
    try (exfalso; specialize (H6 eq_refl eq_refl); congruence);
    try (exfalso; destruct (H3 eq_refl eq_refl); congruence);
    cbn in *; subst; repeat split; intros; try discriminate; try congruence; auto.
Qed.

Lemma qinv_abort c s : qinv c s -> qinv c (fst (do_qabort c s)).
Proof.
  intros H. destruct (q_aborted s) eqn:Ea.
  { unfold do_qabort. rewrite Ea. exact H. }
  destruct s as [p cr ab fi n pc cl k d]. cbn in Ea. subst ab. destruct c as [eg hc ca].
  unfold qinv in H. cbn [q_cb_calls q_cleaned q_has_cb q_finished q_due q_prod q_aborted q_cancel_req] in H.
  destruct H as (H1 & H2 & H3 & H4 & H5 & H6).
  destruct p, cr, n, d, cl, hc, fi;
    try (exfalso; (destruct H2 as (? & ? & ?); [reflexivity|]); congruence);
    try (exfalso; specialize (H4 eq_refl); congruence);
    try (exfalso; specialize (H5 eq_refl); congruence);
    unfold qinv; cbn in *; subst; repeat split; intros; try discriminate; try congruence; auto.
Qed.

Lemma qinv_step c s e : qinv c s -> qinv c (fst (qstep c s e)).
Proof.
  intros H. unfold qstep. destruct (applicable s e) eqn:A; cbn; [|exact H].
  destruct e; cbn.
  - (* QStart *) destruct s as [p cr ab fi n pc cl k d]. unfold qinv in *; cbn in *.
    pose proof H as K. destruct H as (H1 & H2 & H3 & H4 & H5 & H6).
    destruct p; cbn; try exact K.
    destruct ab eqn:Eab; cbn; [exact K|].
    assert (Hf : fi = false).
    { destruct fi; auto. destruct (H2 eq_refl) as (? & ? & ?). discriminate. }
    subst fi. repeat split; intros; auto; try discriminate; try congruence.
  - (* QPushFut *) destruct s as [p cr ab fi n pc cl k d]. unfold qinv in *; cbn in *. exact H.
  - exact H.
  - destruct s as [p cr ab fi n pc cl k d]. unfold qinv in *; cbn in *. exact H.
  - (* QFinish *) destruct s as [p cr ab fi n pc cl k d]. unfold qinv, applicable, producing in *; cbn in *.
    destruct H as (H1 & H2 & H3 & H4 & H5 & H6).
    destruct p; try discriminate. destruct cr; try discriminate.
    specialize (H6 eq_refl eq_refl). subst.
    repeat split; intros; auto; try discriminate.
    + destruct cl; auto. specialize (H4 eq_refl). discriminate.
    + intro E. specialize (H5 E). discriminate.
  - (* QFail *) destruct s as [p cr ab fi n pc cl k d]. unfold qinv, applicable, producing in *; cbn in *.
    destruct H as (H1 & H2 & H3 & H4 & H5 & H6).
    destruct p; try discriminate.
    assert (Hf : fi = false).
    { destruct fi; auto. destruct (H2 eq_refl) as (? & ? & ?). discriminate. }
    subst fi. repeat split; intros; auto; try discriminate.
  - (* QFailCancelled *) destruct s as [p cr ab fi n pc cl k d]. unfold qinv, applicable in *; cbn in *.
    destruct H as (H1 & H2 & H3 & H4 & H5 & H6).
    destruct p; try discriminate.
    assert (Hf : fi = false).
    { destruct fi; auto. destruct (H2 eq_refl) as (? & ? & ?). discriminate. }
    subst fi. repeat split; intros; auto; try discriminate.
  - apply qinv_abort, H.
  - apply qinv_settle, H.
Qed.

Lemma qinv_run c es : forall s, qinv c s -> qinv c (qrun c s es).
Proof. induction es as [|e es IH]; cbn; intros s H; auto. apply IH, qinv_step, H. Qed.

(* on_abort (the close of the source) is called at most once on every trace *)
Lemma cb_at_most_once c es : (q_cb_calls (qrun c (qinit c) es) <= 1)%nat.
Proof.
  destruct (qinv_run c es _ (qinv_init c)) as (H1 & _). rewrite H1.
  destruct (_ && _); lia.
Qed.

(* after the loop has settled nothing of the continuation is left *)
Lemma settle_due c s : q_due (settle c s) = DNone.
Proof.
  destruct s as [p cr ab fi n pc cl k d]. unfold settle, call_cb; cbn.
  destruct p, cr, pc, n, d, cl; cbn; reflexivity.
Qed.

(* exactly once after a stop (abort or failure) once the loop has settled; never when the source
   finished by itself *)
Lemma cb_exactly_once c es :
  let s := settle c (qrun c (qinit c) es) in
  (stopped_early s = true -> q_cb_calls s = if q_has_cb c then 1%nat else 0%nat) /\
  (q_finished s = true -> q_cb_calls s = 0%nat).
Proof.
  cbn. pose proof (qinv_settle c _ (qinv_run c es _ (qinv_init c))) as H.
  pose proof (settle_due c (qrun c (qinit c) es)) as D.
  set (s := settle c (qrun c (qinit c) es)) in *.
  destruct H as (H1 & H2 & H3 & H4 & H5 & H6). unfold stopped_early. split.
  - intros E. apply andb_true_iff in E as [Ea Ef]. apply negb_true_iff in Ef.
    destruct (H3 Ea Ef) as [Hc|Hd]; [|congruence]. rewrite H1, Hc. cbn. reflexivity.
  - intros Ef. destruct (H2 Ef) as (Hc & _). rewrite H1, Hc. reflexivity.
Qed.

(* model-level quiescence: after an effective abort and one settling of the loop the producer task is
   finished, no item future is pending and no cleanup continuation is left *)
Lemma abort_then_settle_quiescent_gen c s :
  (q_finished s = true -> q_prod s = PDone) ->
  q_aborted s = false -> quiescent (settle c (fst (do_qabort c s))) = true.
Proof.
  destruct s as [p cr ab fi n pc cl k d]. cbn. intros Hf ->. destruct c as [eg hc ca].
  destruct fi; [rewrite (Hf eq_refl)|]; destruct p, n, cl, d, cr, pc, hc; reflexivity.
Qed.

(* on every trace: the first effective abort followed by one settling of the loop leaves nothing of the
   queue running *)
Lemma abort_then_settle_quiescent c es :
  let s := qrun c (qinit c) es in
  q_aborted s = false -> quiescent (settle c (fst (do_qabort c s))) = true.
Proof.
  cbn. intros Ha. apply abort_then_settle_quiescent_gen; auto.
  destruct (qinv_run c es _ (qinv_init c)) as (_ & H2 & _). intros Hf. apply (H2 Hf).
Qed.

(* ---------------------------------------------------------------- work-finished hook *)

Example ex_hook_waits :
  let s := hrun hinit [HAdd; HAdd; HRunHook; HSettle; HWake; HSettle; HWake] in
  (h_fired s, h_waiting s, h_bg s) = (1%nat, 0%nat, 0%nat).
Proof. reflexivity. Qed.

(* every firing happens in a state without outstanding background work: the machine has no
   transition that increments h_fired_busy, and each increment of h_fired is guarded by h_bg = 0 *)
Lemma hook_fires_only_idle s e :
  h_fired (hstep s e) <> h_fired s -> h_bg s = 0%nat /\ h_fired (hstep s e) = S (h_fired s).
Proof.
  destruct s as [b w f fb]; destruct e; cbn; try congruence.
  - destruct b; cbn; intros H; [split; reflexivity|congruence].
  - destruct w; cbn; try congruence. destruct b; cbn; intros H; [split; reflexivity|congruence].
Qed.

(* fired + waiting = number of run_async_work_finished_hook calls *)
Lemma hook_conservation es : forall s,
  (h_fired (hrun s es) + h_waiting (hrun s es) = h_fired s + h_waiting s + count_runhook es)%nat.
Proof.
  induction es as [|e es IH]; intros s; cbn; [lia|].
  rewrite IH. destruct s as [b w f fb]. destruct e; cbn; unfold count_runhook; cbn; try lia.
  - destruct b; cbn; lia.
  - destruct w; cbn; [lia|]. destruct b; cbn; lia.
Qed.

Lemma hook_at_most_calls es : (h_fired (hrun hinit es) <= count_runhook es)%nat.
Proof. pose proof (hook_conservation es hinit). cbn in H. lia. Qed.

(* quiescence: no background work, every waiting task has been resumed *)
Fixpoint wakes (n : nat) : list hevent := match n with O => [] | S k => HWake :: wakes k end.

Lemma wake_all : forall n s, h_bg s = 0%nat -> (h_waiting s <= n)%nat ->
  h_waiting (hrun s (wakes n)) = 0%nat /\ h_fired (hrun s (wakes n)) = (h_fired s + h_waiting s)%nat
  /\ h_bg (hrun s (wakes n)) = 0%nat.
Proof.
  induction n; intros [b w f fb]; cbn; intros Hb Hw; subst.
  - assert (w = 0%nat) by lia. subst. repeat split; lia.
  - destruct w; cbn.
    + destruct (IHn (mkH 0 0 f fb)) as (A & B & C); cbn; auto; try lia.
    + destruct (IHn (mkH 0 w (S f) fb)) as (A & B & C); cbn; auto; try lia.
      cbn in *. repeat split; auto; lia.
Qed.

(* with exactly one call of run_async_work_finished_hook: the hook fires at most once on every
   interleaving, and exactly once as soon as the background work is settled and the waiting task ran *)
Lemma hook_once es :
  count_runhook es = 1%nat ->
  (h_fired (hrun hinit es) <= 1)%nat /\
  (h_bg (hrun hinit es) = 0%nat -> h_fired (hrun (hrun hinit es) (wakes 1)) = 1%nat).
Proof.
  intros H. pose proof (hook_conservation es hinit) as C. cbn in C. rewrite H in C.
  split; [lia|]. intros Hb.
  destruct (wake_all 1 (hrun hinit es) Hb) as (_ & B & _); [lia|]. rewrite B. lia.
Qed.

Lemma path_calls_once p : count_runhook (path_calls p) = 1%nat.
Proof. destruct p; reflexivity. Qed.

(* ---------------------------------------------------------------- aclosing *)

Lemma aclose_at_most_once es : forall s,
  (a_close_calls s <= match a_gen s with GClosed => 1 | _ => 0 end)%nat ->
  (a_close_calls (arun s es) <= 1)%nat /\
  (a_close_calls (arun s es) <= match a_gen (arun s es) with GClosed => 1 | _ => 0 end)%nat.
Proof.
  induction es as [|e es IH]; intros [g k]; cbn; intros H.
  - split; [destruct g; lia|exact H].
  - apply IH. destruct g, e; cbn in *; lia.
Qed.

Lemma aclosing_once es : (a_close_calls (arun ainit es) <= 1)%nat.
Proof. apply (aclose_at_most_once es ainit). cbn. lia. Qed.

Lemma arun_closed es : forall k, arun (mkA GClosed k) es = mkA GClosed k.
Proof. induction es as [|e es IH]; intros k; cbn; auto. Qed.

(* once the body of the mapped generator has been entered, ending it by any means (source exhausted,
   source or callback raising, aclose by the consumer) closes the source exactly once *)
Lemma aclosing_exactly_once es :
  entered es = true -> a_gen (arun ainit es) = GClosed -> a_close_calls (arun ainit es) = 1%nat.
Proof.
  assert (G : forall es k, a_gen (arun (mkA GSuspended k) es) = GClosed ->
              a_close_calls (arun (mkA GSuspended k) es) = S k).
  { induction es0 as [|e es0 IH]; intros k; cbn; [discriminate|].
    destruct e; cbn; try apply IH; intros _; rewrite arun_closed; reflexivity. }
  destruct es as [|e es]; cbn; [discriminate|].
  destruct e; cbn; try discriminate; intros _.
  - apply G.
  - intros _. rewrite arun_closed. reflexivity.
  - intros _. rewrite arun_closed. reflexivity.
Qed.

(* a mapped generator closed before it was ever asked does not touch the source: it was never started *)
Lemma aclosing_unentered es : a_close_calls (arun ainit (AClose :: es)) = 0%nat.
Proof. cbn. rewrite arun_closed. reflexivity. Qed.
