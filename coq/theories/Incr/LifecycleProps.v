(* C06 - proofs about the stream queue control machine, the hook bookkeeping and aclosing. *)
From GV Require Import Base.Prelude Incr.Lifecycle.

(* ---------------------------------------------------------------- stream item queue *)

Definition C1 := {| q_eager := true; q_has_cb := true; q_cb_async := true; q_cap := 1 |}.
Definition C100 := {| q_eager := false; q_has_cb := true; q_cb_async := false; q_cap := 100 |}.

Example ex_abort_running_producer :
  let s := qrun C1 (qinit C1) [QPushFut; QAbort; QAbort; QTick] in
  (q_cb_calls s, quiescent s, q_aborted s) = (1%nat, true, true).
Proof. reflexivity. Qed.

Example ex_finished_source_not_closed_again :
  let s := qrun C100 (qinit C100) [QStart; QPush; QFinish; QTick; QAbort; QTick] in
  (q_cb_calls s, quiescent s, q_finished s) = (0%nat, true, true).
Proof. reflexivity. Qed.

(* the producer parks on the full queue with its end marker; abort releases it without closing the source *)
Example ex_parked_on_end_marker_released :
  let s1 := qrun C1 (qinit C1) [QPush; QTick; QFinish; QTick] in
  let s2 := qrun C1 s1 [QAbort; QTick] in
  (q_prod s1, q_prod s2, q_cb_calls s2, quiescent s2) = (PParked, PDone, 0%nat, true).
Proof. reflexivity. Qed.

(* ... and parked on the failure entry: the first abort happened in _run, a later abort releases it *)
Example ex_parked_on_failure_entry_released :
  let s1 := qrun C1 (qinit C1) [QPush; QTick; QFail; QTick] in
  let s2 := qrun C1 s1 [QAbort; QTick] in
  (q_prod s1, q_cb_calls s1, q_prod s2, q_cb_calls s2, quiescent s2) = (PParked, 1%nat, PDone, 1%nat, true).
Proof. reflexivity. Qed.

(* a producer blocked in push() on the full queue is cancelled by abort *)
Example ex_blocked_push_cancelled :
  let s1 := qrun C1 (qinit C1) [QPush; QTick; QPush; QTick] in
  let s2 := qrun C1 s1 [QAbort; QTick] in
  (q_prod s1, q_prod s2, q_cb_calls s2, quiescent s2) = (PBlocked, PDone, 1%nat, true).
Proof. reflexivity. Qed.

Example ex_cancellation_turned_into_failure_closes_once :
  let s := qrun C1 (qinit C1) [QAbort; QFailCancelled; QTick] in
  (q_cb_calls s, quiescent s, q_aborted s) = (1%nat, true, true).
Proof. reflexivity. Qed.

Example ex_failure_waits_for_earlier_items :
  let s1 := qrun C1 (qinit C1) [QPushFut; QFail; QTick] in
  let s2 := qrun C1 s1 [QItemSettle; QTick; QAbort; QTick] in
  (q_cb_calls s1, q_aborted s1, q_cb_calls s2, q_aborted s2, quiescent s2) = (0%nat, false, 1%nat, true, true).
Proof. reflexivity. Qed.

Definition is_final (p : prod) : bool := match p with PDone | PParked => true | _ => false end.
Definition is_prod (p : prod) : bool := match p with PRun | PBlocked => true | _ => false end.
Definition is_cleanup (d : due) : bool := match d with DCleanup => true | _ => false end.

(* control part of the invariant, as a boolean function of the finite control fields *)
Definition due_none (d : due) : bool := match d with DNone => true | _ => false end.
Definition is_settle (d : due) : bool := match d with DSettle => true | _ => false end.
Definition is_parked (p : prod) : bool := match p with PParked => true | _ => false end.
Definition is_failwait (p : prod) : bool := match p with PFailWait => true | _ => false end.

Definition qinvb (s : qstate) : bool :=
  implb (q_finished s) (negb (q_cleaned s) && negb (is_cleanup (q_due s)) && is_final (q_prod s)) &&
  implb (q_aborted s && negb (q_finished s)) (q_cleaned s || is_cleanup (q_due s)) &&
  implb (q_cleaned s) (q_aborted s) &&
  implb (is_cleanup (q_due s)) (q_aborted s) &&
  implb (is_prod (q_prod s) && negb (q_cancel_req s)) (negb (q_aborted s)) &&
  implb (is_parked (q_prod s)) (q_parked s) &&
  implb (q_pcancelled s) (q_aborted s) &&
  implb (q_cancel_req s) (q_aborted s) &&
  implb (negb (q_aborted s)) (due_none (q_due s)) &&
  (* the abort has dealt with the pending item futures *)
  implb (q_aborted s) (Nat.eqb (q_pending s) 0 || q_pend_cancelled s || negb (due_none (q_due s))) &&
  implb (q_parked s) (is_final (q_prod s)) &&
  implb (is_settle (q_due s)) (is_final (q_prod s)) &&
  implb (is_parked (q_prod s) && q_pcancelled s) (q_cancel_req s || is_cleanup (q_due s)) &&
  implb (is_failwait (q_prod s) && q_pcancelled s) (is_cleanup (q_due s)) &&
  implb (is_prod (q_prod s) && q_cancel_req s) (is_cleanup (q_due s)) &&
  implb (q_pend_cancelled s) (q_aborted s) &&
  implb (is_failwait (q_prod s) && q_aborted s) (q_pcancelled s) &&
  implb (q_cancel_req s) (q_pcancelled s).

(* counter part *)
Definition qinvc (c : qconf) (s : qstate) : Prop :=
  q_cb_calls s = (if q_cleaned s && q_has_cb c then 1%nat else 0%nat).

Definition qinv (c : qconf) (s : qstate) : Prop := qinvc c s /\ qinvb s = true.

Ltac bsolve := intros H; vm_compute in H; first [discriminate H | vm_compute; reflexivity].

Lemma b_settle_cancel s : qinvb s = true -> qinvb (settle_cancel s) = true.
Proof.
  destruct s as [p cr pc pk ab fi co e n pdc cl k d]. unfold settle_cancel.
  destruct n, pdc, p, cr, pc, pk, ab, fi, cl, d; bsolve.
Qed.



Lemma b_settle_fail c s : qinvb s = true -> qinvb (settle_fail c s) = true.
Proof.
  destruct s as [p cr pc pk ab fi co e n pdc cl k d]. unfold settle_fail.
  cbn [q_prod q_pending].
  destruct p; try (intros H; exact H).
  destruct n; try (intros H; exact H).
  generalize (has_room c {| q_prod := PFailWait; q_cancel_req := cr; q_pcancelled := pc; q_parked := pk;
     q_aborted := ab; q_finished := fi; q_consuming := co; q_entries := e; q_pending := 0;
     q_pend_cancelled := pdc; q_cleaned := cl; q_cb_calls := k; q_due := d |}).
  intros r. destruct c as [eg hc ca cap].
  destruct r, pdc, cl, cr, pc, pk, ab, fi, d, hc; bsolve.
Qed.

Lemma b_settle_due c s : qinvb s = true -> qinvb (settle_due c s) = true.
Proof.
  destruct s as [p cr pc pk ab fi co e n pdc cl k d]. unfold settle_due, call_cb, running.
  cbn [q_due q_prod q_cleaned].
  destruct d; try (intros H; exact H);
    destruct n, pdc, p, cr, pc, pk, ab, fi, cl; bsolve.
Qed.

Lemma b_settle_queue c s : qinvb s = true -> qinvb (settle_queue c s) = true.
Proof.
  destruct s as [p cr pc pk ab fi co e n pdc cl k d]. unfold settle_queue.
  cbn [q_prod q_consuming q_entries q_pending].
  set (room := (Nat.eqb (q_cap c) 0 || _)). clearbody room.
  destruct p; try (destruct n, pdc, cr, pc, pk, ab, fi, cl, d; bsolve); destruct room; try (intros H; exact H);
    destruct n, pdc, cr, pc, pk, ab, fi, cl, d; bsolve.
Qed.

Lemma b_settle c s : qinvb s = true -> qinvb (settle c s) = true.
Proof. intros H. unfold settle. apply b_settle_queue, b_settle_due, b_settle_fail, b_settle_cancel, H. Qed.

Lemma b_abort c s : qinvb s = true -> qinvb (fst (do_qabort c s)) = true.
Proof.
  destruct s as [p cr pc pk ab fi co e n pdc cl k d]. unfold do_qabort, call_cb, running.
  cbn [q_prod q_parked q_pcancelled q_aborted q_finished q_pending q_cancel_req q_due q_cleaned].
  destruct n; cbn [Nat.eqb negb]; destruct pdc, p, cr, pc, pk, ab, fi, cl, d; bsolve.
Qed.

Lemma b_push c s f : producing s = true -> qinvb s = true -> qinvb (do_push c s f) = true.
Proof.
  destruct s as [p cr pc pk ab fi co e n pdc cl k d]. unfold do_push, producing.
  cbn [q_prod q_cancel_req].
  destruct p; try discriminate. destruct cr; try discriminate. intros _.
  destruct (has_room c _), f, n, pdc, pc, pk, ab, fi, cl, d; bsolve.
Qed.

Lemma b_step c s e : qinvb s = true -> qinvb (fst (qstep c s e)) = true.
Proof.
  intros H. unfold qstep. destruct (applicable s e) eqn:A; cbn [negb]; [|exact H].
  destruct e; cbn [fst].
  - (* QStart *) clear A. destruct s as [p cr pc pk ab fi co e n pdc cl k d]. revert H.
    destruct n, pdc, p, cr, pc, pk, ab, fi, cl, d; bsolve.
  - cbn in A. apply b_push; auto.
  - cbn in A. apply b_push; auto.
  - (* QItemSettle *) destruct s as [p cr pc pk ab fi co e n pdc cl k d]. revert A H.
    unfold applicable. cbn [q_pending q_pend_cancelled].
    destruct n as [|[|n]]; try discriminate; (destruct pdc; try discriminate; intros _;
      destruct p, cr, pc, pk, ab, fi, cl, d; bsolve).
  - (* QFinish *) destruct s as [p cr pc pk ab fi co e n pdc cl k d]. revert A H.
    unfold applicable, producing. cbn [q_prod q_cancel_req].
    destruct p; try discriminate. destruct cr; try discriminate. intros _.
    generalize (has_room c {| q_prod := PRun; q_cancel_req := false; q_pcancelled := pc; q_parked := pk;
     q_aborted := ab; q_finished := fi; q_consuming := co; q_entries := e; q_pending := n;
     q_pend_cancelled := pdc; q_cleaned := cl; q_cb_calls := k; q_due := d |}). intros r.
    destruct r, n, pdc, pc, pk, ab, fi, cl, d; bsolve.
  - (* QFail *) destruct s as [p cr pc pk ab fi co e n pdc cl k d]. revert A H.
    unfold applicable, producing. cbn [q_prod q_cancel_req].
    destruct p; try discriminate. destruct cr; try discriminate. intros _.
    destruct n, pdc, pc, pk, ab, fi, cl, d; bsolve.
  - (* QFailCancelled *) destruct s as [p cr pc pk ab fi co e n pdc cl k d]. revert A H.
    unfold applicable. cbn [q_prod q_cancel_req].
    destruct p; try discriminate; (destruct cr; try discriminate; intros _;
    destruct n, pdc, pc, pk, ab, fi, cl, d; bsolve).
  - apply b_abort, H.
  - apply b_settle, H.
  - (* QDrain *) destruct s as [p cr pc pk ab fi co e n pdc cl k d]. exact H.
Qed.

Definition cbnew (c : qconf) (s s' : qstate) : Prop :=
  (q_cleaned s' = q_cleaned s /\ q_cb_calls s' = q_cb_calls s) \/
  (q_cleaned s = false /\ q_cleaned s' = true /\
   q_cb_calls s' = if q_has_cb c then S (q_cb_calls s) else q_cb_calls s).

Lemma cbnew_refl c s : cbnew c s s.
Proof. left; split; reflexivity. Qed.

Lemma cbnew_trans c s1 s2 s3 : cbnew c s1 s2 -> cbnew c s2 s3 -> cbnew c s1 s3.
Proof.
  unfold cbnew. intros [[A B]|(A & B & C)] [[D E]|(D & E & F)].
  - left. split; congruence.
  - right. repeat split; try congruence. rewrite F, B. reflexivity.
  - right. repeat split; congruence.
  - congruence.
Qed.

Lemma v_call_cb c s : cbnew c s (call_cb c s).
Proof.
  unfold call_cb. destruct (q_cleaned s) eqn:E; [apply cbnew_refl|].
  right. cbn. repeat split; auto.
Qed.

Lemma v_same c s s' : q_cleaned s' = q_cleaned s -> q_cb_calls s' = q_cb_calls s -> cbnew c s s'.
Proof. left; split; assumption. Qed.

Lemma v_put_final c r s : cbnew c s (put_final r s).
Proof. unfold put_final. destruct r; apply v_same; reflexivity. Qed.

Lemma v_settle_cancel c s : cbnew c s (settle_cancel s).
Proof. apply v_same; reflexivity. Qed.

Lemma v_settle_fail c s : cbnew c s (settle_fail c s).
Proof.
  unfold settle_fail. destruct (q_prod s); try apply cbnew_refl.
  destruct (q_pending s); try apply cbnew_refl.
  eapply cbnew_trans; [|apply v_put_final].
  eapply cbnew_trans; [|apply v_call_cb]. apply v_same; reflexivity.
Qed.

Lemma v_settle_due c s : cbnew c s (settle_due c s).
Proof.
  unfold settle_due. destruct (q_due s); try apply cbnew_refl.
  - eapply cbnew_trans; [|apply v_call_cb]. apply v_same; reflexivity.
  - apply v_same; reflexivity.
Qed.

Lemma v_settle_queue c s : cbnew c s (settle_queue c s).
Proof.
  unfold settle_queue. destruct (q_prod s); try (apply v_same; reflexivity);
    destruct (Nat.eqb (q_cap c) 0 || _); try apply cbnew_refl; apply v_same; reflexivity.
Qed.

Lemma v_settle c s : cbnew c s (settle c s).
Proof.
  unfold settle.
  eapply cbnew_trans; [|apply v_settle_queue].
  eapply cbnew_trans; [|apply v_settle_due].
  eapply cbnew_trans; [|apply v_settle_fail]. apply v_settle_cancel.
Qed.

Lemma v_abort c s : cbnew c s (fst (do_qabort c s)).
Proof.
  unfold do_qabort.
  destruct (q_aborted s); [apply v_same; reflexivity|].
  destruct (q_finished s).
  - destruct (_ && _); apply v_same; reflexivity.
  - destruct (negb (running s) && _); cbn [fst].
    + eapply cbnew_trans; [|apply v_call_cb]. apply v_same; reflexivity.
    + apply v_same; reflexivity.
Qed.

Lemma v_push c s f : cbnew c s (do_push c s f).
Proof. unfold do_push. destruct (has_room c s); apply v_same; reflexivity. Qed.

Lemma v_step c s e : cbnew c s (fst (qstep c s e)).
Proof.
  unfold qstep. destruct (negb (applicable s e)); [apply cbnew_refl|].
  destruct e; cbn [fst]; try (apply v_same; reflexivity).
  - apply v_push.
  - apply v_push.
  - eapply cbnew_trans; [|apply v_put_final]. apply v_same; reflexivity.
  - apply v_abort.
  - apply v_settle.
Qed.

Lemma c_of_cbnew c s s' : qinvc c s -> cbnew c s s' -> qinvc c s'.
Proof.
  unfold qinvc, cbnew. intros H [[A B]|(A & B & C)].
  - rewrite A, B. exact H.
  - rewrite B, C, H, A. cbn. destruct (q_has_cb c); reflexivity.
Qed.

Lemma qinv_step c s e : qinv c s -> qinv c (fst (qstep c s e)).
Proof. intros [A B]. split; [eapply c_of_cbnew; [exact A|apply v_step]|apply b_step, B]. Qed.

Lemma qinv_init c : qinv c (qinit c).
Proof. split; [reflexivity|]. unfold qinit. destruct (q_eager c); reflexivity. Qed.

Lemma qinv_run c es : forall s, qinv c s -> qinv c (qrun c s es).
Proof. induction es as [|e es IH]; cbn; intros s H; auto. apply IH, qinv_step, H. Qed.

Lemma qinv_settle c s : qinv c s -> qinv c (settle c s).
Proof. intros [A B]. split; [eapply c_of_cbnew; [exact A|apply v_settle]|apply b_settle, B]. Qed.

(* on_abort (the close of the source) is called at most once on every trace *)
Lemma cb_at_most_once c es : (q_cb_calls (qrun c (qinit c) es) <= 1)%nat.
Proof.
  destruct (qinv_run c es _ (qinv_init c)) as (H1 & _). rewrite H1.
  destruct (_ && _); lia.
Qed.

Lemma settle_due_none c s : q_due (settle c s) = DNone.
Proof.
  assert (Q : forall s, q_due (settle_queue c s) = q_due s).
  { intros t. unfold settle_queue. destruct (q_prod t); try reflexivity;
      destruct (Nat.eqb (q_cap c) 0 || _); reflexivity. }
  unfold settle. rewrite Q. unfold settle_due.
  destruct (q_due (settle_fail c (settle_cancel s))) eqn:E; auto.
  unfold call_cb. cbn. destruct (q_cleaned _); reflexivity.
Qed.

Lemma cb_exactly_once c es :
  let s := settle c (qrun c (qinit c) es) in
  (stopped_early s = true -> q_cb_calls s = if q_has_cb c then 1%nat else 0%nat) /\
  (q_finished s = true -> q_cb_calls s = 0%nat).
Proof.
  cbn. pose proof (qinv_settle c _ (qinv_run c es _ (qinv_init c))) as H.
  pose proof (settle_due_none c (qrun c (qinit c) es)) as D.
  set (s := settle c (qrun c (qinit c) es)) in *.
  destruct H as (H1 & H2). unfold stopped_early, qinvc in *. rewrite H1.
  unfold qinvb in H2. rewrite D in H2. cbn in H2.
  destruct (q_finished s), (q_aborted s), (q_cleaned s); cbn in *; split; intros; try discriminate; auto;
    try (repeat (apply andb_true_iff in H2 as [H2 ?]); discriminate).
Qed.

(* ---- model-level quiescence *)
Definition g0 (t : qstate) : bool :=
  (negb (running t) || q_cancel_req t || is_cleanup (q_due t)) &&
  (Nat.eqb (q_pending t) 0 || q_pend_cancelled t || negb (due_none (q_due t))).
Definition g1 (t : qstate) : bool :=
  (negb (running t) || is_cleanup (q_due t)) && (Nat.eqb (q_pending t) 0 || negb (due_none (q_due t))).
Definition g2 (t : qstate) : bool :=
  negb (running t) && Nat.eqb (q_pending t) 0 && due_none (q_due t).

Ltac gsolve := intros H; vm_compute in H; first [discriminate H | vm_compute; reflexivity].

Lemma g_cancel t : g0 t = true -> g1 (settle_cancel t) = true.
Proof.
  destruct t as [p cr pc pk ab fi co e n pdc cl k d]. unfold g0, g1, settle_cancel, running.
  destruct n, pdc, p, cr, d; gsolve.
Qed.

Lemma g_fail c t : g1 t = true -> g1 (settle_fail c t) = true.
Proof.
  destruct t as [p cr pc pk ab fi co e n pdc cl k d]. unfold settle_fail. cbn [q_prod q_pending].
  destruct p; try (intros H; exact H). destruct n; try (intros H; exact H).
  generalize (has_room c {| q_prod := PFailWait; q_cancel_req := cr; q_pcancelled := pc; q_parked := pk;
     q_aborted := ab; q_finished := fi; q_consuming := co; q_entries := e; q_pending := 0;
     q_pend_cancelled := pdc; q_cleaned := cl; q_cb_calls := k; q_due := d |}).
  intros r. destruct c as [eg hc ca cap]. destruct r, cl, d; gsolve.
Qed.

Lemma g_due c t : g1 t = true -> g2 (settle_due c t) = true.
Proof.
  destruct t as [p cr pc pk ab fi co e n pdc cl k d]. destruct c as [eg hc ca cap].
  unfold g1, g2, settle_due, call_cb, running. destruct n, p, d, cl; gsolve.
Qed.

Lemma g_queue c t : g2 t = true -> g2 (settle_queue c t) = true.
Proof.
  destruct t as [p cr pc pk ab fi co e n pdc cl k d]. unfold g2, settle_queue, running.
  destruct p; cbn; auto; discriminate.
Qed.

Lemma g_settle c t : g0 t = true -> quiescent (settle c t) = true.
Proof.
  intros H. assert (G : g2 (settle c t) = true).
  { unfold settle. apply g_queue, g_due, g_fail, g_cancel, H. }
  unfold g2 in G. unfold quiescent. destruct (q_due (settle c t)); cbn in *;
    rewrite ?andb_true_r, ?andb_false_r in *; auto.
Qed.

Lemma g_abort c s : qinvb s = true -> g0 (fst (do_qabort c s)) = true.
Proof.
  destruct s as [p cr pc pk ab fi co e n pdc cl k d]. destruct c as [eg hc ca cap].
  unfold do_qabort, call_cb, running.
  cbn [q_prod q_parked q_pcancelled q_aborted q_finished q_pending q_cancel_req q_due q_cleaned].
  destruct n; cbn [Nat.eqb negb]; destruct pdc, p, cr, pc, pk, ab, fi, cl, d; gsolve.
Qed.

(* in every reachable state, abort() followed by one settling of the loop leaves no producer task,
   no pending item future and no cleanup continuation *)
Lemma abort_then_settle_quiescent c es :
  let s := qrun c (qinit c) es in quiescent (settle c (fst (do_qabort c s))) = true.
Proof. cbn. apply g_settle, g_abort. apply (qinv_run c es _ (qinv_init c)). Qed.

(* ---------------------------------------------------------------- work-finished hook *)

Example ex_hook_waits :
  let s := hrun hinit [HAdd; HAdd; HRunHook; HSettle; HWake; HSettle; HWake] in
  (h_fired s, h_waiting s, h_bg s) = (1%nat, 0%nat, 0%nat).
Proof. reflexivity. Qed.

(* every firing happens in a state without outstanding background work: the machine has no
   transition that increments h_fired_busy, and each increment of h_fired is guarded by h_bg = 0 *)
Lemma hook_fires_only_idle s e :
  h_fired (hstep s e) <> h_fired s -> h_bg s = 0%nat /\ h_fired (hstep s e) = S (h_fired s).
Proof.
  destruct s as [b w f fb]; destruct e; cbn; try congruence.
  - destruct b; cbn; intros H; [split; reflexivity|congruence].
  - destruct w; cbn; try congruence. destruct b; cbn; intros H; [split; reflexivity|congruence].
Qed.

(* fired + waiting = number of run_async_work_finished_hook calls *)
Lemma hook_conservation es : forall s,
  (h_fired (hrun s es) + h_waiting (hrun s es) = h_fired s + h_waiting s + count_runhook es)%nat.
Proof.
  induction es as [|e es IH]; intros s; cbn; [lia|].
  rewrite IH. destruct s as [b w f fb]. destruct e; cbn; unfold count_runhook; cbn; try lia.
  - destruct b; cbn; lia.
  - destruct w; cbn; [lia|]. destruct b; cbn; lia.
Qed.

Lemma hook_at_most_calls es : (h_fired (hrun hinit es) <= count_runhook es)%nat.
Proof. pose proof (hook_conservation es hinit). cbn in H. lia. Qed.

(* quiescence: no background work, every waiting task has been resumed *)
Fixpoint wakes (n : nat) : list hevent := match n with O => [] | S k => HWake :: wakes k end.

Lemma wake_all : forall n s, h_bg s = 0%nat -> (h_waiting s <= n)%nat ->
  h_waiting (hrun s (wakes n)) = 0%nat /\ h_fired (hrun s (wakes n)) = (h_fired s + h_waiting s)%nat
  /\ h_bg (hrun s (wakes n)) = 0%nat.
Proof.
  induction n; intros [b w f fb]; cbn; intros Hb Hw; subst.
  - assert (w = 0%nat) by lia. subst. repeat split; lia.
  - destruct w; cbn.
    + destruct (IHn (mkH 0 0 f fb)) as (A & B & C); cbn; auto; try lia.
    + destruct (IHn (mkH 0 w (S f) fb)) as (A & B & C); cbn; auto; try lia.
      cbn in *. repeat split; auto; lia.
Qed.

(* with exactly one call of run_async_work_finished_hook: the hook fires at most once on every
   interleaving, and exactly once as soon as the background work is settled and the waiting task ran *)
Lemma hook_once es :
  count_runhook es = 1%nat ->
  (h_fired (hrun hinit es) <= 1)%nat /\
  (h_bg (hrun hinit es) = 0%nat -> h_fired (hrun (hrun hinit es) (wakes 1)) = 1%nat).
Proof.
  intros H. pose proof (hook_conservation es hinit) as C. cbn in C. rewrite H in C.
  split; [lia|]. intros Hb.
  destruct (wake_all 1 (hrun hinit es) Hb) as (_ & B & _); [lia|]. rewrite B. lia.
Qed.

Lemma path_calls_once p : count_runhook (path_calls p) = 1%nat.
Proof. destruct p; reflexivity. Qed.

(* ---------------------------------------------------------------- aclosing *)

Lemma aclose_at_most_once es : forall s,
  (a_close_calls s <= match a_gen s with GClosed => 1 | _ => 0 end)%nat ->
  (a_close_calls (arun s es) <= 1)%nat /\
  (a_close_calls (arun s es) <= match a_gen (arun s es) with GClosed => 1 | _ => 0 end)%nat.
Proof.
  induction es as [|e es IH]; intros [g k]; cbn; intros H.
  - split; [destruct g; lia|exact H].
  - apply IH. destruct g, e; cbn in *; lia.
Qed.

Lemma aclosing_once es : (a_close_calls (arun ainit es) <= 1)%nat.
Proof. apply (aclose_at_most_once es ainit). cbn. lia. Qed.

Lemma arun_closed es : forall k, arun (mkA GClosed k) es = mkA GClosed k.
Proof. induction es as [|e es IH]; intros k; cbn; auto. Qed.

(* once the body of the mapped generator has been entered, ending it by any means (source exhausted,
   source or callback raising, aclose by the consumer) closes the source exactly once *)
Lemma aclosing_exactly_once es :
  entered es = true -> a_gen (arun ainit es) = GClosed -> a_close_calls (arun ainit es) = 1%nat.
Proof.
  assert (G : forall es k, a_gen (arun (mkA GSuspended k) es) = GClosed ->
              a_close_calls (arun (mkA GSuspended k) es) = S k).
  { induction es0 as [|e es0 IH]; intros k; cbn; [discriminate|].
    destruct e; cbn; try apply IH; intros _; rewrite arun_closed; reflexivity. }
  destruct es as [|e es]; cbn; [discriminate|].
  destruct e; cbn; try discriminate; intros _.
  - apply G.
  - intros _. rewrite arun_closed. reflexivity.
  - intros _. rewrite arun_closed. reflexivity.
Qed.

(* a mapped generator closed before it was ever asked does not touch the source: it was never started *)
Lemma aclosing_unentered es : a_close_calls (arun ainit (AClose :: es)) = 0%nat.
Proof. cbn. rewrite arun_closed. reflexivity. Qed.
