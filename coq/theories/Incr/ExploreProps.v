(* C05 - the bounded exhaustive exploration inside Coq (graph invariant, protocol validity,
   creation order) lifted to universally quantified statements over the explored family. *)
From GV Require Import Base.Prelude Incr.Protocol Incr.WorkQueue Incr.Publisher Incr.NodeProtocol Incr.Explore Incr.Universe.

(* ------------------------------------------------------------------ path enumeration is complete *)
Lemma paths_complete E cands : forall n s evs,
  (length evs <= n)%nat -> Forall (fun e => In e cands) evs -> enabled_path E s evs = true ->
  In evs (paths E cands n s).
Proof.
  induction n as [|n IH]; intros s evs Hl Hc He.
  - destruct evs; [left; reflexivity | cbn in Hl; lia].
  - destruct evs as [|e r]; [left; reflexivity|].
    cbn in Hl. inversion Hc as [|? ? Hin Hr]; subst.
    cbn in He. apply andb_true_iff in He as [He1 He2].
    right. apply in_flat_map. exists e. split; [exact Hin|].
    rewrite He1. apply in_map. apply IH; [lia | exact Hr | exact He2].
Qed.

Lemma explore_sound n E w :
  explore n (E, w) = true ->
  forall evs, (length evs <= n)%nat -> Forall (fun e => In e (candidates E)) evs ->
  enabled_path E (snd (init E w)) evs = true -> check_path E w evs = true.
Proof.
  unfold explore. intros H evs Hl Hc He.
  rewrite forallb_forall in H. apply H. apply paths_complete; assumption.
Qed.

(* ------------------------------------------------------------------ the computations *)
Lemma explore_universe_5 : forallb (explore 5) universe = true.
Proof. vm_cast_no_check (eq_refl true). Qed.

Lemma explore_small_10 : forallb (explore 10) (filter small_graph universe) = true.
Proof. vm_cast_no_check (eq_refl true). Qed.

Theorem bounded_universe : forall E w, In (E, w) universe ->
  forall evs, (length evs <= 5)%nat -> Forall (fun e => In e (candidates E)) evs ->
  enabled_path E (snd (init E w)) evs = true -> check_path E w evs = true.
Proof.
  intros E w Hin. apply explore_sound.
  pose proof explore_universe_5 as H. rewrite forallb_forall in H. exact (H _ Hin).
Qed.

Theorem bounded_small : forall E w, In (E, w) universe -> small_graph (E, w) = true ->
  forall evs, (length evs <= 10)%nat -> Forall (fun e => In e (candidates E)) evs ->
  enabled_path E (snd (init E w)) evs = true -> check_path E w evs = true.
Proof.
  intros E w Hin Hs. apply explore_sound.
  pose proof explore_small_10 as H. rewrite forallb_forall in H. apply H.
  apply (proj2 (filter_In small_graph (E, w) universe)). split; assumption.
Qed.

(* what check_path gives, as separate facts *)
Lemma check_path_facts E w evs :
  check_path E w evs = true ->
  let '(ig, is_, s0) := init E w in
  let '(s1, outs) := run_batches E s0 (single evs) in
  let ps := publish E ig is_ outs in
  inv E s1 = true
  /\ (stopped s1 = true \/ exists e, In e (candidates E) /\ en_single E s1 e = true)
  /\ last_step_ok E s0 evs = true
  /\ valid_prefix (e_parent E) ps = true
  /\ (stopped s1 = true -> valid (e_parent E) ps = true)
  /\ creation_ok E (concat outs) = true
  /\ wq_wf E ig is_ outs = true
  /\ wq_wf_closed E ig is_ outs = stopped s1.
Proof.
  unfold check_path. destruct (init E w) as [[ig is_] s0].
  destruct (run_batches E s0 (single evs)) as [s1 outs]. cbn zeta.
  intro H.
  apply andb_true_iff in H as [H H8]. apply andb_true_iff in H as [H H7].
  apply andb_true_iff in H as [H H6]. apply andb_true_iff in H as [H H5].
  apply andb_true_iff in H as [H H4]. apply andb_true_iff in H as [H H3].
  apply andb_true_iff in H as [H1 H2].
  split; [exact H1|]. split.
  - apply orb_true_iff in H2 as [X|X]; [left; exact X|].
    right. apply existsb_exists in X. exact X.
  - split; [exact H3|]. split; [exact H4|]. split.
    + intro Hs. rewrite Hs in H5. exact H5.
    + split; [exact H6|]. split; [exact H7|]. apply eqb_prop. exact H8.
Qed.


(* ------------------------------------------------------------------ small graphs: every enabled sequence *)
Lemma enabled_path_app E l1 : forall s l2,
  enabled_path E s (l1 ++ l2) = true -> enabled_path E s l1 = true.
Proof.
  induction l1 as [|e l1 IH]; intros s l2 H; cbn in *; [reflexivity|].
  apply andb_true_iff in H as [H1 H2]. rewrite H1. cbn. exact (IH _ _ H2).
Qed.

Definition no_long_path (g : env * work) : bool :=
  forallb (fun p : list gevent => Nat.leb (length p) 8)
          (paths (fst g) (candidates (fst g)) 9 (snd (init (fst g) (snd g)))).

Lemma small_graphs_no_long_path : forallb no_long_path (filter small_graph universe) = true.
Proof. vm_cast_no_check (eq_refl true). Qed.

Lemma small_enabled_short E w evs :
  In (E, w) universe -> small_graph (E, w) = true ->
  Forall (fun e => In e (candidates E)) evs ->
  enabled_path E (snd (init E w)) evs = true -> (length evs <= 8)%nat.
Proof.
  intros Hin Hs Hc He.
  destruct (Nat.le_gt_cases (length evs) 8) as [Hl|Hl]; [exact Hl|exfalso].
  pose proof small_graphs_no_long_path as H. rewrite forallb_forall in H.
  assert (Hf : In (E, w) (filter small_graph universe))
    by (apply (proj2 (filter_In small_graph (E, w) universe)); split; assumption).
  specialize (H _ Hf). unfold no_long_path in H. cbn [fst snd] in H. rewrite forallb_forall in H.
  set (pre := firstn 9 evs).
  assert (Hlen : length pre = 9%nat) by (unfold pre; rewrite firstn_length; lia).
  assert (Hpre : In pre (paths E (candidates E) 9 (snd (init E w)))).
  { apply paths_complete.
    - lia.
    - unfold pre. apply Forall_forall. intros e He'. rewrite Forall_forall in Hc. apply Hc.
      rewrite <- (firstn_skipn 9 evs). apply in_or_app. left. exact He'.
    - apply (enabled_path_app E pre _ (skipn 9 evs)). unfold pre. rewrite firstn_skipn. exact He. }
  specialize (H _ Hpre). apply Nat.leb_le in H. lia.
Qed.

(* for the small graphs of the family: EVERY enabled event sequence, of any length *)
Theorem small_graphs_all_sequences : forall E w,
  In (E, w) universe -> small_graph (E, w) = true ->
  forall evs, Forall (fun e => In e (candidates E)) evs ->
  enabled_path E (snd (init E w)) evs = true -> check_path E w evs = true.
Proof.
  intros E w Hin Hs evs Hc He. apply bounded_small; try assumption.
  pose proof (small_enabled_short E w evs Hin Hs Hc He). lia.
Qed.
