(* Wire codec for JSON values and introspection options (used by Run/RunSchemaops.v only). *)
From GV Require Import Base.Prelude SchemaOps.Schema SchemaOps.SchemaWire SchemaOps.Introspect.

Fixpoint dec_json (fuel : nat) : dec json :=
  match fuel with
  | O => fun _ => None
  | S f =>
    t <- dec_n ;;
    if t =? 0 then retd JNull
    else if t =? 1 then (b <- dec_n ;; retd (JBool (negb (b =? 0))))
    else if t =? 2 then (x <- dec_text ;; retd (JStr x))
    else if t =? 3 then (l <- dec_list (dec_json f) ;; retd (JArr l))
    else (l <- dec_list (k <- dec_text ;; v <- dec_json f ;; retd (k, v)) ;; retd (JObj l))
  end.

Fixpoint enc_json (j : json) : list N :=
  match j with
  | JNull => [0]
  | JBool b => [1; if b then 1 else 0]
  | JStr x => 2 :: enc_text x
  | JArr l => 3 :: N.of_nat (length l) :: flat_map enc_json l
  | JObj l => 4 :: N.of_nat (length l)
              :: (fix go (l : list (list N * json)) : list N :=
                    match l with
                    | [] => []
                    | (k, x) :: r => enc_text k ++ enc_json x ++ go r
                    end) l
  end.

Definition dec_opts : dec opts :=
  a <- dec_bool ;; b <- dec_bool ;; c <- dec_bool ;; d <- dec_bool ;; e <- dec_bool ;; f <- dec_bool ;;
  g <- dec_bool ;; retd (mkOpts a b c d e f g).

(* defaults travel as their printed text: a leaf carrying it *)
Definition leaf_text (v : value) : list N := match v with VLeaf _ x => x | _ => [] end.
