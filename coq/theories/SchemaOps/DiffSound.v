(* Soundness of the change detector for the membership kinds: every reported
   removed/added/kind-changed element has a witness in the two schemas. *)
From GV Require Import Base.Prelude SchemaOps.Schema SchemaOps.Sort SchemaOps.Diff SchemaOps.DiffProps.

(* decidable witness of a reported change; kinds not listed here are not constrained *)
Definition in_not_in {A} (key : A -> name) (n : name) (l l' : list A) : bool :=
  has key n l && negb (has key n l').

Definition with_types (a b : schema) (tn : name) (f : typedef -> typedef -> bool) : bool :=
  match find_by t_name tn (s_types a), find_by t_name tn (s_types b) with
  | Some x, Some y => f x y
  | _, _ => false
  end.

Definition witness (c : change) (a b : schema) : bool :=
  match c_kind c, c_path c with
  | 10, [t] => in_not_in t_name t (s_types a) (s_types b)                      (* TYPE_REMOVED *)
  | 70, [t] => in_not_in t_name t (s_types b) (s_types a)                      (* TYPE_ADDED *)
  | 50, [d] => in_not_in d_name d (s_directives a) (s_directives b)            (* DIRECTIVE_REMOVED *)
  | 73, [d] => in_not_in d_name d (s_directives b) (s_directives a)            (* DIRECTIVE_ADDED *)
  | 11, [t] => with_types a b t (fun x y => negb (t_kind x =? t_kind y))       (* TYPE_CHANGED_KIND *)
  | 30, [t; f] => with_types a b t (fun x y =>                                 (* FIELD_REMOVED *)
                    in_not_in f_name f (t_fields x) (t_fields y) || in_not_in a_name f (t_inputs x) (t_inputs y))
  | 74, [t; f] => with_types a b t (fun x y => in_not_in f_name f (t_fields y) (t_fields x))   (* FIELD_ADDED *)
  | 21, [t; v] => with_types a b t (fun x y => in_not_in e_name v (t_values x) (t_values y))   (* VALUE_REMOVED_FROM_ENUM *)
  | 60, [t; v] => with_types a b t (fun x y => in_not_in e_name v (t_values y) (t_values x))   (* VALUE_ADDED_TO_ENUM *)
  | 20, [t; m] => with_types a b t (fun x y => in_not_in idn m (t_members x) (t_members y))    (* TYPE_REMOVED_FROM_UNION *)
  | 61, [t; m] => with_types a b t (fun x y => in_not_in idn m (t_members y) (t_members x))    (* TYPE_ADDED_TO_UNION *)
  | 23, [t; i] => with_types a b t (fun x y => in_not_in idn i (t_ifaces x) (t_ifaces y))      (* IMPLEMENTED_INTERFACE_REMOVED *)
  | 64, [t; i] => with_types a b t (fun x y => in_not_in idn i (t_ifaces y) (t_ifaces x))      (* IMPLEMENTED_INTERFACE_ADDED *)
  | 22, [t; f] => with_types a b t (fun x y => in_not_in a_name f (t_inputs y) (t_inputs x))   (* REQUIRED_INPUT_FIELD_ADDED *)
  | 62, [t; f] => with_types a b t (fun x y => in_not_in a_name f (t_inputs y) (t_inputs x))   (* OPTIONAL_INPUT_FIELD_ADDED *)
  | _, _ => true
  end.

Lemma in_absent {A} (key : A -> name) x l other :
  In x (absent key key l other) -> in_not_in key (key x) l other = true.
Proof.
  unfold absent, in_not_in. intro H. apply filter_In in H. destruct H as [Hin Hn].
  rewrite (has_in key (key x) l) by (apply in_map; exact Hin). exact Hn.
Qed.

Lemma in_map_absent {A} (key : A -> name) (mk : A -> change) c l other :
  In c (map mk (absent key key l other)) ->
  exists x, c = mk x /\ in_not_in key (key x) l other = true.
Proof.
  intro H. apply in_map_iff in H. destruct H as [x [<- Hx]]. exists x. split; [reflexivity|].
  apply in_absent. exact Hx.
Qed.

Lemma desc_change_kind p a b c : In c (desc_change p a b) -> c_kind c = DESCRIPTION_CHANGED.
Proof. unfold desc_change. destruct (otext_eqb a b); cbn; [contradiction|]. intros [<-|[]]. reflexivity. Qed.

(* the kinds whose witness is not constrained *)
Definition free_kind (k : N) : bool :=
  match k with
  | 10 | 70 | 50 | 73 | 11 | 30 | 74 | 21 | 60 | 20 | 61 | 23 | 64 | 22 | 62 => false
  | _ => true
  end.

Lemma witness_free c a b : free_kind (c_kind c) = true -> witness c a b = true.
Proof.
  unfold witness, free_kind. destruct (c_kind c) as [|p]; [reflexivity|].
  do 7 (destruct p as [p|p|]; try reflexivity; try discriminate).
Qed.

Section Sound.
Variable leb : name -> name -> bool.

Lemma arg_pair_free p o n c : In c (arg_pair_changes leb p o n) -> free_kind (c_kind c) = true.
Proof.
  unfold arg_pair_changes. intro H. apply in_app_or in H. destruct H as [H|H].
  - destruct (negb (safe_in (a_type o) (a_type n))).
    + destruct H as [<-|[]]. reflexivity.
    + destruct (a_default o), (a_default n); try (destruct H as [<-|[]]; reflexivity).
      * destruct (default_eqb leb v v0); [contradiction|destruct H as [<-|[]]; reflexivity].
      * destruct (tref_eqb (a_type o) (a_type n)); [contradiction|destruct H as [<-|[]]; reflexivity].
  - rewrite (desc_change_kind _ _ _ _ H). reflexivity.
Qed.

Lemma in_flat_map_pairs {A} (f : A * A -> list change) l c :
  In c (flat_map f l) -> exists p, In p l /\ In c (f p).
Proof. intro H. apply in_flat_map in H. exact H. Qed.

Lemma field_arg_free p o n c : In c (field_arg_changes leb p o n) -> free_kind (c_kind c) = true.
Proof.
  unfold field_arg_changes. intro H.
  apply in_app_or in H. destruct H as [H|H].
  - apply in_map_iff in H. destruct H as [x [<- _]]. reflexivity.
  - apply in_app_or in H. destruct H as [H|H].
    + apply in_flat_map in H. destruct H as [pr [_ H]]. eapply arg_pair_free; exact H.
    + apply in_map_iff in H. destruct H as [x [<- _]]. destruct (required x); reflexivity.
Qed.

Lemma field_pair_free tn o n c : In c (field_pair_changes leb tn o n) -> free_kind (c_kind c) = true.
Proof.
  unfold field_pair_changes. intro H.
  apply in_app_or in H. destruct H as [H|H]; [eapply field_arg_free; exact H|].
  apply in_app_or in H. destruct H as [H|H].
  - destruct (negb (safe_out (f_type o) (f_type n))).
    + destruct H as [<-|[]]. reflexivity.
    + destruct (tref_eqb (f_type o) (f_type n)); [contradiction|destruct H as [<-|[]]; reflexivity].
  - rewrite (desc_change_kind _ _ _ _ H). reflexivity.
Qed.

Lemma input_pair_free tn o n c : In c (input_pair_changes tn o n) -> free_kind (c_kind c) = true.
Proof.
  unfold input_pair_changes. intro H. apply in_app_or in H. destruct H as [H|H].
  - destruct (negb (safe_in (a_type o) (a_type n))).
    + destruct H as [<-|[]]. reflexivity.
    + destruct (tref_eqb (a_type o) (a_type n)); [contradiction|destruct H as [<-|[]]; reflexivity].
  - rewrite (desc_change_kind _ _ _ _ H). reflexivity.
Qed.

(* changes of a persisted pair of types x (old) / y (new), both found under the name of x *)
Lemma type_pair_sound a b x y c :
  find_by t_name (t_name x) (s_types a) = Some x ->
  find_by t_name (t_name x) (s_types b) = Some y ->
  In c (type_pair_changes leb x y) -> witness c a b = true.
Proof.
  intros Hx Hy H. unfold type_pair_changes in H.
  assert (WT : forall f, with_types a b (t_name x) f = f x y).
  { intro f. unfold with_types. rewrite Hx, Hy. reflexivity. }
  apply in_app_or in H. destruct H as [H|H].
  { apply witness_free. rewrite (desc_change_kind _ _ _ _ H). reflexivity. }
  destruct ((t_kind x =? 4) && (t_kind y =? 4)).
  { unfold enum_changes in H. apply in_app_or in H. destruct H as [H|H].
    - apply in_map_absent in H. destruct H as [v [-> Hv]]. unfold witness; cbn. rewrite WT. exact Hv.
    - apply in_app_or in H. destruct H as [H|H].
      + apply in_map_absent in H. destruct H as [v [-> Hv]]. unfold witness; cbn. rewrite WT. exact Hv.
      + apply in_flat_map in H. destruct H as [pr [_ H]]. apply witness_free.
        rewrite (desc_change_kind _ _ _ _ H). reflexivity. }
  destruct ((t_kind x =? 3) && (t_kind y =? 3)).
  { unfold union_changes in H. apply in_app_or in H. destruct H as [H|H];
      apply in_map_absent in H; destruct H as [v [-> Hv]]; unfold witness; cbn; rewrite WT; exact Hv. }
  destruct ((t_kind x =? 5) && (t_kind y =? 5)).
  { unfold input_changes in H. apply in_app_or in H. destruct H as [H|H].
    - apply in_map_absent in H. destruct H as [v [-> Hv]].
      destruct (required v); unfold witness; cbn; rewrite WT; exact Hv.
    - apply in_app_or in H. destruct H as [H|H].
      + apply in_map_absent in H. destruct H as [v [-> Hv]]. unfold witness; cbn. rewrite WT.
        rewrite Hv. apply orb_true_r.
      + apply in_flat_map in H. destruct H as [pr [_ H]]. apply witness_free.
        eapply input_pair_free; exact H. }
  destruct (((t_kind x =? 1) && (t_kind y =? 1)) || ((t_kind x =? 2) && (t_kind y =? 2))).
  { apply in_app_or in H. destruct H as [H|H].
    - unfold field_changes in H. apply in_app_or in H. destruct H as [H|H].
      + apply in_map_absent in H. destruct H as [v [-> Hv]]. unfold witness; cbn. rewrite WT.
        rewrite Hv. reflexivity.
      + apply in_app_or in H. destruct H as [H|H].
        * apply in_map_absent in H. destruct H as [v [-> Hv]]. unfold witness; cbn. rewrite WT. exact Hv.
        * apply in_flat_map in H. destruct H as [pr [_ H]]. apply witness_free.
          eapply field_pair_free; exact H.
    - unfold iface_changes in H. apply in_app_or in H. destruct H as [H|H];
        apply in_map_absent in H; destruct H as [v [-> Hv]]; unfold witness; cbn; rewrite WT; exact Hv. }
  destruct (t_kind x =? t_kind y) eqn:E; [contradiction|].
  destruct H as [<-|[]]. unfold witness; cbn. rewrite WT, E. reflexivity.
Qed.

Lemma directive_pair_free o n c : In c (directive_pair_changes leb o n) -> free_kind (c_kind c) = true.
Proof.
  unfold directive_pair_changes. intro H.
  repeat (apply in_app_or in H; destruct H as [H|H]).
  - apply in_map_iff in H. destruct H as [x [<- _]]. destruct (required x); reflexivity.
  - apply in_map_iff in H. destruct H as [x [<- _]]. reflexivity.
  - apply in_flat_map in H. destruct H as [pr [_ H]]. eapply arg_pair_free; exact H.
  - destruct (d_repeatable o && negb (d_repeatable n)); [destruct H as [<-|[]]; reflexivity|].
    destruct (d_repeatable n && negb (d_repeatable o)); [destruct H as [<-|[]]; reflexivity|contradiction].
  - rewrite (desc_change_kind _ _ _ _ H). reflexivity.
  - apply in_map_iff in H. destruct H as [x [<- _]]. reflexivity.
  - apply in_map_iff in H. destruct H as [x [<- _]]. reflexivity.
Qed.

Theorem diff_sound a b c :
  NoDup (map t_name (s_types a)) -> In c (diff leb a b) -> witness c a b = true.
Proof.
  intros Hnd H. unfold diff in H. apply in_app_or in H. destruct H as [H|H].
  - unfold type_changes in H. apply in_app_or in H. destruct H as [H|H].
    + apply in_map_absent in H. destruct H as [t [-> Ht]]. exact Ht.
    + apply in_app_or in H. destruct H as [H|H].
      * apply in_map_absent in H. destruct H as [t [-> Ht]]. exact Ht.
      * apply in_flat_map in H. destruct H as [[x y] [Hp H]].
        apply persisted_in in Hp. destruct Hp as [Hin Hy].
        apply (type_pair_sound a b x y c); [apply find_by_in; assumption|exact Hy|exact H].
  - unfold directive_changes in H. apply in_app_or in H. destruct H as [H|H].
    + apply in_map_absent in H. destruct H as [t [-> Ht]]. exact Ht.
    + apply in_app_or in H. destruct H as [H|H].
      * apply in_map_absent in H. destruct H as [t [-> Ht]]. exact Ht.
      * apply in_flat_map in H. destruct H as [[x y] [_ H]]. apply witness_free.
        eapply directive_pair_free; exact H.
Qed.

End Sound.
