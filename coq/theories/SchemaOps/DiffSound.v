(* Soundness of the change detector: every reported change has a decidable witness in the two
   schemas (the element it names is present / absent / different as the change kind says). *)
From GV Require Import Base.Prelude SchemaOps.Schema SchemaOps.Sort SchemaOps.Diff SchemaOps.DiffProps.

Definition in_not_in {A} (key : A -> name) (n : name) (l l' : list A) : bool :=
  has key n l && negb (has key n l').

(* both containers have an element of that name, and the two elements satisfy f *)
Definition with2 {A} (key : A -> name) (n : name) (l l' : list A) (f : A -> A -> bool) : bool :=
  match find_by key n l, find_by key n l' with
  | Some x, Some y => f x y
  | _, _ => false
  end.

Section Witness.
Variable leb : name -> name -> bool.

(* witness of a change between two persisted arguments *)
Definition arg_witness (k : N) (o n : arg) : bool :=
  match k with
  | 42 | 79 => negb (tref_eqb (a_type o) (a_type n))           (* ARG_CHANGED_KIND(_SAFE) *)
  | 65 => match a_default o, a_default n with                  (* ARG_DEFAULT_VALUE_CHANGE *)
          | Some _, None => true
          | Some x, Some y => negb (default_eqb leb x y)
          | _, _ => false
          end
  | 80 => match a_default o, a_default n with None, Some _ => true | _, _ => false end
  | 81 => negb (otext_eqb (a_desc o) (a_desc n))
  | _ => false
  end.

Definition witness (c : change) (a b : schema) : bool :=
  let T := with2 t_name in
  let ta := s_types a in let tb := s_types b in
  let da := s_directives a in let db := s_directives b in
  match c_kind c, c_path c with
  | 10, [t] => in_not_in t_name t ta tb                                        (* TYPE_REMOVED *)
  | 70, [t] => in_not_in t_name t tb ta                                        (* TYPE_ADDED *)
  | 50, [d] => in_not_in d_name d da db                                        (* DIRECTIVE_REMOVED *)
  | 73, [d] => in_not_in d_name d db da                                        (* DIRECTIVE_ADDED *)
  | 11, [t] => T t ta tb (fun x y => negb (t_kind x =? t_kind y))              (* TYPE_CHANGED_KIND *)
  | 30, [t; f] => T t ta tb (fun x y =>                                        (* FIELD_REMOVED *)
                    in_not_in f_name f (t_fields x) (t_fields y) || in_not_in a_name f (t_inputs x) (t_inputs y))
  | 74, [t; f] => T t ta tb (fun x y => in_not_in f_name f (t_fields y) (t_fields x))     (* FIELD_ADDED *)
  | 21, [t; v] => T t ta tb (fun x y => in_not_in e_name v (t_values x) (t_values y))     (* VALUE_REMOVED_FROM_ENUM *)
  | 60, [t; v] => T t ta tb (fun x y => in_not_in e_name v (t_values y) (t_values x))     (* VALUE_ADDED_TO_ENUM *)
  | 20, [t; m] => T t ta tb (fun x y => in_not_in idn m (t_members x) (t_members y))      (* TYPE_REMOVED_FROM_UNION *)
  | 61, [t; m] => T t ta tb (fun x y => in_not_in idn m (t_members y) (t_members x))      (* TYPE_ADDED_TO_UNION *)
  | 23, [t; i] => T t ta tb (fun x y => in_not_in idn i (t_ifaces x) (t_ifaces y))        (* IMPLEMENTED_INTERFACE_REMOVED *)
  | 64, [t; i] => T t ta tb (fun x y => in_not_in idn i (t_ifaces y) (t_ifaces x))        (* IMPLEMENTED_INTERFACE_ADDED *)
  | 22, [t; f] | 62, [t; f] =>                                                 (* REQUIRED/OPTIONAL_INPUT_FIELD_ADDED *)
      T t ta tb (fun x y => in_not_in a_name f (t_inputs y) (t_inputs x))
  | 31, [t; f] | 78, [t; f] =>                                                 (* FIELD_CHANGED_KIND(_SAFE) *)
      T t ta tb (fun x y =>
        with2 f_name f (t_fields x) (t_fields y) (fun p q => negb (tref_eqb (f_type p) (f_type q)))
        || with2 a_name f (t_inputs x) (t_inputs y) (fun p q => negb (tref_eqb (a_type p) (a_type q))))
  | 41, [t; f; g] =>                                                           (* ARG_REMOVED *)
      T t ta tb (fun x y => with2 f_name f (t_fields x) (t_fields y) (fun p q =>
        in_not_in a_name g (f_args p) (f_args q)))
  | 40, [t; f; g] | 63, [t; f; g] =>                                           (* REQUIRED/OPTIONAL_ARG_ADDED *)
      T t ta tb (fun x y => with2 f_name f (t_fields x) (t_fields y) (fun p q =>
        in_not_in a_name g (f_args q) (f_args p)))
  | 42, [t; f; g] | 79, [t; f; g] | 65, [t; f; g] | 80, [t; f; g] | 81, [t; f; g] =>  (* argument of a field changed *)
      T t ta tb (fun x y => with2 f_name f (t_fields x) (t_fields y) (fun p q =>
        with2 a_name g (f_args p) (f_args q) (arg_witness (c_kind c))))
  | 42, [d; g] | 79, [d; g] | 65, [d; g] | 80, [d; g] =>                         (* argument of a directive changed *)
      with2 d_name d da db (fun o n => with2 a_name g (d_args o) (d_args n) (arg_witness (c_kind c)))
  | 51, [d; g] => with2 d_name d da db (fun o n => in_not_in a_name g (d_args o) (d_args n))   (* DIRECTIVE_ARG_REMOVED *)
  | 52, [d; g] | 77, [d; g] =>                                                 (* REQUIRED/OPTIONAL_DIRECTIVE_ARG_ADDED *)
      with2 d_name d da db (fun o n => in_not_in a_name g (d_args n) (d_args o))
  | 53, [d] => with2 d_name d da db (fun o n => d_repeatable o && negb (d_repeatable n))
  | 75, [d] => with2 d_name d da db (fun o n => d_repeatable n && negb (d_repeatable o))
  | 54, [d; l] => with2 d_name d da db (fun o n => mem_name l (d_locs o) && negb (mem_name l (d_locs n)))
  | 76, [d; l] => with2 d_name d da db (fun o n => mem_name l (d_locs n) && negb (mem_name l (d_locs o)))
  | 81, [t] =>                                                                 (* DESCRIPTION_CHANGED: type / directive *)
      T t ta tb (fun x y => negb (otext_eqb (t_desc x) (t_desc y)))
      || with2 d_name t da db (fun o n => negb (otext_eqb (d_desc o) (d_desc n)))
  | 81, [t; f] =>                                (* field / input field / enum value / directive argument *)
      T t ta tb (fun x y =>
        with2 f_name f (t_fields x) (t_fields y) (fun p q => negb (otext_eqb (f_desc p) (f_desc q)))
        || with2 a_name f (t_inputs x) (t_inputs y) (fun p q => negb (otext_eqb (a_desc p) (a_desc q)))
        || with2 e_name f (t_values x) (t_values y) (fun p q => negb (otext_eqb (e_desc p) (e_desc q))))
      || with2 d_name t da db (fun o n => with2 a_name f (d_args o) (d_args n) (arg_witness 81))
  | _, _ => false
  end.

(* ---- proofs *)
Lemma in_absent {A} (key : A -> name) x l other :
  In x (absent key key l other) -> in_not_in key (key x) l other = true.
Proof.
  unfold absent, in_not_in. intro H. apply filter_In in H. destruct H as [Hin Hn].
  rewrite (has_in key (key x) l) by (apply in_map; exact Hin). exact Hn.
Qed.

Lemma in_map_absent {A} (key : A -> name) (mk : A -> change) c l other :
  In c (map mk (absent key key l other)) ->
  exists x, c = mk x /\ in_not_in key (key x) l other = true.
Proof.
  intro H. apply in_map_iff in H. destruct H as [x [<- Hx]]. exists x. split; [reflexivity|].
  apply in_absent. exact Hx.
Qed.

Lemma desc_change_in p a b c :
  In c (desc_change p a b) -> c = mkChange DESCRIPTION_CHANGED p /\ otext_eqb a b = false.
Proof.
  unfold desc_change. destruct (otext_eqb a b); cbn; [contradiction|]. intros [<-|[]]. auto.
Qed.

(* a persisted pair is found under its name in both containers *)
Lemma persisted_with2 {A} (key : A -> name) o n l l' (f : A -> A -> bool) :
  NoDup (map key l) -> In (o, n) (persisted key l l') -> with2 key (key o) l l' f = f o n.
Proof.
  intros Hnd H. apply persisted_in in H. destruct H as [Hin Hf].
  unfold with2. rewrite (find_by_in key o l Hnd Hin), Hf. reflexivity.
Qed.

Lemma safe_in_false_neq o n : safe_in o n = false -> tref_eqb o n = false.
Proof.
  intro H. destruct (tref_eqb o n) eqn:E; [|reflexivity].
  assert (o = n).
  { clear H. revert n E. induction o; intros [] E; cbn in E; try discriminate;
      [apply text_eqb_true in E; congruence | f_equal; auto | f_equal; auto]. }
  subst. rewrite safe_in_refl in H. discriminate.
Qed.

Lemma safe_out_false_neq o n : safe_out o n = false -> tref_eqb o n = false.
Proof.
  intro H. destruct (tref_eqb o n) eqn:E; [|reflexivity].
  assert (o = n).
  { clear H. revert n E. induction o; intros [] E; cbn in E; try discriminate;
      [apply text_eqb_true in E; congruence | f_equal; auto | f_equal; auto]. }
  subst. rewrite safe_out_refl in H. discriminate.
Qed.

(* changes of a persisted argument pair: kind, path and witness *)
Lemma arg_pair_in p o n c :
  In c (arg_pair_changes leb p o n) ->
  c_path c = p ++ [a_name o] /\ arg_witness (c_kind c) o n = true
  /\ (c_kind c = 42 \/ c_kind c = 79 \/ c_kind c = 65 \/ c_kind c = 80 \/ c_kind c = 81).
Proof.
  unfold arg_pair_changes. intro H. apply in_app_or in H. destruct H as [H|H].
  - destruct (safe_in (a_type o) (a_type n)) eqn:Es; cbn [negb] in H.
    + destruct (a_default o) as [x|] eqn:Eo, (a_default n) as [y|] eqn:En.
      * destruct (default_eqb leb x y) eqn:Ed; [contradiction|]. destruct H as [<-|[]].
        split; [reflexivity|]. split; [cbn; rewrite Eo, En, Ed; reflexivity|auto 8].
      * destruct H as [<-|[]].
        split; [reflexivity|]. split; [cbn; rewrite Eo, En; reflexivity|auto 8].
      * destruct H as [<-|[]].
        split; [reflexivity|]. split; [cbn; rewrite Eo, En; reflexivity|auto 8].
      * destruct (tref_eqb (a_type o) (a_type n)) eqn:Et; [contradiction|]. destruct H as [<-|[]].
        split; [reflexivity|]. split; [cbn; rewrite Et; reflexivity|auto 8].
    + destruct H as [<-|[]].
      split; [reflexivity|]. split; [cbn; rewrite (safe_in_false_neq _ _ Es); reflexivity|auto 8].
  - apply desc_change_in in H. destruct H as [-> Hd].
    split; [reflexivity|]. split; [cbn; rewrite Hd; reflexivity|auto 8].
Qed.

Lemma with2_ext {A} (key : A -> name) n l l' (f g : A -> A -> bool) :
  (forall x y, f x y = g x y) -> with2 key n l l' f = with2 key n l l' g.
Proof. intro H. unfold with2. destruct (find_by key n l), (find_by key n l'); auto. Qed.

Section Types.
Variables a b : schema.
Hypothesis Hwf : wf a.

(* x / y : a persisted pair of types *)
Variables x y : typedef.
Hypothesis Hx : find_by t_name (t_name x) (s_types a) = Some x.
Hypothesis Hy : find_by t_name (t_name x) (s_types b) = Some y.
Hypothesis Wx : wf_type x.

Lemma WT f : with2 t_name (t_name x) (s_types a) (s_types b) f = f x y.
Proof. unfold with2. rewrite Hx, Hy. reflexivity. Qed.

Lemma field_pair_sound o n c :
  In (o, n) (persisted f_name (t_fields x) (t_fields y)) ->
  In c (field_pair_changes leb (t_name x) o n) -> witness c a b = true.
Proof.
  intros Hp H. destruct Wx as (Wf & Wff & _ & _).
  assert (Wo : wf_field o).
  { apply persisted_in in Hp. destruct Hp as [Hin _]. rewrite Forall_forall in Wff. apply Wff. exact Hin. }
  assert (WF : forall f, with2 f_name (f_name o) (t_fields x) (t_fields y) f = f o n)
    by (intro f; apply persisted_with2; assumption).
  unfold field_pair_changes in H. apply in_app_or in H. destruct H as [H|H].
  - (* arguments *)
    unfold field_arg_changes in H. apply in_app_or in H. destruct H as [H|H].
    + apply in_map_absent in H. destruct H as [g [-> Hg]]. unfold witness; cbn. rewrite WT, WF. exact Hg.
    + apply in_app_or in H. destruct H as [H|H].
      * apply in_flat_map in H. destruct H as [[ao an] [Hpa H]].
        destruct (arg_pair_in _ _ _ _ H) as (Hpath & Hw & Hk). cbn in H.
        assert (WA : forall f, with2 a_name (a_name ao) (f_args o) (f_args n) f = f ao an)
          by (intro f; apply persisted_with2; assumption).
        unfold witness. rewrite Hpath. cbn [app fst snd].
        destruct Hk as [Hk|[Hk|[Hk|[Hk|Hk] ] ] ]; rewrite Hk in *; cbn; rewrite WT, WF, WA; exact Hw.
      * apply in_map_absent in H. destruct H as [g [-> Hg]].
        destruct (required g); unfold witness; cbn; rewrite WT, WF; exact Hg.
  - apply in_app_or in H. destruct H as [H|H].
    + destruct (safe_out (f_type o) (f_type n)) eqn:Es; cbn [negb] in H.
      * destruct (tref_eqb (f_type o) (f_type n)) eqn:Et; [contradiction|]. destruct H as [<-|[]].
        unfold witness; cbn. rewrite WT, WF, Et. reflexivity.
      * destruct H as [<-|[]]. unfold witness; cbn. rewrite WT, WF, (safe_out_false_neq _ _ Es). reflexivity.
    + apply desc_change_in in H. destruct H as [-> Hd]. unfold witness; cbn. rewrite WT, WF, Hd. reflexivity.
Qed.

Lemma type_pair_sound c : In c (type_pair_changes leb x y) -> witness c a b = true.
Proof.
  intro H. unfold type_pair_changes in H. destruct Wx as (Wf & Wff & Wv & Wi).
  apply in_app_or in H. destruct H as [H|H].
  { apply desc_change_in in H. destruct H as [-> Hd]. unfold witness; cbn. rewrite WT, Hd. reflexivity. }
  destruct ((t_kind x =? 4) && (t_kind y =? 4)).
  { unfold enum_changes in H. apply in_app_or in H. destruct H as [H|H].
    - apply in_map_absent in H. destruct H as [v [-> Hv]]. unfold witness; cbn. rewrite WT. exact Hv.
    - apply in_app_or in H. destruct H as [H|H].
      + apply in_map_absent in H. destruct H as [v [-> Hv]]. unfold witness; cbn. rewrite WT. exact Hv.
      + apply in_flat_map in H. destruct H as [[vo vn] [Hp H]]. cbn in H.
        apply desc_change_in in H. destruct H as [-> Hd]. unfold witness; cbn. rewrite WT.
        rewrite (persisted_with2 e_name vo vn _ _ _ Wv Hp), Hd. cbn. rewrite !orb_true_r. reflexivity. }
  destruct ((t_kind x =? 3) && (t_kind y =? 3)).
  { unfold union_changes in H. apply in_app_or in H. destruct H as [H|H];
      apply in_map_absent in H; destruct H as [v [-> Hv]]; unfold witness; cbn; rewrite WT; exact Hv. }
  destruct ((t_kind x =? 5) && (t_kind y =? 5)).
  { unfold input_changes in H. apply in_app_or in H. destruct H as [H|H].
    - apply in_map_absent in H. destruct H as [v [-> Hv]].
      destruct (required v); unfold witness; cbn; rewrite WT; exact Hv.
    - apply in_app_or in H. destruct H as [H|H].
      + apply in_map_absent in H. destruct H as [v [-> Hv]]. unfold witness; cbn. rewrite WT.
        rewrite Hv. apply orb_true_r.
      + apply in_flat_map in H. destruct H as [[io inn] [Hp H]]. cbn in H.
        assert (WI : forall f, with2 a_name (a_name io) (t_inputs x) (t_inputs y) f = f io inn)
          by (intro f; apply persisted_with2; assumption).
        unfold input_pair_changes in H. apply in_app_or in H. destruct H as [H|H].
        * destruct (safe_in (a_type io) (a_type inn)) eqn:Es; cbn [negb] in H.
          -- destruct (tref_eqb (a_type io) (a_type inn)) eqn:Et; [contradiction|]. destruct H as [<-|[]].
             unfold witness; cbn. rewrite WT, WI, Et. apply orb_true_r.
          -- destruct H as [<-|[]]. unfold witness; cbn. rewrite WT, WI, (safe_in_false_neq _ _ Es). apply orb_true_r.
        * apply desc_change_in in H. destruct H as [-> Hd]. unfold witness; cbn. rewrite WT, WI, Hd. cbn.
          rewrite orb_true_r. reflexivity. }
  destruct (((t_kind x =? 1) && (t_kind y =? 1)) || ((t_kind x =? 2) && (t_kind y =? 2))).
  { apply in_app_or in H. destruct H as [H|H].
    - unfold field_changes in H. apply in_app_or in H. destruct H as [H|H].
      + apply in_map_absent in H. destruct H as [v [-> Hv]]. unfold witness; cbn. rewrite WT.
        rewrite Hv. reflexivity.
      + apply in_app_or in H. destruct H as [H|H].
        * apply in_map_absent in H. destruct H as [v [-> Hv]]. unfold witness; cbn. rewrite WT. exact Hv.
        * apply in_flat_map in H. destruct H as [[fo fn] [Hp H]]. cbn in H.
          eapply field_pair_sound; eassumption.
    - unfold iface_changes in H. apply in_app_or in H. destruct H as [H|H];
        apply in_map_absent in H; destruct H as [v [-> Hv]]; unfold witness; cbn; rewrite WT; exact Hv. }
  destruct (t_kind x =? t_kind y) eqn:E; [contradiction|].
  destruct H as [<-|[]]. unfold witness; cbn. rewrite WT, E. reflexivity.
Qed.
End Types.

Lemma directive_pair_sound a b o n c :
  NoDup (map d_name (s_directives a)) -> wf_dir o ->
  In (o, n) (persisted d_name (s_directives a) (s_directives b)) ->
  In c (directive_pair_changes leb o n) -> witness c a b = true.
Proof.
  intros Hnd Wo Hp H.
  assert (WD : forall f, with2 d_name (d_name o) (s_directives a) (s_directives b) f = f o n)
    by (intro f; apply persisted_with2; assumption).
  unfold directive_pair_changes in H.
  repeat (apply in_app_or in H; destruct H as [H|H]).
  - apply in_map_absent in H. destruct H as [g [-> Hg]].
    destruct (required g); unfold witness; cbn; rewrite WD; exact Hg.
  - apply in_map_absent in H. destruct H as [g [-> Hg]]. unfold witness; cbn. rewrite WD. exact Hg.
  - apply in_flat_map in H. destruct H as [[ao an] [Hpa H]]. cbn in H.
    destruct (arg_pair_in _ _ _ _ H) as (Hpath & Hw & Hk).
    assert (WA : forall f, with2 a_name (a_name ao) (d_args o) (d_args n) f = f ao an)
      by (intro f; apply persisted_with2; assumption).
    unfold witness. rewrite Hpath. cbn [app].
    destruct Hk as [Hk|[Hk|[Hk|[Hk|Hk] ] ] ]; rewrite Hk in *; cbn; rewrite WD, WA; try exact Hw.
    rewrite Hw. apply orb_true_r.
  - destruct (d_repeatable o && negb (d_repeatable n)) eqn:E1.
    + destruct H as [<-|[]]. unfold witness; cbn. rewrite WD. exact E1.
    + destruct (d_repeatable n && negb (d_repeatable o)) eqn:E2; [|contradiction].
      destruct H as [<-|[]]. unfold witness; cbn. rewrite WD. exact E2.
  - apply desc_change_in in H. destruct H as [-> Hd]. unfold witness; cbn. rewrite WD, Hd. apply orb_true_r.
  - apply in_map_iff in H. destruct H as [l [<- Hl]]. apply filter_In in Hl. destruct Hl as [Hin Hn].
    unfold witness; cbn. rewrite WD, (mem_name_in l (d_locs o) Hin), Hn. reflexivity.
  - apply in_map_iff in H. destruct H as [l [<- Hl]]. apply filter_In in Hl. destruct Hl as [Hin Hn].
    unfold witness; cbn. rewrite WD, (mem_name_in l (d_locs n) Hin), Hn. reflexivity.
Qed.

Theorem diff_sound a b c : wf a -> In c (diff leb a b) -> witness c a b = true.
Proof.
  intros (Wt & Wtt & Wd & Wdd) H. unfold diff in H. apply in_app_or in H. destruct H as [H|H].
  - unfold type_changes in H. apply in_app_or in H. destruct H as [H|H].
    + apply in_map_absent in H. destruct H as [t [-> Ht]]. exact Ht.
    + apply in_app_or in H. destruct H as [H|H].
      * apply in_map_absent in H. destruct H as [t [-> Ht]]. exact Ht.
      * apply in_flat_map in H. destruct H as [[x y] [Hp H]].
        apply persisted_in in Hp. destruct Hp as [Hin Hy].
        apply (type_pair_sound a b x y); [apply find_by_in; assumption|exact Hy| |exact H].
        rewrite Forall_forall in Wtt. apply Wtt. exact Hin.
  - unfold directive_changes in H. apply in_app_or in H. destruct H as [H|H].
    + apply in_map_absent in H. destruct H as [t [-> Ht]]. exact Ht.
    + apply in_app_or in H. destruct H as [H|H].
      * apply in_map_absent in H. destruct H as [t [-> Ht]]. exact Ht.
      * apply in_flat_map in H. destruct H as [[o n] [Hp H]].
        apply (directive_pair_sound a b o n c Wd); [|exact Hp|exact H].
        apply persisted_in in Hp. destruct Hp as [Hin _]. rewrite Forall_forall in Wdd. apply Wdd. exact Hin.
Qed.

End Witness.
