(* Introspection: the result of the standard introspection query as JSON, under the 7 options of
   get_introspection_query; pruning of the full result; single-type lookup.  Definitions only.
   Default values appear as printed literals: the value printer is a parameter. *)
From GV Require Import Base.Prelude SchemaOps.Schema.

Inductive json : Type :=
| JNull
| JBool (b : bool)
| JStr (s : list N)
| JArr (l : list json)
| JObj (l : list (list N * json)).

Definition k_schema : list N := [95; 95; 115; 99; 104; 101; 109; 97].  (* __schema *)
Definition k_description : list N := [100; 101; 115; 99; 114; 105; 112; 116; 105; 111; 110].  (* description *)
Definition k_queryType : list N := [113; 117; 101; 114; 121; 84; 121; 112; 101].  (* queryType *)
Definition k_mutationType : list N := [109; 117; 116; 97; 116; 105; 111; 110; 84; 121; 112; 101].  (* mutationType *)
Definition k_subscriptionType : list N := [115; 117; 98; 115; 99; 114; 105; 112; 116; 105; 111; 110; 84; 121; 112; 101].  (* subscriptionType *)
Definition k_types : list N := [116; 121; 112; 101; 115].  (* types *)
Definition k_directives : list N := [100; 105; 114; 101; 99; 116; 105; 118; 101; 115].  (* directives *)
Definition k_name : list N := [110; 97; 109; 101].  (* name *)
Definition k_kind : list N := [107; 105; 110; 100].  (* kind *)
Definition k_isRepeatable : list N := [105; 115; 82; 101; 112; 101; 97; 116; 97; 98; 108; 101].  (* isRepeatable *)
Definition k_isDeprecated : list N := [105; 115; 68; 101; 112; 114; 101; 99; 97; 116; 101; 100].  (* isDeprecated *)
Definition k_deprecationReason : list N := [100; 101; 112; 114; 101; 99; 97; 116; 105; 111; 110; 82; 101; 97; 115; 111; 110].  (* deprecationReason *)
Definition k_locations : list N := [108; 111; 99; 97; 116; 105; 111; 110; 115].  (* locations *)
Definition k_args : list N := [97; 114; 103; 115].  (* args *)
Definition k_specifiedByURL : list N := [115; 112; 101; 99; 105; 102; 105; 101; 100; 66; 121; 85; 82; 76].  (* specifiedByURL *)
Definition k_isOneOf : list N := [105; 115; 79; 110; 101; 79; 102].  (* isOneOf *)
Definition k_fields : list N := [102; 105; 101; 108; 100; 115].  (* fields *)
Definition k_inputFields : list N := [105; 110; 112; 117; 116; 70; 105; 101; 108; 100; 115].  (* inputFields *)
Definition k_interfaces : list N := [105; 110; 116; 101; 114; 102; 97; 99; 101; 115].  (* interfaces *)
Definition k_enumValues : list N := [101; 110; 117; 109; 86; 97; 108; 117; 101; 115].  (* enumValues *)
Definition k_possibleTypes : list N := [112; 111; 115; 115; 105; 98; 108; 101; 84; 121; 112; 101; 115].  (* possibleTypes *)
Definition k_type : list N := [116; 121; 112; 101].  (* type *)
Definition k_defaultValue : list N := [100; 101; 102; 97; 117; 108; 116; 86; 97; 108; 117; 101].  (* defaultValue *)
Definition k_ofType : list N := [111; 102; 84; 121; 112; 101].  (* ofType *)
Definition k_SCALAR : list N := [83; 67; 65; 76; 65; 82].  (* SCALAR *)
Definition k_OBJECT : list N := [79; 66; 74; 69; 67; 84].  (* OBJECT *)
Definition k_INTERFACE : list N := [73; 78; 84; 69; 82; 70; 65; 67; 69].  (* INTERFACE *)
Definition k_UNION : list N := [85; 78; 73; 79; 78].  (* UNION *)
Definition k_ENUM : list N := [69; 78; 85; 77].  (* ENUM *)
Definition k_INPUT_OBJECT : list N := [73; 78; 80; 85; 84; 95; 79; 66; 74; 69; 67; 84].  (* INPUT_OBJECT *)
Definition k_LIST : list N := [76; 73; 83; 84].  (* LIST *)
Definition k_NON_NULL : list N := [78; 79; 78; 95; 78; 85; 76; 76].  (* NON_NULL *)

Record opts := mkOpts {
  o_descriptions : bool; o_specified_by_url : bool; o_directive_is_repeatable : bool;
  o_schema_description : bool; o_input_value_deprecation : bool;
  o_directive_deprecation : bool; o_one_of : bool }.

Definition full : opts := mkOpts true true true true true true true.

Definition jopt (o : otext) : json := match o with Some s => JStr s | None => JNull end.
Definition is_some {A} (o : option A) : bool := match o with Some _ => true | None => false end.

(* a key/value pair that is present only when the option is on *)
Definition kv_if (b : bool) (k : list N) (v : json) : list (list N * json) := if b then [(k, v)] else [].

Definition kind_name (k : N) : list N :=
  if k =? 0 then k_SCALAR else if k =? 1 then k_OBJECT else if k =? 2 then k_INTERFACE
  else if k =? 3 then k_UNION else if k =? 4 then k_ENUM else k_INPUT_OBJECT.

Section Introspect.
Variable pv : value -> list N.     (* print_ast of a default value literal *)
Variable s : schema.

Definition kind_of_named (n : name) : json :=
  match find_by t_name n (s_types s) with
  | Some t => JStr (kind_name (t_kind t))
  | None => JNull
  end.

(* fragment TypeRef with [depth] further ofType levels (type_depth = 9) *)
Fixpoint typeref (depth : nat) (t : tref) : json :=
  let of_type (inner : option tref) : list (list N * json) :=
    match depth with
    | O => []
    | S d => [(k_ofType, match inner with Some i => typeref d i | None => JNull end)]
    end in
  match t with
  | TNamed n => JObj ([(k_kind, kind_of_named n); (k_name, JStr n)] ++ of_type None)
  | TList i => JObj ([(k_kind, JStr k_LIST); (k_name, JNull)] ++ of_type (Some i))
  | TNonNull i => JObj ([(k_kind, JStr k_NON_NULL); (k_name, JNull)] ++ of_type (Some i))
  end.

Definition TYPE_DEPTH : nat := 9.

Section WithOpts.
Variable o : opts.

Definition input_value (a : arg) : json :=
  JObj ([(k_name, JStr (a_name a))]
        ++ kv_if (o_descriptions o) k_description (jopt (a_desc a))
        ++ [(k_type, typeref TYPE_DEPTH (a_type a));
            (k_defaultValue, match a_default a with Some v => JStr (pv v) | None => JNull end)]
        ++ kv_if (o_input_value_deprecation o) k_isDeprecated (JBool (is_some (a_depr a)))
        ++ kv_if (o_input_value_deprecation o) k_deprecationReason (jopt (a_depr a))).

(* args / inputFields: deprecated ones only with includeDeprecated: true *)
Definition input_values (l : list arg) : json :=
  JArr (map input_value
          (filter (fun a => o_input_value_deprecation o || negb (is_some (a_depr a))) l)).

Definition field_json (f : field) : json :=
  JObj ([(k_name, JStr (f_name f))]
        ++ kv_if (o_descriptions o) k_description (jopt (f_desc f))
        ++ [(k_args, input_values (f_args f)); (k_type, typeref TYPE_DEPTH (f_type f));
            (k_isDeprecated, JBool (is_some (f_depr f))); (k_deprecationReason, jopt (f_depr f))]).

Definition enum_value_json (e : enumval) : json :=
  JObj ([(k_name, JStr (e_name e))]
        ++ kv_if (o_descriptions o) k_description (jopt (e_desc e))
        ++ [(k_isDeprecated, JBool (is_some (e_depr e))); (k_deprecationReason, jopt (e_depr e))]).

Definition named_ref (n : name) : json := typeref TYPE_DEPTH (TNamed n).

(* schema.get_possible_types: union members; object implementations of an interface in type-map order *)
Definition possible_types (t : typedef) : json :=
  if t_kind t =? 3 then JArr (map named_ref (t_members t))
  else if t_kind t =? 2 then
    JArr (map (fun x => named_ref (t_name x))
            (filter (fun x => (t_kind x =? 1) && mem_name (t_name t) (t_ifaces x)) (s_types s)))
  else JNull.

Definition type_json (t : typedef) : json :=
  let fielded := (t_kind t =? 1) || (t_kind t =? 2) in
  JObj ([(k_kind, JStr (kind_name (t_kind t))); (k_name, JStr (t_name t))]
        ++ kv_if (o_descriptions o) k_description (jopt (t_desc t))
        ++ kv_if (o_specified_by_url o) k_specifiedByURL (if t_kind t =? 0 then jopt (t_specified_by t) else JNull)
        ++ kv_if (o_one_of o) k_isOneOf (if t_kind t =? 5 then JBool (t_oneof t) else JNull)
        ++ [(k_fields, if fielded then JArr (map field_json (t_fields t)) else JNull);
            (k_inputFields, if t_kind t =? 5 then input_values (t_inputs t) else JNull);
            (k_interfaces, if fielded then JArr (map named_ref (t_ifaces t)) else JNull);
            (k_enumValues, if t_kind t =? 4 then JArr (map enum_value_json (t_values t)) else JNull);
            (k_possibleTypes, possible_types t)]).

Definition directive_json (d : directive) : json :=
  JObj ([(k_name, JStr (d_name d))]
        ++ kv_if (o_descriptions o) k_description (jopt (d_desc d))
        ++ kv_if (o_directive_is_repeatable o) k_isRepeatable (JBool (d_repeatable d))
        ++ kv_if (o_directive_deprecation o) k_isDeprecated (JBool (is_some (d_depr d)))
        ++ kv_if (o_directive_deprecation o) k_deprecationReason (jopt (d_depr d))
        ++ [(k_locations, JArr (map JStr (d_locs d))); (k_args, input_values (d_args d))]).

Definition root_json (r : option name) : json :=
  match r with
  | Some n => JObj [(k_name, JStr n); (k_kind, kind_of_named n)]
  | None => JNull
  end.

Definition schema_json : json :=
  JObj (kv_if (o_descriptions o && o_schema_description o) k_description (jopt (s_desc s))
        ++ [(k_queryType, root_json (s_query s)); (k_mutationType, root_json (s_mutation s));
            (k_subscriptionType, root_json (s_subscription s));
            (k_types, JArr (map type_json (s_types s)));
            (k_directives,
             JArr (map directive_json
                     (filter (fun d => o_directive_deprecation o || negb (is_some (d_depr d)))
                        (s_directives s))))]).

(* introspection_from_schema(s, **o) *)
Definition introspect : json := JObj [(k_schema, schema_json)].

(* { __type(name: n) { ...FullType } } *)
Definition type_lookup (n : name) : json :=
  match find_by t_name n (s_types s) with
  | Some t => type_json t
  | None => JNull
  end.

End WithOpts.
End Introspect.

(* ---- pruning the full result down to what the options select *)
Definition keep_keys (keep : list N -> bool) (j : json) : json :=
  match j with
  | JObj l => JObj (filter (fun kv => keep (fst kv)) l)
  | _ => j
  end.

Definition at_key (k : list N) (f : json -> json) (j : json) : json :=
  match j with
  | JObj l => JObj (map (fun kv => if text_eqb (fst kv) k then (fst kv, f (snd kv)) else kv) l)
  | _ => j
  end.

Definition each (f : json -> json) (j : json) : json :=
  match j with JArr l => JArr (map f l) | _ => j end.

Definition only (p : json -> bool) (j : json) : json :=
  match j with JArr l => JArr (filter p l) | _ => j end.

Definition get_key (k : list N) (j : json) : json :=
  match j with
  | JObj l => match find_by fst k l with Some kv => snd kv | None => JNull end
  | _ => JNull
  end.

Definition not_deprecated (j : json) : bool :=
  match get_key k_isDeprecated j with JBool true => false | _ => true end.

Definition is_key (k k' : list N) : bool := text_eqb k' k.

Section Prune.
Variable o : opts.

Definition prune_input_value (j : json) : json :=
  keep_keys (fun k => negb ((is_key k_description k && negb (o_descriptions o))
                            || ((is_key k_isDeprecated k || is_key k_deprecationReason k)
                                && negb (o_input_value_deprecation o)))) j.

Definition prune_input_values (j : json) : json :=
  each prune_input_value (if o_input_value_deprecation o then j else only not_deprecated j).

Definition drop_description (j : json) : json :=
  keep_keys (fun k => negb (is_key k_description k && negb (o_descriptions o))) j.

Definition prune_field (j : json) : json :=
  at_key k_args prune_input_values (drop_description j).

Definition prune_type (j : json) : json :=
  at_key k_fields (each prune_field)
    (at_key k_inputFields prune_input_values
       (at_key k_enumValues (each drop_description)
          (keep_keys (fun k => negb ((is_key k_description k && negb (o_descriptions o))
                                     || (is_key k_specifiedByURL k && negb (o_specified_by_url o))
                                     || (is_key k_isOneOf k && negb (o_one_of o)))) j))).

Definition prune_directive (j : json) : json :=
  at_key k_args prune_input_values
    (keep_keys (fun k => negb ((is_key k_description k && negb (o_descriptions o))
                               || (is_key k_isRepeatable k && negb (o_directive_is_repeatable o))
                               || ((is_key k_isDeprecated k || is_key k_deprecationReason k)
                                   && negb (o_directive_deprecation o)))) j).

Definition prune_directives (j : json) : json :=
  each prune_directive (if o_directive_deprecation o then j else only not_deprecated j).

Definition prune_schema (j : json) : json :=
  at_key k_types (each prune_type)
    (at_key k_directives prune_directives
       (keep_keys (fun k => negb (is_key k_description k
                                  && negb (o_descriptions o && o_schema_description o))) j)).

Definition prune (j : json) : json := at_key k_schema prune_schema j.

End Prune.

(* the entry of the type list carrying the name *)
Definition entry_named (n : name) (result : json) : json :=
  match get_key k_types (get_key k_schema result) with
  | JArr l => match find (fun t => match get_key k_name t with JStr m => text_eqb m n | _ => false end) l with
              | Some t => t
              | None => JNull
              end
  | _ => JNull
  end.
