(* build_client (introspect s full) = s. *)
From GV Require Import Base.Prelude SchemaOps.Schema SchemaOps.Introspect SchemaOps.IntrospectProps SchemaOps.Client.

Fixpoint tref_depth (t : tref) : nat :=
  match t with TNamed _ => O | TList i => S (tref_depth i) | TNonNull i => S (tref_depth i) end.

(* [okv]: the default-value literals for which the printer / parser pair of literals round-trips *)
Definition arg_okv (okv : value -> Prop) (a : arg) : Prop :=
  (tref_depth (a_type a) <= TYPE_DEPTH)%nat /\ match a_default a with Some v => okv v | None => True end.
Definition field_okv okv (f : field) : Prop :=
  (tref_depth (f_type f) <= TYPE_DEPTH)%nat /\ Forall (arg_okv okv) (f_args f).

(* containers that do not apply to the kind of a type are empty (introspection cannot carry them) *)
Definition canonical_type (t : typedef) : Prop :=
  t_kind t <= 5
  /\ (t_kind t <> 1 -> t_kind t <> 2 -> t_fields t = [] /\ t_ifaces t = [])
  /\ (t_kind t <> 3 -> t_members t = [])
  /\ (t_kind t <> 4 -> t_values t = [])
  /\ (t_kind t <> 5 -> t_inputs t = [] /\ t_oneof t = false)
  /\ (t_kind t <> 0 -> t_specified_by t = None).

Definition type_okv okv (t : typedef) : Prop :=
  canonical_type t /\ Forall (field_okv okv) (t_fields t) /\ Forall (arg_okv okv) (t_inputs t).
Definition dir_okv okv (d : directive) : Prop := Forall (arg_okv okv) (d_args d).
Definition client_okv okv (s : schema) : Prop :=
  Forall (type_okv okv) (s_types s) /\ Forall (dir_okv okv) (s_directives s).

(* no condition on the literals (for a printer / parser pair that round-trips on every literal) *)
Definition any_value (v : value) : Prop := True.
Definition arg_ok := arg_okv any_value.
Definition field_ok := field_okv any_value.
Definition type_ok := type_okv any_value.
Definition dir_ok := dir_okv any_value.
Definition client_ok := client_okv any_value.

Lemma mapM_map {A B} (f : B -> option A) (g : A -> B) l :
  (forall x, In x l -> f (g x) = Some x) -> mapM f (map g l) = Some l.
Proof.
  induction l as [|x r IH]; intro H; cbn; [reflexivity|].
  rewrite (H x) by (left; reflexivity). rewrite IH; [reflexivity|].
  intros y Hy. apply H. right. exact Hy.
Qed.

Lemma jotext_jopt d : jotext (jopt d) = d.
Proof. destruct d; reflexivity. Qed.

Lemma kind_name_not_wrapper k :
  nat_list_eqb (kind_name k) k_LIST = false /\ nat_list_eqb (kind_name k) k_NON_NULL = false.
Proof.
  unfold kind_name.
  destruct (k =? 0); [split; reflexivity|]. destruct (k =? 1); [split; reflexivity|].
  destruct (k =? 2); [split; reflexivity|]. destruct (k =? 3); [split; reflexivity|].
  destruct (k =? 4); split; reflexivity.
Qed.

Section Props.
Variable pv : value -> list N.
Variable parse : list N -> option value.
Variable okv : value -> Prop.
Hypothesis parse_print : forall v, okv v -> parse (pv v) = Some v.
Notation arg_ok := (arg_okv okv).
Notation field_ok := (field_okv okv).
Notation type_ok := (type_okv okv).
Notation dir_ok := (dir_okv okv).
Notation client_ok := (client_okv okv).
Variable s : schema.

Lemma tref_roundtrip d t : (tref_depth t <= d)%nat -> tref_of (S d) (typeref s d t) = Some t.
Proof.
  revert t. induction d as [|d IH]; intros t Hd.
  - destruct t; cbn in Hd; try lia. cbn -[kind_name].
    unfold kind_of_named. destruct (find_by t_name n (s_types s)); cbn -[kind_name]; [|reflexivity].
    unfold text_eqb. destruct (kind_name_not_wrapper (t_kind t)) as [H1 H2]. rewrite H1, H2. reflexivity.
  - destruct t as [n|i|i]; cbn [typeref tref_of].
    + cbn -[kind_name tref_of]. unfold kind_of_named.
      destruct (find_by t_name n (s_types s)); cbn -[kind_name tref_of]; [|reflexivity].
      unfold text_eqb. destruct (kind_name_not_wrapper (t_kind t)) as [H1 H2]. rewrite H1, H2. reflexivity.
    + cbn -[tref_of typeref].
      change (option_map TList (tref_of (S d) (typeref s d i)) = Some (TList i)).
      rewrite IH by (cbn in Hd; lia). reflexivity.
    + cbn -[tref_of typeref].
      change (option_map TNonNull (tref_of (S d) (typeref s d i)) = Some (TNonNull i)).
      rewrite IH by (cbn in Hd; lia). reflexivity.
Qed.

Lemma arg_roundtrip a : arg_ok a -> arg_of parse (input_value pv s full a) = Some a.
Proof.
  intros [H Hv]. unfold arg_of, input_value, full, kv_if. cbn -[typeref tref_of REF_FUEL TYPE_DEPTH].
  change REF_FUEL with (S TYPE_DEPTH). rewrite (tref_roundtrip TYPE_DEPTH (a_type a) H).
  destruct a as [n t [v|] ds dp]; cbn -[typeref tref_of] in *.
  - rewrite (parse_print v Hv), !jotext_jopt. reflexivity.
  - rewrite !jotext_jopt. reflexivity.
Qed.

Lemma args_roundtrip l : Forall arg_ok l -> args_of parse (input_values pv s full l) = Some l.
Proof.
  intro H. unfold args_of, input_values. rewrite (filter_true _ l) by (intro; reflexivity). cbn [jitems].
  apply mapM_map. intros a Ha. apply arg_roundtrip. rewrite Forall_forall in H. apply H. exact Ha.
Qed.

Lemma field_roundtrip f : field_ok f -> field_of parse (field_json pv s full f) = Some f.
Proof.
  intros [Ht Ha]. unfold field_of, field_json, full, kv_if.
  cbn -[typeref tref_of REF_FUEL TYPE_DEPTH input_values args_of].
  change (mkOpts true true true true true true true) with full.
  rewrite (args_roundtrip _ Ha). change REF_FUEL with (S TYPE_DEPTH).
  rewrite (tref_roundtrip TYPE_DEPTH (f_type f) Ht), !jotext_jopt. destruct f; reflexivity.
Qed.

Lemma enumval_roundtrip e : enumval_of (enum_value_json full e) = Some e.
Proof. unfold enumval_of, enum_value_json, full, kv_if. cbn. rewrite !jotext_jopt. destruct e; reflexivity. Qed.

Lemma ref_name_named n : ref_name (named_ref s n) = Some n.
Proof. unfold ref_name, named_ref. cbn. reflexivity. Qed.

Lemma names_roundtrip l : names_of (JArr (map (named_ref s) l)) = Some l.
Proof. unfold names_of. cbn [jitems]. apply mapM_map. intros n _. apply ref_name_named. Qed.

Lemma fields_roundtrip l :
  Forall field_ok l -> mapM (field_of parse) (map (field_json pv s full) l) = Some l.
Proof.
  intro H. apply mapM_map. intros f Hf. apply field_roundtrip. rewrite Forall_forall in H. apply H. exact Hf.
Qed.

Lemma enumvals_roundtrip l : mapM enumval_of (map (enum_value_json full) l) = Some l.
Proof. apply mapM_map. intros e _. apply enumval_roundtrip. Qed.

Lemma type_roundtrip t : type_ok t -> type_of parse (type_json pv s full t) = Some t.
Proof.
  intros [(Hk & Hf & Hm & Hv & Hi & Hs) [Hfo Hio]].
  destruct t as [k n ds fs ifs ms vs ins sb oo]; cbn [t_kind t_name t_desc t_fields t_ifaces t_members t_values
    t_inputs t_specified_by t_oneof] in *.
  assert (Hcases : k = 0 \/ k = 1 \/ k = 2 \/ k = 3 \/ k = 4 \/ k = 5) by lia.
  unfold type_of, type_json, possible_types, full, kv_if.
  cbn [t_kind t_name t_desc t_fields t_ifaces t_members t_values t_inputs t_specified_by t_oneof
       o_descriptions o_specified_by_url o_one_of].
  change (mkOpts true true true true true true true) with full.
  destruct Hcases as [E|[E|[E|[E|[E|E] ] ] ] ]; subst k;
    cbn -[field_json input_values named_ref enum_value_json args_of names_of field_of enumval_of filter full].
  - (* scalar *)
    destruct Hf as [-> ->]; try discriminate. rewrite Hm, Hv by discriminate.
    destruct Hi as [-> ->]; try discriminate. rewrite ?jotext_jopt; cbn; rewrite ?jotext_jopt; reflexivity.
  - (* object *)
    rewrite (fields_roundtrip _ Hfo), names_roundtrip, Hm, Hv, Hs by discriminate.
    destruct Hi as [-> ->]; try discriminate. rewrite ?jotext_jopt; cbn; rewrite ?jotext_jopt; reflexivity.
  - (* interface *)
    rewrite (fields_roundtrip _ Hfo), names_roundtrip, Hm, Hv, Hs by discriminate.
    destruct Hi as [-> ->]; try discriminate. rewrite ?jotext_jopt; cbn; rewrite ?jotext_jopt; reflexivity.
  - (* union *)
    destruct Hf as [-> ->]; try discriminate. rewrite names_roundtrip, Hv, Hs by discriminate.
    destruct Hi as [-> ->]; try discriminate. rewrite ?jotext_jopt; cbn; rewrite ?jotext_jopt; reflexivity.
  - (* enum *)
    destruct Hf as [-> ->]; try discriminate. rewrite enumvals_roundtrip, Hm, Hs by discriminate.
    destruct Hi as [-> ->]; try discriminate. rewrite ?jotext_jopt; cbn; rewrite ?jotext_jopt; reflexivity.
  - (* input object *)
    destruct Hf as [-> ->]; try discriminate. rewrite (args_roundtrip _ Hio), Hm, Hv, Hs by discriminate.
    rewrite ?jotext_jopt; cbn; rewrite ?jotext_jopt; reflexivity.
Qed.

Lemma directive_roundtrip d : dir_ok d -> directive_of parse (directive_json pv s full d) = Some d.
Proof.
  intro H. unfold directive_of, directive_json, full, kv_if.
  cbn -[input_values args_of mapM].
  change (mkOpts true true true true true true true) with full.
  rewrite (args_roundtrip _ H), !jotext_jopt.
  rewrite (mapM_map jstr JStr (d_locs d)) by reflexivity. destruct d; reflexivity.
Qed.

Lemma root_roundtrip r : root_of_json (root_json s r) = Some r.
Proof. destruct r; reflexivity. Qed.

Theorem client_roundtrip : client_ok s -> build_client parse (introspect pv s full) = Some s.
Proof.
  intros [Ht Hd]. unfold build_client, introspect, schema_json, full, kv_if.
  cbn -[root_json type_json directive_json filter mapM type_of directive_of root_of_json].
  change (mkOpts true true true true true true true) with full.
  rewrite !root_roundtrip. rewrite (filter_true _ (s_directives s)) by (intro; reflexivity).
  rewrite (mapM_map (type_of parse) (type_json pv s full) (s_types s)).
  - rewrite (mapM_map (directive_of parse) (directive_json pv s full) (s_directives s)).
    + rewrite jotext_jopt. destruct s; reflexivity.
    + intros d Hin. apply directive_roundtrip. rewrite Forall_forall in Hd. apply Hd. exact Hin.
  - intros t Hin. apply type_roundtrip. rewrite Forall_forall in Ht. apply Ht. exact Hin.
Qed.

(* introspecting the client schema gives the same result again *)
Corollary reintrospect : client_ok s ->
  exists c, build_client parse (introspect pv s full) = Some c /\ introspect pv c full = introspect pv s full.
Proof. intro H. exists s. split; [apply client_roundtrip; exact H|reflexivity]. Qed.

End Props.
