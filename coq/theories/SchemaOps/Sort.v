(* lexicographic_sort_schema: every container sorted by name with a stable sort; the order
   is a Section parameter (instantiated with NatOrder.natural_leb for the executable model). *)
From GV Require Import Base.Prelude SchemaOps.Schema.

Section Sort.
Variable leb : name -> name -> bool.

Fixpoint insert {A} (key : A -> name) (x : A) (l : list A) : list A :=
  match l with
  | [] => [x]
  | y :: r => if leb (key x) (key y) then x :: y :: r else y :: insert key x r
  end.

(* stable: an element is placed in front of the later elements with an equal key *)
Fixpoint isort {A} (key : A -> name) (l : list A) : list A :=
  match l with
  | [] => []
  | x :: r => insert key x (isort key r)
  end.

Definition idn (n : name) : name := n.

Definition sort_field (f : field) : field :=
  mkField (f_name f) (isort a_name (f_args f)) (f_type f) (f_desc f) (f_depr f).

Definition sort_type (t : typedef) : typedef :=
  mkType (t_kind t) (t_name t) (t_desc t)
    (isort f_name (map sort_field (t_fields t)))
    (isort idn (t_ifaces t)) (isort idn (t_members t))
    (isort e_name (t_values t)) (isort a_name (t_inputs t))
    (t_specified_by t) (t_oneof t).

Definition sort_directive (d : directive) : directive :=
  mkDir (d_name d) (d_desc d) (isort a_name (d_args d)) (isort idn (d_locs d))
    (d_repeatable d) (d_depr d).

Definition sort (s : schema) : schema :=
  mkSchema (s_desc s) (s_query s) (s_mutation s) (s_subscription s)
    (isort t_name (map sort_type (s_types s)))
    (isort d_name (map sort_directive (s_directives s))).

End Sort.
