(* Wire codec (flat list N) for the schema datatype; used by Run/RunSchemaops.v only. *)
From GV Require Import Base.Prelude SchemaOps.Schema.

Definition dec (A : Type) := list N -> option (A * list N).

Definition bindd {A B} (d : dec A) (f : A -> dec B) : dec B :=
  fun l => match d l with Some (a, r) => f a r | None => None end.
Definition retd {A} (a : A) : dec A := fun l => Some (a, l).
Notation "x <- d ;; e" := (bindd d (fun x => e)) (at level 61, d at next level, right associativity).

Definition dec_n : dec N := fun l => match l with x :: r => Some (x, r) | [] => None end.

Fixpoint take (k : nat) (l : list N) : option (list N * list N) :=
  match k with
  | O => Some ([], l)
  | S k' => match l with
            | [] => None
            | x :: r => match take k' r with Some (a, b) => Some (x :: a, b) | None => None end
            end
  end.

Definition dec_text : dec (list N) :=
  fun l => match l with n :: r => take (N.to_nat n) r | [] => None end.

Definition dec_opt {A} (d : dec A) : dec (option A) :=
  t <- dec_n ;; if t =? 0 then retd None else (x <- d ;; retd (Some x)).

Definition dec_bool : dec bool := t <- dec_n ;; retd (negb (t =? 0)).

Fixpoint dec_many {A} (d : dec A) (cnt : nat) : dec (list A) :=
  match cnt with
  | O => retd []
  | S c => x <- d ;; xs <- dec_many d c ;; retd (x :: xs)
  end.

Definition dec_list {A} (d : dec A) : dec (list A) :=
  n <- dec_n ;; dec_many d (N.to_nat n).

Fixpoint dec_tref (fuel : nat) : dec tref :=
  match fuel with
  | O => fun _ => None
  | S f =>
    t <- dec_n ;;
    if t =? 0 then (n <- dec_text ;; retd (TNamed n))
    else if t =? 1 then (x <- dec_tref f ;; retd (TList x))
    else (x <- dec_tref f ;; retd (TNonNull x))
  end.

Fixpoint dec_value (fuel : nat) : dec value :=
  match fuel with
  | O => fun _ => None
  | S f =>
    t <- dec_n ;;
    if t =? 0 then retd (VLeaf 0 [])
    else if t =? 4 then (b <- dec_n ;; retd (VLeaf 4 [b]))
    else if t =? 6 then (l <- dec_list (dec_value f) ;; retd (VList l))
    else if t =? 7 then
      (l <- dec_list (k <- dec_text ;; v <- dec_value f ;; retd (k, v)) ;; retd (VObj l))
    else (x <- dec_text ;; retd (VLeaf t x))
  end.

Definition WFUEL : nat := 64.

Definition dec_arg : dec arg :=
  n <- dec_text ;; t <- dec_tref WFUEL ;; d <- dec_opt (dec_value WFUEL) ;;
  ds <- dec_opt dec_text ;; dp <- dec_opt dec_text ;; retd (mkArg n t d ds dp).

Definition dec_field : dec field :=
  n <- dec_text ;; args <- dec_list dec_arg ;; t <- dec_tref WFUEL ;;
  ds <- dec_opt dec_text ;; dp <- dec_opt dec_text ;; retd (mkField n args t ds dp).

Definition dec_enumval : dec enumval :=
  n <- dec_text ;; ds <- dec_opt dec_text ;; dp <- dec_opt dec_text ;; retd (mkEnumVal n ds dp).

Definition dec_type : dec typedef :=
  k <- dec_n ;; n <- dec_text ;; ds <- dec_opt dec_text ;;
  fs <- dec_list dec_field ;; ifs <- dec_list dec_text ;; ms <- dec_list dec_text ;;
  vs <- dec_list dec_enumval ;; ins <- dec_list dec_arg ;;
  sb <- dec_opt dec_text ;; oo <- dec_bool ;;
  retd (mkType k n ds fs ifs ms vs ins sb oo).

Definition dec_directive : dec directive :=
  n <- dec_text ;; ds <- dec_opt dec_text ;; args <- dec_list dec_arg ;;
  locs <- dec_list dec_text ;; rp <- dec_bool ;; dp <- dec_opt dec_text ;;
  retd (mkDir n ds args locs rp dp).

Definition dec_schema : dec schema :=
  ds <- dec_opt dec_text ;; q <- dec_opt dec_text ;; m <- dec_opt dec_text ;; s <- dec_opt dec_text ;;
  ts <- dec_list dec_type ;; dirs <- dec_list dec_directive ;;
  retd (mkSchema ds q m s ts dirs).

(* ---- encoders *)
Definition enc_text (s : list N) : list N := N.of_nat (length s) :: s.
Definition enc_opt {A} (e : A -> list N) (o : option A) : list N :=
  match o with None => [0] | Some x => 1 :: e x end.
Definition enc_bool (b : bool) : list N := [if b then 1 else 0].
Definition enc_list {A} (e : A -> list N) (l : list A) : list N :=
  N.of_nat (length l) :: flat_map e l.

Fixpoint enc_tref (t : tref) : list N :=
  match t with
  | TNamed n => 0 :: enc_text n
  | TList x => 1 :: enc_tref x
  | TNonNull x => 2 :: enc_tref x
  end.

Fixpoint enc_value (v : value) : list N :=
  match v with
  | VLeaf t x => if t =? 0 then [0] else if t =? 4 then 4 :: x else t :: enc_text x
  | VList l => 6 :: N.of_nat (length l) :: flat_map enc_value l
  | VObj l => 7 :: N.of_nat (length l)
              :: (fix go (l : list (name * value)) : list N :=
                    match l with
                    | [] => []
                    | (k, x) :: r => enc_text k ++ enc_value x ++ go r
                    end) l
  end.

Definition enc_arg (a : arg) : list N :=
  enc_text (a_name a) ++ enc_tref (a_type a) ++ enc_opt enc_value (a_default a)
  ++ enc_opt enc_text (a_desc a) ++ enc_opt enc_text (a_depr a).

Definition enc_field (f : field) : list N :=
  enc_text (f_name f) ++ enc_list enc_arg (f_args f) ++ enc_tref (f_type f)
  ++ enc_opt enc_text (f_desc f) ++ enc_opt enc_text (f_depr f).

Definition enc_enumval (e : enumval) : list N :=
  enc_text (e_name e) ++ enc_opt enc_text (e_desc e) ++ enc_opt enc_text (e_depr e).

Definition enc_type (t : typedef) : list N :=
  t_kind t :: enc_text (t_name t) ++ enc_opt enc_text (t_desc t)
  ++ enc_list enc_field (t_fields t) ++ enc_list enc_text (t_ifaces t) ++ enc_list enc_text (t_members t)
  ++ enc_list enc_enumval (t_values t) ++ enc_list enc_arg (t_inputs t)
  ++ enc_opt enc_text (t_specified_by t) ++ enc_bool (t_oneof t).

Definition enc_directive (d : directive) : list N :=
  enc_text (d_name d) ++ enc_opt enc_text (d_desc d) ++ enc_list enc_arg (d_args d)
  ++ enc_list enc_text (d_locs d) ++ enc_bool (d_repeatable d) ++ enc_opt enc_text (d_depr d).

Definition enc_schema (s : schema) : list N :=
  enc_opt enc_text (s_desc s) ++ enc_opt enc_text (s_query s) ++ enc_opt enc_text (s_mutation s)
  ++ enc_opt enc_text (s_subscription s) ++ enc_list enc_type (s_types s)
  ++ enc_list enc_directive (s_directives s).

(* ---- SDL definitions *)
From GV Require Import SchemaOps.Build.

Definition dec_op : dec (N * name) := k <- dec_n ;; n <- dec_text ;; retd (k, n).

Definition dec_def : dec definition :=
  t <- dec_n ;;
  if t =? 0 then (ds <- dec_opt dec_text ;; ops <- dec_list dec_op ;; retd (DSchema ds ops))
  else if t =? 1 then (ops <- dec_list dec_op ;; retd (DSchemaExt ops))
  else if t =? 2 then (d <- dec_directive ;; retd (DDirective d))
  else if t =? 3 then (x <- dec_type ;; retd (DType x))
  else if t =? 4 then (x <- dec_type ;; retd (DExtend x))
  else retd DExecutable.

Definition enc_op (o : N * name) : list N := fst o :: enc_text (snd o).

Definition enc_def (d : definition) : list N :=
  match d with
  | DSchema ds ops => 0 :: enc_opt enc_text ds ++ enc_list enc_op ops
  | DSchemaExt ops => 1 :: enc_list enc_op ops
  | DDirective x => 2 :: enc_directive x
  | DType x => 3 :: enc_type x
  | DExtend x => 4 :: enc_type x
  | DExecutable => [5]
  end.
