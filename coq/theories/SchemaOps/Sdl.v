(* print_schema as an SDL definition list: schema definition (omitted exactly for the
   conventional root names), directives, types.  Definitions only. *)
From GV Require Import Base.Prelude SchemaOps.Schema SchemaOps.Build.

Definition root_ops (s : schema) : list (N * name) :=
  (match s_query s with Some n => [(0, n)] | None => [] end)
  ++ (match s_mutation s with Some n => [(1, n)] | None => [] end)
  ++ (match s_subscription s with Some n => [(2, n)] | None => [] end).

Definition oname_eqb (a b : option name) : bool :=
  match a, b with
  | None, None => true
  | Some x, Some y => text_eqb x y
  | _, _ => false
  end.

(* schema.X_type is schema.get_type("X") *)
Definition is_conv (root : option name) (n : name) (ts : list typedef) : bool :=
  oname_eqb root (if has_type n ts then Some n else None).

(* has_default_root_operation_types *)
Definition default_roots (s : schema) : bool :=
  is_conv (s_query s) nQuery (s_types s) && is_conv (s_mutation s) nMutation (s_types s)
  && is_conv (s_subscription s) nSubscription (s_types s).

Definition no_roots (s : schema) : bool :=
  match s_query s, s_mutation s, s_subscription s with None, None, None => true | _, _, _ => false end.

(* print_schema_definition returns None *)
Definition omit_schema_def (s : schema) : bool :=
  no_roots s || (match s_desc s with None => true | Some _ => false end) && default_roots s.

Definition sdl_of (s : schema) : list definition :=
  (if omit_schema_def s then [] else [DSchema (s_desc s) (root_ops s)])
  ++ map DDirective (s_directives s) ++ map DType (s_types s).
