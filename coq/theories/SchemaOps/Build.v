(* SDL documents as definition lists; extend_schema_args, build_ast_schema, extend_schema.
   Type/directive definitions carry their members structurally (descriptions and default
   literals are the values the lexer/parser deliver).  Definitions only. *)
From GV Require Import Base.Prelude SchemaOps.Schema.

(* operation kinds: 0 query, 1 mutation, 2 subscription *)
Inductive definition : Type :=
| DSchema (desc : otext) (ops : list (N * name))
| DSchemaExt (ops : list (N * name))
| DDirective (d : directive)
| DType (t : typedef)
| DExtend (t : typedef)     (* kind and name select the target; the containers hold what is added *)
| DExecutable.              (* operations / fragments: ignored by the schema builders *)

Definition type_defs (ds : list definition) : list typedef :=
  flat_map (fun d => match d with DType t => [t] | _ => [] end) ds.
Definition type_exts (ds : list definition) : list typedef :=
  flat_map (fun d => match d with DExtend t => [t] | _ => [] end) ds.
Definition dir_defs (ds : list definition) : list directive :=
  flat_map (fun d => match d with DDirective x => [x] | _ => [] end) ds.
Definition schema_defs (ds : list definition) : list (otext * list (N * name)) :=
  flat_map (fun d => match d with DSchema a b => [(a, b)] | _ => [] end) ds.
Definition schema_ext_ops (ds : list definition) : list (N * name) :=
  flat_map (fun d => match d with DSchemaExt ops => ops | _ => [] end) ds.

Definition is_executable (d : definition) : bool :=
  match d with DExecutable => true | _ => false end.

(* `get_specified_by_url(extension) or specified_by_url`: a non-empty URL of the extension wins *)
Definition ext_url (cur ext : otext) : otext :=
  match ext with
  | Some (c :: u) => Some (c :: u)
  | _ => cur
  end.

(* one extension applied to a type of the same kind and name: members are appended, a scalar
   extension may bring a @specifiedBy URL; @oneOf on an extension has no effect (only the
   definition node is consulted), other applied directives are not part of the schema *)
Definition apply_ext (t e : typedef) : typedef :=
  if (t_kind e =? t_kind t) && text_eqb (t_name e) (t_name t) then
    mkType (t_kind t) (t_name t) (t_desc t)
      (t_fields t ++ t_fields e) (t_ifaces t ++ t_ifaces e) (t_members t ++ t_members e)
      (t_values t ++ t_values e) (t_inputs t ++ t_inputs e)
      (ext_url (t_specified_by t) (t_specified_by e)) (t_oneof t)
  else t.

Definition apply_exts (exts : list typedef) (t : typedef) : typedef := fold_left apply_ext exts t.

Record roots := mkRoots { r_query : option name; r_mutation : option name; r_subscription : option name }.

Definition set_root (r : roots) (op : N * name) : roots :=
  let '(k, n) := op in
  if k =? 0 then mkRoots (Some n) (r_mutation r) (r_subscription r)
  else if k =? 1 then mkRoots (r_query r) (Some n) (r_subscription r)
  else mkRoots (r_query r) (r_mutation r) (Some n).

Definition set_roots (r : roots) (ops : list (N * name)) : roots := fold_left set_root ops r.

(* ExtendSchemaImpl.extend_schema_args (the last schema definition wins, as in the code) *)
Definition extend_args (s : schema) (ds : list definition) : schema :=
  let exts := type_exts ds in
  let sdef := last (map Some (schema_defs ds)) None in
  let r0 := mkRoots (s_query s) (s_mutation s) (s_subscription s) in
  let r1 := match sdef with Some (_, ops) => set_roots r0 ops | None => r0 end in
  let r2 := set_roots r1 (schema_ext_ops ds) in
  let desc := match sdef with Some (Some d, _) => Some d | _ => s_desc s end in
  mkSchema desc (r_query r2) (r_mutation r2) (r_subscription r2)
    (map (apply_exts exts) (s_types s) ++ map (apply_exts exts) (type_defs ds))
    (s_directives s ++ dir_defs ds).

Definition empty_schema : schema := mkSchema None None None None [] [].

Definition has_type (n : name) (ts : list typedef) : bool :=
  match find_by t_name n ts with Some _ => true | None => false end.

(* roots by convention: a type with the conventional name takes the role *)
Definition conv (n : name) (ts : list typedef) (cur : option name) : option name :=
  if has_type n ts then Some n else cur.

(* build_ast_schema; None when the document has more than one schema definition *)
Definition build (ds : list definition) : option schema :=
  match schema_defs ds with
  | _ :: _ :: _ => None
  | [_] => Some (extend_args empty_schema ds)
  | [] =>
      let s := extend_args empty_schema ds in
      Some (mkSchema (s_desc s)
              (conv nQuery (s_types s) (s_query s))
              (conv nMutation (s_types s) (s_mutation s))
              (conv nSubscription (s_types s) (s_subscription s))
              (s_types s) (s_directives s))
  end.

(* extend_schema: a document without type-system definitions returns the argument itself *)
Definition extend (s : schema) (ds : list definition) : schema :=
  if forallb is_executable ds then s else extend_args s ds.
