(* pyutils.natural_comparison_key as a comparison on code-point lists (ASCII digits; GraphQL
   names are ASCII).  Definitions only. *)
From GV Require Import Base.Prelude SchemaOps.Schema.

Definition is_digit (c : N) : bool := (48 <=? c) && (c <=? 57).

(* maximal runs, flagged digit / non-digit *)
Fixpoint runs (l : list N) : list (bool * list N) :=
  match l with
  | [] => []
  | c :: r =>
    match runs r with
    | (b, run) :: rest =>
        if Bool.eqb b (is_digit c) then (b, c :: run) :: rest
        else (is_digit c, [c]) :: (b, run) :: rest
    | [] => [(is_digit c, [c])]
    end
  end.

Definition last_is_digit (r : list (bool * list N)) : bool :=
  match rev r with (true, _) :: _ => true | _ => false end.

(* re.split(r"(\d+)", s): starts and ends with a (possibly empty) non-digit part *)
Definition norm_key (l : list N) : list (bool * list N) :=
  let r := runs l in
  let r1 := match r with
            | (true, _) :: _ => (false, []) :: r
            | [] => [(false, [])]
            | _ => r
            end in
  if last_is_digit r1 then r1 ++ [(false, [])] else r1.

Fixpoint cmp_text (a b : list N) : comparison :=
  match a, b with
  | [], [] => Eq
  | [], _ :: _ => Lt
  | _ :: _, [] => Gt
  | x :: a', y :: b' => match N.compare x y with Eq => cmp_text a' b' | c => c end
  end.

Definition num (d : list N) : N := fold_left (fun acc c => acc * 10 + (c - 48)) d 0.

Definition cmp_part (x y : bool * list N) : comparison :=
  match x, y with
  | (true, a), (true, b) => match N.compare (num a) (num b) with Eq => cmp_text a b | c => c end
  | (_, a), (_, b) => cmp_text a b
  end.

Fixpoint cmp_key (a b : list (bool * list N)) : comparison :=
  match a, b with
  | [], [] => Eq
  | [], _ :: _ => Lt
  | _ :: _, [] => Gt
  | x :: a', y :: b' => match cmp_part x y with Eq => cmp_key a' b' | c => c end
  end.

Definition natural_cmp (a b : name) : comparison := cmp_key (norm_key a) (norm_key b).

Definition natural_leb (a b : name) : bool :=
  match natural_cmp a b with Gt => false | _ => true end.
