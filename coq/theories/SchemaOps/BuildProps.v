(* Proofs about Sdl.v / Build.v: build (sdl_of s) = s, print idempotence, extend laws. *)
From GV Require Import Base.Prelude SchemaOps.Schema SchemaOps.Build SchemaOps.Sdl SchemaOps.DiffProps.

Lemma flat_map_app' {A B} (f : A -> list B) l l' : flat_map f (l ++ l') = flat_map f l ++ flat_map f l'.
Proof. induction l; cbn; [reflexivity|]. rewrite IHl, app_assoc. reflexivity. Qed.

Lemma type_defs_app a b : type_defs (a ++ b) = type_defs a ++ type_defs b.
Proof. apply flat_map_app'. Qed.
Lemma type_exts_app a b : type_exts (a ++ b) = type_exts a ++ type_exts b.
Proof. apply flat_map_app'. Qed.
Lemma dir_defs_app a b : dir_defs (a ++ b) = dir_defs a ++ dir_defs b.
Proof. apply flat_map_app'. Qed.
Lemma schema_defs_app a b : schema_defs (a ++ b) = schema_defs a ++ schema_defs b.
Proof. apply flat_map_app'. Qed.
Lemma schema_ext_ops_app a b : schema_ext_ops (a ++ b) = schema_ext_ops a ++ schema_ext_ops b.
Proof. apply flat_map_app'. Qed.

Lemma type_defs_types l : type_defs (map DType l) = l.
Proof. induction l; cbn; [reflexivity|]. f_equal. exact IHl. Qed.
Lemma type_defs_dirs l : type_defs (map DDirective l) = [].
Proof. induction l; cbn; auto. Qed.
Lemma dir_defs_dirs l : dir_defs (map DDirective l) = l.
Proof. induction l; cbn; [reflexivity|]. f_equal. exact IHl. Qed.
Lemma dir_defs_types l : dir_defs (map DType l) = [].
Proof. induction l; cbn; auto. Qed.
Lemma type_exts_types l : type_exts (map DType l) = [].
Proof. induction l; cbn; auto. Qed.
Lemma type_exts_dirs l : type_exts (map DDirective l) = [].
Proof. induction l; cbn; auto. Qed.
Lemma schema_defs_types l : schema_defs (map DType l) = [].
Proof. induction l; cbn; auto. Qed.
Lemma schema_defs_dirs l : schema_defs (map DDirective l) = [].
Proof. induction l; cbn; auto. Qed.
Lemma schema_ext_ops_types l : schema_ext_ops (map DType l) = [].
Proof. induction l; cbn; auto. Qed.
Lemma schema_ext_ops_dirs l : schema_ext_ops (map DDirective l) = [].
Proof. induction l; cbn; auto. Qed.

Lemma map_apply_exts_nil l : map (apply_exts []) l = l.
Proof. induction l; cbn; [reflexivity|]. f_equal. exact IHl. Qed.

Lemma oname_eqb_true a b : oname_eqb a b = true -> a = b.
Proof.
  destruct a, b; cbn; try discriminate; try reflexivity.
  intro H. apply text_eqb_true in H. congruence.
Qed.

Lemma oname_eqb_refl a : oname_eqb a a = true.
Proof. destruct a; cbn; [apply text_eqb_refl|reflexivity]. Qed.

Lemma set_roots_root_ops s :
  set_roots (mkRoots None None None) (root_ops s) = mkRoots (s_query s) (s_mutation s) (s_subscription s).
Proof.
  unfold root_ops. destruct (s_query s), (s_mutation s), (s_subscription s); reflexivity.
Qed.

(* the schema that build makes of a print without schema definition *)
Definition by_convention (s : schema) : schema :=
  mkSchema None (conv nQuery (s_types s) None) (conv nMutation (s_types s) None)
    (conv nSubscription (s_types s) None) (s_types s) (s_directives s).

Lemma doc_facts hd ds ts :
  type_defs hd = [] -> type_exts hd = [] -> dir_defs hd = [] -> schema_ext_ops hd = [] ->
  let doc := hd ++ map DDirective ds ++ map DType ts in
  type_defs doc = ts /\ type_exts doc = [] /\ dir_defs doc = ds /\ schema_ext_ops doc = []
  /\ schema_defs doc = schema_defs hd.
Proof.
  intros H1 H2 H3 H4 doc. subst doc.
  rewrite !type_defs_app, !type_exts_app, !dir_defs_app, !schema_ext_ops_app, !schema_defs_app,
    H1, H2, H3, H4, type_defs_dirs, type_defs_types, type_exts_dirs, type_exts_types, dir_defs_dirs,
    dir_defs_types, schema_ext_ops_dirs, schema_ext_ops_types, schema_defs_dirs, schema_defs_types.
  cbn. rewrite !app_nil_r. auto.
Qed.

Lemma build_sdl_of_cases s :
  build (sdl_of s) = Some (if omit_schema_def s then by_convention s else s).
Proof.
  unfold sdl_of. destruct (omit_schema_def s) eqn:Eo.
  - destruct (doc_facts [] (s_directives s) (s_types s) eq_refl eq_refl eq_refl eq_refl)
      as (F1 & F2 & F3 & F4 & F5).
    unfold build, extend_args. rewrite F1, F2, F3, F4, F5. cbn.
    rewrite map_apply_exts_nil. reflexivity.
  - destruct (doc_facts [DSchema (s_desc s) (root_ops s)] (s_directives s) (s_types s)
                eq_refl eq_refl eq_refl eq_refl) as (F1 & F2 & F3 & F4 & F5).
    unfold build, extend_args. rewrite F1, F2, F3, F4, F5.
    cbn [schema_defs flat_map app map last empty_schema s_query s_mutation s_subscription s_desc s_types
         s_directives set_roots fold_left].
    rewrite set_roots_root_ops. cbn. rewrite map_apply_exts_nil.
    destruct s as [d q m sb ts ds]; cbn. destruct d; reflexivity.
Qed.

Lemma is_conv_conv root n ts : is_conv root n ts = true -> conv n ts None = root.
Proof.
  unfold is_conv, conv. intro H. apply oname_eqb_true in H. destruct (has_type n ts); congruence.
Qed.

Theorem build_sdl_of s : s_query s <> None -> build (sdl_of s) = Some s.
Proof.
  intro Hq. rewrite build_sdl_of_cases. destruct (omit_schema_def s) eqn:Eo; [|reflexivity].
  f_equal. unfold omit_schema_def in Eo. apply orb_true_iff in Eo. destruct Eo as [Eo|Eo].
  - unfold no_roots in Eo. destruct (s_query s); [discriminate|contradiction].
  - apply andb_true_iff in Eo. destruct Eo as [Ed Er].
    unfold default_roots in Er. apply andb_true_iff in Er. destruct Er as [Er Es].
    apply andb_true_iff in Er. destruct Er as [Eq Em].
    unfold by_convention. rewrite (is_conv_conv _ _ _ Eq), (is_conv_conv _ _ _ Em), (is_conv_conv _ _ _ Es).
    destruct s as [d q m sb ts ds]; cbn in *. destruct d; [discriminate|reflexivity].
Qed.

Lemma omit_by_convention s : omit_schema_def (by_convention s) = true.
Proof.
  unfold omit_schema_def, by_convention, default_roots, is_conv, conv; cbn.
  apply orb_true_iff. right.
  destruct (has_type nQuery (s_types s)), (has_type nMutation (s_types s)), (has_type nSubscription (s_types s));
    cbn; rewrite ?text_eqb_refl; reflexivity.
Qed.

(* printing the rebuilt schema gives the same document again, for every schema *)
Theorem print_idempotent s : exists s', build (sdl_of s) = Some s' /\ sdl_of s' = sdl_of s.
Proof.
  rewrite build_sdl_of_cases. destruct (omit_schema_def s) eqn:Eo.
  - exists (by_convention s). split; [reflexivity|].
    unfold sdl_of. rewrite omit_by_convention, Eo. reflexivity.
  - exists s. split; reflexivity.
Qed.

(* ---- extend *)
Lemma no_defs_of_executable ds :
  forallb is_executable ds = true ->
  type_defs ds = [] /\ type_exts ds = [] /\ dir_defs ds = [] /\ schema_defs ds = [] /\ schema_ext_ops ds = [].
Proof.
  induction ds as [|d r IH]; cbn; [auto|].
  intro H. apply andb_true_iff in H. destruct H as [Hd Hr]. destruct d; try discriminate. cbn. apply IH. exact Hr.
Qed.

Lemma extend_args_noop s ds : forallb is_executable ds = true -> extend_args s ds = s.
Proof.
  intro H. destruct (no_defs_of_executable ds H) as (H1 & H2 & H3 & H4 & H5).
  unfold extend_args. rewrite H1, H2, H3, H4, H5. cbn. rewrite map_apply_exts_nil, !app_nil_r.
  destruct s; reflexivity.
Qed.

Theorem extend_noop_identity s ds : forallb is_executable ds = true -> extend s ds = s.
Proof. intro H. unfold extend. rewrite H. reflexivity. Qed.

Lemma extend_is_extend_args s ds : extend s ds = extend_args s ds.
Proof.
  unfold extend. destruct (forallb is_executable ds) eqn:E; [|reflexivity].
  symmetry. apply extend_args_noop. exact E.
Qed.

(* B without schema definition / schema extension *)
Definition members_only (ds : list definition) : bool :=
  forallb (fun d => match d with DSchema _ _ | DSchemaExt _ => false | _ => true end) ds.

Lemma members_only_no_schema ds : members_only ds = true -> schema_defs ds = [] /\ schema_ext_ops ds = [].
Proof.
  induction ds as [|d r IH]; cbn; [auto|].
  intro H. apply andb_true_iff in H. destruct H as [Hd Hr]. destruct d; try discriminate; cbn; apply IH; exact Hr.
Qed.

Lemma apply_ext_name t e : t_name (apply_ext t e) = t_name t.
Proof. unfold apply_ext. destruct (_ && _); reflexivity. Qed.

Lemma apply_exts_name es t : t_name (apply_exts es t) = t_name t.
Proof.
  unfold apply_exts. revert t. induction es as [|e r IH]; intro t; cbn; [reflexivity|].
  rewrite IH. apply apply_ext_name.
Qed.

Lemma apply_exts_app a b t : apply_exts (a ++ b) t = apply_exts b (apply_exts a t).
Proof. unfold apply_exts. apply fold_left_app. Qed.

Lemma apply_exts_foreign es t :
  (forall e, In e es -> t_name e <> t_name t) -> apply_exts es t = t.
Proof.
  unfold apply_exts. revert t. induction es as [|e r IH]; intros t H; cbn; [reflexivity|].
  assert (He : apply_ext t e = t).
  { unfold apply_ext. destruct (text_eqb (t_name e) (t_name t)) eqn:E.
    - apply text_eqb_true in E. exfalso. apply (H e); [left; reflexivity|exact E].
    - rewrite andb_false_r. reflexivity. }
  rewrite He. apply IH. intros e' Hin. apply H. right. exact Hin.
Qed.

Lemma find_by_app {A} (key : A -> name) n l l' :
  find_by key n (l ++ l') = match find_by key n l with Some x => Some x | None => find_by key n l' end.
Proof. induction l as [|x r IH]; cbn; [reflexivity|]. destruct (text_eqb (key x) n); [reflexivity|exact IH]. Qed.

Lemma find_by_none_map n es l :
  (forall t, In t l -> t_name t <> n) -> find_by t_name n (map (apply_exts es) l) = None.
Proof.
  induction l as [|x r IH]; intro H; cbn; [reflexivity|].
  rewrite apply_exts_name. destruct (text_eqb (t_name x) n) eqn:E.
  - apply text_eqb_true in E. exfalso. apply (H x); [left; reflexivity|exact E].
  - apply IH. intros t Ht. apply H. right. exact Ht.
Qed.

Lemma has_type_app_foreign n es l l' :
  (forall t, In t l' -> t_name t <> n) -> has_type n (l ++ map (apply_exts es) l') = has_type n l.
Proof.
  intro H. unfold has_type. rewrite find_by_app, (find_by_none_map n es l' H).
  destruct (find_by t_name n l); reflexivity.
Qed.

Lemma has_type_map n es l : has_type n (map (apply_exts es) l) = has_type n l.
Proof.
  unfold has_type. induction l as [|x r IH]; cbn; [reflexivity|].
  rewrite apply_exts_name. destruct (text_eqb (t_name x) n); [reflexivity|exact IH].
Qed.

(* extending the schema built from A with B = building A and B together, for documents B that
   add members / new types / new directives (no schema definition or schema extension in B),
   whose new types are not extended inside A and do not carry a conventional root name *)
Theorem extend_hom A B sA :
  build A = Some sA ->
  members_only B = true ->
  (forall e t, In e (type_exts A) -> In t (type_defs B) -> t_name e <> t_name t) ->
  (forall t, In t (type_defs B) -> t_name t <> nQuery /\ t_name t <> nMutation /\ t_name t <> nSubscription) ->
  build (A ++ B) = Some (extend sA B).
Proof.
  intros HA HB H1 H3. rewrite extend_is_extend_args.
  destruct (members_only_no_schema B HB) as [HsB HeB].
  assert (Htypes : map (apply_exts (type_exts A ++ type_exts B)) (type_defs A ++ type_defs B)
          = map (apply_exts (type_exts B)) (map (apply_exts (type_exts A)) (type_defs A))
            ++ map (apply_exts (type_exts B)) (type_defs B)).
  { rewrite map_app, map_map. f_equal.
    - apply map_ext. intro t. apply apply_exts_app.
    - apply map_ext_in. intros t Ht. rewrite apply_exts_app. f_equal.
      apply apply_exts_foreign. intros e He. apply (H1 e t He Ht). }
  unfold build in *. rewrite schema_defs_app, HsB, app_nil_r.
  destruct (schema_defs A) as [|x [|y r]] eqn:EA; [| |discriminate].
  - (* no schema definition: roots by convention *)
    inversion HA; subst sA; clear HA.
    unfold extend_args. cbn [s_types s_directives s_query s_mutation s_subscription s_desc empty_schema].
    rewrite schema_defs_app, HsB, EA, schema_ext_ops_app, HeB, type_exts_app, type_defs_app, dir_defs_app.
    cbn [app map last]. rewrite !app_nil_r. cbn [map app].
    rewrite Htypes. unfold conv.
    rewrite !(has_type_app_foreign _ (type_exts B) _ (type_defs B)).
    + rewrite !has_type_map. cbn. reflexivity.
    + intros t Ht. apply (H3 t Ht).
    + intros t Ht. apply (H3 t Ht).
    + intros t Ht. apply (H3 t Ht).
  - inversion HA; subst sA; clear HA.
    unfold extend_args. cbn [s_types s_directives s_query s_mutation s_subscription s_desc empty_schema].
    rewrite schema_defs_app, HsB, EA, schema_ext_ops_app, HeB, type_exts_app, type_defs_app, dir_defs_app.
    cbn [app map last]. rewrite !app_nil_r. cbn [map app].
    rewrite Htypes. cbn.
    destruct x as [[d|] ops]; reflexivity.
Qed.

(* ---- the same law with operation types added by schema extensions in B *)
Definition root_of (k : N) (s : schema) : option name :=
  if k =? 0 then s_query s else if k =? 1 then s_mutation s else s_subscription s.

(* the last operation of kind k in a list of operation types *)
Fixpoint last_op (k : N) (ops : list (N * name)) (cur : option name) : option name :=
  match ops with
  | [] => cur
  | (k', n) :: r => last_op k r (if (if k' =? 0 then 0 else if k' =? 1 then 1 else 2) =? k then Some n else cur)
  end.

Lemma set_roots_components r ops :
  set_roots r ops = mkRoots (last_op 0 ops (r_query r)) (last_op 1 ops (r_mutation r)) (last_op 2 ops (r_subscription r)).
Proof.
  unfold set_roots. revert r. induction ops as [|[k n] rest IH]; intro r; cbn [fold_left last_op].
  - destruct r; reflexivity.
  - rewrite IH. unfold set_root.
    destruct (k =? 0) eqn:E0; [cbn; reflexivity|]. destruct (k =? 1) eqn:E1; cbn; reflexivity.
Qed.

Lemma last_op_none k ops cur :
  (forall n, ~ In (k, n) ops) -> (k = 0 \/ k = 1 \/ k = 2) ->
  (forall k' n, In (k', n) ops -> k' = 0 \/ k' = 1 \/ k' = 2) ->
  last_op k ops cur = cur.
Proof.
  revert cur. induction ops as [|[k' n] rest IH]; intros cur Hn Hk Hops; cbn [last_op]; [reflexivity|].
  assert (Hk' : k' = 0 \/ k' = 1 \/ k' = 2) by (apply (Hops k' n); left; reflexivity).
  assert (Hne : k' <> k) by (intro; subst; apply (Hn n); left; reflexivity).
  rewrite IH.
  - destruct Hk' as [E1|[E1|E1] ], Hk as [E2|[E2|E2] ]; subst; cbn; try reflexivity; contradiction.
  - intros m Hm. apply (Hn m). right. exact Hm.
  - exact Hk.
  - intros k2 n2 H2. apply (Hops k2 n2). right. exact H2.
Qed.

Lemma last_op_some k ops cur :
  (exists n, In (k, n) ops) -> (k = 0 \/ k = 1 \/ k = 2) ->
  (forall k' n, In (k', n) ops -> k' = 0 \/ k' = 1 \/ k' = 2) ->
  exists m, last_op k ops cur = Some m /\ forall cur', last_op k ops cur' = Some m.
Proof.
  revert cur. induction ops as [|[k' n] rest IH]; intros cur [m Hm] Hk Hops; [destruct Hm|].
  cbn [last_op].
  assert (Hk' : k' = 0 \/ k' = 1 \/ k' = 2) by (apply (Hops k' n); left; reflexivity).
  assert (Hrest : forall k2 n2, In (k2, n2) rest -> k2 = 0 \/ k2 = 1 \/ k2 = 2)
    by (intros k2 n2 H2; apply (Hops k2 n2); right; exact H2).
  assert (Hdec : (exists m', In (k, m') rest) \/ (forall m', ~ In (k, m') rest)).
  { clear -rest. induction rest as [|[k2 n2] r IHr]; [right; intros ? []|].
    destruct (N.eq_dec k2 k) as [->|Hne]; [left; exists n2; left; reflexivity|].
    destruct IHr as [[m' Hm']|Hno]; [left; exists m'; right; exact Hm'|].
    right. intros m' [H|H]; [inversion H; contradiction|exact (Hno m' H)]. }
  destruct Hdec as [Hex|Hno].
  - destruct (IH (if (if k' =? 0 then 0 else if k' =? 1 then 1 else 2) =? k then Some n else cur) Hex Hk Hrest)
      as [m2 [H1 H2]].
    exists m2. split; [exact H1|]. intro cur'. apply H2.
  - destruct Hm as [Hm|Hm]; [|exfalso; exact (Hno m Hm)].
    inversion Hm; subst k' n. exists m.
    assert (Hnorm : (if k =? 0 then 0 else if k =? 1 then 1 else 2) =? k = true).
    { destruct Hk as [E|[E|E] ]; subst; reflexivity. }
    rewrite Hnorm. split; [|intro cur']; apply last_op_none; assumption.
Qed.

Definition ops_wellformed (ops : list (N * name)) : Prop :=
  forall k n, In (k, n) ops -> k = 0 \/ k = 1 \/ k = 2.

(* conv after adding B's operations = adding B's operations after conv, when B only fills empty roots *)
Lemma conv_last_op k nk ts opsA opsB r0 :
  (k = 0 \/ k = 1 \/ k = 2) -> ops_wellformed opsB ->
  ((exists n, In (k, n) opsB) -> conv nk ts (last_op k opsA r0) = None) ->
  conv nk ts (last_op k (opsA ++ opsB) r0) = last_op k opsB (conv nk ts (last_op k opsA r0)).
Proof.
  intros Hk Hwf H4.
  assert (Happ : forall a b c, last_op k (a ++ b) c = last_op k b (last_op k a c)).
  { induction a as [|[k' n] a IH]; intros b c; cbn [app last_op]; [reflexivity|apply IH]. }
  rewrite Happ.
  assert (Hdec : (exists m', In (k, m') opsB) \/ (forall m', ~ In (k, m') opsB)).
  { clear -opsB. induction opsB as [|[k2 n2] r IHr]; [right; intros ? []|].
    destruct (N.eq_dec k2 k) as [->|Hne]; [left; exists n2; left; reflexivity|].
    destruct IHr as [[m' Hm']|Hno]; [left; exists m'; right; exact Hm'|].
    right. intros m' [H|H]; [inversion H; contradiction|exact (Hno m' H)]. }
  destruct Hdec as [Hex|Hno].
  - specialize (H4 Hex). destruct (last_op_some k opsB (last_op k opsA r0) Hex Hk Hwf) as [m [H1 H2]].
    rewrite H1, (H2 (conv nk ts (last_op k opsA r0))).
    unfold conv in *. destruct (has_type nk ts); [discriminate|reflexivity].
  - rewrite !(last_op_none k opsB) by assumption. reflexivity.
Qed.

Theorem extend_hom_ops A B sA :
  build A = Some sA ->
  schema_defs B = [] ->
  ops_wellformed (schema_ext_ops B) ->
  (* B's schema extensions only fill operation types that the schema does not have yet *)
  (forall k n, In (k, n) (schema_ext_ops B) -> root_of k sA = None) ->
  (forall e t, In e (type_exts A) -> In t (type_defs B) -> t_name e <> t_name t) ->
  (forall t, In t (type_defs B) -> t_name t <> nQuery /\ t_name t <> nMutation /\ t_name t <> nSubscription) ->
  build (A ++ B) = Some (extend sA B).
Proof.
  intros HA HsB Hwf H4 H1 H3. rewrite extend_is_extend_args.
  assert (Htypes : map (apply_exts (type_exts A ++ type_exts B)) (type_defs A ++ type_defs B)
          = map (apply_exts (type_exts B)) (map (apply_exts (type_exts A)) (type_defs A))
            ++ map (apply_exts (type_exts B)) (type_defs B)).
  { rewrite map_app, map_map. f_equal.
    - apply map_ext. intro t. apply apply_exts_app.
    - apply map_ext_in. intros t Ht. rewrite apply_exts_app. f_equal.
      apply apply_exts_foreign. intros e He. apply (H1 e t He Ht). }
  unfold build in *. rewrite schema_defs_app, HsB, app_nil_r.
  destruct (schema_defs A) as [|x [|y r]] eqn:EA; [| |discriminate].
  - inversion HA; subst sA; clear HA.
    unfold extend_args. cbn [s_types s_directives s_query s_mutation s_subscription s_desc empty_schema].
    rewrite schema_defs_app, HsB, EA, schema_ext_ops_app, type_exts_app, type_defs_app, dir_defs_app.
    cbn [app map last]. rewrite Htypes.
    rewrite !set_roots_components. cbn [r_query r_mutation r_subscription].
    unfold conv at 1 2 3.
    rewrite !(has_type_app_foreign _ (type_exts B) _ (type_defs B)) by (intros t Ht; apply (H3 t Ht)).
    rewrite !has_type_map.
    set (tsA := map (apply_exts (type_exts A)) (type_defs A)).
    assert (HQ := conv_last_op 0 nQuery tsA (schema_ext_ops A) (schema_ext_ops B) None (or_introl eq_refl) Hwf).
    assert (HM := conv_last_op 1 nMutation tsA (schema_ext_ops A) (schema_ext_ops B) None
                    (or_intror (or_introl eq_refl)) Hwf).
    assert (HS := conv_last_op 2 nSubscription tsA (schema_ext_ops A) (schema_ext_ops B) None
                    (or_intror (or_intror eq_refl)) Hwf).
    unfold conv in HQ, HM, HS. subst tsA. rewrite !has_type_map in HQ, HM, HS.
    unfold extend_args in H4. rewrite EA in H4. cbn [map last] in H4.
    rewrite HQ, HM, HS.
    + unfold conv. rewrite !has_type_map. reflexivity.
    + intros [n Hn]. specialize (H4 2 n Hn). unfold root_of in H4. cbn in H4.
      rewrite set_roots_components in H4. cbn in H4. unfold conv in H4. rewrite has_type_map in H4. exact H4.
    + intros [n Hn]. specialize (H4 1 n Hn). unfold root_of in H4. cbn in H4.
      rewrite set_roots_components in H4. cbn in H4. unfold conv in H4. rewrite has_type_map in H4. exact H4.
    + intros [n Hn]. specialize (H4 0 n Hn). unfold root_of in H4. cbn in H4.
      rewrite set_roots_components in H4. cbn in H4. unfold conv in H4. rewrite has_type_map in H4. exact H4.
  - inversion HA; subst sA; clear HA.
    unfold extend_args. cbn [s_types s_directives s_query s_mutation s_subscription s_desc empty_schema].
    rewrite schema_defs_app, HsB, EA, schema_ext_ops_app, type_exts_app, type_defs_app, dir_defs_app.
    cbn [app map last]. rewrite Htypes.
    unfold set_roots. rewrite fold_left_app. cbn.
    destruct x as [[d|] ops]; cbn;
      match goal with |- context [fold_left set_root (schema_ext_ops B) ?r] =>
        destruct (fold_left set_root (schema_ext_ops A) (fold_left set_root ops (mkRoots None None None))) end;
      reflexivity.
Qed.
