(* The natural order is total: the hypothesis of the sort theorems holds for the executable order. *)
From GV Require Import Base.Prelude SchemaOps.Schema SchemaOps.NatOrder.

Lemma cmp_text_antisym a b : cmp_text b a = CompOpp (cmp_text a b).
Proof.
  revert b; induction a as [|x a IH]; intros [|y b]; cbn; try reflexivity.
  rewrite (N.compare_antisym x y). destruct (x ?= y); cbn; auto.
Qed.

Lemma cmp_part_antisym x y : cmp_part y x = CompOpp (cmp_part x y).
Proof.
  destruct x as [[|] a], y as [[|] b]; cbn; try apply cmp_text_antisym.
  rewrite (N.compare_antisym (num a) (num b)). destruct (num a ?= num b); cbn; auto using cmp_text_antisym.
Qed.

Lemma cmp_key_antisym a b : cmp_key b a = CompOpp (cmp_key a b).
Proof.
  revert b; induction a as [|x a IH]; intros [|y b]; cbn; try reflexivity.
  rewrite (cmp_part_antisym x y). destruct (cmp_part x y); cbn; auto.
Qed.

Theorem natural_leb_total a b : natural_leb a b = false -> natural_leb b a = true.
Proof.
  unfold natural_leb, natural_cmp. rewrite (cmp_key_antisym (norm_key a) (norm_key b)).
  destruct (cmp_key (norm_key a) (norm_key b)); cbn; congruence.
Qed.
