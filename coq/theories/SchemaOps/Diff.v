(* find_schema_changes: changes as (kind code of the implementation's enums, path of names).
   Lookups are by name, so the result does not depend on container order.  Definitions only. *)
From GV Require Import Base.Prelude SchemaOps.Schema SchemaOps.Sort.

Record change := mkChange { c_kind : N; c_path : list name }.

(* kind codes = values of BreakingChangeType / DangerousChangeType / SafeChangeType *)
Definition TYPE_REMOVED := 10.            Definition TYPE_CHANGED_KIND := 11.
Definition TYPE_REMOVED_FROM_UNION := 20. Definition VALUE_REMOVED_FROM_ENUM := 21.
Definition REQUIRED_INPUT_FIELD_ADDED := 22. Definition IMPLEMENTED_INTERFACE_REMOVED := 23.
Definition FIELD_REMOVED := 30.           Definition FIELD_CHANGED_KIND := 31.
Definition REQUIRED_ARG_ADDED := 40.      Definition ARG_REMOVED := 41.
Definition ARG_CHANGED_KIND := 42.        Definition DIRECTIVE_REMOVED := 50.
Definition DIRECTIVE_ARG_REMOVED := 51.   Definition REQUIRED_DIRECTIVE_ARG_ADDED := 52.
Definition DIRECTIVE_REPEATABLE_REMOVED := 53. Definition DIRECTIVE_LOCATION_REMOVED := 54.
Definition VALUE_ADDED_TO_ENUM := 60.     Definition TYPE_ADDED_TO_UNION := 61.
Definition OPTIONAL_INPUT_FIELD_ADDED := 62. Definition OPTIONAL_ARG_ADDED := 63.
Definition IMPLEMENTED_INTERFACE_ADDED := 64. Definition ARG_DEFAULT_VALUE_CHANGE := 65.
Definition TYPE_ADDED := 70.              Definition DIRECTIVE_ADDED := 73.
Definition FIELD_ADDED := 74.             Definition DIRECTIVE_REPEATABLE_ADDED := 75.
Definition DIRECTIVE_LOCATION_ADDED := 76. Definition OPTIONAL_DIRECTIVE_ARG_ADDED := 77.
Definition FIELD_CHANGED_KIND_SAFE := 78. Definition ARG_CHANGED_KIND_SAFE := 79.
Definition ARG_DEFAULT_VALUE_ADDED := 80. Definition DESCRIPTION_CHANGED := 81.

(* is_change_safe_for_object_or_interface_field *)
Fixpoint safe_out (o n : tref) {struct o} : bool :=
  match o with
  | TList o' =>
      (fix go (n : tref) : bool :=
         match n with TList n' => safe_out o' n' | TNonNull n' => go n' | TNamed _ => false end) n
  | TNonNull o' => match n with TNonNull n' => safe_out o' n' | _ => false end
  | TNamed a =>
      (fix go (n : tref) : bool :=
         match n with TNamed b => text_eqb a b | TNonNull n' => go n' | TList _ => false end) n
  end.

(* is_change_safe_for_input_object_field_or_field_arg *)
Fixpoint safe_in (o n : tref) {struct o} : bool :=
  match o with
  | TList o' => match n with TList n' => safe_in o' n' | _ => false end
  | TNonNull o' => match n with TNonNull n' => safe_in o' n' | _ => safe_in o' n end
  | TNamed a => match n with TNamed b => text_eqb a b | _ => false end
  end.

Section Diff.
Variable leb : name -> name -> bool.

(* sort_value_node *)
Fixpoint vsort (v : value) : value :=
  match v with
  | VLeaf _ _ => v
  | VList l => VList (map vsort l)
  | VObj l => VObj (isort leb fst
                ((fix go (l : list (name * value)) : list (name * value) :=
                    match l with [] => [] | (k, x) :: r => (k, vsort x) :: go r end) l))
  end.

Definition default_eqb (a b : value) : bool := value_eqb (vsort a) (vsort b).

Definition has {A} (key : A -> name) (n : name) (l : list A) : bool :=
  match find_by key n l with Some _ => true | None => false end.

(* items of [l] whose name is absent from [other] *)
Definition absent {A B} (ka : A -> name) (kb : B -> name) (l : list A) (other : list B) : list A :=
  filter (fun x => negb (has kb (ka x) other)) l.

(* old items paired with the new item of the same name *)
Fixpoint persisted {A} (key : A -> name) (old new : list A) : list (A * A) :=
  match old with
  | [] => []
  | x :: r => match find_by key (key x) new with
              | Some y => (x, y) :: persisted key r new
              | None => persisted key r new
              end
  end.

Definition desc_change (path : list name) (a b : otext) : list change :=
  if otext_eqb a b then [] else [mkChange DESCRIPTION_CHANGED path].

Definition required (a : arg) : bool :=
  is_non_null (a_type a) && match a_default a with None => true | Some _ => false end.

(* persisted argument pair; [kkind] = ARG_CHANGED_KIND for fields and directives alike *)
Definition arg_pair_changes (path : list name) (o n : arg) : list change :=
  let p := path ++ [a_name o] in
  (if negb (safe_in (a_type o) (a_type n)) then [mkChange ARG_CHANGED_KIND p]
   else match a_default o, a_default n with
        | Some _, None => [mkChange ARG_DEFAULT_VALUE_CHANGE p]
        | Some x, Some y => if default_eqb x y then [] else [mkChange ARG_DEFAULT_VALUE_CHANGE p]
        | None, Some _ => [mkChange ARG_DEFAULT_VALUE_ADDED p]
        | None, None => if tref_eqb (a_type o) (a_type n) then [] else [mkChange ARG_CHANGED_KIND_SAFE p]
        end)
  ++ desc_change p (a_desc o) (a_desc n).

Definition field_arg_changes (path : list name) (o n : list arg) : list change :=
  map (fun a => mkChange ARG_REMOVED (path ++ [a_name a])) (absent a_name a_name o n)
  ++ flat_map (fun p => arg_pair_changes path (fst p) (snd p)) (persisted a_name o n)
  ++ map (fun a => mkChange (if required a then REQUIRED_ARG_ADDED else OPTIONAL_ARG_ADDED) (path ++ [a_name a]))
       (absent a_name a_name n o).

Definition field_pair_changes (tn : name) (o n : field) : list change :=
  let p := [tn; f_name o] in
  field_arg_changes p (f_args o) (f_args n)
  ++ (if negb (safe_out (f_type o) (f_type n)) then [mkChange FIELD_CHANGED_KIND p]
      else if tref_eqb (f_type o) (f_type n) then [] else [mkChange FIELD_CHANGED_KIND_SAFE p])
  ++ desc_change p (f_desc o) (f_desc n).

Definition field_changes (tn : name) (o n : list field) : list change :=
  map (fun f => mkChange FIELD_REMOVED [tn; f_name f]) (absent f_name f_name o n)
  ++ map (fun f => mkChange FIELD_ADDED [tn; f_name f]) (absent f_name f_name n o)
  ++ flat_map (fun p => field_pair_changes tn (fst p) (snd p)) (persisted f_name o n).

Definition iface_changes (tn : name) (o n : list name) : list change :=
  map (fun i => mkChange IMPLEMENTED_INTERFACE_ADDED [tn; i]) (absent idn idn n o)
  ++ map (fun i => mkChange IMPLEMENTED_INTERFACE_REMOVED [tn; i]) (absent idn idn o n).

Definition union_changes (tn : name) (o n : list name) : list change :=
  map (fun i => mkChange TYPE_ADDED_TO_UNION [tn; i]) (absent idn idn n o)
  ++ map (fun i => mkChange TYPE_REMOVED_FROM_UNION [tn; i]) (absent idn idn o n).

Definition enum_changes (tn : name) (o n : list enumval) : list change :=
  map (fun v => mkChange VALUE_ADDED_TO_ENUM [tn; e_name v]) (absent e_name e_name n o)
  ++ map (fun v => mkChange VALUE_REMOVED_FROM_ENUM [tn; e_name v]) (absent e_name e_name o n)
  ++ flat_map (fun p => desc_change [tn; e_name (fst p)] (e_desc (fst p)) (e_desc (snd p)))
       (persisted e_name o n).

Definition input_pair_changes (tn : name) (o n : arg) : list change :=
  let p := [tn; a_name o] in
  (if negb (safe_in (a_type o) (a_type n)) then [mkChange FIELD_CHANGED_KIND p]
   else if tref_eqb (a_type o) (a_type n) then [] else [mkChange FIELD_CHANGED_KIND_SAFE p])
  ++ desc_change p (a_desc o) (a_desc n).

Definition input_changes (tn : name) (o n : list arg) : list change :=
  map (fun a => mkChange (if required a then REQUIRED_INPUT_FIELD_ADDED else OPTIONAL_INPUT_FIELD_ADDED)
                  [tn; a_name a]) (absent a_name a_name n o)
  ++ map (fun a => mkChange FIELD_REMOVED [tn; a_name a]) (absent a_name a_name o n)
  ++ flat_map (fun p => input_pair_changes tn (fst p) (snd p)) (persisted a_name o n).

Definition type_pair_changes (o n : typedef) : list change :=
  let tn := t_name o in
  desc_change [tn] (t_desc o) (t_desc n)
  ++ (if (t_kind o =? 4) && (t_kind n =? 4) then enum_changes tn (t_values o) (t_values n)
      else if (t_kind o =? 3) && (t_kind n =? 3) then union_changes tn (t_members o) (t_members n)
      else if (t_kind o =? 5) && (t_kind n =? 5) then input_changes tn (t_inputs o) (t_inputs n)
      else if ((t_kind o =? 1) && (t_kind n =? 1)) || ((t_kind o =? 2) && (t_kind n =? 2)) then
        field_changes tn (t_fields o) (t_fields n) ++ iface_changes tn (t_ifaces o) (t_ifaces n)
      else if t_kind o =? t_kind n then [] else [mkChange TYPE_CHANGED_KIND [tn]]).

Definition type_changes (o n : list typedef) : list change :=
  map (fun t => mkChange TYPE_REMOVED [t_name t]) (absent t_name t_name o n)
  ++ map (fun t => mkChange TYPE_ADDED [t_name t]) (absent t_name t_name n o)
  ++ flat_map (fun p => type_pair_changes (fst p) (snd p)) (persisted t_name o n).

Definition directive_pair_changes (o n : directive) : list change :=
  let dn := d_name o in
  map (fun a => mkChange (if required a then REQUIRED_DIRECTIVE_ARG_ADDED else OPTIONAL_DIRECTIVE_ARG_ADDED)
                  [dn; a_name a]) (absent a_name a_name (d_args n) (d_args o))
  ++ map (fun a => mkChange DIRECTIVE_ARG_REMOVED [dn; a_name a]) (absent a_name a_name (d_args o) (d_args n))
  ++ flat_map (fun p => arg_pair_changes [dn] (fst p) (snd p)) (persisted a_name (d_args o) (d_args n))
  ++ (if d_repeatable o && negb (d_repeatable n) then [mkChange DIRECTIVE_REPEATABLE_REMOVED [dn]]
      else if d_repeatable n && negb (d_repeatable o) then [mkChange DIRECTIVE_REPEATABLE_ADDED [dn]] else [])
  ++ desc_change [dn] (d_desc o) (d_desc n)
  ++ map (fun l => mkChange DIRECTIVE_LOCATION_REMOVED [dn; l])
       (filter (fun l => negb (mem_name l (d_locs n))) (d_locs o))
  ++ map (fun l => mkChange DIRECTIVE_LOCATION_ADDED [dn; l])
       (filter (fun l => negb (mem_name l (d_locs o))) (d_locs n)).

Definition directive_changes (o n : list directive) : list change :=
  map (fun d => mkChange DIRECTIVE_REMOVED [d_name d]) (absent d_name d_name o n)
  ++ map (fun d => mkChange DIRECTIVE_ADDED [d_name d]) (absent d_name d_name n o)
  ++ flat_map (fun p => directive_pair_changes (fst p) (snd p)) (persisted d_name o n).

Definition diff (a b : schema) : list change :=
  type_changes (s_types a) (s_types b) ++ directive_changes (s_directives a) (s_directives b).

End Diff.
