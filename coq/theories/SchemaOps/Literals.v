(* Default-value literals as const-value trees of the language model: the printer of literals is
   Lang/Printer.pp (print_ast), the parser is Lang/Parser.parse_text EConstValue
   (parse_const_value); their round trip is C08_print_parse_roundtrip.  This instantiates the
   printer / parser parameters of Introspect.v / Client.v. *)
From GV Require Import Base.Prelude Lang.Ast Lang.Parser Lang.Wf Lang.Printer Lang.PrinterProps
  Properties.C08printer SchemaOps.Schema SchemaOps.DiffProps.

(* the const-value node of a literal tree (strings are printed in the quoted form) *)
Fixpoint to_node (v : value) : node :=
  match v with
  | VLeaf t x =>
      if t =? 0 then Nd KNullValue []
      else if t =? 1 then Nd KIntValue [AStr x]
      else if t =? 2 then Nd KFloatValue [AStr x]
      else if t =? 4 then Nd KBooleanValue [ABool (match x with [0] => false | _ => true end)]
      else if t =? 5 then Nd KEnumValue [AStr x]
      else Nd KStringValue [AStr x; ABool false]
  | VList l => Nd KListValue [AList (map to_node l)]
  | VObj fs =>
      Nd KObjectValue
        [AList ((fix go (fs : list (name * value)) : list node :=
                   match fs with
                   | [] => []
                   | (k, x) :: r => Nd KObjectField [ANode (mk_name k); ANode (to_node x)] :: go r
                   end) fs)]
  end.

(* the literal tree of a const-value node (the block flag of a string is not part of a value) *)
Fixpoint of_node (n : node) : option value :=
  match n with
  | Nd KNullValue [] => Some (VLeaf 0 [])
  | Nd KIntValue [AStr s] => Some (VLeaf 1 s)
  | Nd KFloatValue [AStr s] => Some (VLeaf 2 s)
  | Nd KStringValue [AStr s; ABool _] => Some (VLeaf 3 s)
  | Nd KBooleanValue [ABool b] => Some (VLeaf 4 [if b then 1 else 0])
  | Nd KEnumValue [AStr s] => Some (VLeaf 5 s)
  | Nd KListValue [AList l] =>
      option_map VList
        ((fix go (l : list node) : option (list value) :=
            match l with
            | [] => Some []
            | x :: r => match of_node x, go r with Some v, Some vs => Some (v :: vs) | _, _ => None end
            end) l)
  | Nd KObjectValue [AList fs] =>
      option_map VObj
        ((fix go (fs : list node) : option (list (name * value)) :=
            match fs with
            | [] => Some []
            | Nd KObjectField [ANode (Nd KName [AStr k]); ANode x] :: r =>
                match of_node x, go r with Some v, Some vs => Some ((k, v) :: vs) | _, _ => None end
            | _ => None
            end) fs)
  | _ => None
  end.

(* leaves in normal form: tag 0 null (no text), 1 int, 2 float, 3 string, 4 boolean ([0] / [1]), 5 enum *)
Fixpoint canon (v : value) : Prop :=
  match v with
  | VLeaf t x => (t = 0 /\ x = []) \/ t = 1 \/ t = 2 \/ t = 3 \/ (t = 4 /\ (x = [0] \/ x = [1])) \/ t = 5
  | VList l => (fix go (l : list value) : Prop := match l with [] => True | x :: r => canon x /\ go r end) l
  | VObj fs => (fix go (fs : list (name * value)) : Prop :=
                  match fs with [] => True | (k, x) :: r => canon x /\ go r end) fs
  end.

Lemma of_to v : canon v -> of_node (to_node v) = Some v.
Proof.
  induction v as [t x | l IH | fs IH] using value_ind'; intro Hc.
  - cbn in Hc. destruct Hc as [[E1 E2]|[E1|[E1|[E1|[[E1 Hx]|E1] ] ] ] ]; subst; try reflexivity.
    destruct Hx as [E|E]; subst; reflexivity.
  - cbn [to_node of_node]. 
    assert (H : (fix go (l : list node) : option (list value) :=
                   match l with
                   | [] => Some []
                   | x :: r => match of_node x, go r with Some v, Some vs => Some (v :: vs) | _, _ => None end
                   end) (map to_node l) = Some l).
    { cbn in Hc. induction IH as [|a r Ha Hr IHr]; [reflexivity|].
      destruct Hc as [Hca Hcr]. cbn [map]. rewrite (Ha Hca), (IHr Hcr). reflexivity. }
    rewrite H. reflexivity.
  - cbn [to_node of_node].
    match goal with |- option_map VObj ?e = _ => assert (H : e = Some fs) end.
    { cbn in Hc. induction IH as [|[k a] r Ha Hr IHr]; [reflexivity|].
      destruct Hc as [Hca Hcr]. cbn in Ha. specialize (Ha Hca). specialize (IHr Hcr).
      cbn. cbn in IHr. rewrite Ha, IHr. reflexivity. }
    rewrite H. reflexivity.
Qed.

(* the literals that print_ast / parse_const_value carry faithfully: normal-form trees whose node
   is a parser output for a const value (enum names are not true/false/null) and whose leaves are
   lexically possible (names are Name lexemes, numbers Int / Float lexemes, strings consist of
   Unicode scalar values) *)
Definition literal_ok (v : value) : Prop :=
  canon v /\ wf_value true (to_node v) /\ lex_ok (to_node v).

Definition lit_opts : options := mkOpts None false false.

(* print_ast of a default-value literal *)
Definition print_literal (v : value) : list N := pp (to_node v).

(* parse_const_value *)
Definition parse_literal (txt : list N) : option value :=
  match parse_text EConstValue lit_opts txt with
  | Ok (x, _) => of_node x
  | _ => None
  end.

Theorem literal_roundtrip v : literal_ok v -> parse_literal (print_literal v) = Some v.
Proof.
  intros (Hc & Hw & Hl). unfold parse_literal, print_literal.
  rewrite (C08_print_parse_roundtrip EConstValue lit_opts (to_node v)); [apply of_to; exact Hc| | | |].
  - discriminate.
  - reflexivity.
  - exact Hw.
  - exact Hl.
Qed.
