(* Proofs about Diff.v: reflexivity, order-insensitivity (no changes between a schema and any
   container-wise permutation of it, in particular its sort). *)
From Coq Require Import Permutation.
From GV Require Import Base.Prelude SchemaOps.Schema SchemaOps.Sort SchemaOps.SortProps SchemaOps.Diff.

(* ---- reflexivity of the boolean equalities *)
Lemma text_eqb_refl a : text_eqb a a = true.
Proof. apply nat_list_eqb_eq. reflexivity. Qed.

Lemma text_eqb_true a b : text_eqb a b = true -> a = b.
Proof. apply nat_list_eqb_eq. Qed.

Lemma otext_eqb_refl a : otext_eqb a a = true.
Proof. destruct a; cbn; [apply text_eqb_refl|reflexivity]. Qed.

Lemma tref_eqb_refl t : tref_eqb t t = true.
Proof. induction t; cbn; auto using text_eqb_refl. Qed.

Section ValueInd.
Variable P : value -> Prop.
Hypothesis Hleaf : forall t x, P (VLeaf t x).
Hypothesis Hlist : forall l, Forall P l -> P (VList l).
Hypothesis Hobj : forall l, Forall (fun kv => P (snd kv)) l -> P (VObj l).
Fixpoint value_ind' (v : value) : P v :=
  match v with
  | VLeaf t x => Hleaf t x
  | VList l =>
      Hlist l ((fix go (l : list value) : Forall P l :=
                  match l with
                  | [] => Forall_nil _
                  | a :: r => Forall_cons _ (value_ind' a) (go r)
                  end) l)
  | VObj l =>
      Hobj l ((fix go (l : list (name * value)) : Forall (fun kv => P (snd kv)) l :=
                 match l with
                 | [] => Forall_nil _
                 | kv :: r =>
                     Forall_cons kv
                       (match kv as kv0 return P (snd kv0) with (k, a) => value_ind' a end) (go r)
                 end) l)
  end.
End ValueInd.

Lemma value_eqb_refl v : value_eqb v v = true.
Proof.
  induction v as [t x | l IH | l IH] using value_ind'; cbn [value_eqb].
  - rewrite N.eqb_refl, text_eqb_refl. reflexivity.
  - induction IH as [|a r Ha Hr IHr]; [reflexivity|]. rewrite Ha. exact IHr.
  - induction IH as [|[k a] r Ha Hr IHr]; [reflexivity|]. cbn in Ha. rewrite text_eqb_refl, Ha. exact IHr.
Qed.

Lemma safe_in_refl t : safe_in t t = true.
Proof. induction t; cbn; auto using text_eqb_refl. Qed.

Lemma safe_out_refl t : safe_out t t = true.
Proof. induction t; cbn; auto using text_eqb_refl. Qed.

(* ---- lookups *)
Lemma find_by_some {A} (key : A -> name) n l y :
  find_by key n l = Some y -> In y l /\ key y = n.
Proof.
  induction l as [|x r IH]; cbn; [discriminate|].
  destruct (text_eqb (key x) n) eqn:E.
  - intro H. inversion H; subst. split; [left; reflexivity|apply text_eqb_true; exact E].
  - intro H. destruct (IH H). split; [right|]; assumption.
Qed.

Lemma find_by_in {A} (key : A -> name) x l :
  NoDup (map key l) -> In x l -> find_by key (key x) l = Some x.
Proof.
  induction l as [|y r IH]; cbn; [contradiction|].
  intros Hnd [->|Hin].
  - rewrite text_eqb_refl. reflexivity.
  - inversion Hnd as [|? ? Hni Hnd']; subst.
    destruct (text_eqb (key y) (key x)) eqn:E.
    + apply text_eqb_true in E. exfalso. apply Hni. rewrite E. apply in_map. exact Hin.
    + apply IH; assumption.
Qed.

Lemma has_in {A} (key : A -> name) n l : In n (map key l) -> has key n l = true.
Proof.
  unfold has. induction l as [|y r IH]; cbn; [contradiction|].
  intros [<-|Hin].
  - rewrite text_eqb_refl. reflexivity.
  - destruct (text_eqb (key y) n); [reflexivity|apply IH; exact Hin].
Qed.

Lemma absent_nil {A B} (ka : A -> name) (kb : B -> name) l other :
  (forall x, In x l -> In (ka x) (map kb other)) -> absent ka kb l other = [].
Proof.
  intro H. unfold absent. induction l as [|x r IH]; cbn; [reflexivity|].
  rewrite (has_in kb (ka x) other) by (apply H; left; reflexivity). cbn.
  apply IH. intros y Hy. apply H. right. exact Hy.
Qed.

Lemma persisted_in {A} (key : A -> name) old new x y :
  In (x, y) (persisted key old new) -> In x old /\ find_by key (key x) new = Some y.
Proof.
  induction old as [|z r IH]; cbn; [contradiction|].
  destruct (find_by key (key z) new) eqn:E.
  - intros [H|H].
    + inversion H; subst. split; [left; reflexivity|exact E].
    + destruct (IH H). split; [right|]; assumption.
  - intro H. destruct (IH H). split; [right|]; assumption.
Qed.

Lemma flat_map_nil {A B} (f : A -> list B) l : (forall x, In x l -> f x = []) -> flat_map f l = [].
Proof.
  intro H. induction l as [|x r IH]; cbn; [reflexivity|].
  rewrite H by (left; reflexivity). cbn. apply IH. intros y Hy. apply H. right. exact Hy.
Qed.

Lemma filter_nil {A} (p : A -> bool) l : (forall x, In x l -> p x = false) -> filter p l = [].
Proof.
  intro H. induction l as [|x r IH]; cbn; [reflexivity|].
  rewrite H by (left; reflexivity). apply IH. intros y Hy. apply H. right. exact Hy.
Qed.

Lemma mem_name_in n l : In n l -> mem_name n l = true.
Proof.
  unfold mem_name. intro H. apply existsb_exists. exists n. split; [exact H|apply text_eqb_refl].
Qed.

(* ---- key facts about related containers *)
Lemma Forall2_in_l {A} (R : A -> A -> Prop) l m x :
  Forall2 R l m -> In x l -> exists y, In y m /\ R x y.
Proof.
  induction 1 as [|a b l m Hab H IH]; cbn; [contradiction|].
  intros [->|Hin].
  - exists b. split; [left; reflexivity|exact Hab].
  - destruct (IH Hin) as [y [Hy Hr]]. exists y. split; [right|]; assumption.
Qed.

Lemma Forall2_in_r {A} (R : A -> A -> Prop) l m y :
  Forall2 R l m -> In y m -> exists x, In x l /\ R x y.
Proof.
  induction 1 as [|a b l m Hab H IH]; cbn; [contradiction|].
  intros [->|Hin].
  - exists a. split; [left; reflexivity|exact Hab].
  - destruct (IH Hin) as [x [Hx Hr]]. exists x. split; [right|]; assumption.
Qed.

Lemma Forall2_map_key {A} (R : A -> A -> Prop) (key : A -> name) l m :
  (forall x y, R x y -> key x = key y) -> Forall2 R l m -> map key l = map key m.
Proof.
  intros Hk. induction 1 as [|a b l m Hab H IH]; cbn; [reflexivity|].
  rewrite (Hk _ _ Hab), IH. reflexivity.
Qed.

Section Related.
Context {A : Type} (R : A -> A -> Prop) (key : A -> name).
Hypothesis Rkey : forall x y, R x y -> key x = key y.
Variables old new : list A.
Hypothesis Hrel : PermRel R old new.
Hypothesis Hnd : NoDup (map key old).

Lemma related_nodup_new : NoDup (map key new).
Proof.
  destruct Hrel as [m [Hf Hp]].
  apply (Permutation_NoDup (l := map key m)); [apply Permutation_map; exact Hp|].
  rewrite <- (Forall2_map_key R key old m Rkey Hf). exact Hnd.
Qed.

Lemma related_lookup x : In x old -> exists y, find_by key (key x) new = Some y /\ R x y.
Proof.
  intro Hin. destruct Hrel as [m [Hf Hp]].
  destruct (Forall2_in_l R old m x Hf Hin) as [y [Hy Hr]].
  exists y. split; [|exact Hr].
  rewrite (Rkey _ _ Hr). apply find_by_in; [apply related_nodup_new|].
  eapply Permutation_in; eassumption.
Qed.

Lemma related_keys_l x : In x old -> In (key x) (map key new).
Proof.
  intro Hin. destruct (related_lookup x Hin) as [y [Hy _]].
  apply find_by_some in Hy. destruct Hy as [Hy Hk]. rewrite <- Hk. apply in_map. exact Hy.
Qed.

Lemma related_keys_r y : In y new -> In (key y) (map key old).
Proof.
  intro Hin. destruct Hrel as [m [Hf Hp]].
  assert (Hm : In y m) by (eapply Permutation_in; [apply Permutation_sym; exact Hp|exact Hin]).
  destruct (Forall2_in_r R old m y Hf Hm) as [x [Hx Hr]].
  rewrite <- (Rkey _ _ Hr). apply in_map. exact Hx.
Qed.

Lemma related_absent_l : absent key key old new = [].
Proof. apply absent_nil. exact related_keys_l. Qed.

Lemma related_absent_r : absent key key new old = [].
Proof. apply absent_nil. exact related_keys_r. Qed.

Lemma related_persisted x y : In (x, y) (persisted key old new) -> In x old /\ R x y.
Proof.
  intro H. apply persisted_in in H. destruct H as [Hin Hf].
  split; [exact Hin|].
  destruct (related_lookup x Hin) as [y' [Hy' Hr]]. rewrite Hf in Hy'. inversion Hy'; subst. exact Hr.
Qed.
End Related.

Lemma perm_PermRel {A} (l l' : list A) : Permutation l l' -> PermRel eq l l'.
Proof.
  intro H. exists l. split; [|exact H]. clear H. induction l; constructor; auto.
Qed.

(* ---- well-formedness: names are unique inside every keyed container *)
Definition wf_field (f : field) : Prop := NoDup (map a_name (f_args f)).
Definition wf_type (t : typedef) : Prop :=
  NoDup (map f_name (t_fields t)) /\ Forall wf_field (t_fields t)
  /\ NoDup (map e_name (t_values t)) /\ NoDup (map a_name (t_inputs t)).
Definition wf_dir (d : directive) : Prop := NoDup (map a_name (d_args d)).
Definition wf (s : schema) : Prop :=
  NoDup (map t_name (s_types s)) /\ Forall wf_type (s_types s)
  /\ NoDup (map d_name (s_directives s)) /\ Forall wf_dir (s_directives s).

Section NoChanges.
Variable leb : name -> name -> bool.

Lemma desc_change_refl p a : desc_change p a a = [].
Proof. unfold desc_change. rewrite otext_eqb_refl. reflexivity. Qed.

Lemma arg_pair_refl p a : arg_pair_changes leb p a a = [].
Proof.
  unfold arg_pair_changes. rewrite safe_in_refl, desc_change_refl. cbn.
  destruct (a_default a); [unfold default_eqb; rewrite value_eqb_refl|rewrite tref_eqb_refl]; reflexivity.
Qed.

Lemma args_no_change p o n :
  Permutation o n -> NoDup (map a_name o) -> field_arg_changes leb p o n = [].
Proof.
  intros Hp Hnd. apply perm_PermRel in Hp. unfold field_arg_changes.
  rewrite (related_absent_l eq a_name (fun x y H => f_equal a_name H) o n Hp Hnd).
  rewrite (related_absent_r eq a_name (fun x y H => f_equal a_name H) o n Hp).
  cbn. rewrite app_nil_r. apply flat_map_nil. intros [x y] H.
  apply (related_persisted eq a_name (fun x y H => f_equal a_name H) o n Hp Hnd) in H.
  destruct H as [_ <-]. apply arg_pair_refl.
Qed.

Lemma field_pair_no_change tn f f' : field_rel f f' -> wf_field f -> field_pair_changes leb tn f f' = [].
Proof.
  intros (Hn & Ht & Hd & _ & Hp) Hwf. unfold field_pair_changes.
  rewrite (args_no_change _ _ _ Hp Hwf). rewrite <- Ht, <- Hd.
  rewrite safe_out_refl, tref_eqb_refl, desc_change_refl. reflexivity.
Qed.

Lemma field_rel_key x y : field_rel x y -> f_name x = f_name y.
Proof. intros (H & _). exact H. Qed.

Lemma fields_no_change tn o n :
  PermRel field_rel o n -> NoDup (map f_name o) -> Forall wf_field o -> field_changes leb tn o n = [].
Proof.
  intros Hp Hnd Hwf. unfold field_changes.
  rewrite (related_absent_l field_rel f_name field_rel_key o n Hp Hnd).
  rewrite (related_absent_r field_rel f_name field_rel_key o n Hp).
  cbn. apply flat_map_nil. intros [x y] H.
  apply (related_persisted field_rel f_name field_rel_key o n Hp Hnd) in H.
  destruct H as [Hin Hr]. cbn. apply field_pair_no_change; [exact Hr|].
  rewrite Forall_forall in Hwf. apply Hwf. exact Hin.
Qed.

Lemma names_absent o n : Permutation o n -> absent idn idn o n = [].
Proof.
  intro Hp. apply absent_nil. intros x Hx. rewrite map_id. unfold idn.
  eapply Permutation_in; eassumption.
Qed.

Lemma ifaces_no_change tn o n : Permutation o n -> iface_changes tn o n = [].
Proof.
  intro Hp. unfold iface_changes.
  rewrite (names_absent n o (Permutation_sym Hp)), (names_absent o n Hp). reflexivity.
Qed.

Lemma union_no_change tn o n : Permutation o n -> union_changes tn o n = [].
Proof.
  intro Hp. unfold union_changes.
  rewrite (names_absent n o (Permutation_sym Hp)), (names_absent o n Hp). reflexivity.
Qed.

Lemma enum_no_change tn o n :
  Permutation o n -> NoDup (map e_name o) -> enum_changes tn o n = [].
Proof.
  intros Hp Hnd. apply perm_PermRel in Hp. unfold enum_changes.
  rewrite (related_absent_l eq e_name (fun x y H => f_equal e_name H) o n Hp Hnd).
  rewrite (related_absent_r eq e_name (fun x y H => f_equal e_name H) o n Hp).
  cbn. apply flat_map_nil. intros [x y] H.
  apply (related_persisted eq e_name (fun x y H => f_equal e_name H) o n Hp Hnd) in H.
  destruct H as [_ <-]. cbn. apply desc_change_refl.
Qed.

Lemma input_no_change tn o n :
  Permutation o n -> NoDup (map a_name o) -> input_changes tn o n = [].
Proof.
  intros Hp Hnd. apply perm_PermRel in Hp. unfold input_changes.
  rewrite (related_absent_l eq a_name (fun x y H => f_equal a_name H) o n Hp Hnd).
  rewrite (related_absent_r eq a_name (fun x y H => f_equal a_name H) o n Hp).
  cbn. apply flat_map_nil. intros [x y] H.
  apply (related_persisted eq a_name (fun x y H => f_equal a_name H) o n Hp Hnd) in H.
  destruct H as [_ <-]. cbn. unfold input_pair_changes.
  rewrite safe_in_refl, tref_eqb_refl, desc_change_refl. reflexivity.
Qed.

Lemma type_pair_no_change t t' : type_rel t t' -> wf_type t -> type_pair_changes leb t t' = [].
Proof.
  intros (Hk & Hn & Hd & _ & _ & Hf & Hi & Hm & Hv & Hin) (Wf & Wff & Wv & Wi).
  unfold type_pair_changes. rewrite <- Hd, <- Hk, desc_change_refl. cbn [app].
  rewrite (enum_no_change _ _ _ Hv Wv), (union_no_change _ _ _ Hm), (input_no_change _ _ _ Hin Wi),
    (fields_no_change _ _ _ Hf Wf Wff), (ifaces_no_change _ _ _ Hi), N.eqb_refl.
  cbn [app].
  repeat match goal with |- (if ?c then _ else _) = _ => destruct c end; reflexivity.
Qed.

Lemma type_rel_key x y : type_rel x y -> t_name x = t_name y.
Proof. intros (_ & H & _). exact H. Qed.

Lemma types_no_change o n :
  PermRel type_rel o n -> NoDup (map t_name o) -> Forall wf_type o -> type_changes leb o n = [].
Proof.
  intros Hp Hnd Hwf. unfold type_changes.
  rewrite (related_absent_l type_rel t_name type_rel_key o n Hp Hnd).
  rewrite (related_absent_r type_rel t_name type_rel_key o n Hp).
  cbn. apply flat_map_nil. intros [x y] H.
  apply (related_persisted type_rel t_name type_rel_key o n Hp Hnd) in H.
  destruct H as [Hin Hr]. cbn. apply type_pair_no_change; [exact Hr|].
  rewrite Forall_forall in Hwf. apply Hwf. exact Hin.
Qed.

Lemma locs_filter_nil o n : Permutation o n -> filter (fun l => negb (mem_name l n)) o = [].
Proof.
  intro Hp. apply filter_nil. intros x Hx.
  rewrite mem_name_in; [reflexivity|]. eapply Permutation_in; eassumption.
Qed.

Lemma dir_pair_no_change d d' : dir_rel d d' -> wf_dir d -> directive_pair_changes leb d d' = [].
Proof.
  intros (Hn & Hd & Hr & _ & Ha & Hl) Wa. unfold directive_pair_changes.
  pose proof (perm_PermRel _ _ Ha) as Ha'.
  rewrite (related_absent_l eq a_name (fun x y H => f_equal a_name H) _ _ Ha' Wa).
  rewrite (related_absent_r eq a_name (fun x y H => f_equal a_name H) _ _ Ha').
  rewrite (locs_filter_nil _ _ Hl), (locs_filter_nil _ _ (Permutation_sym Hl)).
  rewrite <- Hd, <- Hr, desc_change_refl. cbn [map app].
  rewrite flat_map_nil.
  - destruct (d_repeatable d); reflexivity.
  - intros [x y] H.
    apply (related_persisted eq a_name (fun x y H => f_equal a_name H) _ _ Ha' Wa) in H.
    destruct H as [_ <-]. apply arg_pair_refl.
Qed.

Lemma dir_rel_key x y : dir_rel x y -> d_name x = d_name y.
Proof. intros (H & _). exact H. Qed.

Lemma dirs_no_change o n :
  PermRel dir_rel o n -> NoDup (map d_name o) -> Forall wf_dir o -> directive_changes leb o n = [].
Proof.
  intros Hp Hnd Hwf. unfold directive_changes.
  rewrite (related_absent_l dir_rel d_name dir_rel_key o n Hp Hnd).
  rewrite (related_absent_r dir_rel d_name dir_rel_key o n Hp).
  cbn. apply flat_map_nil. intros [x y] H.
  apply (related_persisted dir_rel d_name dir_rel_key o n Hp Hnd) in H.
  destruct H as [Hin Hr]. cbn. apply dir_pair_no_change; [exact Hr|].
  rewrite Forall_forall in Hwf. apply Hwf. exact Hin.
Qed.

(* diff is insensitive to the order of every container *)
Theorem diff_rel_nil a b : wf a -> schema_rel a b -> diff leb a b = [].
Proof.
  intros (Wt & Wtt & Wd & Wdd) (_ & _ & _ & _ & Ht & Hd). unfold diff.
  rewrite (types_no_change _ _ Ht Wt Wtt), (dirs_no_change _ _ Hd Wd Wdd). reflexivity.
Qed.

Theorem diff_refl s : wf s -> diff leb s s = [].
Proof. intro H. apply diff_rel_nil; [exact H|apply schema_rel_refl]. Qed.

Theorem sort_no_diff leb' s : wf s -> diff leb s (sort leb' s) = [].
Proof. intro H. apply diff_rel_nil; [exact H|apply sort_perm]. Qed.

End NoChanges.
