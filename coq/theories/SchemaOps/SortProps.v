(* Proofs about Sort.v: permutation, sortedness, idempotence. *)
From Coq Require Import Permutation.
From GV Require Import Base.Prelude SchemaOps.Schema SchemaOps.Sort.

Section SortProps.
Variable leb : name -> name -> bool.

Lemma insert_perm {A} (key : A -> name) x l : Permutation (x :: l) (insert leb key x l).
Proof.
  induction l as [|y r IH]; cbn [insert].
  - apply Permutation_refl.
  - destruct (leb (key x) (key y)).
    + apply Permutation_refl.
    + eapply Permutation_trans; [apply perm_swap|]. apply perm_skip. exact IH.
Qed.

Lemma isort_perm {A} (key : A -> name) l : Permutation l (isort leb key l).
Proof.
  induction l as [|x r IH]; cbn [isort].
  - apply Permutation_refl.
  - eapply Permutation_trans; [apply perm_skip; exact IH|]. apply insert_perm.
Qed.

Fixpoint sorted {A} (key : A -> name) (l : list A) : Prop :=
  match l with
  | [] => True
  | x :: r => match r with
              | [] => True
              | y :: _ => leb (key x) (key y) = true
              end /\ sorted key r
  end.

Hypothesis leb_total : forall a b, leb a b = false -> leb b a = true.

Lemma insert_sorted {A} (key : A -> name) x l : sorted key l -> sorted key (insert leb key x l).
Proof.
  induction l as [|y r IH]; cbn [insert]; intro H.
  - cbn. auto.
  - destruct (leb (key x) (key y)) eqn:E.
    + cbn [sorted]. split; [exact E|]. exact H.
    + destruct H as [Hy Hr]. specialize (IH Hr).
      cbn [sorted]. split; [|exact IH].
      destruct r as [|z r']; cbn [insert].
      * apply leb_total. exact E.
      * destruct (leb (key x) (key z)); [apply leb_total; exact E | exact Hy].
Qed.

Lemma isort_sorted {A} (key : A -> name) l : sorted key (isort leb key l).
Proof.
  induction l as [|x r IH]; cbn [isort].
  - exact I.
  - apply insert_sorted. exact IH.
Qed.

Lemma isort_id {A} (key : A -> name) l : sorted key l -> isort leb key l = l.
Proof.
  induction l as [|x r IH]; cbn [isort]; intro H.
  - reflexivity.
  - destruct H as [Hx Hr]. rewrite (IH Hr).
    destruct r as [|y r']; cbn [insert].
    + reflexivity.
    + rewrite Hx. reflexivity.
Qed.

Lemma isort_idem {A} (key : A -> name) l : isort leb key (isort leb key l) = isort leb key l.
Proof. apply isort_id. apply isort_sorted. Qed.

Lemma insert_map {A B} (ka : A -> name) (kb : B -> name) (g : A -> B) x l :
  (forall a, kb (g a) = ka a) ->
  insert leb kb (g x) (map g l) = map g (insert leb ka x l).
Proof.
  intro Hk. induction l as [|y r IH]; cbn [insert map].
  - reflexivity.
  - rewrite !Hk. destruct (leb (ka x) (ka y)); cbn [map].
    + reflexivity.
    + rewrite IH. reflexivity.
Qed.

Lemma isort_map {A B} (ka : A -> name) (kb : B -> name) (g : A -> B) l :
  (forall a, kb (g a) = ka a) ->
  isort leb kb (map g l) = map g (isort leb ka l).
Proof.
  intro Hk. induction l as [|x r IH]; cbn [isort map].
  - reflexivity.
  - rewrite IH. apply insert_map. exact Hk.
Qed.

(* sort (map g) twice = once, for a key-preserving idempotent g *)
Lemma isort_map_idem {A} (key : A -> name) (g : A -> A) l :
  (forall a, key (g a) = key a) -> (forall a, g (g a) = g a) ->
  isort leb key (map g (isort leb key (map g l))) = isort leb key (map g l).
Proof.
  intros Hk Hg.
  rewrite <- (isort_map key key g (map g l) Hk).
  rewrite map_map. rewrite (map_ext (fun x => g (g x)) g Hg).
  apply isort_idem.
Qed.

Lemma sort_field_idem f : sort_field leb (sort_field leb f) = sort_field leb f.
Proof. destruct f; unfold sort_field; cbn. rewrite isort_idem. reflexivity. Qed.

Lemma sort_type_idem t : sort_type leb (sort_type leb t) = sort_type leb t.
Proof.
  destruct t; unfold sort_type; cbn.
  rewrite (isort_map_idem f_name (sort_field leb)); [|intros []; reflexivity|apply sort_field_idem].
  rewrite !isort_idem. reflexivity.
Qed.

Lemma sort_directive_idem d : sort_directive leb (sort_directive leb d) = sort_directive leb d.
Proof. destruct d; unfold sort_directive; cbn. rewrite !isort_idem. reflexivity. Qed.

Theorem sort_idem s : sort leb (sort leb s) = sort leb s.
Proof.
  destruct s; unfold sort; cbn.
  rewrite (isort_map_idem t_name (sort_type leb)); [|intros []; reflexivity|apply sort_type_idem].
  rewrite (isort_map_idem d_name (sort_directive leb)); [|intros []; reflexivity|apply sort_directive_idem].
  reflexivity.
Qed.

End SortProps.

(* ---- "every container is a permutation of the original and nothing else changes" *)

Definition PermRel {A} (R : A -> A -> Prop) (l l' : list A) : Prop :=
  exists m, Forall2 R l m /\ Permutation m l'.

Definition field_rel (f f' : field) : Prop :=
  f_name f = f_name f' /\ f_type f = f_type f' /\ f_desc f = f_desc f' /\ f_depr f = f_depr f'
  /\ Permutation (f_args f) (f_args f').

Definition type_rel (t t' : typedef) : Prop :=
  t_kind t = t_kind t' /\ t_name t = t_name t' /\ t_desc t = t_desc t'
  /\ t_specified_by t = t_specified_by t' /\ t_oneof t = t_oneof t'
  /\ PermRel field_rel (t_fields t) (t_fields t')
  /\ Permutation (t_ifaces t) (t_ifaces t') /\ Permutation (t_members t) (t_members t')
  /\ Permutation (t_values t) (t_values t') /\ Permutation (t_inputs t) (t_inputs t').

Definition dir_rel (d d' : directive) : Prop :=
  d_name d = d_name d' /\ d_desc d = d_desc d' /\ d_repeatable d = d_repeatable d' /\ d_depr d = d_depr d'
  /\ Permutation (d_args d) (d_args d') /\ Permutation (d_locs d) (d_locs d').

Definition schema_rel (s s' : schema) : Prop :=
  s_desc s = s_desc s' /\ s_query s = s_query s' /\ s_mutation s = s_mutation s'
  /\ s_subscription s = s_subscription s'
  /\ PermRel type_rel (s_types s) (s_types s') /\ PermRel dir_rel (s_directives s) (s_directives s').

Lemma Forall2_map_r {A} (R : A -> A -> Prop) (g : A -> A) l :
  (forall x, R x (g x)) -> Forall2 R l (map g l).
Proof. intro H. induction l; cbn; constructor; auto. Qed.

Lemma PermRel_sort_map {A} leb (R : A -> A -> Prop) (key : A -> name) (g : A -> A) l :
  (forall x, R x (g x)) -> PermRel R l (isort leb key (map g l)).
Proof.
  intro H. exists (map g l). split; [apply Forall2_map_r; exact H|apply isort_perm].
Qed.

Lemma sort_field_rel leb f : field_rel f (sort_field leb f).
Proof. unfold field_rel, sort_field; cbn. repeat split; try reflexivity. apply isort_perm. Qed.

Lemma sort_type_rel leb t : type_rel t (sort_type leb t).
Proof.
  unfold type_rel, sort_type; cbn. repeat split; try reflexivity; try apply isort_perm.
  apply PermRel_sort_map. apply sort_field_rel.
Qed.

Lemma sort_directive_rel leb d : dir_rel d (sort_directive leb d).
Proof.
  unfold dir_rel, sort_directive; cbn.
  split; [reflexivity|]. split; [reflexivity|]. split; [reflexivity|]. split; [reflexivity|].
  split; apply isort_perm.
Qed.

Theorem sort_perm leb s : schema_rel s (sort leb s).
Proof.
  unfold schema_rel, sort; cbn. repeat split; try reflexivity.
  - apply PermRel_sort_map. apply sort_type_rel.
  - apply PermRel_sort_map. apply sort_directive_rel.
Qed.

Lemma PermRel_refl {A} (R : A -> A -> Prop) l : (forall x, R x x) -> PermRel R l l.
Proof.
  intro H. exists l. split; [|apply Permutation_refl].
  induction l; constructor; auto.
Qed.

Lemma schema_rel_refl s : schema_rel s s.
Proof.
  unfold schema_rel. repeat split; try reflexivity.
  - apply PermRel_refl. intro t. unfold type_rel. repeat split; try reflexivity; try apply Permutation_refl.
    apply PermRel_refl. intro f. unfold field_rel. repeat split; reflexivity.
  - apply PermRel_refl. intro d. unfold dir_rel. repeat split; reflexivity.
Qed.
