(* The schema datatype shared by C17/C18/C19: ordered association lists of named types,
   fields with ordered arguments, type references, default values as literal trees,
   descriptions as code-point lists.  Definitions only. *)
From GV Require Import Base.Prelude.

Definition name := list N.          (* code points *)
Definition otext := option (list N).

Inductive tref : Type :=
| TNamed (n : name)
| TList (t : tref)
| TNonNull (t : tref).

(* literal trees.  leaf tags: 0 null, 1 int, 2 float, 3 string, 4 boolean ([0]/[1]), 5 enum;
   the text of numbers is their source text *)
Inductive value : Type :=
| VLeaf (tag : N) (txt : list N)
| VList (l : list value)
| VObj (l : list (name * value)).

Record arg := mkArg {
  a_name : name; a_type : tref; a_default : option value; a_desc : otext; a_depr : otext }.

Record field := mkField {
  f_name : name; f_args : list arg; f_type : tref; f_desc : otext; f_depr : otext }.

Record enumval := mkEnumVal { e_name : name; e_desc : otext; e_depr : otext }.

(* kinds: 0 scalar, 1 object, 2 interface, 3 union, 4 enum, 5 input object *)
Record typedef := mkType {
  t_kind : N; t_name : name; t_desc : otext;
  t_fields : list field; t_ifaces : list name; t_members : list name;
  t_values : list enumval; t_inputs : list arg;
  t_specified_by : otext; t_oneof : bool }.

Record directive := mkDir {
  d_name : name; d_desc : otext; d_args : list arg; d_locs : list name;
  d_repeatable : bool; d_depr : otext }.

Record schema := mkSchema {
  s_desc : otext; s_query : option name; s_mutation : option name; s_subscription : option name;
  s_types : list typedef; s_directives : list directive }.

(* ---- boolean equalities *)
Definition text_eqb := nat_list_eqb.

Definition otext_eqb (a b : otext) : bool :=
  match a, b with
  | None, None => true
  | Some x, Some y => text_eqb x y
  | _, _ => false
  end.

Fixpoint tref_eqb (a b : tref) : bool :=
  match a, b with
  | TNamed x, TNamed y => text_eqb x y
  | TList x, TList y => tref_eqb x y
  | TNonNull x, TNonNull y => tref_eqb x y
  | _, _ => false
  end.

Fixpoint value_eqb (a b : value) : bool :=
  match a, b with
  | VLeaf t x, VLeaf u y => (t =? u) && text_eqb x y
  | VList l, VList m =>
      (fix go (l m : list value) : bool :=
         match l, m with
         | [], [] => true
         | x :: l', y :: m' => value_eqb x y && go l' m'
         | _, _ => false
         end) l m
  | VObj l, VObj m =>
      (fix go (l m : list (name * value)) : bool :=
         match l, m with
         | [], [] => true
         | (k, x) :: l', (j, y) :: m' => text_eqb k j && value_eqb x y && go l' m'
         | _, _ => false
         end) l m
  | _, _ => false
  end.

Definition is_non_null (t : tref) : bool := match t with TNonNull _ => true | _ => false end.

Fixpoint find_by {A} (key : A -> name) (n : name) (l : list A) : option A :=
  match l with
  | [] => None
  | x :: r => if text_eqb (key x) n then Some x else find_by key n r
  end.

Definition mem_name (n : name) (l : list name) : bool :=
  existsb (fun m => text_eqb m n) l.

Definition str (s : list nat) : name := map N.of_nat s.

(* "Query", "Mutation", "Subscription" *)
Definition nQuery : name := [81; 117; 101; 114; 121].
Definition nMutation : name := [77; 117; 116; 97; 116; 105; 111; 110].
Definition nSubscription : name := [83; 117; 98; 115; 99; 114; 105; 112; 116; 105; 111; 110].
