(* Proofs about Introspect.v: the result under any option combination is the pruned full result;
   single-type lookup agrees with the type list. *)
From GV Require Import Base.Prelude SchemaOps.Schema SchemaOps.Introspect.

Lemma filter_true {A} (p : A -> bool) l : (forall x, p x = true) -> filter p l = l.
Proof. intro H. induction l as [|x r IH]; cbn; [reflexivity|]. rewrite H, IH. reflexivity. Qed.

Section Props.
Variable pv : value -> list N.
Variable s : schema.
Variable o : opts.

Lemma prune_input_value_ok a :
  prune_input_value o (input_value pv s full a) = input_value pv s o a.
Proof.
  unfold prune_input_value, input_value, keep_keys, full, kv_if; cbn -[typeref].
  destruct (o_descriptions o), (o_input_value_deprecation o); cbn -[typeref]; reflexivity.
Qed.

Lemma not_deprecated_input_value a :
  not_deprecated (input_value pv s full a) = negb (is_some (a_depr a)).
Proof.
  unfold not_deprecated, input_value, get_key, full, kv_if; cbn -[typeref].
  destruct (a_depr a); reflexivity.
Qed.

Lemma prune_input_values_ok l :
  prune_input_values o (input_values pv s full l) = input_values pv s o l.
Proof.
  unfold prune_input_values, input_values.
  rewrite (filter_true _ l) by (intro; reflexivity).
  destruct (o_input_value_deprecation o) eqn:E; cbn [orb each only].
  - rewrite (filter_true _ l) by (intro; reflexivity).
    rewrite map_map. f_equal. apply map_ext. intro a. apply prune_input_value_ok.
  - f_equal. induction l as [|a r IH]; cbn [map filter]; [reflexivity|].
    rewrite not_deprecated_input_value. destruct (negb (is_some (a_depr a))); cbn [map].
    + rewrite prune_input_value_ok, IH. reflexivity.
    + exact IH.
Qed.

Lemma prune_field_ok f : prune_field o (field_json pv s full f) = field_json pv s o f.
Proof.
  unfold prune_field, drop_description, field_json, keep_keys, at_key, full, kv_if;
    cbn -[typeref input_values prune_input_values].
  destruct (o_descriptions o); cbn -[typeref input_values prune_input_values];
    rewrite prune_input_values_ok; reflexivity.
Qed.

Lemma drop_description_enum e :
  drop_description o (enum_value_json full e) = enum_value_json o e.
Proof.
  unfold drop_description, enum_value_json, keep_keys, full, kv_if; cbn.
  destruct (o_descriptions o); reflexivity.
Qed.

Lemma each_map (f : json -> json) {A} (g : A -> json) l : each f (JArr (map g l)) = JArr (map (fun x => f (g x)) l).
Proof. cbn. rewrite map_map. reflexivity. Qed.

Lemma prune_type_ok t : prune_type o (type_json pv s full t) = type_json pv s o t.
Proof.
  unfold prune_type, type_json, keep_keys, at_key, full, kv_if;
    cbn -[typeref input_values prune_input_values field_json prune_field enum_value_json drop_description
          possible_types named_ref each].
  assert (Hf : forall b : bool,
             each (prune_field o) (if b then JArr (map (field_json pv s (mkOpts true true true true true true true)) (t_fields t)) else JNull)
             = (if b then JArr (map (field_json pv s o) (t_fields t)) else JNull)).
  { intros [|]; [|reflexivity]. rewrite each_map. f_equal. apply map_ext. intro f. apply prune_field_ok. }
  assert (Hi : forall b : bool,
             prune_input_values o (if b then input_values pv s (mkOpts true true true true true true true) (t_inputs t) else JNull)
             = (if b then input_values pv s o (t_inputs t) else JNull)).
  { intros [|]; [apply prune_input_values_ok|].
    unfold prune_input_values. destruct (o_input_value_deprecation o); reflexivity. }
  assert (He : forall b : bool,
             each (drop_description o) (if b then JArr (map (enum_value_json (mkOpts true true true true true true true)) (t_values t)) else JNull)
             = (if b then JArr (map (enum_value_json o) (t_values t)) else JNull)).
  { intros [|]; [|reflexivity]. rewrite each_map. f_equal. apply map_ext. intro e. apply drop_description_enum. }
  destruct (o_descriptions o), (o_specified_by_url o), (o_one_of o);
    cbn -[typeref input_values prune_input_values field_json prune_field enum_value_json drop_description
          possible_types named_ref each];
    rewrite Hf, Hi, He; reflexivity.
Qed.

Lemma prune_directive_ok d : prune_directive o (directive_json pv s full d) = directive_json pv s o d.
Proof.
  unfold prune_directive, directive_json, keep_keys, at_key, full, kv_if;
    cbn -[typeref input_values prune_input_values].
  destruct (o_descriptions o), (o_directive_is_repeatable o), (o_directive_deprecation o);
    cbn -[typeref input_values prune_input_values]; rewrite prune_input_values_ok; reflexivity.
Qed.

Lemma not_deprecated_directive d :
  not_deprecated (directive_json pv s full d) = negb (is_some (d_depr d)).
Proof.
  unfold not_deprecated, directive_json, get_key, full, kv_if; cbn -[input_values].
  destruct (d_depr d); reflexivity.
Qed.

Lemma prune_directives_ok l :
  prune_directives o (JArr (map (directive_json pv s full) (filter (fun d => o_directive_deprecation full || negb (is_some (d_depr d))) l)))
  = JArr (map (directive_json pv s o) (filter (fun d => o_directive_deprecation o || negb (is_some (d_depr d))) l)).
Proof.
  unfold prune_directives.
  rewrite (filter_true _ l) by (intro; reflexivity).
  destruct (o_directive_deprecation o) eqn:E; cbn [orb each only].
  - rewrite (filter_true _ l) by (intro; reflexivity).
    rewrite map_map. f_equal. apply map_ext. intro d. apply prune_directive_ok.
  - f_equal. induction l as [|d r IH]; cbn [map filter]; [reflexivity|].
    rewrite not_deprecated_directive. destruct (negb (is_some (d_depr d))); cbn [map].
    + rewrite prune_directive_ok, IH. reflexivity.
    + exact IH.
Qed.

Lemma prune_schema_ok : prune_schema o (schema_json pv s full) = schema_json pv s o.
Proof.
  unfold prune_schema, schema_json, keep_keys, at_key, kv_if.
  change (o_descriptions full && o_schema_description full) with true. cbv iota.
  destruct (o_descriptions o && o_schema_description o);
    cbn -[root_json type_json directive_json prune_type prune_directives each full orb];
    rewrite prune_directives_ok, each_map;
    rewrite (map_ext _ _ prune_type_ok); reflexivity.
Qed.

Theorem options_prune : introspect pv s o = prune o (introspect pv s full).
Proof.
  unfold introspect, prune, at_key. cbn -[schema_json prune_schema full]. rewrite prune_schema_ok. reflexivity.
Qed.

(* ---- single type lookup *)
Lemma name_of_type_json t : get_key k_name (type_json pv s o t) = JStr (t_name t).
Proof. unfold type_json, get_key, kv_if. cbn -[field_json input_values named_ref enum_value_json possible_types]. reflexivity. Qed.

Lemma types_of_introspect :
  get_key k_types (get_key k_schema (introspect pv s o)) = JArr (map (type_json pv s o) (s_types s)).
Proof.
  unfold introspect, schema_json, kv_if.
  destruct (o_descriptions o && o_schema_description o);
    cbn -[root_json type_json directive_json filter]; reflexivity.
Qed.

Theorem type_lookup_agrees n : type_lookup pv s o n = entry_named n (introspect pv s o).
Proof.
  unfold entry_named, type_lookup. rewrite types_of_introspect.
  induction (s_types s) as [|t r IH]; cbn [map find find_by]; [reflexivity|].
  rewrite name_of_type_json. destruct (text_eqb (t_name t) n); [reflexivity|exact IH].
Qed.

End Props.
