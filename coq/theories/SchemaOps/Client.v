(* build_client_schema: a schema from the JSON of the full introspection result.  The parser of
   default-value literals is a parameter.  Definitions only. *)
From GV Require Import Base.Prelude SchemaOps.Schema SchemaOps.Introspect.

Definition jstr (j : json) : option (list N) := match j with JStr x => Some x | _ => None end.
(* dict.get(key) of an optional string: null / absent -> None *)
Definition jotext (j : json) : otext := match j with JStr x => Some x | _ => None end.
Definition jbool (j : json) : bool := match j with JBool b => b | _ => false end.

Fixpoint mapM {A B} (f : A -> option B) (l : list A) : option (list B) :=
  match l with
  | [] => Some []
  | x :: r => match f x, mapM f r with Some y, Some ys => Some (y :: ys) | _, _ => None end
  end.

(* the items of a list-valued attribute; null (attribute not applicable to the kind) -> none *)
Definition jitems (j : json) : option (list json) :=
  match j with JArr l => Some l | JNull => Some [] | _ => None end.

Definition kind_code (k : list N) : option N :=
  if text_eqb k k_SCALAR then Some 0 else if text_eqb k k_OBJECT then Some 1
  else if text_eqb k k_INTERFACE then Some 2 else if text_eqb k k_UNION then Some 3
  else if text_eqb k k_ENUM then Some 4 else if text_eqb k k_INPUT_OBJECT then Some 5 else None.

(* get_type of build_client_schema; fuel = number of nested objects it may open *)
Definition is_str (j : json) (k : list N) : bool :=
  match j with JStr x => text_eqb x k | _ => false end.

Fixpoint tref_of (fuel : nat) (j : json) : option tref :=
  match fuel with
  | O => None
  | S f =>
    if is_str (get_key k_kind j) k_LIST then option_map TList (tref_of f (get_key k_ofType j))
    else if is_str (get_key k_kind j) k_NON_NULL then option_map TNonNull (tref_of f (get_key k_ofType j))
    else option_map TNamed (jstr (get_key k_name j))   (* a named type is looked up by its name *)
  end.

Definition REF_FUEL : nat := 10.

Section Client.
Variable parse : list N -> option value.   (* parse_const_value *)

Definition arg_of (j : json) : option arg :=
  match jstr (get_key k_name j), tref_of REF_FUEL (get_key k_type j) with
  | Some n, Some t =>
      match get_key k_defaultValue j with
      | JStr txt => match parse txt with
                    | Some v => Some (mkArg n t (Some v) (jotext (get_key k_description j))
                                        (jotext (get_key k_deprecationReason j)))
                    | None => None
                    end
      | _ => Some (mkArg n t None (jotext (get_key k_description j)) (jotext (get_key k_deprecationReason j)))
      end
  | _, _ => None
  end.

Definition args_of (j : json) : option (list arg) :=
  match jitems j with Some l => mapM arg_of l | None => None end.

Definition field_of (j : json) : option field :=
  match jstr (get_key k_name j), args_of (get_key k_args j), tref_of REF_FUEL (get_key k_type j) with
  | Some n, Some args, Some t =>
      Some (mkField n args t (jotext (get_key k_description j)) (jotext (get_key k_deprecationReason j)))
  | _, _, _ => None
  end.

Definition enumval_of (j : json) : option enumval :=
  match jstr (get_key k_name j) with
  | Some n => Some (mkEnumVal n (jotext (get_key k_description j)) (jotext (get_key k_deprecationReason j)))
  | None => None
  end.

(* the name of a type reference (interfaces, possibleTypes of a union, root types) *)
Definition ref_name (j : json) : option name := jstr (get_key k_name j).

Definition names_of (j : json) : option (list name) :=
  match jitems j with Some l => mapM ref_name l | None => None end.

Definition type_of (j : json) : option typedef :=
  match jstr (get_key k_kind j), jstr (get_key k_name j) with
  | Some ks, Some n =>
    match kind_code ks with
    | Some k =>
      match (match jitems (get_key k_fields j) with Some l => mapM field_of l | None => None end),
            names_of (get_key k_interfaces j),
            (if k =? 3 then names_of (get_key k_possibleTypes j) else Some []),
            (match jitems (get_key k_enumValues j) with Some l => mapM enumval_of l | None => None end),
            args_of (get_key k_inputFields j) with
      | Some fs, Some ifs, Some ms, Some vs, Some ins =>
          Some (mkType k n (jotext (get_key k_description j)) fs ifs ms vs ins
                  (jotext (get_key k_specifiedByURL j)) (jbool (get_key k_isOneOf j)))
      | _, _, _, _, _ => None
      end
    | None => None
    end
  | _, _ => None
  end.

Definition directive_of (j : json) : option directive :=
  match jstr (get_key k_name j), args_of (get_key k_args j),
        (match jitems (get_key k_locations j) with Some l => mapM jstr l | None => None end) with
  | Some n, Some args, Some locs =>
      Some (mkDir n (jotext (get_key k_description j)) args locs (jbool (get_key k_isRepeatable j))
              (jotext (get_key k_deprecationReason j)))
  | _, _, _ => None
  end.

Definition root_of_json (j : json) : option (option name) :=
  match j with
  | JNull => Some None
  | _ => match ref_name j with Some n => Some (Some n) | None => None end
  end.

Definition build_client (result : json) : option schema :=
  let sj := get_key k_schema result in
  match root_of_json (get_key k_queryType sj), root_of_json (get_key k_mutationType sj),
        root_of_json (get_key k_subscriptionType sj),
        (match jitems (get_key k_types sj) with Some l => mapM type_of l | None => None end),
        (match jitems (get_key k_directives sj) with Some l => mapM directive_of l | None => None end) with
  | Some q, Some m, Some sb, Some ts, Some ds =>
      Some (mkSchema (jotext (get_key k_description sj)) q m sb ts ds)
  | _, _, _, _, _ => None
  end.

End Client.
