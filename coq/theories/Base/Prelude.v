(* Shared prelude: imports, outcome type, small list helpers.  Stdlib only. *)
From Coq Require Export List NArith ZArith Bool Arith Lia.
Export ListNotations.
Open Scope N_scope.

(* Source text = list of code points (Python str may hold lone surrogates). *)
Definition text := list N.

(* Outcome of a library entry point.  [Crash] is "an exception other than the
   library's own error type escapes". *)
Inductive outcome (A : Type) : Type :=
| Ok (a : A)
| SyntaxErr (pos : nat)
| Crash (what : N)
| OutOfFuel.
Arguments Ok {A} a.
Arguments SyntaxErr {A} pos.
Arguments Crash {A} what.
Arguments OutOfFuel {A}.

Definition obind {A B} (o : outcome A) (f : A -> outcome B) : outcome B :=
  match o with
  | Ok a => f a
  | SyntaxErr p => SyntaxErr p
  | Crash w => Crash w
  | OutOfFuel => OutOfFuel
  end.

Definition LF : N := 10.
Definition CR : N := 13.

Fixpoint nat_list_eqb (a b : list N) : bool :=
  match a, b with
  | [], [] => true
  | x :: a', y :: b' => (x =? y) && nat_list_eqb a' b'
  | _, _ => false
  end.

Lemma nat_list_eqb_eq a b : nat_list_eqb a b = true <-> a = b.
Proof.
  revert b; induction a as [|x a IH]; intros [|y b]; cbn; split; intro H;
    try congruence; try reflexivity.
  - apply andb_true_iff in H as [H1 H2]. apply N.eqb_eq in H1. apply IH in H2. congruence.
  - inversion H; subst. rewrite N.eqb_refl. cbn. apply IH. reflexivity.
Qed.
