(* Obligations on the tables regenerated from the implementation (Gen/Tables.v).
   Re-proved by coqc whenever the sweep changes the tables. *)
From GV Require Import Base.Prelude Gen.Tables.

(* spec character classes (GraphQL spec, section 2.1) *)
Definition spec_digit : list (N * N) := [(48, 57)].
Definition spec_letter : list (N * N) := [(65, 90); (97, 122)].
Definition spec_name_start : list (N * N) := [(65, 90); (95, 95); (97, 122)].
Definition spec_name_continue : list (N * N) := [(48, 57); (65, 90); (95, 95); (97, 122)].
Definition spec_scalar : list (N * N) := [(0, 55295); (57344, 1114111)].

Definition in_ranges (rs : list (N * N)) (c : N) : bool :=
  existsb (fun r => (fst r <=? c) && (c <=? snd r)) rs.

Definition tbl_ok (t : option (list (N * N))) (spec : list (N * N)) : Prop :=
  match t with None => True | Some l => l = spec end.

Lemma digit_is_spec : tbl_ok digit_tbl spec_digit. Proof. reflexivity. Qed.
Lemma letter_is_spec : tbl_ok letter_tbl spec_letter. Proof. reflexivity. Qed.
Lemma name_start_is_spec : tbl_ok name_start_tbl spec_name_start. Proof. reflexivity. Qed.
Lemma name_continue_is_spec : tbl_ok name_continue_tbl spec_name_continue. Proof. reflexivity. Qed.
Lemma unicode_scalar_is_spec : tbl_ok unicode_scalar_tbl spec_scalar. Proof. reflexivity. Qed.

(* classes as seen through the public Lexer on the swept code points *)
Definition sweep_filter (rs : list (N * N)) : list N :=
  filter (in_ranges rs) (map N.of_nat (seq 0 8448)).

Lemma lex_digit_is_spec : lex_digit_tbl = sweep_filter spec_digit.
Proof. vm_compute. reflexivity. Qed.
Lemma lex_name_start_is_spec : lex_name_start_tbl = sweep_filter spec_name_start.
Proof. vm_compute. reflexivity. Qed.
Lemma lex_name_continue_is_spec : lex_name_continue_tbl = sweep_filter spec_name_continue.
Proof. vm_compute. reflexivity. Qed.
(* Ignored: tab, LF, CR, space, comma, BOM *)
Lemma lex_ignored_is_spec : lex_ignored_tbl = [9; 10; 13; 32; 44; 65279].
Proof. reflexivity. Qed.
(* line terminators the lexer counts: LF and CR and no other character *)
Lemma lex_line_terminators_is_spec : lex_line_terminators_tbl = [LF; CR].
Proof. reflexivity. Qed.
Lemma lex_punct_is_spec : lex_punct_tbl =
  [(33, 2); (36, 3); (38, 4); (40, 5); (41, 6); (58, 9); (61, 10); (64, 11);
   (91, 12); (93, 13); (123, 14); (124, 15); (125, 16)].
Proof. reflexivity. Qed.

(* every node-valued dataclass field of every node class is listed in QUERY_DOCUMENT_KEYS,
   and every listed key is a field (swept from the implementation's classes) *)
Lemma keys_complete : keys_missing_count = 0 /\ keys_unknown_count = 0.
Proof. split; reflexivity. Qed.

(* the key table used by validate(): QUERY_DOCUMENT_KEYS minus exactly the description keys *)
Lemma validation_keys_exclude_descriptions :
  vkeys_with_description_count = 0 /\ vkeys_dropped_other_count = 0 /\ vkeys_extra_count = 0.
Proof. repeat split; reflexivity. Qed.
