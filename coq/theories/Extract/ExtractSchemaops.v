From Coq Require Import Extraction ExtrOcamlBasic.
From GV Require Import Run.RunSchemaops.
Extraction Language OCaml.
Extraction "../ocaml/schemaops/model.ml" RunSchemaops.run.
