From Coq Require Import Extraction ExtrOcamlBasic.
From GV Require Import Run.RunBlockstring.
Extraction Language OCaml.
Extraction "../ocaml/blockstring/model.ml" RunBlockstring.run.
