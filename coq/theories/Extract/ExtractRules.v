From Coq Require Import Extraction ExtrOcamlBasic.
From GV Require Import Run.RunRules.
Extraction Language OCaml.
Extraction "../ocaml/rules/model.ml" RunRules.run.
