From Coq Require Import Extraction ExtrOcamlBasic.
From GV Require Import Run.RunParser.
Extraction Language OCaml.
Extraction "../ocaml/parser/model.ml" RunParser.run.
