From Coq Require Import Extraction ExtrOcamlBasic.
From GV Require Import Run.RunLifecycle.
Extraction Language OCaml.
Extraction "../ocaml/lifecycle/model.ml" RunLifecycle.run.
