From Coq Require Import Extraction ExtrOcamlBasic.
From GV Require Import Run.RunExec.
Extraction Language OCaml.
Extraction "../ocaml/exec/model.ml" RunExec.run.
