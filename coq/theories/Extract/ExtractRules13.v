From Coq Require Import Extraction ExtrOcamlBasic.
From GV Require Import Run.RunRules13.
Extraction Language OCaml.
Extraction "../ocaml/rules13/model.ml" RunRules13.run.
