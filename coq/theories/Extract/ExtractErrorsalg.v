From Coq Require Import Extraction ExtrOcamlBasic.
From GV Require Import Run.RunErrorsalg.
Extraction Language OCaml.
Extraction "../ocaml/errorsalg/model.ml" RunErrorsalg.run.
