From Coq Require Import Extraction ExtrOcamlBasic.
From GV Require Import Run.RunStrip.
Extraction Language OCaml.
Extraction "../ocaml/strip/model.ml" RunStrip.run.
