From Coq Require Import Extraction ExtrOcamlBasic.
From GV Require Import Run.RunCompose.
Extraction Language OCaml.
Extraction "../ocaml/compose/model.ml" RunCompose.run.
