From Coq Require Import Extraction ExtrOcamlBasic.
From GV Require Import Run.RunAsync.
Extraction Language OCaml.
Extraction "../ocaml/async/model.ml" RunAsync.run.
