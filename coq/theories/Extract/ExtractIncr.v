From Coq Require Import Extraction ExtrOcamlBasic.
From GV Require Import Run.RunIncr.
Extraction Language OCaml.
Extraction "../ocaml/incr/model.ml" RunIncr.run.
