From Coq Require Import Extraction ExtrOcamlBasic.
From GV Require Import Run.RunOverlap.
Extraction Language OCaml.
Extraction "../ocaml/overlap/model.ml" RunOverlap.run.
