From Coq Require Import Extraction ExtrOcamlBasic.
From GV Require Import Run.RunScalars.
Extraction Language OCaml.
Extraction "../ocaml/scalars/model.ml" RunScalars.run.
