From Coq Require Import Extraction ExtrOcamlBasic.
From GV Require Import Run.RunCoerce.
Extraction Language OCaml.
Extraction "../ocaml/coerce/model.ml" RunCoerce.run.
