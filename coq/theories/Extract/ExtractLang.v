From Coq Require Import Extraction ExtrOcamlBasic.
From GV Require Import Run.
Extraction Language OCaml.
Extraction "../ocaml/lang/model.ml" Run.run.
