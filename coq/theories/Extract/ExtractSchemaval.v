From Coq Require Import Extraction ExtrOcamlBasic.
From GV Require Import Run.RunSchemaval.
Extraction Language OCaml.
Extraction "../ocaml/schemaval/model.ml" RunSchemaval.run.
