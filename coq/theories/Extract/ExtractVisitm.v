From Coq Require Import Extraction ExtrOcamlBasic.
From GV Require Import Run.RunVisitm.
Extraction Language OCaml.
Extraction "../ocaml/visitm/model.ml" RunVisitm.run.
