From Coq Require Import Extraction ExtrOcamlBasic.
From GV Require Import Run.RunPrinter.
Extraction Language OCaml.
Extraction "../ocaml/printer/model.ml" RunPrinter.run.
