From Coq Require Import Extraction ExtrOcamlBasic.
From GV Require Import Run.RunDefer.
Extraction Language OCaml.
Extraction "../ocaml/defer/model.ml" RunDefer.run.
