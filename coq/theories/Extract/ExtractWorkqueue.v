From Coq Require Import Extraction ExtrOcamlBasic.
From GV Require Import Run.RunWorkqueue.
Extraction Language OCaml.
Extraction "../ocaml/workqueue/model.ml" RunWorkqueue.run.
