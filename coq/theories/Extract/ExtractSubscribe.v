From Coq Require Import Extraction ExtrOcamlBasic.
From GV Require Import Run.RunSubscribe.
Extraction Language OCaml.
Extraction "../ocaml/subscribe/model.ml" RunSubscribe.run.
