(* C12 - placeholder while the direct checks are being validated *)
From GV Require Import Base.Prelude Valid.Compose.
