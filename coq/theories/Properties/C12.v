(* C12 - validation is a deterministic, compositional function of document and schema.
   Theorems only; proofs in Valid/ComposeProps.v.

   Model (Valid/Compose.v): validate rules limit fuel doc = one traversal (Lang/Visit.v) with the
   ParallelVisitor composition of abstract rule visitors (state-passing deciders with private
   state, answering idle / skip / break, reporting errors) into a sink with an error limit.
   The rules are universally quantified: the theorems hold for every rule set whose members
   depend only on their own state and the node.  That the ~30 concrete rules of the
   implementation have this form is checked by the alone-vs-together runs of harness/c12.py,
   not proved per rule.  TypeInfo and the context caches are not modelled.
   [fuel] bounds the nesting depth; the hypothesis depth_tree doc <= fuel excludes OutOfFuel. *)
From Coq Require Import Permutation.
From GV Require Import Base.Prelude Lang.Visit Lang.VisitProps Lang.VisitParallelProps Valid.Compose Valid.ComposeProps.

(* With an error limit n: the unlimited list if it has at most n errors, otherwise its first n
   errors followed by the abort notice. *)
Theorem C12_limit : forall RS E (rs : list (rule RS E * RS)) n fuel doc,
  (depth_tree doc <= fuel)%nat ->
  validate rs (Some n) fuel doc =
  let es := validate rs None fuel doc in
  if (length es <=? n)%nat then es else firstn n es ++ [Aborted].
Proof. exact validate_limit. Qed.
Print Assumptions C12_limit.

(* Rules together vs alone, including rules that SKIP subtrees or BREAK off: the errors of the
   i-th rule inside the combined run are exactly (same errors, same order) the errors of that
   rule run alone. *)
Theorem C12_union_projection : forall RS E (rs : list (rule RS E * RS)) fuel doc i rx,
  (depth_tree doc <= fuel)%nat -> nth_error rs i = Some rx ->
  proj E i (validate rs None fuel doc) = validate [rx] None fuel doc.
Proof. exact validate_projection. Qed.
Print Assumptions C12_union_projection.

(* ... and nothing else is reported: the combined list is a permutation of the concatenation
   of the solo lists (multiset union), for every rule set and every document. *)
Theorem C12_union : forall RS E (rs : list (rule RS E * RS)) fuel doc,
  (depth_tree doc <= fuel)%nat ->
  Permutation (validate rs None fuel doc)
              (flat_map (fun i => match nth_error rs i with
                                  | Some rx => map (retag E i) (validate [rx] None fuel doc)
                                  | None => []
                                  end) (seq 0 (length rs))).
Proof. exact validate_union. Qed.
Print Assumptions C12_union.

(* Descriptions: with a key table [keep] (the slots that are traversed) two documents that agree
   outside the excluded slots validate identically, and the rule visitors are called exactly on
   the nodes reachable through kept slots (never inside an excluded slot). *)
Theorem C12_descriptions_ignored : forall RS E keep (rs : list (rule RS E * RS)) limit fuel d d',
  agree_tree keep d d' ->
  validate_keys keep rs limit fuel d = validate_keys keep rs limit fuel d' /\
  map (fun c => (fst c, tid (snd c))) (calls_tree (mask_tree keep d)) = kept_calls_tree keep d.
Proof. intros. split; [apply validate_keys_agree; assumption | apply masked_calls]. Qed.
Print Assumptions C12_descriptions_ignored.

(* validate() = the limited view of the unlimited error list of the depth-first call sequence *)
Theorem C12_validate_is_fold : forall RS E (rs : list (rule RS E * RS)) limit fuel doc,
  (depth_tree doc <= fuel)%nat ->
  validate rs limit fuel doc =
  let k := limited limit (snd (run_spec (map fst rs) (calls_tree doc) (init_sts RS E rs))) in
  s_errs k ++ (if s_aborted k then [Aborted] else []).
Proof. exact validate_spec. Qed.
Print Assumptions C12_validate_is_fold.

(* ---- non-vacuity: three scripted rules on a small document, one skips, one breaks ---- *)
Definition ex_doc : tree :=
  Node 1 1 (SCons (SArr (TCons (Node 2 2 (SCons (SOne (Node 3 3 SNil)) SNil))
                        (TCons (Node 2 4 SNil) TNil))) SNil).
Definition ex_rules : list (rule unit (N * phase * nat) * unit) :=
  [ (scripted_rule [(2, Enter, RSkip, 1%nat); (3, Enter, RIdle, 5%nat); (4, Leave, RIdle, 2%nat)], tt);
    (scripted_rule [(3, Enter, RBreakOff, 1%nat); (4, Enter, RIdle, 7%nat)], tt);
    (scripted_rule [(1, Enter, RIdle, 1%nat); (3, Leave, RIdle, 1%nat); (1, Leave, RIdle, 1%nat)], tt) ].

Example C12_example :
  (depth_tree ex_doc <= 5)%nat /\
  length (validate ex_rules None 5 ex_doc) = 7%nat /\
  validate ex_rules (Some 3%nat) 5 ex_doc = firstn 3 (validate ex_rules None 5 ex_doc) ++ [Aborted] /\
  proj _ 1 (validate ex_rules None 5 ex_doc) = [VErr 0%nat (3, Enter, 0%nat)].
Proof. vm_compute. repeat split. lia. Qed.
