(* C12 (rules, continued) - 28 DeferStreamDirectiveOnRootField as a function of the parser's AST and
   the presence of the root operation types (Valid/RulesRoot.v): the depth-first walk of the root
   level of a mutation / subscription through inline fragments (structural) and fragment spreads
   (one visited set per operation, fuel).  Theorems only; proofs in Valid/RulesRootProps.v.
   Correspondence with the implementation, alone and together with the other directive rules:
   harness/crulesdir.py (model `rules`, op 5, rule code 28).

   Vocabulary: rf fuel fr p ss (visited, errors) = forbid_defer_stream on the selection set ss at
   path p, fr = the fragments dict (last definition wins); unc fr visited = number of defined
   fragment names not yet visited; ext st st' = every visited name stays visited and the error list
   of st' extends that of st. *)
From GV Require Import Base.Prelude Lang.Lexer Lang.Ast Lang.Parser
  Valid.Rules Valid.RulesDir Valid.RulesRoot Valid.RulesRootProps.

(* the walk terminates within rf_fuel = 1 + number of fragment definitions, whatever the document:
   cyclic spreads, undefined fragments, duplicate fragment names included *)
Theorem C12_root_fuel_sufficient : forall fr p ss,
  exists st, rf (rf_fuel fr) fr p ss ([], []) = Some st.
Proof. exact rf_total. Qed.
Print Assumptions C12_root_fuel_sufficient.

Theorem C12_root_rule_total : forall ds d, exists es, rule_root_field ds d = Some es.
Proof. exact rule_root_field_total. Qed.
Print Assumptions C12_root_rule_total.

(* from any state with enough fuel: visited fragments stay visited, reported errors are never
   withdrawn or reordered, and the number of unvisited defined fragments never grows *)
Theorem C12_root_walk_monotone : forall fr fuel p ss st st',
  (unc fr (fst st) < fuel)%nat -> rf fuel fr p ss st = Some st' ->
  ext st st' /\ (unc fr (fst st') <= unc fr (fst st))%nat.
Proof. exact rf_ext. Qed.
Print Assumptions C12_root_walk_monotone.

(* more fuel than needed changes nothing is implied by: any sufficient fuel succeeds *)
Theorem C12_root_any_sufficient_fuel : forall fr fuel p ss st,
  (unc fr (fst st) < fuel)%nat -> exists st', rf fuel fr p ss st = Some st'.
Proof.
  intros fr fuel p ss st H. destruct (rf_good fr fuel p ss st H) as (st' & E & _). eauto.
Qed.
Print Assumptions C12_root_any_sufficient_fuel.

(* query operations (and documents without operations) are never reported *)
Theorem C12_root_queries_never_reported : forall ds d,
  (forall n, In n (ddefs d) -> op_code n = Some 0 \/ op_code n = None) ->
  rule_root_field ds d = Some [].
Proof. exact rule_root_field_queries. Qed.
Print Assumptions C12_root_queries_never_reported.

(* non-vacuity, evaluated on the parser model's tree of
   mutation { ...A @defer x @stream @stream } fragment A on M { a @stream ...B ...Z @defer }
   fragment B on M { ...A @defer ... @defer { b ...B } }
   (cyclic spreads, an undefined fragment, a second spread of a visited fragment that is NOT examined,
   a repeated directive reported once): four errors in the implementation's order *)
Example C12_root_example :
  match parse_text EDocument (mkOpts None false false)
          [109;117;116;97;116;105;111;110;32;123;32;46;46;46;65;32;64;100;101;102;101;114;32;120;32;64;115;116;114;101;97;109;32;64;115;116;114;101;97;109;32;125;32;102;114;97;103;109;101;110;116;32;65;32;111;110;32;77;32;123;32;97;32;64;115;116;114;101;97;109;32;46;46;46;66;32;46;46;46;90;32;64;100;101;102;101;114;32;125;32;102;114;97;103;109;101;110;116;32;66;32;111;110;32;77;32;123;32;46;46;46;65;32;64;100;101;102;101;114;32;46;46;46;32;64;100;101;102;101;114;32;123;32;98;32;46;46;46;66;32;125;32;125] with
  | Ok (d, _) => rule_root_field (DS [true; true; false] []) d
  | _ => None
  end
  = Some [VE R_ROOT [[(0, 0); (0, 0); (0, 0); (0, 0)]]; VE R_ROOT [[(0, 1); (0, 0); (0, 0); (0, 0)]];
          VE R_ROOT [[(0, 2); (0, 0); (0, 1); (0, 0)]]; VE R_ROOT [[(0, 0); (0, 0); (0, 1); (0, 0)]]]%nat.
Proof. vm_compute. reflexivity. Qed.
