(* C01 - the request pipeline is total.  Theorems only. *)
From GV Require Import Base.Prelude Lang.Lexer Lang.LexerProps Lang.Ast Lang.Parser Lang.ParserProps
  Properties.ParserThms.

(* For every source text (any code point list, lone surrogates included, cut off anywhere)
   the lexer model answers with tokens or a located syntax error: it never crashes and its
   fuel (length of the source + 1) is never exhausted. *)
Theorem C01_lexer_total : forall s,
  (exists ts, lex s = Ok ts) \/ (exists p, lex s = SyntaxErr p).
Proof.
  intros s. pose proof (lex_total s) as H. destruct (lex s); [left|right|contradiction|contradiction]; eauto.
Qed.
Print Assumptions C01_lexer_total.

Theorem C01_coordinate_lexer_total : forall s,
  (exists ts, coord_lex s = Ok ts) \/ (exists p, coord_lex s = SyntaxErr p).
Proof.
  intros s. pose proof (coord_lex_total s) as H.
  destruct (coord_lex s); [left|right|contradiction|contradiction]; eauto.
Qed.
Print Assumptions C01_coordinate_lexer_total.

(* an escape sequence is only accepted when all its characters exist: the accepted size is
   within the remaining text (this is the bounds-safety of read_escaped_* / hex readers) *)
Theorem C01_escape_in_bounds : forall pos s v size,
  s <> [] -> read_escape pos s = Ok (v, size) -> (1 <= size <= length s)%nat.
Proof. exact read_escape_size. Qed.
Print Assumptions C01_escape_in_bounds.

(* The five parsing entry points (document, value, const value, type, schema coordinate) of the
   parser model answer every source text - any code-point list, cut off anywhere, nested to any
   depth - and every option setting with a tree or a located syntax error: never a crash, fuel
   (number of tokens + 1) never exhausted.  Proofs: Lang/ParserProps.v. *)
Theorem C01_parse_entries_total : forall e o s,
  (exists d c, parse_text e o s = Ok (d, c)) \/ (exists p, parse_text e o s = SyntaxErr p).
Proof. exact parser_total_on_text. Qed.
Print Assumptions C01_parse_entries_total.

Theorem C01_parse_entries_total_on_tokens : forall e o ts,
  (exists d c, parse_entry e o ts = Ok (d, c)) \/ (exists p, parse_entry e o ts = SyntaxErr p).
Proof. exact parser_total_on_tokens. Qed.
Print Assumptions C01_parse_entries_total_on_tokens.

(* non-vacuity: the two inputs that crashed the unfixed implementation are plain syntax errors *)
Example C01_truncated_escapes :
  lex [34; 92] = SyntaxErr 1 /\ lex [34; 92; 117; 49; 50] = SyntaxErr 1.
Proof. split; reflexivity. Qed.
