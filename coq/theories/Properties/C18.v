(* C18 - introspection describes the schema truthfully.  Theorems only; proofs in
   SchemaOps/IntrospectProps.v. *)
From GV Require Import Base.Prelude.
From GV Require Import Lang.Ast Lang.Parser Lang.Wf Lang.Printer Lang.PrinterProps Lang.BlockStringProps.
(* the SchemaOps modules last: their [value], [mkOpts], [full] are the ones meant below *)
From GV Require Import SchemaOps.Schema SchemaOps.Introspect SchemaOps.IntrospectProps
  SchemaOps.Client SchemaOps.ClientProps SchemaOps.Literals.

(* Under every combination of the 7 options the result of the standard introspection query equals
   the full-options result minus exactly the switched-off attributes, the deprecated input values
   (input_value_deprecation off) and the deprecated directives (directive deprecation off);
   for every schema and every printer of default-value literals. *)
Theorem C18_options_prune : forall pv s o, introspect pv s o = prune o (introspect pv s full).
Proof. exact options_prune. Qed.
Print Assumptions C18_options_prune.

(* __type(name: n) { ...FullType } is the entry of the type list carrying that name (null when
   there is none), under every option combination. *)
Theorem C18_type_lookup_agrees : forall pv s o n,
  type_lookup pv s o n = entry_named n (introspect pv s o).
Proof. exact type_lookup_agrees. Qed.
Print Assumptions C18_type_lookup_agrees.

(* pruning with all options on changes nothing *)
Theorem C18_prune_full_identity : forall pv s, prune full (introspect pv s full) = introspect pv s full.
Proof. intros. symmetry. apply options_prune. Qed.
Print Assumptions C18_prune_full_identity.

(* Building a client schema from the full result gives back the schema: same types of every kind
   in the same order with all fields, arguments, default values, descriptions, deprecations,
   interfaces, union members, enum values, input fields, OneOf and specifiedBy markers, directives
   with locations and repeatability, root types and schema description.
   Partial: (1) default values travel as printed literals - the theorem holds for every printer /
   parser pair of literals that round-trips (print_ast / parse_const_value; properties C08/C15);
   (2) [client_ok]: type references are at most type_depth = 9 wrappers deep, and containers that
   do not apply to a type's kind are empty (introspection cannot carry them). *)
Theorem C18_client_roundtrip_partial : forall pv parse, (forall v, parse (pv v) = Some v) ->
  forall s, client_ok s -> build_client parse (introspect pv s full) = Some s.
Proof. intros pv parse H s. exact (client_roundtrip pv parse any_value (fun v _ => H v) s). Qed.
Print Assumptions C18_client_roundtrip_partial.

(* ... and the client schema introspects to the same result again. *)
Theorem C18_reintrospect_partial : forall pv parse, (forall v, parse (pv v) = Some v) ->
  forall s, client_ok s ->
  exists c, build_client parse (introspect pv s full) = Some c /\ introspect pv c full = introspect pv s full.
Proof. intros pv parse H s. exact (reintrospect pv parse any_value (fun v _ => H v) s). Qed.
Print Assumptions C18_reintrospect_partial.

(* The same two theorems WITHOUT the hypothesis on the printer / parser of literals: default values
   are const-value trees, printed by the printer model of the language (Lang/Printer.pp = print_ast,
   [print_literal]) and read back by the parser model (Lang/Parser.parse_text EConstValue =
   parse_const_value, [parse_literal]); their round trip is C08_print_parse_roundtrip.
   Remaining side conditions ([client_okv literal_ok]):
     - every default value is a literal that the text can carry ([literal_ok]): its node is a parser
       output for a const value (enum names are not true/false/null), names are Name lexemes, number
       texts are Int / Float lexemes, strings consist of Unicode scalar values, leaves in normal form;
       how a Python default VALUE becomes such a literal (value_to_literal) is the subject of C15/C17,
       and a block-flagged string literal is outside the value trees of this model;
     - type references are at most type_depth = 9 wrappers deep;
     - containers that do not apply to a type's kind are empty (introspection cannot carry them). *)
Theorem C18_client_roundtrip_literals : forall s, client_okv literal_ok s ->
  build_client parse_literal (introspect print_literal s full) = Some s.
Proof. exact (client_roundtrip print_literal parse_literal literal_ok literal_roundtrip). Qed.
Print Assumptions C18_client_roundtrip_literals.

Theorem C18_reintrospect_literals : forall s, client_okv literal_ok s ->
  exists c, build_client parse_literal (introspect print_literal s full) = Some c
            /\ introspect print_literal c full = introspect print_literal s full.
Proof. exact (reintrospect print_literal parse_literal literal_ok literal_roundtrip). Qed.
Print Assumptions C18_reintrospect_literals.

(* non-vacuity: a deprecated argument and a deprecated directive disappear, descriptions go *)
Definition ex_pv (v : value) : list N := match v with VLeaf _ x => x | _ => [] end.
Definition ex_q : typedef :=
  mkType 1 [81] (Some [100])
    [mkField [102] [mkArg [97] (TNamed [81]) None None (Some [120]); mkArg [98] (TList (TNamed [81])) (Some (VLeaf 1 [49])) None None]
       (TNonNull (TNamed [81])) (Some [100]) None] [] [] [] [] None false.
Definition ex_s : schema :=
  mkSchema (Some [115]) (Some [81]) None None [ex_q]
    [mkDir [100] None [] [[70]] true (Some [114]); mkDir [101] None [] [[70]] false None].
Definition ex_none : opts := mkOpts false false false false false false false.

Example C18_example :
  introspect ex_pv ex_s ex_none <> introspect ex_pv ex_s full
  /\ (match get_key k_directives (get_key k_schema (introspect ex_pv ex_s ex_none)) with JArr l => length l | _ => O end) = 1%nat
  /\ (match get_key k_directives (get_key k_schema (introspect ex_pv ex_s full)) with JArr l => length l | _ => O end) = 2%nat
  /\ get_key k_name (type_lookup ex_pv ex_s full [81]) = JStr [81]
  /\ type_lookup ex_pv ex_s full [82] = JNull.
Proof. repeat split; try reflexivity. intro H. discriminate H. Qed.

Example C18_example_client_ok : client_ok ex_s.
Proof.
  unfold client_ok, client_okv, type_okv, canonical_type, dir_okv, field_okv, arg_okv, any_value, ex_s, ex_q; cbn.
  repeat match goal with
         | |- _ /\ _ => split
         | |- True => exact I
         | |- Forall _ _ => constructor; cbn
         | H : ?x <> ?x |- _ => exfalso; apply H; reflexivity
         | |- _ -> _ => intro; cbn in *
         | |- _ = _ => reflexivity
         | |- (_ <= _)%nat => unfold TYPE_DEPTH; cbn; lia
         | |- _ <= _ => cbn; lia
         end.
Qed.

Example C18_example_roundtrip :
  build_client (fun t => Some (VLeaf 1 t)) (introspect ex_pv ex_s full) = Some ex_s.
Proof. reflexivity. Qed.

(* non-vacuity of the literal instance: a default value with every kind of literal is [literal_ok],
   prints as print_ast prints it and is read back *)
Definition ex_lit : value :=
  VObj [([97], VList [VLeaf 1 [49]; VLeaf 3 [120; 34]; VLeaf 4 [1]; VLeaf 0 []; VLeaf 5 [69]]); ([102], VLeaf 2 [49; 46; 53])].

Example C18_example_literal :
  literal_ok ex_lit
  /\ print_literal ex_lit = [123; 32; 97; 58; 32; 91; 49; 44; 32; 34; 120; 92; 34; 34; 44; 32; 116; 114; 117; 101; 44; 32;
                             110; 117; 108; 108; 44; 32; 69; 93; 44; 32; 102; 58; 32; 49; 46; 53; 32; 125]
  /\ parse_literal (print_literal ex_lit) = Some ex_lit.
Proof.
  split; [|split; vm_compute; reflexivity].
  unfold literal_ok, ex_lit. split; [cbn; intuition|]. split.
  - cbn. repeat (constructor || (split; reflexivity)).
  - cbn. repeat match goal with
                | |- _ /\ _ => split
                | |- True => exact I
                | |- scalars _ => repeat constructor
                | |- _ = true => vm_compute; reflexivity
                end.
Qed.

Example C18_example_client_literals :
  let q := mkType 1 [81] None [mkField [102] [mkArg [97] (TNamed [81]) (Some ex_lit) None None] (TNamed [81]) None None]
             [] [] [] [] None false in
  let s := mkSchema None (Some [81]) None None [q] [] in
  build_client parse_literal (introspect print_literal s full) = Some s.
Proof. vm_compute. reflexivity. Qed.
