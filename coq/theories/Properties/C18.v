(* C18 - placeholder while the harness is brought up *)
From GV Require Import Base.Prelude SchemaOps.Schema SchemaOps.Introspect.
Example C18_example : True. Proof. exact I. Qed.
