(* C03 - the response does not depend on when resolvers complete.
   Proved: the algebra of CollectedErrors (which errors are kept, which positions are nulled)
   under every arrival order and under cancellation of attempts below another attempt.
   The asyncio runtime itself (gather, cancellation, allocator) is explored, not modelled:
   hence the theorems carry the suffix _partial w.r.t. the full property statement. *)
From GV Require Import Base.Prelude Exec.ErrorsAlg Exec.ErrorsAlgProps.

(* every error that was raised is at or below a nulled position that was kept *)
Theorem C03_errors_covered_partial : forall adds p,
  In p adds -> nulled (kept_positions adds) p = true.
Proof. exact covered. Qed.
Print Assumptions C03_errors_covered_partial.

(* the outermost nulled positions are exactly the outermost positions at which an error was
   handled; they do not depend on the arrival order, nor on attempts dropped because they
   lie below another handled position (sibling cancellation) *)
Theorem C03_nulled_positions_order_independent_partial : forall adds adds' p,
  (forall q, In q adds' -> In q adds) ->
  (forall q, outermost adds q -> In q adds') ->
  (outermost (kept_positions adds) p <-> outermost (kept_positions adds') p).
Proof. exact outermost_order_independent. Qed.
Print Assumptions C03_nulled_positions_order_independent_partial.

Theorem C03_nulled_positions_permutation_partial : forall adds adds' p,
  (forall q, In q adds <-> In q adds') ->
  (outermost (kept_positions adds) p <-> outermost (kept_positions adds') p).
Proof. exact outermost_permutation. Qed.
Print Assumptions C03_nulled_positions_permutation_partial.

(* the full statement (data and nulled positions of the asynchronous executor equal the
   synchronous ones for every completion order) is about the asyncio runtime and is decided by
   the controlled-loop exploration of harness/c03.py *)
Example C03_example :
  kept_indices [[1; 2]; [1]; [1; 2; 3]; [4]; []; [4; 0]] = [0; 1; 3; 4]%nat.
Proof. reflexivity. Qed.
