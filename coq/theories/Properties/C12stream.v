(* C12 (rules, continued) - 27 StreamDirectiveOnListField as a function of the parser's AST and the
   schema (Valid/RulesStream.v, over the typed descent of Valid/Rules13.v).
   Theorems only; proofs in Valid/RulesStreamProps.v.  Correspondence with the implementation, the
   rule alone and inside validate() with all specified rules: harness/crules13.py (model `rules13`,
   op 0, rule code 27).

   Vocabulary: Occ vs p ss ct fd q dn fd' pt' = in the selection set ss at path p, entered with
   type-stack top ct and field-stack top fd, the directive node dn sits at path q and
   enter_directive sees get_field_def() = fd' and get_parent_type() = pt' (TypeInfo: a field's
   directives see that field's definition; a spread's / inline fragment's directives see the
   enclosing field's; the parent type is that of the enclosing selection set).
   def_sel vs n = the selection set of an operation / fragment definition with its root type /
   type condition.  violb = the rule's test. *)
From GV Require Import Base.Prelude Lang.Ast Exec.Value Exec.Schema Exec.Spec Exec.Typing
  Valid.Rules Valid.RulesPaths Valid.Rules13 Valid.RulesStream Valid.RulesStreamProps Valid.RulesStreamErase.

(* the test: a directive named `stream` entered with a field definition and a parent type, the
   field's type being neither [T] nor [T]! *)
Theorem C12_stream_test_meaning : forall fd pt dn,
  violb fd pt dn = true <->
  exists nm rest f t, dn = Nd KDirective (ANode nm :: rest) /\ fd = Some f /\ pt = Some t /\
                      name_str nm = n_stream /\ listish (f_type f) = false.
Proof. exact violb_spec. Qed.
Print Assumptions C12_stream_test_meaning.

Theorem C12_stream_list_types : forall t,
  listish t = true <-> (exists u, t = TList u) \/ (exists u, t = TNonNull (TList u)).
Proof. exact listish_spec. Qed.
Print Assumptions C12_stream_list_types.

(* a selection set: reported paths = failing directive occurrences (any depth, any tree) *)
Theorem C12_stream_selection_set : forall vs p ss ct fd q,
  In q (stream_sel vs p ss ct fd) <->
  exists dn fd' pt', Occ vs p ss ct fd q dn fd' pt' /\ violb fd' pt' dn = true.
Proof. exact stream_sel_In. Qed.
Print Assumptions C12_stream_selection_set.

(* the rule: one error per failing occurrence below an operation or fragment definition *)
Theorem C12_stream_rule : forall vs d e,
  In e (rule_stream_on_list_field vs d) <->
  exists j n ss ct q, nth_error (doc_defs d) j = Some n /\ def_sel vs n = Some (ss, ct) /\
    (exists dn fd' pt', Occ vs [(O, j); (O, O)] ss ct None q dn fd' pt' /\ violb fd' pt' dn = true) /\
    e = VE R_STREAM [q].
Proof. exact stream_rule_In. Qed.
Print Assumptions C12_stream_rule.

Theorem C12_stream_rule_silent : forall vs d,
  rule_stream_on_list_field vs d = [] <->
  forall j n ss ct q dn fd' pt',
    nth_error (doc_defs d) j = Some n -> def_sel vs n = Some (ss, ct) ->
    Occ vs [(O, j); (O, O)] ss ct None q dn fd' pt' -> violb fd' pt' dn = false.
Proof. exact stream_rule_silent. Qed.
Print Assumptions C12_stream_rule_silent.

(* the occurrence relation names real nodes *)
Theorem C12_stream_occurrence_is_a_node : forall vs p ss ct fd q dn fd' pt',
  Occ vs p ss ct fd q dn fd' pt' -> exists tail, q = p ++ tail /\ get ss tail = Some dn.
Proof. intro vs. exact (proj1 (occ_get_mut vs)). Qed.
Print Assumptions C12_stream_occurrence_is_a_node.

(* every error points at a directive node of the document that is named `stream` *)
Theorem C12_stream_errors_point_at_stream : forall vs d e,
  In e (rule_stream_on_list_field vs d) ->
  exists q nm rest, e = VE R_STREAM [q] /\ get d q = Some (Nd KDirective (ANode nm :: rest)) /\
                    name_str nm = n_stream.
Proof. exact stream_rule_points_at_stream. Qed.
Print Assumptions C12_stream_errors_point_at_stream.

(* adding, changing or removing descriptions never changes what the rule reports *)
Theorem C12_stream_rule_ignores_descriptions : forall vs d,
  rule_stream_on_list_field vs (erase_descriptions d) = rule_stream_on_list_field vs d.
Proof. exact stream_rule_erase. Qed.
Print Assumptions C12_stream_rule_ignores_descriptions.

(* non-vacuity: `{ a @stream }` on a schema whose Query.a is an Int is reported, at the directive *)
Example C12_stream_example :
  let s := {| s_types := [([81], TObject [mkField [97] (TNamed [73;110;116]) []] [])];
              s_query := [81]; s_mutation := None |} in
  let dirn := Nd KDirective [ANode (Nd KName [AStr n_stream]); AList []] in
  let fld := Nd KField [AList [dirn]; ANode (Nd KName [AStr [97]]); ANone; AList []; ANone] in
  let op := Nd KOperationDefinition
              [ANode (Nd KSelectionSet [AList [fld]]); ANone; ANone; AList []; AList []; AEnum 0] in
  rule_stream_on_list_field (VS s []) (Nd KDocument [AList [op]])
  = [VE R_STREAM [[(O, O); (O, O); (O, O); (O, O)]]].
Proof. vm_compute. reflexivity. Qed.
