From GV Require Import Base.Prelude Exec.ErrorsAlg Exec.Async.
Example C03_async_example : True.
Proof. exact I. Qed.
