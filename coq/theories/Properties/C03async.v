(* C03 - the response does not depend on when resolvers complete: the SCHEDULING part.
   Model: Exec/Async.v - nondeterministic small-step completion of awaitables over an abstract
   response tree (gather with cancellation, synchronous failure with abandoned siblings that go on
   in the background, error propagation to the nearest nullable position, serial roots that wait for
   the previous field AND the background work below it).  Proofs: Exec/AsyncProps.v.
   [Exec lp root sched s evs]: from the synchronous part of execute() on [root] (lp: called inside a
   running event loop), completing pending awaitables in the order [sched] (each pick must be pending)
   leads to state [s] with the events [evs]; [final s]: the root position is done = the response is
   delivered (background work may still be pending).  The root is the nullable position `data`. *)
From GV Require Import Base.Prelude Exec.ErrorsAlg Exec.ErrorsAlgProps Exec.Async Exec.AsyncProps.

(* (a) every schedule is finite: at most one step per awaitable position of the tree (background work included) ... *)
Theorem C03_async_terminates : forall lp root sched s evs,
  Exec lp root sched s evs -> (length sched <= asyncs root)%nat.
Proof.
  intros lp root sched s evs H. pose proof (terminates _ _ _ _ _ H). pose proof (asyncs_eq root).
  destruct (is_async root); lia.
Qed.
Print Assumptions C03_async_terminates.

(* ... a run whose response is not yet delivered has a pending awaitable, and ANY pending awaitable can be completed *)
Theorem C03_async_progress : forall lp root sched s evs,
  nonnull root = false -> Exec lp root sched s evs ->
  (is_done s = false -> pend s <> []) /\
  forall pi, In pi (pend s) -> exists s' e, complete pi s = Some (ROk s', e).
Proof.
  intros lp root sched s evs Hnn He. pose proof (exec_rep _ _ _ _ _ He) as HR. split.
  - exact (rep_pending s root HR).
  - intros pi. exact (progress s root pi HR Hnn).
Qed.
Print Assumptions C03_async_progress.

(* (b) order independence: every schedule that delivers a response, for every sync/awaitable assignment, delivers the
   data of the fully synchronous run; [data] distinguishes nulls placed by error handling ([DNull true]) from null
   values, so the positions nulled by errors in the data coincide as well *)
Theorem C03_async_order_independent : forall lp root sched s evs,
  nonnull root = false -> Exec lp root sched s evs -> final s ->
  exists d bg bgs esync,
    s = SDone (key root) d bg /\ den root = Some d /\
    sync_result root = (ROk (SDone (key root) d bgs), esync).
Proof. exact order_independent. Qed.
Print Assumptions C03_async_order_independent.

Corollary C03_async_same_nulled_positions : forall lp root sched s evs d,
  nonnull root = false -> Exec lp root sched s evs -> result_data s = Some d ->
  exists ssync esync dsync, sync_result root = (ROk ssync, esync) /\ result_data ssync = Some dsync /\
                            d = dsync /\ dnulls d = dnulls dsync.
Proof.
  intros lp root sched s evs d Hnn He Hd.
  assert (Hf : final s) by (destruct s; try discriminate; reflexivity).
  destruct (order_independent _ _ _ _ _ Hnn He Hf) as (d' & bg & bgs & es & -> & _ & Hs).
  inversion Hd; subst. exists (SDone (key root) d bgs), es, d. auto.
Qed.
Print Assumptions C03_async_same_nulled_positions.

(* two schedules (and two sync/awaitable assignments of the same tree, inside or outside a running loop) agree *)
Corollary C03_async_confluent : forall lp1 lp2 root sched1 s1 evs1 sched2 s2 evs2,
  nonnull root = false ->
  Exec lp1 root sched1 s1 evs1 -> final s1 -> Exec lp2 root sched2 s2 evs2 -> final s2 ->
  result_data s1 = result_data s2.
Proof.
  intros lp1 lp2 root sched1 s1 evs1 sched2 s2 evs2 Hnn H1 F1 H2 F2.
  destruct (order_independent _ _ _ _ _ Hnn H1 F1) as (d1 & ? & ? & _ & -> & E1 & _).
  destruct (order_independent _ _ _ _ _ Hnn H2 F2) as (d2 & ? & ? & _ & -> & E2 & _). cbn. congruence.
Qed.
Print Assumptions C03_async_confluent.

(* (c) errors.  Every recorded (nulled position a, error path o): a is a nullable position of the tree, o = a ++ pi
   is a position that raises (or is null at a non-null position), every position strictly between is non-null ... *)
Theorem C03_async_errors_are_raised : forall lp root sched s evs a o,
  Exec lp root sched s evs -> In (a, o) (errs evs) ->
  exists ma pi, At root a ma /\ nonnull ma = false /\ Bad ma pi /\ o = a ++ pi.
Proof. intros. eapply errors_characterised; eauto. Qed.
Print Assumptions C03_async_errors_are_raised.

(* ... EVERY raising position of the tree - reported under this schedule or not (cancelled, abandoned, never started) -
   lies at or below a position nulled in the data ... *)
Theorem C03_async_raised_below_null : forall root d o m,
  den root = Some d -> At root o m -> raises m -> nulled (dnulls d) o = true.
Proof. exact raised_below_null. Qed.
Print Assumptions C03_async_raised_below_null.

(* ... the OUTERMOST recorded nulled positions are exactly the positions nulled in the data, hence the same for every
   schedule and for the synchronous run (positions recorded below them may differ; response keys unique) ... *)
Theorem C03_async_outermost_nulled : forall lp root sched s evs,
  wfk root -> nonnull root = false -> Exec lp root sched s evs -> final s ->
  exists d bg, s = SDone (key root) d bg /\ den root = Some d /\
            forall p, outermost (nulled_positions evs) p <-> In p (dnulls d).
Proof. exact outermost_nulled. Qed.
Print Assumptions C03_async_outermost_nulled.

Theorem C03_async_outermost_nulled_as_sync : forall lp root sched s evs ssync esync,
  wfk root -> nonnull root = false -> Exec lp root sched s evs -> final s ->
  sync_result root = (ROk ssync, esync) ->
  forall p, outermost (nulled_positions evs) p <-> outermost (nulled_positions esync) p.
Proof. exact outermost_nulled_sync_async. Qed.
Print Assumptions C03_async_outermost_nulled_as_sync.

(* ... and every awaitable that was cancelled or abandoned lies at or below a recorded nulled position
   (so whatever abandoned work reports later is dropped by CollectedErrors.add: Exec/ErrorsAlg.v) *)
Theorem C03_async_dropped_below_null : forall lp root sched s evs p,
  Exec lp root sched s evs -> In p (cancelled evs ++ orphaned evs) -> nulled (nulled_positions evs) p = true.
Proof. intros. eapply dropped_covered; eauto. Qed.
Print Assumptions C03_async_dropped_below_null.

(* (d) well-formedness of every delivered response: no null at a non-null position (wfd), every reported error path ends
   at or below a null placed by error handling, every such null has a reported error at or below it, data is null
   iff an error reached the root *)
Theorem C03_async_wellformed : forall lp root sched s evs,
  nonnull root = false -> Exec lp root sched s evs -> final s ->
  exists d bg, s = SDone (key root) d bg /\
    wfd root d = true /\
    (forall o, In o (error_paths evs) -> nulled (dnulls d) o = true) /\
    (forall p, In p (dnulls d) -> exists o, In (p, o) (errs evs) /\ prefixb p o = true) /\
    (d = DNull true <-> In [] (nulled_positions evs)).
Proof. exact response_wellformed. Qed.
Print Assumptions C03_async_wellformed.

(* (e) serial root fields (execute_fields_serially): [fields evs] = the root field of every event of the run in time
   order - resolver invocations, completions of awaitables, recorded and dropped errors, cancellations, abandoned
   awaitables, of the whole subtree INCLUDING the background work abandoned siblings go on doing; [Ord K l]: l is a block
   of K's first key, then a block of the next, ...: every event of root field i comes before every event of field i+1 *)
Theorem C03_async_serial_order : forall lp k nn a ks sched s evs,
  Exec lp (Node k nn a (OKids KSer) ks) sched s evs -> Ord (map key ks) (fields evs).
Proof. exact serial_order. Qed.
Print Assumptions C03_async_serial_order.

Corollary C03_async_serial_no_overlap : forall lp k nn a ks sched s evs l1 x l2 y l3,
  Exec lp (Node k nn a (OKids KSer) ks) sched s evs ->
  fields evs = l1 ++ x :: l2 ++ y :: l3 -> x = y \/ before (map key ks) x y.
Proof. exact serial_no_overlap. Qed.
Print Assumptions C03_async_serial_no_overlap.

(* every reachable state of a serial root: done, or fields that are done with nothing pending below them ++ ONE field
   at work (running, or done with background work pending below it) ++ fields not started *)
Theorem C03_async_serial_one_at_a_time : forall lp k nn a ks sched s evs,
  Exec lp (Node k nn a (OKids KSer) ks) sched s evs ->
  is_done s = true \/
  exists pre x rest, s = SRun k nn KSer (pre ++ [x]) rest /\ all_settled pre = true /\
                     exists ks1, ks = ks1 ++ rest /\ map skey (pre ++ [x]) = map key ks1.
Proof. exact serial_one_at_a_time. Qed.
Print Assumptions C03_async_serial_one_at_a_time.

(* the extracted driver follows the step relation when it skips nothing *)
Theorem C03_async_driver : forall sched s s' evs, exec s sched = (s', evs, []) -> Run s sched s' evs.
Proof. exact exec_run. Qed.
Print Assumptions C03_async_driver.

(* { a: Obj { x: String! (awaitable, raises)  y: String (awaitable, raises) }  b: Int (awaitable) } *)
Definition ex_tree : node :=
  Node 0 false false (OKids KObj)
    [ Node 1 false false (OKids KObj) [ Node 1 true true ORaise []; Node 2 false true ORaise [] ];
      Node 2 false true (OLeaf 7) [] ].

(* y first: both errors reported; x first: y is cancelled; same data *)
Example C03_async_example :
  exists s0 e0, init false ex_tree = (ROk s0, e0) /\
    (let '(s, e, _) := exec s0 [[1; 2]; [1; 1]; [2]] in
     result_data s = Some (DKids KObj [(1, DNull true); (2, DLeaf 7)]) /\
     errs e = [([1; 2], [1; 2]); ([1], [1; 1])] /\ cancelled e = []) /\
    (let '(s, e, _) := exec s0 [[1; 1]; [2]] in
     result_data s = Some (DKids KObj [(1, DNull true); (2, DLeaf 7)]) /\
     errs e = [([1], [1; 1])] /\ cancelled e = [[1; 2]]).
Proof. eexists _, _. split; [reflexivity|]. split; vm_compute; repeat split. Qed.

(* mutation { m1 (awaitable) { x (awaitable) { z }  y: String! (raises synchronously) }  m2 { w } }:
   when m1's value arrives, y fails synchronously next to the pending x: m1 becomes null and x is abandoned, but m2 is
   invoked only after x - and the resolver z below it - have run in the background *)
Example C03_async_serial_example :
  let t := Node 0 false false (OKids KSer)
             [ Node 1 false true (OKids KObj)
                 [ Node 1 false true (OKids KObj) [ Node 1 false false (OLeaf 1) [] ]; Node 2 true false ORaise [] ];
               Node 2 false false (OKids KObj) [ Node 1 false false (OLeaf 2) [] ] ] in
  exists s0 e0, init false t = (ROk s0, e0) /\ calls e0 = [[1]] /\
    (let '(s, e, sk) := exec s0 [[1]] in
     sk = [] /\ is_done s = false /\ calls e = [[1; 1]; [1; 2]] /\ orphaned e = [[1; 1]] /\ errs e = [([1], [1; 2])]) /\
    (let '(s, e, sk) := exec s0 [[1]; [1; 1]] in
     sk = [] /\ calls e = [[1; 1]; [1; 2]; [1; 1; 1]; [2]; [2; 1]] /\
     result_data s = Some (DKids KSer [(1, DNull true); (2, DKids KObj [(1, DLeaf 2)])])).
Proof. eexists _, _. split; [reflexivity|]. vm_compute. repeat split. Qed.
