(* C09 - the token stream is the one of the specification's lexical grammar.
   Theorems only; proofs in Lang/LexerProps.v and Gen/TableChecks.v. *)
From GV Require Import Base.Prelude Lang.Lexer Lang.LexerProps Gen.Tables Gen.TableChecks Lang.Ast Lang.Parser
  Lang.ParserProps Properties.ParserThms.

(* Every source either is rejected with a position or yields tokens whose spans tile the
   source: gap, lexeme, gap, ..., EOF; gaps contain ignored characters only; lexemes are
   non-empty, start at a non-ignored character, spans are [tstart, tend). Never out of
   fuel, never a crash. *)
Theorem C09_spans : forall s,
  match lex s with Ok ts => spans 0 s ts | SyntaxErr _ => True | _ => False end.
Proof. exact lex_total. Qed.
Print Assumptions C09_spans.

(* spans are ordered, disjoint and within the source *)
Theorem C09_ordered : forall s ts, lex s = Ok ts ->
  ordered 0 ts /\
  Forall (fun t => (tstart t <= tend t)%nat /\ (tend t <= length s)%nat) ts.
Proof.
  intros s ts H. pose proof (lex_total s) as T. rewrite H in T. split.
  - apply (spans_ordered _ _ _ T).
  - eapply Forall_impl; [|apply (spans_bounds _ _ _ T)]. cbn. intros t [[_ H1] H2]. lia.
Qed.
Print Assumptions C09_ordered.

(* the implementation's character classes (regenerated on every run) are the spec's *)
Theorem C09_tables_are_spec :
  tbl_ok digit_tbl spec_digit /\ tbl_ok name_start_tbl spec_name_start /\
  tbl_ok name_continue_tbl spec_name_continue /\ tbl_ok unicode_scalar_tbl spec_scalar /\
  lex_digit_tbl = sweep_filter spec_digit /\ lex_name_start_tbl = sweep_filter spec_name_start /\
  lex_name_continue_tbl = sweep_filter spec_name_continue /\
  lex_ignored_tbl = [9; 10; 13; 32; 44; 65279] /\ lex_line_terminators_tbl = [LF; CR] /\
  lex_punct_tbl = [(33, 2); (36, 3); (38, 4); (40, 5); (41, 6); (58, 9); (61, 10); (64, 11);
                   (91, 12); (93, 13); (123, 14); (124, 15); (125, 16)].
Proof.
  exact (conj digit_is_spec (conj name_start_is_spec (conj name_continue_is_spec
        (conj unicode_scalar_is_spec (conj lex_digit_is_spec (conj lex_name_start_is_spec
        (conj lex_name_continue_is_spec (conj lex_ignored_is_spec
        (conj lex_line_terminators_is_spec lex_punct_is_spec))))))))).
Qed.
Print Assumptions C09_tables_are_spec.

(* The parser consumes only (kind, value) of the significant tokens: any two token lists with the
   same (kind, value) sequence - whatever ignored material, positions, lines - give the same tree
   and token count, or are both rejected. *)
Theorem C09_parse_independent_of_layout : forall e o ts1 ts2,
  map sig ts1 = map sig ts2 ->
  (forall d c, parse_entry e o ts1 = Ok (d, c) <-> parse_entry e o ts2 = Ok (d, c)) /\
  ((exists p, parse_entry e o ts1 = SyntaxErr p) <-> (exists p, parse_entry e o ts2 = SyntaxErr p)).
Proof. exact parser_layout_independent. Qed.
Print Assumptions C09_parse_independent_of_layout.

(* a token limit of n accepts exactly the sources the unlimited parser accepts with at most n tokens *)
Theorem C09_token_limit : forall e o n s d c,
  parse_text e (with_max o (Some n)) s = Ok (d, c) <->
  parse_text e (with_max o None) s = Ok (d, c) /\ (c <= n)%nat.
Proof. exact parser_text_token_limit_iff. Qed.
Print Assumptions C09_token_limit.

(* sources that do not lex are rejected by every entry point *)
Theorem C09_unlexable_rejected : forall e o s q, e <> ECoordinate -> lex s = SyntaxErr q ->
  exists p, parse_text e o s = SyntaxErr p.
Proof. exact parser_unlexable_rejected. Qed.
Print Assumptions C09_unlexable_rejected.

(* non-vacuity: a source with comment, string escape, number and CR LF *)
Example C09_example :
  match lex [123; 32; 97; 49; 35; 120; 13; 10; 34; 92; 110; 34; 45; 49; 46; 53; 125] with
  | Ok ts => length ts = 7%nat | _ => False end.
Proof. vm_compute. reflexivity. Qed.
