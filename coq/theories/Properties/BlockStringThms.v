(* Block-string part of C08 ("every string value, block or quoted, is preserved character for
   character by print then parse").  Theorems only; proofs in Lang/BlockStringProps.v.
   Model: Lang/BlockString.v (print_block_string, is_printable_as_block_string, indent_by) and the
   block-string part of Lang/Lexer.v (read_token -> read_block_loop, dedent, join_lf).
   Values are lists of Unicode scalar values (lone surrogates are outside). *)
From GV Require Import Base.Prelude Lang.Location Lang.Lexer Lang.LexerProps Lang.BlockString
  Lang.BlockStringProps.

(* 1. Round trip.  Let v be any value that the lexer can produce for a block string
   (block_value raw = Ok v for some raw content), made of scalar values.  Print it with
   print_block_string in either mode (minimize or not), re-indent the printed text line by line
   with any stack of space/tab pads (indent_all [p1; ..; pn] = indent_by pn o .. o indent_by p1,
   indent_by p = replace every LF by LF ++ p: what printer.indent does to a nested block string),
   put anything after it: the lexer reads one BLOCK_STRING token whose value is exactly v, spanning
   exactly the printed text, and leaves the rest untouched. *)
Theorem block_roundtrip :
  forall (raw v : list N) (minimize : bool) (pads : list (list N)) (cu : cursor) (rest : list N),
  block_value raw = Ok v ->
  Forall (fun c => is_scalar c = true) v ->
  Forall (Forall (fun c => is_blank_char c = true)) pads ->
  exists tk cu',
    read_token cu (indent_all pads (print_block_string v minimize) ++ rest) = Ok (tk, cu', rest) /\
    tkind tk = K_BLOCK_STRING /\ thasval tk = true /\ tvalue tk = v /\
    tstart tk = cpos cu /\
    tend tk = (cpos cu + length (indent_all pads (print_block_string v minimize)))%nat /\
    cpos cu' = tend tk.
Proof.
  intros raw v m pads cu rest Hraw Hs Hp.
  exact (block_roundtrip_main v m pads cu rest (block_value_in_range raw v Hraw) Hs Hp).
Qed.
Print Assumptions block_roundtrip.

(* the same through the decidable characterisation of the range *)
Theorem block_roundtrip_in_range :
  forall (v : list N) (minimize : bool) (pads : list (list N)) (cu : cursor) (rest : list N),
  in_block_range v = true ->
  Forall (fun c => is_scalar c = true) v ->
  Forall (Forall (fun c => is_blank_char c = true)) pads ->
  exists tk cu',
    read_token cu (indent_all pads (print_block_string v minimize) ++ rest) = Ok (tk, cu', rest) /\
    tkind tk = K_BLOCK_STRING /\ thasval tk = true /\ tvalue tk = v /\
    tstart tk = cpos cu /\
    tend tk = (cpos cu + length (indent_all pads (print_block_string v minimize)))%nat /\
    cpos cu' = tend tk.
Proof. intros v m pads cu rest. exact (block_roundtrip_main v m pads cu rest). Qed.
Print Assumptions block_roundtrip_in_range.

(* 2. The characterisation is exact: v (of scalar values) satisfies in_block_range - no CR, and
   empty or (first and last line not blank and (a single line, or some non-blank line after the
   first has indentation 0, or the first line has indentation 0)) - iff some raw content of
   scalar values denotes it. *)
Theorem block_range_char : forall v : list N,
  (in_block_range v = true /\ Forall (fun c => is_scalar c = true) v) <->
  (exists raw, Forall (fun c => is_scalar c = true) raw /\ block_value raw = Ok v).
Proof. exact block_range_char_main. Qed.
Print Assumptions block_range_char.

(* the inclusion holds for every BLOCK_STRING token of every source, surrogate pairs included *)
Theorem block_token_value_in_range : forall cu s tk cu' r,
  read_token cu s = Ok (tk, cu', r) -> tkind tk = K_BLOCK_STRING ->
  in_block_range (tvalue tk) = true.
Proof. exact block_token_in_range. Qed.
Print Assumptions block_token_value_in_range.

(* 3. Whatever is_printable_as_block_string accepts is in the range (used for SDL descriptions). *)
Theorem printable_in_range : forall v : list N,
  is_printable_as_block_string v = true -> in_block_range v = true.
Proof. exact printable_in_range_main. Qed.
Print Assumptions printable_in_range.

(* 4. "Any string" in block form must be read as "any string in the range": no raw content at
   all denotes a lone line feed, nor the two indented lines SPACE a LF SPACE b. *)
Theorem out_of_range_refuted : forall raw : list N,
  block_value raw <> Ok [10] /\ block_value raw <> Ok [32; 97; 10; 32; 98].
Proof.
  intros raw. split; intros H; apply block_value_in_range in H; vm_compute in H; discriminate.
Qed.
Print Assumptions out_of_range_refuted.

(* non-vacuity: a value with a leading blank, an empty line, quotes to escape and a trailing
   backslash is in the range, is denoted by a raw content, and an instance of the round trip *)
Example block_example :
  let v := [32; 97; 10; 10; 34; 34; 34; 34; 92] in
  in_block_range v = true /\
  block_value (chosen_raw v) = Ok v /\
  match read_token init_cursor (indent_all [[32; 32]; [9]] (print_block_string v false) ++ [32; 120]) with
  | Ok (tk, _, rest) => tvalue tk = v /\ rest = [32; 120]
  | _ => False
  end.
Proof. vm_compute. repeat split; reflexivity. Qed.
