(* Block-string part of C08.  Theorems only. *)
From GV Require Import Base.Prelude Lang.Location Lang.Lexer Lang.LexerProps Lang.BlockString Lang.BlockStringProps.

Example CBLOCK_example :
  block_value (tl (tl (tl (removelast (removelast (removelast (print_block_string [32; 97; 10; 34; 34; 34; 34] false))))))) = Ok [32; 97; 10; 34; 34; 34; 34].
Proof. vm_compute. reflexivity. Qed.
