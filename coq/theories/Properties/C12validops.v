(* C12 (rules, continued) - 29 DeferStreamDirectiveOnValidOperationsRule as a function of the
   parser's AST (Valid/RulesValidOps.v): the depth-first walk of the whole selection tree of a
   subscription, through fields and inline fragments (structural) and fragment spreads (one visited
   set per operation, the spreads on the way recorded; fuel).  Theorems only; proofs in
   Valid/RulesValidOpsProps.v.  Correspondence with the implementation, alone and together with the
   other directive rules: harness/crulesdir.py (model `rules`, op 5, rule code 29).
   Vocabulary as in Properties/C12root.v (unc, ext, rf_fuel). *)
From GV Require Import Base.Prelude Lang.Ast
  Valid.Rules Valid.RulesDir Valid.RulesRoot Valid.RulesRootProps Valid.RulesValidOps Valid.RulesValidOpsProps.

(* the walk terminates within rf_fuel = 1 + number of fragment definitions, whatever the document *)
Theorem C12_validops_fuel_sufficient : forall fr parents p ss,
  exists st, vf (rf_fuel fr) fr parents p ss ([], []) = Some st.
Proof. exact vf_total. Qed.
Print Assumptions C12_validops_fuel_sufficient.

Theorem C12_validops_rule_total : forall d, exists es, rule_valid_operations d = Some es.
Proof. exact rule_valid_operations_total. Qed.
Print Assumptions C12_validops_rule_total.

Theorem C12_validops_walk_monotone : forall fr fuel parents p ss st st',
  (unc fr (fst st) < fuel)%nat -> vf fuel fr parents p ss st = Some st' ->
  ext st st' /\ (unc fr (fst st') <= unc fr (fst st))%nat.
Proof. exact vf_ext. Qed.
Print Assumptions C12_validops_walk_monotone.

(* a defer / stream directive is exempt exactly when its first `if` argument is the literal false or a
   variable *)
Theorem C12_validops_if_can_be_false : forall dn,
  if_can_be_false dn = true <->
  (exists r, first_if (dir_args dn) = Some (Some (Nd KBooleanValue (ABool false :: r)))) \/
  (exists a, first_if (dir_args dn) = Some (Some (Nd KVariable a))).
Proof. exact if_can_be_false_spec. Qed.
Print Assumptions C12_validops_if_can_be_false.
