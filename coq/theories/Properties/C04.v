(* C04 - incremental delivery reassembles to the non-incremental response.
   Proved: the execution plan that decides what is delivered initially and what per deferred
   fragment set is a partition of the original grouped field set, with the stated placement
   rule.  The reassembly of real payload streams is checked with the merge oracle Incr/Merge.v
   against the implementation's non-incremental execution (the incremental executor itself is
   not modelled) - hence the suffix _partial. *)
From GV Require Import Base.Prelude Incr.Plan Incr.PlanProps.
From Coq Require Import Permutation.

(* every response key, with its complete field list, lands in exactly one part of the plan *)
Theorem C04_plan_partition_partial : forall orig parent,
  Permutation (entries (build_execution_plan orig parent)) orig.
Proof. exact plan_partition. Qed.
Print Assumptions C04_plan_partition_partial.

(* a key stays in the initial part iff its filtered defer-usage set equals the parent set;
   the initial part keeps the original order *)
Theorem C04_initial_iff_parent_set_partial : forall orig parent,
  fst (build_execution_plan orig parent)
  = filter (fun e => set_eq (ids (filtered_set (snd e))) parent) orig.
Proof. exact initial_iff_parent_set. Qed.
Print Assumptions C04_initial_iff_parent_set_partial.

(* filtered sets contain no usage whose ancestor is also among the collected usages *)
Theorem C04_filtered_no_ancestor_partial : forall fs s d,
  collect_dus fs [] = Some s -> In d (filtered_set fs) ->
  forall a, In a (du_anc d) -> mem a (ids s) = false.
Proof. exact filtered_no_ancestor. Qed.
Print Assumptions C04_filtered_no_ancestor_partial.

(* a response key with at least one non-deferred field node is never deferred *)
Theorem C04_non_deferred_field_not_deferred_partial : forall fs,
  In None fs -> filtered_set fs = [].
Proof. exact non_deferred_field_empty_set. Qed.
Print Assumptions C04_non_deferred_field_not_deferred_partial.

(* one level of reassembly: executing the parts of the plan with any key-wise execution
   function yields, as a multiset of (key, value) pairs, what executing the original yields *)
Theorem C04_level_reassembly_partial : forall (V : Type) (exec : N * details -> V) orig parent,
  Permutation (map exec (entries (build_execution_plan orig parent))) (map exec orig).
Proof. intros. apply Permutation_map. apply plan_partition. Qed.
Print Assumptions C04_level_reassembly_partial.

Example C04_example :
  let a := mkDu 1 [] in let b := mkDu 2 [1] in
  build_execution_plan [(10, [None]); (11, [Some a]); (12, [Some a; Some b]); (13, [Some b]); (14, [Some a; None])] []
  = ([(10, [None]); (14, [Some a; None])],
     [([a], [(11, [Some a]); (12, [Some a; Some b])]); ([b], [(13, [Some b])])]).
Proof. reflexivity. Qed.
