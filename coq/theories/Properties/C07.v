(* C07 - a subscription maps source events to responses one-to-one and in order.
   Theorems about the pull-driven pipeline machine (Exec/Subscribe.v), for every source
   (events and a possible failure), every per-event execution function and every
   interleaving of consumer pulls, source readiness and callback completions. *)
From GV Require Import Base.Prelude Exec.Subscribe Exec.SubscribeProps.

(* delivered so far ++ still due = the specified stream, under every interleaving *)
Theorem C07_delivered_is_prefix : forall (E R : Type) (exec : E -> R) src0 evs,
  let '(s', o) := run_steps E R exec (mkSt E src0 (Idle E)) evs in
  o ++ remaining E R exec s' = spec_outputs E R exec src0.
Proof. exact delivered_is_prefix. Qed.
Print Assumptions C07_delivered_is_prefix.

(* once the pipeline is done, exactly the specified stream has been delivered *)
Theorem C07_finished_is_spec : forall (E R : Type) (exec : E -> R) src0 evs s' o,
  run_steps E R exec (mkSt E src0 (Idle E)) evs = (s', o) -> stg E s' = Done E ->
  o = spec_outputs E R exec src0.
Proof. exact finished_is_spec. Qed.
Print Assumptions C07_finished_is_spec.

(* the specified stream: exactly one response per source event before the first failure, in
   source order, each the execution of that event; then the failure, or the end exactly when
   the source ends *)
Theorem C07_one_to_one_in_order : forall (E R : Type) (exec : E -> R) src0,
  spec_outputs E R exec src0
  = map (fun e => Resp R (exec e)) (events_before_fail E src0)
    ++ [if has_fail E src0 then Raised R else Ended R].
Proof. exact spec_shape. Qed.
Print Assumptions C07_one_to_one_in_order.

(* a fair schedule finishes (the model itself never gets stuck) *)
Theorem C07_fair_schedule_finishes : forall (E R : Type) (exec : E -> R) src0,
  stg E (fst (run_steps E R exec (mkSt E src0 (Idle E)) (fair (S (length src0))))) = Done E.
Proof. exact fair_finishes. Qed.
Print Assumptions C07_fair_schedule_finishes.

Example C07_example :
  snd (run_steps N N (fun x => x * 2) (mkSt N [Ev N 1; Ev N 2; Fail N; Ev N 3] (Idle N))
           [Pull; Pull; SourceReady; CallbackDone; CallbackDone; Pull; SourceReady; Pull; CallbackDone;
            SourceReady; Pull; SourceReady])
  = [Resp N 2; Resp N 4; Raised N].
Proof. reflexivity. Qed.
