(* The recursive-descent parser (Lang/Parser.v, model of src/graphql/language/parser.py).
   Theorems only; proofs in Lang/ParserProps.v and Lang/UnparseProps.v.
   Re-exported by the C01 (totality), C08 (print/parse round trip) and C09 (layout, token limit)
   property files. *)
From GV Require Import Base.Prelude Lang.Lexer Lang.Ast Lang.Parser Lang.Unparse Lang.Wf
  Lang.ParserProps Lang.UnparseProps Lang.WfProps.

(* ---- (a) totality / fuel sufficiency ---------------------------------------------------- *)

(* For EVERY token list (not only lexer output), every option setting and each of the five entry
   points the parser answers with a tree or a located syntax error: the fuel S (number of tokens)
   is never exhausted (every recursive call and every loop iteration consumes a token) and no
   other failure exists.  Nesting depth is unbounded. *)
Theorem parser_total_on_tokens : forall e o ts,
  (exists d c, parse_entry e o ts = Ok (d, c)) \/ (exists p, parse_entry e o ts = SyntaxErr p).
Proof. exact parse_entry_total. Qed.
Print Assumptions parser_total_on_tokens.

(* The same for every source text (any code point list): lexing lazily and parsing never crashes
   and never runs out of fuel. *)
Theorem parser_total_on_text : forall e o s,
  (exists d c, parse_text e o s = Ok (d, c)) \/ (exists p, parse_text e o s = SyntaxErr p).
Proof. exact parse_text_total. Qed.
Print Assumptions parser_total_on_text.

(* The lazily lexed token stream always exists (lexer total, LexerProps). *)
Theorem parser_token_stream_total : forall coord s, exists ts, token_stream coord s = Ok ts.
Proof. exact token_stream_total. Qed.
Print Assumptions parser_token_stream_total.

(* ---- (b) unparse round trip -------------------------------------------------------------- *)

(* Full grammar: executable definitions, all type-system definitions and extensions, descriptions,
   variable definitions with descriptions and directives, fragment arguments and directives on
   directive definitions under their flags, values, types, schema coordinates.
   For every well-formed tree x (Lang/Wf.v: the shapes the productions can return) and every token
   list whose (kind, value) sequence is tokens_of x followed by EOF - whatever the positions -
   the unlimited parser returns exactly x and counts exactly the tokens of x. *)
Theorem parser_unparse_roundtrip : forall e o ts x v,
  max_tokens o = None ->
  wf_ast e (exp_fragment_arguments o) (exp_directives_on_directive_definitions o) x ->
  map sig ts = tokens_of x ++ [(K_EOF, v)] ->
  parse_entry e o ts = Ok (x, length (tokens_of x)).
Proof. exact parse_entry_roundtrip. Qed.
Print Assumptions parser_unparse_roundtrip.

(* the document instance, as in the property text: parse_document (tokens_of d ++ [EOF]) = Ok d
   with token_count d = length (tokens_of d) *)
Theorem parser_unparse_roundtrip_document : forall o ts d v,
  max_tokens o = None ->
  wf_document (exp_fragment_arguments o) (exp_directives_on_directive_definitions o) d ->
  map sig ts = tokens_of d ++ [(K_EOF, v)] ->
  parse_document o ts = Ok (d, length (tokens_of d)).
Proof. intros o ts d v Hm W E. exact (parse_entry_roundtrip EDocument o ts d v Hm W E). Qed.
Print Assumptions parser_unparse_roundtrip_document.

(* with a token limit: accepted as soon as the limit is at least the number of tokens *)
Theorem parser_unparse_roundtrip_limited : forall e o n ts x v,
  wf_ast e (exp_fragment_arguments o) (exp_directives_on_directive_definitions o) x ->
  map sig ts = tokens_of x ++ [(K_EOF, v)] ->
  (length (tokens_of x) <= n)%nat ->
  parse_entry e (with_max o (Some n)) ts = Ok (x, length (tokens_of x)).
Proof.
  intros e o n ts x v W E Hn. apply parse_entry_limit_iff. split; [|exact Hn].
  apply (parse_entry_roundtrip e (with_max o None) ts x v eq_refl W E).
Qed.
Print Assumptions parser_unparse_roundtrip_limited.

(* Every tree an entry point returns is well formed: the hypothesis of the round trip is exactly
   "x is a parser output shape". *)
Theorem parser_output_wf : forall e o ts x c,
  parse_entry e o ts = Ok (x, c) ->
  wf_ast e (exp_fragment_arguments o) (exp_directives_on_directive_definitions o) x.
Proof. exact parse_entry_wf. Qed.
Print Assumptions parser_output_wf.

(* Hence: whatever parses (with or without token limit, any flags) re-parses from its own
   token-level unparse, in any layout, to the identical tree. *)
Theorem parser_reparse_identity : forall e o ts x c ts' v,
  parse_entry e o ts = Ok (x, c) ->
  map sig ts' = tokens_of x ++ [(K_EOF, v)] ->
  parse_entry e (with_max o None) ts' = Ok (x, length (tokens_of x)).
Proof.
  intros e o ts x c ts' v H E.
  apply (parse_entry_roundtrip e (with_max o None) ts' x v eq_refl); [|exact E].
  exact (parse_entry_wf e o ts x c H).
Qed.
Print Assumptions parser_reparse_identity.

(* the unparse never has more tokens than the parser counted is NOT claimed (`query {a}` has 4
   tokens, its unparse `{a}` 3); what holds is that the re-parse counts the tokens of the unparse *)

(* ---- (c) token limit ----------------------------------------------------------------------- *)

(* max_tokens = n accepts exactly the inputs the unlimited parser accepts with at most n tokens,
   with the same tree and the same count *)
Theorem parser_token_limit_iff : forall e o n ts d c,
  parse_entry e (with_max o (Some n)) ts = Ok (d, c) <->
  parse_entry e (with_max o None) ts = Ok (d, c) /\ (c <= n)%nat.
Proof. exact parse_entry_limit_iff. Qed.
Print Assumptions parser_token_limit_iff.

(* an accepted input with more than n tokens is rejected at the start of its (n+1)-th token *)
Theorem parser_token_limit_exceeded : forall e o n ts d c,
  parse_entry e (with_max o None) ts = Ok (d, c) -> (n < c)%nat ->
  parse_entry e (with_max o (Some n)) ts = SyntaxErr (pos_of ts (length ts - n)).
Proof. exact parse_entry_limit_exceeded. Qed.
Print Assumptions parser_token_limit_exceeded.

(* an input rejected without limit is rejected with the same error, or at the (n+1)-th token *)
Theorem parser_token_limit_error : forall e o n ts p,
  parse_entry e (with_max o None) ts = SyntaxErr p ->
  parse_entry e (with_max o (Some n)) ts = SyntaxErr p \/
  parse_entry e (with_max o (Some n)) ts = SyntaxErr (pos_of ts (length ts - n)).
Proof. exact parse_entry_limit_error. Qed.
Print Assumptions parser_token_limit_error.

(* pos_of ts (length ts - n) is the start of the token with index n *)
Theorem parser_limit_position : forall ts n, (n <= length ts)%nat ->
  pos_of ts (length ts - n) = match skipn n ts with t :: _ => tstart t | [] => O end.
Proof. exact pos_of_floor. Qed.
Print Assumptions parser_limit_position.

(* token_count is the number of tokens in front of the first EOF; all of them were consumed *)
Theorem parser_token_count : forall e o ts d c,
  parse_entry e o ts = Ok (d, c) ->
  exists pre rest, map sig ts = pre ++ rest /\ c = length pre /\
                   Forall (fun t => (fst t =? K_EOF) = false) pre /\ kind_at rest = K_EOF.
Proof. exact parse_entry_count. Qed.
Print Assumptions parser_token_count.

(* on source text: token_count + 1 (the EOF) = number of significant tokens of the lexer *)
Theorem parser_token_count_text : forall e o s ts d c, e <> ECoordinate -> lex s = Ok ts ->
  parse_text e o s = Ok (d, c) -> S c = length (significant ts).
Proof. exact parse_text_count. Qed.
Print Assumptions parser_token_count_text.

Theorem parser_text_token_limit_iff : forall e o n s d c,
  parse_text e (with_max o (Some n)) s = Ok (d, c) <->
  parse_text e (with_max o None) s = Ok (d, c) /\ (c <= n)%nat.
Proof. exact parse_text_limit_iff. Qed.
Print Assumptions parser_text_token_limit_iff.

(* "a token limit of n accepts exactly the documents with at most n tokens" *)
Theorem parser_text_token_limit_tokens : forall e o n s ts d c, e <> ECoordinate -> lex s = Ok ts ->
  (parse_text e (with_max o (Some n)) s = Ok (d, c) <->
   parse_text e (with_max o None) s = Ok (d, c) /\ (length (significant ts) <= S n)%nat).
Proof. exact parse_text_limit_tokens. Qed.
Print Assumptions parser_text_token_limit_tokens.

(* ---- (d) layout independence ------------------------------------------------------------- *)

(* the parser consumes only (kind, value) of the significant tokens: equal sequences give equal
   trees and counts, and fail together *)
Theorem parser_layout_independent : forall e o ts1 ts2,
  map sig ts1 = map sig ts2 ->
  (forall d c, parse_entry e o ts1 = Ok (d, c) <-> parse_entry e o ts2 = Ok (d, c)) /\
  ((exists p, parse_entry e o ts1 = SyntaxErr p) <-> (exists p, parse_entry e o ts2 = SyntaxErr p)).
Proof. exact parse_entry_layout. Qed.
Print Assumptions parser_layout_independent.

(* ... and fail at the same token: positions only decide where that token starts *)
Theorem parser_error_token_layout_independent : forall e o ts1 ts2,
  map sig ts1 = map sig ts2 -> error_index e o ts1 = error_index e o ts2.
Proof. exact error_index_layout. Qed.
Print Assumptions parser_error_token_layout_independent.

Theorem parser_error_position : forall e o ts p,
  parse_entry e o ts = SyntaxErr p ->
  exists i, error_index e o ts = Some i /\
            p = match skipn i ts with t :: _ => tstart t | [] => O end.
Proof. exact error_index_spec. Qed.
Print Assumptions parser_error_position.

(* ---- source text ---------------------------------------------------------------------------- *)

(* for a source that lexes, parsing the text is parsing the significant tokens of Lexer.lex *)
Theorem parser_text_is_tokens : forall e o s ts, e <> ECoordinate -> lex s = Ok ts ->
  parse_text e o s = parse_entry e o (significant ts).
Proof. exact parse_text_lex. Qed.
Print Assumptions parser_text_is_tokens.

(* two sources whose significant tokens agree in kind and value (any rewrite of the ignored
   material) parse to the same tree with the same token count, or are both rejected *)
Theorem parser_text_layout_independent : forall e o s1 s2 ts1 ts2,
  e <> ECoordinate -> lex s1 = Ok ts1 -> lex s2 = Ok ts2 ->
  map sig (significant ts1) = map sig (significant ts2) ->
  (forall d c, parse_text e o s1 = Ok (d, c) <-> parse_text e o s2 = Ok (d, c)) /\
  ((exists p, parse_text e o s1 = SyntaxErr p) <-> (exists p, parse_text e o s2 = SyntaxErr p)).
Proof.
  intros e o s1 s2 ts1 ts2 He H1 H2 E.
  rewrite (parse_text_lex e o s1 ts1 He H1), (parse_text_lex e o s2 ts2 He H2).
  apply parse_entry_layout. exact E.
Qed.
Print Assumptions parser_text_layout_independent.

(* a source that does not lex is rejected by every entry point (at the lexical error or at an
   earlier parse error), never accepted *)
Theorem parser_unlexable_rejected : forall e o s q, e <> ECoordinate -> lex s = SyntaxErr q ->
  exists p, parse_text e o s = SyntaxErr p.
Proof. exact parse_text_unlexable. Qed.
Print Assumptions parser_unlexable_rejected.

(* ---- non-vacuity ---------------------------------------------------------------------------- *)
(* `{ a }` *)
Definition ex_doc_text : list N := [123; 32; 97; 32; 125].
Definition ex_doc : node :=
  Nd KDocument [AList [Nd KOperationDefinition
    [ANode (Nd KSelectionSet [AList [Nd KField [ANone; ANode (Nd KName [AStr [97]]); ANone; ANone; ANone]]]);
     ANone; ANone; ANone; ANone; AEnum 0]]].
Definition no_opts : options := mkOpts None false false.

Example ex_parse_text : parse_text EDocument no_opts ex_doc_text = Ok (ex_doc, 3%nat).
Proof. vm_compute. reflexivity. Qed.

Example ex_wf : wf_document false false ex_doc.
Proof.
  repeat constructor.
Qed.

Example ex_tokens : tokens_of ex_doc = [(K_BRACE_L, []); (K_NAME, [97]); (K_BRACE_R, [])].
Proof. reflexivity. Qed.

(* token limit: 2 tokens are not enough for `{ a }`, error at the third token (offset 4) *)
Example ex_limit :
  parse_text EDocument (mkOpts (Some 2%nat) false false) ex_doc_text = SyntaxErr 4%nat /\
  parse_text EDocument (mkOpts (Some 3%nat) false false) ex_doc_text = Ok (ex_doc, 3%nat).
Proof. split; vm_compute; reflexivity. Qed.

(* laziness: the parse error at `}` (offset 0... the unexpected token) comes before the lexical
   error further right *)
Example ex_lazy : parse_text EDocument no_opts [125; 32; 34] = SyntaxErr 0%nat.
Proof. vm_compute. reflexivity. Qed.

(* SDL with an extension and a description, both experimental syntaxes *)
Definition ex_sdl_text : list N :=
  (* "d" directive @a @b on FIELD extend directive @a @c *)
  [34;100;34;32;100;105;114;101;99;116;105;118;101;32;64;97;32;64;98;32;111;110;32;70;73;69;76;68;32;
   101;120;116;101;110;100;32;100;105;114;101;99;116;105;118;101;32;64;97;32;64;99].
Example ex_sdl :
  match parse_text EDocument (mkOpts None true true) ex_sdl_text with
  | Ok (d, c) => c = 14%nat /\ length (tokens_of d) = 14%nat
  | _ => False
  end.
Proof. vm_compute. split; reflexivity. Qed.
