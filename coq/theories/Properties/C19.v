(* C19 - schema transformations preserve meaning.  Theorems only; proofs in
   SchemaOps/SortProps.v, DiffProps.v, BuildProps.v, NatOrderProps.v. *)
From Coq Require Import Permutation.
From GV Require Import Base.Prelude SchemaOps.Schema SchemaOps.NatOrder SchemaOps.NatOrderProps
  SchemaOps.Sort SchemaOps.SortProps SchemaOps.Diff SchemaOps.DiffProps SchemaOps.Build SchemaOps.Sdl
  SchemaOps.BuildProps SchemaOps.DiffSound.

(* Sorting, for EVERY comparison of names: each container of [sort s] (type map, fields, arguments,
   enum values, union members, interfaces, input fields, directives, directive locations and
   directive arguments) is a permutation of the original one, and nothing else changes
   ([schema_rel] fixes descriptions, root names, kinds, types, defaults, deprecations, flags). *)
Theorem C19_sort_perm : forall leb s, schema_rel s (sort leb s).
Proof. exact sort_perm. Qed.
Print Assumptions C19_sort_perm.

(* Sorting twice equals sorting once, for every total comparison ... *)
Theorem C19_sort_idem : forall leb, (forall a b, leb a b = false -> leb b a = true) ->
  forall s, sort leb (sort leb s) = sort leb s.
Proof. exact sort_idem. Qed.
Print Assumptions C19_sort_idem.

(* ... in particular for the natural order of the implementation (natural_comparison_key). *)
Theorem C19_sort_idem_natural : forall s, sort natural_leb (sort natural_leb s) = sort natural_leb s.
Proof. exact (sort_idem natural_leb natural_leb_total). Qed.
Print Assumptions C19_sort_idem_natural.

(* Comparing a schema with itself reports no change ([wf]: names unique inside each keyed container). *)
Theorem C19_diff_refl : forall leb s, wf s -> diff leb s s = [].
Proof. exact diff_refl. Qed.
Print Assumptions C19_diff_refl.

(* The change detector is insensitive to the order of every container ... *)
Theorem C19_diff_order_insensitive : forall leb a b, wf a -> schema_rel a b -> diff leb a b = [].
Proof. exact diff_rel_nil. Qed.
Print Assumptions C19_diff_order_insensitive.

(* ... so no difference is detected between a schema and its sort (for any order used by either). *)
Theorem C19_sort_no_diff : forall leb leb' s, wf s -> diff leb s (sort leb' s) = [].
Proof. exact sort_no_diff. Qed.
Print Assumptions C19_sort_no_diff.

(* A document without type-system definitions returns the argument itself. *)
Theorem C19_extend_noop_identity : forall s ds, forallb is_executable ds = true -> extend s ds = s.
Proof. exact extend_noop_identity. Qed.
Print Assumptions C19_extend_noop_identity.

(* extend (build A) B = build (A ++ B), in any definition order of A and of B, for every extension
   document B (without a schema definition of its own) that adds fields, interfaces, union members,
   enum values, input fields to existing types of any kind (several extensions per type allowed),
   new types, new directives and - through schema extensions - operation types for roots the schema
   does not have yet.  Side conditions: A does not extend a type that only B defines; B's new types
   do not carry a conventional root name (build_ast_schema would adopt such a type as a root,
   extend_schema does not).
   Scalar extensions may carry @specifiedBy (a non-empty URL of a later extension wins, an
   extension without it keeps the URL), directive-only extensions of every kind are covered
   (@oneOf on an extension has no effect in either function; other applied directives are not part
   of a schema).
   Partial: directive extensions (`extend directive @d @deprecated`) are not modelled. *)
Theorem C19_extend_hom_partial : forall A B sA,
  build A = Some sA ->
  schema_defs B = [] ->
  ops_wellformed (schema_ext_ops B) ->
  (forall k n, In (k, n) (schema_ext_ops B) -> root_of k sA = None) ->
  (forall e t, In e (type_exts A) -> In t (type_defs B) -> t_name e <> t_name t) ->
  (forall t, In t (type_defs B) -> t_name t <> nQuery /\ t_name t <> nMutation /\ t_name t <> nSubscription) ->
  build (A ++ B) = Some (extend sA B).
Proof. exact extend_hom_ops. Qed.
Print Assumptions C19_extend_hom_partial.

(* Each reported change - of every kind - has a witness in the two schemas: [witness] is a decidable
   predicate that, per change kind, states the actual difference at the named place: the type /
   directive / field / input field / enum value / union member / interface / argument / location is
   present in one schema and absent from the same container of the other; the kinds of the two
   types differ; the two type references differ; the default value was removed / added / differs
   (as sorted literals); the repeatable flags differ; the two descriptions differ.  Kinds outside
   the list of the implementation have no witness (the predicate is false for them). *)
Theorem C19_diff_sound : forall leb a b c, wf a -> In c (diff leb a b) -> witness leb c a b = true.
Proof. exact diff_sound. Qed.
Print Assumptions C19_diff_sound.

(* non-vacuity: a well-formed two-type schema whose sort differs from it; an extension *)
Definition ex_Q : typedef :=
  mkType 1 nQuery None
    [mkField ([98]) [mkArg ([122]) (TNamed ([73])) None None None;
                          mkArg ([97]) (TNonNull (TNamed ([73]))) (Some (VLeaf 1 [49])) None None]
       (TList (TNamed ([65]))) None None;
     mkField ([97; 49; 48]) [] (TNamed ([65])) (Some [100]) None;
     mkField ([97; 50]) [] (TNamed ([65])) None None]
    [] [] [] [] None false.
Definition ex_A : typedef := mkType 4 ([65]) None [] [] [] [mkEnumVal ([89]) None None; mkEnumVal ([88]) None None] [] None false.
Definition ex_s : schema := mkSchema None (Some nQuery) None None [ex_Q; ex_A] [].

Example C19_example_sort :
  map f_name (t_fields (nth 1 (s_types (sort natural_leb ex_s)) ex_A)) = [[97; 50]; [97; 49; 48]; [98]]
  /\ map t_name (s_types (sort natural_leb ex_s)) = [[65]; nQuery]
  /\ sort natural_leb ex_s <> ex_s.
Proof. repeat split; try reflexivity. intro H. discriminate H. Qed.

Example C19_example_wf : wf ex_s.
Proof.
  unfold wf, wf_type, wf_field, ex_s; cbn.
  repeat (split || constructor || (intro H; cbn in H; repeat (destruct H as [H|H]; try discriminate H); try contradiction)).
Qed.

(* the witness predicate is not trivially true, and a real removal is reported with its witness *)
Example C19_example_witness :
  witness natural_leb (mkChange TYPE_REMOVED [nQuery]) ex_s ex_s = false
  /\ witness natural_leb (mkChange FIELD_REMOVED [nQuery; [98]]) ex_s ex_s = false
  /\ witness natural_leb (mkChange DESCRIPTION_CHANGED [nQuery]) ex_s ex_s = false
  /\ let b := mkSchema None (Some nQuery) None None [ex_Q] [] in
     map c_kind (diff natural_leb ex_s b) = [TYPE_REMOVED]
     /\ witness natural_leb (mkChange TYPE_REMOVED [[65]]) ex_s b = true.
Proof. repeat split; reflexivity. Qed.

(* a scalar with a URL keeps it through an extension without @specifiedBy; a later URL wins *)
Example C19_example_scalar_ext :
  let S u := mkType 0 [83] None [] [] [] [] [] u false in
  apply_exts [S None] (S (Some [117])) = S (Some [117])
  /\ apply_exts [S (Some [118]); S None] (S (Some [117])) = S (Some [118])
  /\ apply_exts [S (Some [])] (S (Some [117])) = S (Some [117]).
Proof. repeat split; reflexivity. Qed.

Example C19_example_extend :
  let A := [DType ex_Q; DType ex_A] in
  let B := [DExtend (mkType 4 ([65]) None [] [] [] [mkEnumVal ([90]) None None] [] None false); DExecutable] in
  exists sA, build A = Some sA /\ schema_defs B = []
             /\ map e_name (t_values (nth 1 (s_types (extend sA B)) ex_Q)) = [[89]; [88]; [90]].
Proof. eexists. repeat split; reflexivity. Qed.
