(* C19 - placeholder while the harness is being brought up *)
From GV Require Import Base.Prelude SchemaOps.Schema SchemaOps.Sort SchemaOps.Diff.
Example C19_example : True. Proof. exact I. Qed.
