(* C11 (machine part) - the explicit-stack loop of visit() refines the recursive traversal model.
   Theorems only; machine in Lang/VisitMachine.v (one [step] per iteration of `while True` in
   language/visitor.py), proofs in Lang/VisitMachineProps.v. *)
From GV Require Import Base.Prelude Lang.Visit Lang.VisitProps Lang.VisitParallelProps
  Lang.VisitMachine Lang.VisitMachineProps.

(* For EVERY visitor (any state-passing decision function: idle, SKIP, BREAK, REMOVE and replacement,
   on enter and on leave, root included) and every tree: whenever the recursive model has an answer
   with nesting fuel f, the machine, given enough loop iterations, never raises and ends with
   exactly the model's call log (phase, node, key, path, #ancestors, decision of every call), the
   model's visitor state, and the model's result: keep = the root object itself is returned,
   REdit None = REMOVE is returned, REdit (Some t) = t is returned, break = the loop was left by
   BREAK.  (After a BREAK the recursive model does not say which value is returned; the machine
   does: the last edit of the level it broke in, else the root - compared with the implementation
   by ./check CVISITM.)  The number n of iterations needed is at most msteps root if the visitor never
   replaces on enter (NR), and at most msteps root + R per enter-replacement the model made (nrep log)
   if every replacement tree it can answer with has msteps <= R (HR R). *)
Theorem C11_machine_refines_model : forall St decide f root s0 r s log,
  visit St decide f root s0 = (r, s, log) -> r <> ROutOfFuel ->
  exists n, (NR St decide -> (n <= msteps root)%nat) /\
    (forall R, HR St decide R -> (n <= msteps root + R * nrep log)%nat) /\
    forall fuel, (n <= fuel)%nat ->
      exists b mr, visit_machine St decide fuel root s0 = MRet b mr s log /\ res_match r b mr.
Proof. exact machine_refines_model. Qed.
Print Assumptions C11_machine_refines_model.

(* A visitor that never answers with a replacement node on enter (it may skip, break, remove, and
   replace on leave): msteps root loop iterations always suffice - out-of-fuel and a raised
   exception are unreachable - and the recursive model needs only fuel = depth; both agree. *)
Theorem C11_machine_fuel_sufficient : forall St decide, NR St decide ->
  forall root s0 fuel, (msteps root <= fuel)%nat ->
  exists r s log b mr, r <> ROutOfFuel /\
    visit St decide (depth_tree root) root s0 = (r, s, log) /\
    visit_machine St decide fuel root s0 = MRet b mr s log /\ res_match r b mr.
Proof. exact machine_fuel_sufficient. Qed.
Print Assumptions C11_machine_fuel_sufficient.

(* Visitors that do replace on enter: replacing X by a tree that contains X again makes the real loop
   run forever, so no budget in the tree alone exists; whenever the recursive model terminates (with
   any nesting fuel f), the explicit budget msteps root + R * (number of enter-replacements in the
   model's log) suffices, R bounding the replacement trees.  For a scripted visitor R = script_R sc,
   the largest replacement of the script. *)
Theorem C11_machine_fuel_general : forall St decide R, HR St decide R ->
  forall f root s0 r s log, visit St decide f root s0 = (r, s, log) -> r <> ROutOfFuel ->
  forall fuel, (msteps root + R * nrep log <= fuel)%nat ->
    exists b mr, visit_machine St decide fuel root s0 = MRet b mr s log /\ res_match r b mr.
Proof. exact machine_fuel_general. Qed.
Print Assumptions C11_machine_fuel_general.

Theorem C11_machine_scripted_fuel : forall sc f root r log,
  visit_scripted f root sc = (r, log) -> r <> ROutOfFuel ->
  forall fuel, (msteps root + script_R sc * nrep log <= fuel)%nat ->
    exists b mr, machine_scripted fuel root sc = MRet b mr tt log /\ res_match r b mr.
Proof. exact machine_scripted_fuel. Qed.
Print Assumptions C11_machine_scripted_fuel.

(* C11_no_edit_identity on the machine: a visitor that never returns REMOVE or a replacement gets
   the identical root object back, whatever it skips or breaks, for every step budget (shown on
   the machine itself: every `edits` list of every stack frame stays empty). *)
Theorem C11_machine_no_edit_identity : forall St decide, non_editing St decide ->
  forall fuel root s0,
  match visit_machine St decide fuel root s0 with MRet _ mr _ _ => mr = MRoot | _ => True end.
Proof. exact machine_no_edit_identity. Qed.
Print Assumptions C11_machine_no_edit_identity.

(* C11_enter_leave_order on the machine: with the all-idle visitor the loop makes exactly the
   depth-first enter/leave bracket sequence of calls with the key, path and number of ancestors of
   [dfs_tree], within msteps root iterations, and returns the root object. *)
Theorem C11_machine_enter_leave_order : forall root,
  visit_machine unit idle_dec (msteps root) root tt
  = MRet false MRoot tt (dfs_tree root KNone [] 0%nat false).
Proof. exact machine_idle_log. Qed.
Print Assumptions C11_machine_enter_leave_order.

(* C11_parallel_projection on the machine: the loop run with the ParallelVisitor of non-editing
   scripted visitors gives visitor i exactly the calls the loop gives it when it runs alone; both
   runs return the root object. *)
Theorem C11_machine_parallel_projection : forall root scs i sc,
  Forall script_ne scs -> NoDup (ids_tree root) -> nth_error scs i = Some sc ->
  forall fuel, (msteps root <= fuel)%nat ->
  exists b ps log b' log',
    machine_parallel fuel root scs = MRet b MRoot ps log /\
    machine_scripted fuel root sc = MRet b' MRoot tt log' /\
    projsub i (rev (snd ps)) = proj_log log'.
Proof. exact machine_parallel_projection. Qed.
Print Assumptions C11_machine_parallel_projection.

(* ---- non-vacuity: an editing script on a tree with an absent slot, a single child and arrays ----
   node 2 is replaced on enter by a node whose child 11 is removed on leave; item 4 of the array is
   removed on enter, item 5 replaced on leave; leave of the root answers SKIP (= no action). *)
Definition mx_leaf (i : N) : tree := Node 1 i SNil.
Definition mx_root : tree :=
  Node 2 1 (SCons SNone
           (SCons (SOne (Node 3 2 (SCons (SOne (mx_leaf 3)) SNil)))
           (SCons (SArr (TCons (mx_leaf 4) (TCons (mx_leaf 5) (TCons (mx_leaf 6) TNil)))) SNil))).
Definition mx_repl : tree := Node 3 10 (SCons (SOne (mx_leaf 11)) (SCons (SArr (TCons (mx_leaf 12) TNil)) SNil)).
Definition mx_script : script :=
  [(2, Enter, Replace mx_repl); (11, Leave, Remove); (4, Enter, Remove); (5, Leave, Replace (mx_leaf 13));
   (1, Leave, Skip)].
Definition mx_result : tree :=
  Node 2 1 (SCons SNone
           (SCons (SOne (Node 3 10 (SCons SNone (SCons (SArr (TCons (mx_leaf 12) TNil)) SNil))))
           (SCons (SArr (TCons (mx_leaf 13) (TCons (mx_leaf 6) TNil))) SNil))).

Example C11_machine_example :
  fst (visit_scripted 5 mx_root mx_script) = REdit (Some mx_result) /\
  exists log, machine_scripted 40 mx_root mx_script = MRet false (MVal (EVal (VNode mx_result))) tt log /\
              log = snd (visit_scripted 5 mx_root mx_script) /\
              map c_id log = [1; 2; 11; 11; 12; 12; 10; 4; 5; 5; 6; 6; 1] /\
              (msteps mx_root + script_R mx_script * nrep log = 23)%nat.
Proof. split; [reflexivity|]. eexists. split; [vm_compute; reflexivity|]. repeat split. Qed.
