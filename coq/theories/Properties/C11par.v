(* C11 (parallel part) - ParallelVisitor projection.  Theorems only; proofs in
   Lang/VisitParallelProps.v over the traversal model Lang/Visit.v. *)
From GV Require Import Base.Prelude Lang.Visit Lang.VisitProps Lang.VisitParallelProps.

(* For every list [scs] of scripted visitors that never edit (every scripted action is Idle, Skip
   or Break), every tree with pairwise distinct node ids (the implementation identifies the
   skipped node by object identity) and enough fuel (the nesting depth): the sub-calls of
   visitor i inside the parallel run (filtered by visitor index, as (phase, node id)) are exactly
   the calls of the solo run visit_scripted fuel root (nth i scs) - including after SKIP and
   BREAK of visitor i itself and of the other visitors. *)
Theorem C11_parallel_projection : forall fuel root scs i sc,
  Forall script_ne scs -> NoDup (ids_tree root) -> (depth_tree root <= fuel)%nat ->
  nth_error scs i = Some sc ->
  projsub i (snd (visit_parallel fuel root scs)) = proj_log (snd (visit_scripted fuel root sc)).
Proof. exact parallel_projection. Qed.
Print Assumptions C11_parallel_projection.

(* a traversal whose visitor only answers Idle or Break is the fold of the visitor over the
   depth-first enter/leave call list, up to the first Break (used above and by C12) *)
Theorem C11_idle_break_traversal_is_fold : forall St decide,
  idle_or_break St decide -> forall fuel root s0, (depth_tree root <= fuel)%nat ->
  snd (fst (visit St decide fuel root s0)) = snd (run_calls St decide (calls_tree root) s0).
Proof. exact visit_calls. Qed.
Print Assumptions C11_idle_break_traversal_is_fold.

(* the call sequence of one scripted non-editing visitor alone, as a function of the tree *)
Theorem C11_solo_calls : forall sc, script_ne sc -> forall fuel root, (depth_tree root <= fuel)%nat ->
  proj_log (snd (visit_scripted fuel root sc)) = fst (solo_tree sc root).
Proof. exact solo_log. Qed.
Print Assumptions C11_solo_calls.

(* ---- non-vacuity: three visitors; 0 skips node 2, 1 breaks at node 3, 2 is idle ---- *)
Definition ex_root : tree :=
  Node 1 1 (SCons (SArr (TCons (Node 2 2 (SCons (SOne (Node 3 3 SNil)) SNil))
                        (TCons (Node 2 4 SNil) TNil))) SNil).
Definition ex_scs : list script :=
  [ [(2, Enter, Skip); (4, Leave, Skip)]; [(3, Enter, Break)]; [] ].

Example C11_parallel_example :
  Forall script_ne ex_scs /\ NoDup (ids_tree ex_root) /\ (depth_tree ex_root <= 5)%nat /\
  projsub 0 (snd (visit_parallel 5 ex_root ex_scs))
    = [(Enter, 1); (Enter, 2); (Enter, 4); (Leave, 4); (Leave, 1)] /\
  projsub 1 (snd (visit_parallel 5 ex_root ex_scs)) = [(Enter, 1); (Enter, 2); (Enter, 3)] /\
  length (projsub 2 (snd (visit_parallel 5 ex_root ex_scs))) = 8%nat.
Proof.
  split.
  - assert (Hs : forall sc, (forall x, In x sc -> ne_action (snd x)) -> script_ne sc).
    { intros sc H i p a Hin. exact (H (i, p, a) Hin). }
    repeat (apply Forall_cons || apply Forall_nil); apply Hs; intros x H; cbn in H;
      repeat (destruct H as [<-|H]; [unfold ne_action; cbn; auto|]); contradiction.
  - split; [cbn; repeat constructor; cbn; intuition discriminate|].
    split; [cbn; lia|]. vm_compute. repeat split.
Qed.
