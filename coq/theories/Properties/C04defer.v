(* C04, the @defer part - incremental delivery reassembles to the non-incremental response.

   Model: Incr/DeferExec.v (collect_fields with defer usages, build_execution_plan = Incr/Plan.v,
   the @defer part of IncrementalExecutor; a sibling of Exec/Spec.v sharing its helpers).
     dexecute        = experimental_execute_incrementally: initial response + execution group values
     dexecute_plain  = the same request on the base executor (every collected field executed at once)
     erase_defer     = the document with every @defer directive removed
     reassemble      = the client-side merge of Incr/Merge.v applied to the payloads in the model's order
     jeq             = equality of response data up to the order of object keys

   Fragment: Exec/Spec.v's (synchronous default-like resolvers over a data graph) plus @defer on inline
   fragments and fragment spreads (labels, `if` by literal or variable, nested, overlapping).  Orders: the
   payloads are merged in the model's order (every execution group after the group that created its position)
   AND in every permutation of it on which the merge oracle succeeds, i.e. every arrival order in which each
   payload's target position exists when it is applied.  NOT covered, hence the suffix _partial on the
   reassembly theorems: @stream; asynchronous resolvers and early execution (the set of execution group
   values is computed by the synchronous model); responses with field errors (only the statements about
   disabled/absent @defer cover them).
   [rev = false]: no collection visited a named fragment as deferred and later again as non-deferred (the only
   case in which collect_fields deliberately collects a fragment twice). *)
From GV Require Import Base.Prelude Exec.Value Exec.Schema Exec.Spec Incr.DeferExec Incr.DeferExecProps.
From GV Require Incr.Plan Incr.Merge.
From Coq Require Import Permutation.

(* MAIN: if the base executor's run is error-free then so is the incremental run - initial response and
   every execution group value - and merging the payloads into the initial data with the merge oracle
   yields the base executor's data (nested defers, lists, abstract types included): in the model's order,
   and in every other order of the same payloads in which the merge can be carried out *)
Theorem C04_defer_reassembly_partial : forall s d vars root j cs pl rv,
  dexecute_plain s d vars root = DResp j [] cs pl rv ->
  exists j0 cs0 pls rv0,
    dexecute s d vars root = DResp j0 [] cs0 pls rv0 /\
    Forall pl_ok pls /\
    (exists m, reassemble j0 pls = Some m /\ jeq m j) /\
    (forall pls' m', Permutation pls pls' -> reassemble j0 pls' = Some m' -> jeq m' j).
Proof. intros s d vars root j cs pl rv. apply reassembly_fuel. Qed.
Print Assumptions C04_defer_reassembly_partial.

(* the base executor computes Exec/Spec.v's execution of the document with @defer erased (any errors) *)
Theorem C04_defer_base_executor_is_erased_spec : forall s d vars root j es cs pl,
  dexecute_plain s d vars root = DResp j es cs pl false ->
  pl = [] /\ execute s (erase_defer d) vars root = Resp j es cs.
Proof.
  intros s d vars root j es cs pl H. unfold execute. rewrite default_fuel_erase.
  apply plain_is_spec_fuel. exact H.
Qed.
Print Assumptions C04_defer_base_executor_is_erased_spec.

(* both together: the reference is Spec.execute of the erased document *)
Theorem C04_defer_reassembles_to_erased_spec_partial : forall s d vars root j cs pl,
  dexecute_plain s d vars root = DResp j [] cs pl false ->
  execute s (erase_defer d) vars root = Resp j [] cs /\
  exists j0 cs0 pls rv0,
    dexecute s d vars root = DResp j0 [] cs0 pls rv0 /\
    Forall pl_ok pls /\
    (exists m, reassemble j0 pls = Some m /\ jeq m j) /\
    (forall pls' m', Permutation pls pls' -> reassemble j0 pls' = Some m' -> jeq m' j).
Proof.
  intros s d vars root j cs pl H. split.
  - apply (C04_defer_base_executor_is_erased_spec _ _ _ _ _ _ _ _ H).
  - eapply C04_defer_reassembly_partial. exact H.
Qed.
Print Assumptions C04_defer_reassembles_to_erased_spec_partial.

(* `if: false` (literal or by variable): when every @defer is disabled the incremental executor answers
   like the specification's algorithm on the erased document and delivers no payload - errors included *)
Theorem C04_defer_disabled_contributes_no_payload : forall s d vars root j es cs pl rv,
  (forall cv, coerce_variable_values s (d_vars d) vars = Some cv -> inactive_doc cv d = true) ->
  dexecute s d vars root = DResp j es cs pl rv ->
  pl = [] /\ rv = false /\ execute s (erase_defer d) vars root = Resp j es cs.
Proof.
  intros s d vars root j es cs pl rv Hin H. unfold dexecute in H.
  destruct (inactive_fuel (default_fuel s d root) s d vars root Hin) as [He Hr].
  rewrite He in H. pose proof (Hr _ _ _ _ _ H) as ->.
  destruct (C04_defer_base_executor_is_erased_spec _ _ _ _ _ _ _ _ H) as [-> Hx]. auto.
Qed.
Print Assumptions C04_defer_disabled_contributes_no_payload.

(* the sibling executor is Spec.execute on documents without @defer *)
Theorem C04_defer_free_is_spec : forall s d vars root j es cs pl rv,
  defer_free d = true ->
  dexecute s d vars root = DResp j es cs pl rv ->
  pl = [] /\ execute s d vars root = Resp j es cs.
Proof.
  intros s d vars root j es cs pl rv Hf H.
  destruct (C04_defer_disabled_contributes_no_payload s d vars root j es cs pl rv) as [H1 [_ H3]];
    [intros cv _; apply defer_free_inactive; exact Hf|exact H|].
  rewrite (defer_free_erase d Hf) in H3. auto.
Qed.
Print Assumptions C04_defer_free_is_spec.

(* a response key with a non-deferred occurrence is executed by the initial executor *)
Theorem C04_defer_nondeferred_occurrence_is_initial : forall dg k fs,
  In (k, fs) dg -> (exists f, In f fs /\ df_du f = []) -> In (k, fs) (fst (plan_of dg [])).
Proof. exact nondeferred_in_initial. Qed.
Print Assumptions C04_defer_nondeferred_occurrence_is_initial.

(* ... and is therefore a key of the initial data of its position (unless the runtime type does not define it) *)
Theorem C04_defer_nondeferred_occurrence_in_initial_data :
  forall s frags cv f tn obj srcs b dp kvs es cs pls rv st k fs,
  dexec_sels s frags cv true (S f) tn obj srcs [] b dp = Some ((CVal (JObj kvs), es, cs), pls, rv) ->
  dcollect_srcs s frags cv tn b dp f srcs cs0 = Some st ->
  In (k, fs) (c_g st) -> (exists x, In x fs /\ df_du x = []) ->
  dexec_field s frags cv true f tn obj [] (b + N.of_nat (length (c_new st))) dp fs <> Some XSkip ->
  In k (map fst kvs).
Proof. exact nondeferred_in_initial_data. Qed.
Print Assumptions C04_defer_nondeferred_occurrence_in_initial_data.

(* the plan of one position (initial part + deferred grouped field sets) is a partition of the collected
   response keys with their complete field lists *)
Theorem C04_defer_plan_partition : forall dg parent,
  Permutation (fst (plan_of dg parent) ++ flat_map snd (snd (plan_of dg parent))) dg.
Proof. exact plan_of_partition. Qed.
Print Assumptions C04_defer_plan_partition.

(* [reassemble] is the merge oracle of Incr/Merge.v fed with one subsequent payload per execution group *)
Theorem C04_defer_merge_oracle : forall j0 pls,
  Merge.reassemble j0 [] (merge_payloads 0 pls) = apply_pls j0 pls.
Proof. exact reassemble_apply_pls. Qed.
Print Assumptions C04_defer_merge_oracle.

(* ---- the hypotheses are satisfiable: nested, labelled defers inside an object ---- *)
Module Ex.
  Definition sa : str := [97].
  Definition sx : str := [120].
  Definition sy : str := [121].
  Definition so : str := [111].
  Definition Obj : str := [79].
  Definition Q : str := [81].
  Definition sch : schema := mkSchema
    [(Q, TObject [mkField sa (TNamed Obj) []] []);
     (Obj, TObject [mkField sx (TNamed n_Int) []; mkField sy (TNamed n_Int) []; mkField so (TNamed Obj) []] [])]
    Q None.
  Definition fld n sub := SField None n [] [] sub.
  Definition dfr lab sub := SInline None [(n_defer, [(n_label, VStr lab)])] sub.
  Definition inner := DObj Obj [(sx, DLeaf (LInt 3)); (sy, DLeaf (LInt 4))].
  Definition root := DObj Q [(sa, DObj Obj [(sx, DLeaf (LInt 1)); (sy, DLeaf (LInt 2)); (so, inner)])].
  (* { a { x ... @defer(label: "A") { y o { x ... @defer(label: "B") { y } } } } } *)
  Definition doc := mkDoc OpQuery []
    [fld sa [fld sx []; dfr [65] [fld sy []; fld so [fld sx []; dfr [66] [fld sy []]]]]] [].
End Ex.

Example C04_defer_example :
  (exists j cs, dexecute_plain Ex.sch Ex.doc [] Ex.root = DResp j [] cs [] false) /\
  (exists j0 cs0 p1 p2, dexecute Ex.sch Ex.doc [] Ex.root = DResp j0 [] cs0 [p1; p2] false /\
     j0 = JObj [(Ex.sa, JObj [(Ex.sx, JInt 1)])] /\
     pl_path p1 = [PKey Ex.sa] /\ pl_path p2 = [PKey Ex.sa; PKey Ex.so] /\
     reassemble j0 [p1; p2]
     = Some (JObj [(Ex.sa, JObj [(Ex.sx, JInt 1); (Ex.sy, JInt 2);
                                 (Ex.so, JObj [(Ex.sx, JInt 3); (Ex.sy, JInt 4)])])]) /\
     (* the nested payload before the payload that creates its position: rejected by the oracle *)
     reassemble j0 [p2; p1] = None).
Proof.
  split.
  - eexists _, _. vm_compute. reflexivity.
  - eexists _, _, _, _. split; [vm_compute; reflexivity|]. repeat split; vm_compute; reflexivity.
Qed.
