(* C04, the @defer part - incremental delivery reassembles to the non-incremental response.

   Model: Incr/DeferExec.v (collect_fields with defer usages, build_execution_plan = Incr/Plan.v,
   the @defer part of IncrementalExecutor; a sibling of Exec/Spec.v sharing its helpers).
     dexecute        = experimental_execute_incrementally: initial response + execution group values
     dexecute_plain  = the same request on the base executor (every collected field executed at once)
     erase_defer     = the document with every @defer directive removed
     reassemble      = the client-side merge of Incr/Merge.v applied to the payloads in the model's order
     jeq             = equality of response data up to the order of object keys

   Fragment: Exec/Spec.v's (synchronous default-like resolvers over a data graph) plus @defer on inline
   fragments and fragment spreads (labels, `if` by literal or variable, nested, overlapping).  Orders: the
   payloads are merged in the model's order (every execution group after the group that created its position)
   AND in every permutation of it on which the merge oracle succeeds, i.e. every arrival order in which each
   payload's target position exists when it is applied.  NOT covered, hence the suffix _partial on the
   reassembly theorems: @stream; asynchronous resolvers and early execution (the set of execution group
   values is computed by the synchronous model); responses with field errors (only the statements about
   disabled/absent @defer cover them).
   [rev = false]: no collection visited a named fragment as deferred and later again as non-deferred (the only
   case in which collect_fields deliberately collects a fragment twice). *)
From GV Require Import Base.Prelude Exec.Value Exec.Schema Exec.Spec Incr.DeferExec Incr.DeferExecProps Incr.DeferExecErr Incr.DeferExecRev Incr.DeferExecNp.
From GV Require Incr.Plan Incr.Merge.
From Coq Require Import Permutation.

(* MAIN: if the base executor's run is error-free then so is the incremental run - initial response and
   every execution group value - and merging the payloads into the initial data with the merge oracle
   yields the base executor's data (nested defers, lists, abstract types included): in the model's order,
   and in every other order of the same payloads in which the merge can be carried out *)
Theorem C04_defer_reassembly_partial : forall s d vars root j cs pl rv,
  dexecute_plain s d vars root = DResp j [] cs pl rv ->
  exists j0 cs0 pls rv0,
    dexecute s d vars root = DResp j0 [] cs0 pls rv0 /\
    Forall pl_ok pls /\
    (exists m, reassemble j0 pls = Some m /\ jeq m j) /\
    (forall pls' m', Permutation pls pls' -> reassemble j0 pls' = Some m' -> jeq m' j).
Proof. intros s d vars root j cs pl rv. apply reassembly_fuel. Qed.
Print Assumptions C04_defer_reassembly_partial.

(* the base executor computes Exec/Spec.v's execution of the document with @defer erased (any errors) *)
Theorem C04_defer_base_executor_is_erased_spec : forall s d vars root j es cs pl,
  dexecute_plain s d vars root = DResp j es cs pl false ->
  pl = [] /\ execute s (erase_defer d) vars root = Resp j es cs.
Proof.
  intros s d vars root j es cs pl H. unfold execute. rewrite default_fuel_erase.
  apply plain_is_spec_fuel. exact H.
Qed.
Print Assumptions C04_defer_base_executor_is_erased_spec.

(* [rev] exactly: some selection-set collection met a named fragment through a non-deferred spread after it had
   collected it through a deferred spread (collect_fields.py then collects the fragment a second time).  Static
   sufficient condition: no fragment name is spread both with an active @defer and without one anywhere in the
   document (under the coerced variables) - then the tie to Exec/Spec.v needs no side condition *)
Theorem C04_defer_no_mixed_spreads_base_is_erased_spec : forall s d vars root j es cs pl rv,
  (forall cv, coerce_variable_values s (d_vars d) vars = Some cv -> no_mixed_spreads cv d = true) ->
  dexecute_plain s d vars root = DResp j es cs pl rv ->
  rv = false /\ pl = [] /\ execute s (erase_defer d) vars root = Resp j es cs.
Proof.
  intros s d vars root j es cs pl rv Hnm H.
  pose proof (no_mixed_rev_false _ _ _ _ _ _ _ _ _ _ Hnm H) as ->.
  destruct (C04_defer_base_executor_is_erased_spec _ _ _ _ _ _ _ _ H) as [-> Hx]. auto.
Qed.
Print Assumptions C04_defer_no_mixed_spreads_base_is_erased_spec.

(* both together: the reference is Spec.execute of the erased document *)
Theorem C04_defer_reassembles_to_erased_spec_partial : forall s d vars root j cs pl,
  dexecute_plain s d vars root = DResp j [] cs pl false ->
  execute s (erase_defer d) vars root = Resp j [] cs /\
  exists j0 cs0 pls rv0,
    dexecute s d vars root = DResp j0 [] cs0 pls rv0 /\
    Forall pl_ok pls /\
    (exists m, reassemble j0 pls = Some m /\ jeq m j) /\
    (forall pls' m', Permutation pls pls' -> reassemble j0 pls' = Some m' -> jeq m' j).
Proof.
  intros s d vars root j cs pl H. split.
  - apply (C04_defer_base_executor_is_erased_spec _ _ _ _ _ _ _ _ H).
  - eapply C04_defer_reassembly_partial. exact H.
Qed.
Print Assumptions C04_defer_reassembles_to_erased_spec_partial.

(* "... or error propagation is disabled for the operation": with @experimental_disableErrorPropagation (np mode)
   the incremental run reassembles to the base executor's data for EVERY request, field errors included - no
   execution group can fail, every value carries data; in the model's order and in every order the merge accepts *)
Theorem C04_defer_propagation_disabled_reassembly_partial : forall s d vars root j es cs pl rv,
  dexecute_np s d vars root = DResp j es cs pl rv ->
  exists j0 es0 cs0 pls rv0,
    dexecute_np_incremental s d vars root = DResp j0 es0 cs0 pls rv0 /\
    Forall pl_dok pls /\
    (exists m, reassemble j0 pls = Some m /\ jeq m j) /\
    (forall pls' m', Permutation pls pls' -> reassemble j0 pls' = Some m' -> jeq m' j).
Proof. intros s d vars root j es cs pl rv. apply np_reassembly_fuel. Qed.
Print Assumptions C04_defer_propagation_disabled_reassembly_partial.

(* ERROR CLAUSE ("When errors do propagate, the assembled data is that non-propagating reference with some
   subtrees replaced by null and some whole deferred fragments withheld, each withheld one being reported as
   completed with errors").  For ANY request - field errors, propagation, failed execution groups included:
   [raw] = all execution group values of the incremental run, [jn] = the data of the same request on the
   base executor with error propagation disabled (dexecute_np, = @experimental_disableErrorPropagation).
   Whatever sub-multiset L of the values is applied, in whatever order the merge oracle accepts, the result m
   is jn with (expl)
     - subtrees replaced by null only where an error of the initial result or of an APPLIED value is reported
       at or below that position (PErr), and
     - object keys missing only if they belong to an execution group at that position that FAILED or was
       not applied (PWh); lists keep their length, nothing else differs;
   and every error of the reference (esn) is reported at the same path - by the initial result or an applied
   value - or its position is not delivered in m (hidden: a null or a withheld key on the way).
   _partial: @stream / asynchronous schedules are outside the model, and that the delivered values can always
   be merged (reassemble <> None) is assumed here (checked on every run by harness/cdefer.py). *)
Theorem C04_defer_error_clause_partial : forall s d vars root j0 es0 cs0 raw rv jn esn csn pln rvn,
  dexecute_raw s d vars root = DResp j0 es0 cs0 raw rv ->
  dexecute_np s d vars root = DResp jn esn csn pln rvn ->
  forall L m, SubPerm (map core L) (map core raw) -> reassemble j0 L = Some m ->
    expl (PErr es0 raw (map core L)) (PWh raw (map core L)) m jn /\
    (forall e, In e esn ->
       PErr es0 raw (map core L) (fst e) \/ hidden (PWh raw (map core L)) (fst e) m).
Proof.
  intros s d vars root j0 es0 cs0 raw rv jn esn csn pln rvn HD HN L m Hsp Hr.
  destruct (err_clause_fuel _ _ _ _ _ _ _ _ _ _ _ _ _ _ _ HD HN) as [Hany Hacc].
  rewrite reassemble_apply_pls, apply_pls_core in Hr. split; [exact (Hany _ _ Hsp Hr)|exact (Hacc _ _ Hsp Hr)].
Qed.
Print Assumptions C04_defer_error_clause_partial.

(* ... instantiated with what is delivered: the incremental response is [raw] filtered by the delivery rule
   (a value is withheld iff it has data and every delivery group it belongs to has a failed group on its
   chain), so a missing key belongs to an execution group that failed or was withheld by that rule *)
Theorem C04_defer_delivered_error_clause_partial : forall s d vars root j0 es0 cs0 raw rv jn esn csn pln rvn,
  dexecute_raw s d vars root = DResp j0 es0 cs0 raw rv ->
  dexecute_np s d vars root = DResp jn esn csn pln rvn ->
  dexecute s d vars root = DResp j0 es0 cs0 (deliver raw) rv /\
  (forall p, In p raw -> ~ In (core p) (map core (deliver raw)) -> delivered_pl (failed_keys raw) p = false) /\
  (forall m, reassemble j0 (deliver raw) = Some m ->
     expl (PErr es0 raw (map core (deliver raw))) (PWh raw (map core (deliver raw))) m jn /\
     (forall e, In e esn ->
        PErr es0 raw (map core (deliver raw)) (fst e) \/ hidden (PWh raw (map core (deliver raw))) (fst e) m)).
Proof.
  intros s d vars root j0 es0 cs0 raw rv jn esn csn pln rvn HD HN. split; [|split].
  - unfold dexecute. rewrite dexecute_fuel_raw. unfold dexecute_raw in HD. rewrite HD. reflexivity.
  - intros p Hp Hn. destruct (delivered_pl (failed_keys raw) p) eqn:E; [|reflexivity]. exfalso. apply Hn.
    apply in_map. unfold deliver. apply filter_In. split; assumption.
  - intros m Hr. eapply C04_defer_error_clause_partial; try eassumption.
    apply SubPerm_map. apply filter_SubPerm.
Qed.
Print Assumptions C04_defer_delivered_error_clause_partial.

(* `if: false` (literal or by variable): when every @defer is disabled the incremental executor answers
   like the specification's algorithm on the erased document and delivers no payload - errors included *)
Theorem C04_defer_disabled_contributes_no_payload : forall s d vars root j es cs pl rv,
  (forall cv, coerce_variable_values s (d_vars d) vars = Some cv -> inactive_doc cv d = true) ->
  dexecute s d vars root = DResp j es cs pl rv ->
  pl = [] /\ rv = false /\ execute s (erase_defer d) vars root = Resp j es cs.
Proof.
  intros s d vars root j es cs pl rv Hin H. unfold dexecute in H.
  destruct (inactive_fuel (default_fuel s d root) s d vars root Hin) as [He Hr].
  rewrite He in H. pose proof (Hr _ _ _ _ _ H) as ->.
  destruct (C04_defer_base_executor_is_erased_spec _ _ _ _ _ _ _ _ H) as [-> Hx]. auto.
Qed.
Print Assumptions C04_defer_disabled_contributes_no_payload.

(* the sibling executor is Spec.execute on documents without @defer *)
Theorem C04_defer_free_is_spec : forall s d vars root j es cs pl rv,
  defer_free d = true ->
  dexecute s d vars root = DResp j es cs pl rv ->
  pl = [] /\ execute s d vars root = Resp j es cs.
Proof.
  intros s d vars root j es cs pl rv Hf H.
  destruct (C04_defer_disabled_contributes_no_payload s d vars root j es cs pl rv) as [H1 [_ H3]];
    [intros cv _; apply defer_free_inactive; exact Hf|exact H|].
  rewrite (defer_free_erase d Hf) in H3. auto.
Qed.
Print Assumptions C04_defer_free_is_spec.

(* a response key with a non-deferred occurrence is executed by the initial executor *)
Theorem C04_defer_nondeferred_occurrence_is_initial : forall dg k fs,
  In (k, fs) dg -> (exists f, In f fs /\ df_du f = []) -> In (k, fs) (fst (plan_of dg [])).
Proof. exact nondeferred_in_initial. Qed.
Print Assumptions C04_defer_nondeferred_occurrence_is_initial.

(* ... and is therefore a key of the initial data of its position (unless the runtime type does not define it) *)
Theorem C04_defer_nondeferred_occurrence_in_initial_data :
  forall s frags cv f tn obj srcs b dp kvs es cs pls rv st k fs,
  dexec_sels s frags cv true (S f) tn obj srcs [] b dp = Some ((CVal (JObj kvs), es, cs), pls, rv) ->
  dcollect_srcs s frags cv tn b dp f srcs cs0 = Some st ->
  In (k, fs) (c_g st) -> (exists x, In x fs /\ df_du x = []) ->
  dexec_field s frags cv true f tn obj [] (b + N.of_nat (length (c_new st))) dp fs <> Some XSkip ->
  In k (map fst kvs).
Proof. exact nondeferred_in_initial_data. Qed.
Print Assumptions C04_defer_nondeferred_occurrence_in_initial_data.

(* the plan of one position (initial part + deferred grouped field sets) is a partition of the collected
   response keys with their complete field lists *)
Theorem C04_defer_plan_partition : forall dg parent,
  Permutation (fst (plan_of dg parent) ++ flat_map snd (snd (plan_of dg parent))) dg.
Proof. exact plan_of_partition. Qed.
Print Assumptions C04_defer_plan_partition.

(* [reassemble] is the merge oracle of Incr/Merge.v fed with one subsequent payload per execution group *)
Theorem C04_defer_merge_oracle : forall j0 pls,
  Merge.reassemble j0 [] (merge_payloads 0 pls) = apply_pls j0 pls.
Proof. exact reassemble_apply_pls. Qed.
Print Assumptions C04_defer_merge_oracle.

(* ---- the hypotheses are satisfiable: nested, labelled defers inside an object ---- *)
Module Ex.
  Definition sa : str := [97].
  Definition sx : str := [120].
  Definition sy : str := [121].
  Definition so : str := [111].
  Definition Obj : str := [79].
  Definition Q : str := [81].
  Definition sch : schema := mkSchema
    [(Q, TObject [mkField sa (TNamed Obj) []] []);
     (Obj, TObject [mkField sx (TNamed n_Int) []; mkField sy (TNamed n_Int) []; mkField so (TNamed Obj) []] [])]
    Q None.
  Definition fld n sub := SField None n [] [] sub.
  Definition dfr lab sub := SInline None [(n_defer, [(n_label, VStr lab)])] sub.
  Definition inner := DObj Obj [(sx, DLeaf (LInt 3)); (sy, DLeaf (LInt 4))].
  Definition root := DObj Q [(sa, DObj Obj [(sx, DLeaf (LInt 1)); (sy, DLeaf (LInt 2)); (so, inner)])].
  (* { a { x ... @defer(label: "A") { y o { x ... @defer(label: "B") { y } } } } } *)
  Definition doc := mkDoc OpQuery []
    [fld sa [fld sx []; dfr [65] [fld sy []; fld so [fld sx []; dfr [66] [fld sy []]]]]] [].
End Ex.

Example C04_defer_example :
  (exists j cs, dexecute_plain Ex.sch Ex.doc [] Ex.root = DResp j [] cs [] false) /\
  (exists j0 cs0 p1 p2, dexecute Ex.sch Ex.doc [] Ex.root = DResp j0 [] cs0 [p1; p2] false /\
     j0 = JObj [(Ex.sa, JObj [(Ex.sx, JInt 1)])] /\
     pl_path p1 = [PKey Ex.sa] /\ pl_path p2 = [PKey Ex.sa; PKey Ex.so] /\
     reassemble j0 [p1; p2]
     = Some (JObj [(Ex.sa, JObj [(Ex.sx, JInt 1); (Ex.sy, JInt 2);
                                 (Ex.so, JObj [(Ex.sx, JInt 3); (Ex.sy, JInt 4)])])]) /\
     (* the nested payload before the payload that creates its position: rejected by the oracle *)
     reassemble j0 [p2; p1] = None).
Proof.
  split.
  - eexists _, _. vm_compute. reflexivity.
  - eexists _, _, _, _. split; [vm_compute; reflexivity|]. repeat split; vm_compute; reflexivity.
Qed.

(* ---- the error clause is not vacuous: a deferred fragment with a null in a non-null field fails; its key
   is withheld, the reference (propagation disabled) has it as null with the error ---- *)
Module ExErr.
  Definition sch : schema := mkSchema
    [(Ex.Q, TObject [mkField Ex.sa (TNamed Ex.Obj) []] []);
     (Ex.Obj, TObject [mkField Ex.sx (TNamed n_Int) []; mkField Ex.sy (TNonNull (TNamed n_Int)) []] [])]
    Ex.Q None.
  Definition root := DObj Ex.Q [(Ex.sa, DObj Ex.Obj [(Ex.sx, DLeaf (LInt 1)); (Ex.sy, DNull)])].
  (* { a { x ... @defer(label: "A") { y } } } *)
  Definition doc := mkDoc OpQuery [] [Ex.fld Ex.sa [Ex.fld Ex.sx []; Ex.dfr [65] [Ex.fld Ex.sy []]]] [].
End ExErr.

Example C04_defer_error_example :
  exists p,
    dexecute_raw ExErr.sch ExErr.doc [] ExErr.root
      = DResp (JObj [(Ex.sa, JObj [(Ex.sx, JInt 1)])]) [] [([PKey Ex.sa], Ex.sa, []); ([PKey Ex.sa; PKey Ex.sx], Ex.sx, [])] [p] false /\
    pl_path p = [PKey Ex.sa] /\ pl_data p = None /\ pl_keys p = [Ex.sy] /\
    pl_errs p = [([PKey Ex.sy], CauseNull)] /\
    deliver [p] = [p] /\
    reassemble (JObj [(Ex.sa, JObj [(Ex.sx, JInt 1)])]) [p] = Some (JObj [(Ex.sa, JObj [(Ex.sx, JInt 1)])]) /\
    exists cs, dexecute_np ExErr.sch ExErr.doc [] ExErr.root
      = DResp (JObj [(Ex.sa, JObj [(Ex.sx, JInt 1); (Ex.sy, JNull)])]) [([PKey Ex.sa; PKey Ex.sy], CauseNull)] cs [] false.
Proof.
  eexists. split; [vm_compute; reflexivity|]. repeat split; try (vm_compute; reflexivity).
  eexists. vm_compute. reflexivity.
Qed.
