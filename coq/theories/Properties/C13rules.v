(* C13 (rules) - from the validation rules to the typing judgment of the execution model.
   Theorems only; models Valid/Rules13.v (ten schema-dependent rules over the parser AST and
   Exec/Schema.v), Valid/ToExec.v (translation to the execution model's document),
   Valid/StaticTyping.v; proofs Valid/StaticTypingProps.v, RulesLit.v, RulesTyping.v,
   RulesTypingDoc.v, RulesTypingGlue.v, RulesTypingProps.v.

   Chain:  rules silent on d  ==>  to_exec d statically typed (every field against the static
   parent type TypeInfo computes)  ==>  set_typed, the runtime-type-directed judgment of
   Exec/Typing.v  ==>  (Exec/Soundness.v) execution over conforming data has no errors.

   Hypotheses on the schema (all evaluated on every generated schema by harness/crules13.py):
     schema_ok          (C13's own: defaults coerce, OneOf fields nullable ...)
     schema_impl_ok     objects implement their interfaces: same argument types and defaults,
                        extra arguments optional, field types with included runtime types;
                        argument names distinct; field types are leaf or composite types
     schema_inputs_ok   argument / input field types are input types without `!!`
     dirs_std           @skip / @include are the specified ones in the directive table.
   Hypotheses on the document: it is in the execution model's fragment with exactly ONE
   operation (to_exec fl None d = Some x); the operation's root type exists and is an object type
   (no validation rule checks that).
   The merging clause of the judgment - fields that can be merged under one response key have one
   field name - is OverlappingFieldsCanBeMerged's subject (C14).  It is discharged from C14's own
   specification function: Valid/ToOverlap.v translates schema and operation into the input of
   Valid/Overlap.v (names interned injectively, occurrences numbered), and
   [overlap_verdict s rt x = VNo] (Overlap.spec_verdict, the function C14 proves equal to the
   memoized algorithm and checks against the real rule) implies [names_agree]
   (C13_rules_merging, proofs Valid/OverlapCollect.v, OverlapGood.v, OverlapBridge.v).  C14's
   weaker demand on fields with different OBJECT parents is no gap: fields reachable at one
   runtime type never have different object parents.  The derivation needs a finite expansion
   through fragment spreads, which NoFragmentCycles + UniqueFragmentNames give
   (C13_rules_expansion_finite, Valid/RulesAcyclic.v).
   Hence C13_rules_typed / C13_rules_sound have no hypothesis left that a validation rule of the
   model is responsible for.  What remains, and is stated: ONE operation (to_exec fl None), its
   root type exists and is an object type, and the conclusion is the declarative judgment
   set_typed (what C13_sound consumes), not the boolean checker well_typed.  That the root type
   EXISTS is KnownOperationTypesRule's subject (Valid/RulesDir.v rule 23, tied to the
   implementation by harness/crulesdir.py): C13_rules_root; that it is an object type is schema
   validity.  The older
   C13_rules_typed_partial / _sound_partial (merging as the abstract hypothesis names_agree, no
   use of NoFragmentCycles) are kept.  KnownTypeNames / FragmentsOnCompositeTypes on fragments,
   PossibleFragmentSpreads and KnownFragmentNames are NOT needed for type safety: a fragment that
   cannot apply, or an unknown one, contributes no field at run time. *)
From Coq Require Import Relations.
From GV Require Import Base.Prelude Lang.Lexer Lang.Ast Lang.Parser
  Exec.Value Exec.Schema Exec.Spec Exec.SpecProps Exec.Typing Exec.Soundness
  Valid.StaticTyping Valid.StaticTypingProps Valid.Rules Valid.RulesProps Valid.Rules13 Valid.ToExec
  Valid.RulesLit Valid.RulesTyping Valid.RulesTypingDoc Valid.RulesTypingGlue Valid.RulesTypingProps
  Valid.ToOverlap Valid.ToOverlapProps Valid.OverlapBridge Valid.RulesDir Valid.RulesAcyclic.
From GV Require Valid.Overlap.

(* ---- the ten rules never run out of fuel ---- *)
Theorem C13_rules_fuel : forall vs d, exists es, rules13 vs d = Some es.
Proof. exact rules13_total. Qed.
Print Assumptions C13_rules_fuel.

(* ---- literals: ValuesOfCorrectType silent on a value, its variables accepted
   (VariablesInAllowedPosition incl. the OneOf rule, NoUndefinedVariables), no input field twice
   (UniqueInputFieldNames)  =>  the literal clause of the judgment, for every input type ---- *)
Theorem C13_rules_literal : forall s fl vdefs,
  schema_inputs_ok s = true -> schema_ok s = true ->
  forall n p t ld oneof v,
  is_input_type s t = true -> ty_wf t = true -> val_of fl n = Some v ->
  vlit s n p t = [] ->
  errs_of (val_evs s n p (Some t) ld oneof) = [] ->
  (forall u, In u (uses_of (val_evs s n p (Some t) ld oneof)) -> usage_ok vdefs u) ->
  lit_ok s vdefs [] v t ld = true.
Proof. intros s fl vdefs H1 H2 n. exact (lit_sound s fl vdefs H1 H2 n). Qed.
Print Assumptions C13_rules_literal.

(* ---- arguments: known, required ones provided, values accepted ---- *)
Theorem C13_rules_arguments : forall vs fl vdefs,
  schema_inputs_ok (vs_s vs) = true -> schema_ok (vs_s vs) = true ->
  forall p i args defs kvs,
  nodup_names (map a_name defs) = true -> arg_types_ok (vs_s vs) defs = true ->
  all_some (map (arg_kv fl) args) = Some kvs ->
  errs_of (arg_evs (vs_s vs) p i args (Some defs) true) = [] ->
  errs_of (req_evs p defs args) = [] ->
  (forall u, In u (uses_of (arg_evs (vs_s vs) p i args (Some defs) true)) -> usage_ok vdefs u) ->
  args_ok (vs_s vs) vdefs [] defs kvs = true.
Proof. exact args_sound. Qed.
Print Assumptions C13_rules_arguments.

(* ---- selection sets: fields exist on the parent type, leaf / composite agreement, arguments,
   directive conditions, type conditions composite - for the selection set and everything below ---- *)
Theorem C13_rules_selections : forall vs fl vdefs,
  schema_inputs_ok (vs_s vs) = true -> schema_ok (vs_s vs) = true -> dirs_std vs = true ->
  schema_impl_ok (vs_s vs) = true ->
  forall fr ss p ct fd pt sels,
  sels_of fl ss = Some sels -> composite_of (vs_s vs) ct = Some pt ->
  errs_of (sel_evs vs fr p ss ct fd) = [] -> uses_ok vdefs (sel_evs vs fr p ss ct fd) ->
  forallb (sstatic (vs_s vs) vdefs pt) sels = true /\ forallb (sel_dirs_ok (vs_s vs) vdefs []) sels = true.
Proof.
  intros vs fl vdefs H1 H2 H3 H4 fr ss. exact (proj1 (selections_sound vs fl vdefs H1 H2 H3 H4 fr ss)).
Qed.
Print Assumptions C13_rules_selections.

(* ---- the document: all rules silent => every clause of the judgment except merging ---- *)
Theorem C13_rules_static : forall vs fl d x rt,
  schema_inputs_ok (vs_s vs) = true -> schema_ok (vs_s vs) = true -> dirs_std vs = true ->
  schema_impl_ok (vs_s vs) = true ->
  to_exec fl None d = Some x ->
  rules13 vs d = Some [] ->
  rule_unique_fragment_names d = [] -> rule_no_unused_fragments d = Some [] ->
  rule_unique_variable_names d = [] ->
  root_type (vs_s vs) (d_kind x) = Some rt -> is_object (vs_s vs) rt = true ->
  vars_ok (vs_s vs) (d_vars x) = true /\
  sstatic_list (vs_s vs) (d_vars x) rt (d_sels x) = true /\
  forallb (sel_dirs_ok (vs_s vs) (d_vars x) []) (d_sels x) = true /\
  frags_static (vs_s vs) (d_vars x) (d_frags x) = true /\
  forallb (fun f => forallb (sel_dirs_ok (vs_s vs) (d_vars x) []) (fr_sels f)) (d_frags x) = true.
Proof.
  intros vs fl d x rt H1 H2 H3 H4 Hx Hr Hf Hu Hv Hroot Hobj.
  destruct (rules13_silent vs d Hr) as (Ha & Hb & Hc).
  exact (rules_static vs fl H1 H2 H3 H4 d x Hx Ha Hb Hc Hf Hu Hv rt Hroot Hobj).
Qed.
Print Assumptions C13_rules_static.

(* ---- static typing => the runtime-type-directed judgment (on the execution model alone) ---- *)
Theorem C13_rules_static_to_runtime : forall s vdefs frags,
  frags_static s vdefs frags = true -> schema_impl_ok s = true ->
  forall rt sels, names_agree s frags rt sels -> is_object s rt = true ->
  sstatic_list s vdefs rt sels = true ->
  set_typed s frags vdefs [] rt sels.
Proof.
  intros s vdefs frags Hf Hi rt sels Hn Ho Hs.
  apply (static_typed s vdefs frags Hf Hi rt sels Hn Ho).
  apply (lstatic_of_list s vdefs rt rt); [|exact Hs].
  unfold runtime_of_b. rewrite Ho, str_eqb_refl. reflexivity.
Qed.
Print Assumptions C13_rules_static_to_runtime.

Theorem C13_rules_merging_is_part_of_judgment : forall s frags vdefs nulls rt sels,
  set_typed s frags vdefs nulls rt sels -> names_agree s frags rt sels.
Proof. exact set_typed_names_agree. Qed.
Print Assumptions C13_rules_merging_is_part_of_judgment.

(* ---- rules silent (+ merging) => the judgment ---- *)
Theorem C13_rules_typed_partial : forall vs fl d x rt,
  schema_inputs_ok (vs_s vs) = true -> schema_ok (vs_s vs) = true -> dirs_std vs = true ->
  schema_impl_ok (vs_s vs) = true ->
  to_exec fl None d = Some x ->
  rules13 vs d = Some [] ->
  rule_unique_fragment_names d = [] -> rule_no_unused_fragments d = Some [] ->
  rule_unique_variable_names d = [] ->
  root_type (vs_s vs) (d_kind x) = Some rt -> is_object (vs_s vs) rt = true ->
  names_agree (vs_s vs) (d_frags x) rt (d_sels x) ->
  set_typed (vs_s vs) (d_frags x) (d_vars x) [] rt (d_sels x).
Proof.
  intros vs fl d x rt H1 H2 H3 H4 Hx Hr Hf Hu Hv Hroot Hobj Hna.
  destruct (rules13_silent vs d Hr) as (Ha & Hb & Hc).
  exact (rules_set_typed vs fl H1 H2 H3 H4 d x Hx Ha Hb Hc Hf Hu Hv rt Hroot Hobj Hna).
Qed.
Print Assumptions C13_rules_typed_partial.

(* ---- corollary with C13's soundness: rules accept => execution of conforming data has no errors ---- *)
Theorem C13_rules_sound_partial : forall vs fl d x rt fuel vars root cv j es cs,
  schema_inputs_ok (vs_s vs) = true -> schema_ok (vs_s vs) = true -> dirs_std vs = true ->
  schema_impl_ok (vs_s vs) = true ->
  to_exec fl None d = Some x ->
  rules13 vs d = Some [] ->
  rule_unique_fragment_names d = [] -> rule_no_unused_fragments d = Some [] ->
  rule_unique_variable_names d = [] ->
  root_type (vs_s vs) (d_kind x) = Some rt -> is_object (vs_s vs) rt = true ->
  names_agree (vs_s vs) (d_frags x) rt (d_sels x) ->
  coerce_variable_values (vs_s vs) (d_vars x) vars = Some cv -> nulls_of (d_vars x) cv = [] ->
  conforms_root (vs_s vs) rt root = true ->
  execute_fuel fuel (vs_s vs) x vars root = Resp j es cs ->
  es = [] /\ j <> JNull.
Proof.
  intros vs fl d x rt fuel vars root cv j es cs H1 H2 H3 H4 Hx Hr Hf Hu Hv Hroot Hobj Hna Hcv Hn Hconf Hex.
  destruct (rules13_silent vs d Hr) as (Ha & Hb & Hc).
  exact (rules_sound vs fl H1 H2 H3 H4 d x Hx Ha Hb Hc Hf Hu Hv rt Hroot Hobj fuel vars root cv j es cs Hna Hcv Hn Hconf Hex).
Qed.
Print Assumptions C13_rules_sound_partial.

(* ---- the merging clause from C14's specification function ---- *)
(* occurrence numbers of the translated document are pairwise distinct (C14's adequacy needs it) *)
Theorem C13_rules_overlap_ids : forall rt x, Overlap.nodupb (Overlap.doc_fids (o_doc rt x)) = true.
Proof. exact o_doc_ids. Qed.
Print Assumptions C13_rules_overlap_ids.

(* the interning of names into C14's numbers is injective and respects the two reserved names *)
Theorem C13_rules_overlap_intern : forall a b, intern a = intern b -> a = b.
Proof. exact intern_inj. Qed.
Print Assumptions C13_rules_overlap_intern.

(* NoFragmentCycles (with unique fragment names) => the operation expands finitely *)
Theorem C13_rules_expansion_finite : forall fl d x,
  to_exec fl None d = Some x ->
  rule_unique_fragment_names d = [] -> rule_no_fragment_cycles d = Some [] ->
  exists n, hb (d_frags x) n (d_sels x).
Proof. exact rules_expansion_finite. Qed.
Print Assumptions C13_rules_expansion_finite.

(* on the execution model alone: statically typed + finite expansion + no conflict found by
   FieldsInSetCanMerge => the merging clause of the judgment *)
Theorem C13_rules_merging : forall s x rt n,
  schema_impl_ok s = true ->
  frags_static s (d_vars x) (d_frags x) = true -> sstatic_list s (d_vars x) rt (d_sels x) = true ->
  is_object s rt = true ->
  overlap_verdict s rt x = Overlap.VNo ->
  hb (d_frags x) n (d_sels x) ->
  names_agree s (d_frags x) rt (d_sels x).
Proof.
  intros s x rt n Hi Hf Hs Ho Hv Hh.
  exact (overlap_names_agree s x rt n Hi Hf Hs Ho Hv (o_doc_ids rt x) Hh).
Qed.
Print Assumptions C13_rules_merging.

(* ---- all modelled rules silent => the judgment ---- *)
Theorem C13_rules_typed : forall vs fl d x rt,
  schema_inputs_ok (vs_s vs) = true -> schema_ok (vs_s vs) = true -> dirs_std vs = true ->
  schema_impl_ok (vs_s vs) = true ->
  to_exec fl None d = Some x ->
  rules13 vs d = Some [] ->
  rule_unique_fragment_names d = [] -> rule_no_unused_fragments d = Some [] ->
  rule_no_fragment_cycles d = Some [] -> rule_unique_variable_names d = [] ->
  root_type (vs_s vs) (d_kind x) = Some rt -> is_object (vs_s vs) rt = true ->
  overlap_verdict (vs_s vs) rt x = Overlap.VNo ->
  set_typed (vs_s vs) (d_frags x) (d_vars x) [] rt (d_sels x).
Proof.
  intros vs fl d x rt H1 H2 H3 H4 Hx Hr Hf Hu Hc Hv Hroot Hobj Hov.
  destruct (C13_rules_static vs fl d x rt H1 H2 H3 H4 Hx Hr Hf Hu Hv Hroot Hobj) as (_ & Hs & _ & Hfs & _).
  destruct (rules_expansion_finite fl d x Hx Hf Hc) as [n Hn].
  apply (C13_rules_typed_partial vs fl d x rt H1 H2 H3 H4 Hx Hr Hf Hu Hv Hroot Hobj).
  exact (C13_rules_merging (vs_s vs) x rt n H4 Hfs Hs Hobj Hov Hn).
Qed.
Print Assumptions C13_rules_typed.

(* ---- all modelled rules silent => execution of conforming data has no errors ---- *)
Theorem C13_rules_sound : forall vs fl d x rt fuel vars root cv j es cs,
  schema_inputs_ok (vs_s vs) = true -> schema_ok (vs_s vs) = true -> dirs_std vs = true ->
  schema_impl_ok (vs_s vs) = true ->
  to_exec fl None d = Some x ->
  rules13 vs d = Some [] ->
  rule_unique_fragment_names d = [] -> rule_no_unused_fragments d = Some [] ->
  rule_no_fragment_cycles d = Some [] -> rule_unique_variable_names d = [] ->
  root_type (vs_s vs) (d_kind x) = Some rt -> is_object (vs_s vs) rt = true ->
  overlap_verdict (vs_s vs) rt x = Overlap.VNo ->
  coerce_variable_values (vs_s vs) (d_vars x) vars = Some cv -> nulls_of (d_vars x) cv = [] ->
  conforms_root (vs_s vs) rt root = true ->
  execute_fuel fuel (vs_s vs) x vars root = Resp j es cs ->
  es = [] /\ j <> JNull.
Proof.
  intros vs fl d x rt fuel vars root cv j es cs H1 H2 H3 H4 Hx Hr Hf Hu Hc Hv Hroot Hobj Hov Hcv Hn Hconf Hex.
  destruct (C13_rules_static vs fl d x rt H1 H2 H3 H4 Hx Hr Hf Hu Hv Hroot Hobj) as (_ & Hs & _ & Hfs & _).
  destruct (rules_expansion_finite fl d x Hx Hf Hc) as [n Hh].
  apply (C13_rules_sound_partial vs fl d x rt fuel vars root cv j es cs H1 H2 H3 H4 Hx Hr Hf Hu Hv Hroot Hobj);
    try assumption.
  exact (C13_rules_merging (vs_s vs) x rt n H4 Hfs Hs Hobj Hov Hh).
Qed.
Print Assumptions C13_rules_sound.

(* ---- the root type exists when KnownOperationTypes is silent ---- *)
Theorem C13_rules_root : forall fl d x ds s,
  to_exec fl None d = Some x -> roots_agree ds s -> rule_known_operation_types ds d = [] ->
  exists rt, root_type s (d_kind x) = Some rt.
Proof. exact rules_root_exists. Qed.
Print Assumptions C13_rules_root.

(* ---- non-vacuity ----
   type Q { f(x: Int! = 7): Int  n: I }   interface I { a: Int }   type T implements I { a: Int }
   query ($v: Int = 1) { f(x: $v) n { a ... on T { a } ...F } }  fragment F on I { a @skip(if: false) } *)
Definition nQ : Value.str := [81].   Definition nI : Value.str := [73].   Definition nT : Value.str := [84].
Definition nf : Value.str := [102].  Definition nn : Value.str := [110].  Definition na : Value.str := [97].
Definition nx : Value.str := [120].
Definition ex_s : schema :=
  mkSchema [(nQ, TObject [mkField nf (TNamed n_Int) [mkArg nx (TNonNull (TNamed n_Int)) (Some (VInt 7))];
                          mkField nn (TNamed nI) []] []);
            (nI, TInterface [mkField na (TNamed n_Int) []]);
            (nT, TObject [mkField na (TNamed n_Int) []] [nI])] nQ None.
Definition ex_vs : vschema := VS ex_s [(n_skip, [if_def]); (n_include, [if_def])].
Definition ex_text : list N :=
  [113;117;101;114;121;32;40;36;118;58;32;73;110;116;32;61;32;49;41;32;123;32;102;40;120;58;32;36;118;41;32;110;
   32;123;32;97;32;46;46;46;32;111;110;32;84;32;123;32;97;32;125;32;46;46;46;70;32;125;32;125;32;102;114;97;103;
   109;101;110;116;32;70;32;111;110;32;73;32;123;32;97;32;64;115;107;105;112;40;105;102;58;32;102;97;108;115;
   101;41;32;125].
Definition no_fl (_ : list N) : Z * N := (0%Z, 1).

Definition ex_d : node :=
  match parse_text EDocument (mkOpts None false false) ex_text with Ok (d, _) => d | _ => Nd KDocument [] end.
Definition ex_x : document :=
  match to_exec no_fl None ex_d with Some x => x | None => mkDoc OpQuery [] [] [] end.

Example C13_rules_example :
  schema_inputs_ok ex_s = true /\ schema_ok ex_s = true /\ dirs_std ex_vs = true /\ schema_impl_ok ex_s = true /\
  to_exec no_fl None ex_d = Some ex_x /\
  rules13 ex_vs ex_d = Some [] /\ rule_unique_fragment_names ex_d = [] /\
  rule_no_unused_fragments ex_d = Some [] /\ rule_unique_variable_names ex_d = [] /\
  root_type ex_s (d_kind ex_x) = Some nQ /\ is_object ex_s nQ = true /\
  well_typed ex_s ex_x = true /\ length (d_frags ex_x) = 1%nat /\
  rule_no_fragment_cycles ex_d = Some [] /\ overlap_verdict ex_s nQ ex_x = Overlap.VNo /\
  names_agree ex_s (d_frags ex_x) nQ (d_sels ex_x).
Proof.
  repeat (split; [vm_compute; reflexivity|]).
  apply (set_typed_names_agree ex_s (d_frags ex_x) (d_vars ex_x) []).
  apply (check_set_sound ex_s (d_frags ex_x) (d_vars ex_x) [] 20). vm_compute. reflexivity.
Qed.

(* a mutant the rules reject: the field g that Q does not have *)
Example C13_rules_example_rejected :
  match parse_text EDocument (mkOpts None false false)
          (firstn 22 ex_text ++ [103] ++ skipn 23 ex_text) with      (* query ($v: Int = 1) { g(x: $v) ... *)
  | Ok (d, _) => exists e es, rules13 ex_vs d = Some (e :: es) /\ ve_rule e = R_FIELDS
  | _ => False
  end.
Proof. vm_compute. eexists _, _. split; reflexivity. Qed.

(* a mutant only the merging function rejects: under n (interface I) the response key a is the field
   a for every runtime type and additionally __typename for T.
   { n { a ... on T { a: __typename } } } *)
Definition ex_merge_text : list N :=
  [123;32;110;32;123;32;97;32;46;46;46;32;111;110;32;84;32;123;32;97;58;32;95;95;116;121;112;101;110;97;109;101;
   32;125;32;125;32;125].

Example C13_rules_example_merge_rejected :
  match parse_text EDocument (mkOpts None false false) ex_merge_text with
  | Ok (d, _) =>
    match to_exec no_fl None d with
    | Some x => rules13 ex_vs d = Some [] /\ rule_no_fragment_cycles d = Some [] /\
                overlap_verdict ex_s nQ x = Overlap.VConflict /\ well_typed ex_s x = false
    | None => False
    end
  | _ => False
  end.
Proof. vm_compute. repeat split; reflexivity. Qed.
