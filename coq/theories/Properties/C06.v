(* C06 - stopping early never hangs or leaks.  Theorems only; proofs in Incr/ComputationProps.v and
   Incr/LifecycleProps.v.  The runtime part of the property (the event loop reaches quiescence,
   "promptly") is not provable in these machines and is decided by exploration (harness/c06.py). *)
From GV Require Import Base.Prelude Incr.Computation Incr.ComputationProps Incr.Lifecycle Incr.LifecycleProps.

(* ---- Computation: fn runs at most once on every trace of prime/result/abort/settle events *)
Theorem C06_computation_once : forall c es, (runs (crun c cinit es) <= 1)%nat.
Proof. exact runs_at_most_once. Qed.
Print Assumptions C06_computation_once.

(* abort of a settled computation changes nothing and returns None *)
Theorem C06_computation_abort_after_settle_noop : forall c s, settled s -> do_abort c s = (s, RNone).
Proof. exact abort_after_settle_noop. Qed.
Print Assumptions C06_computation_abort_after_settle_noop.

(* abort of an unprimed computation prevents the run, whatever is called afterwards *)
Theorem C06_computation_abort_unprimed_prevents_run : forall c es, runs (crun c cinit (EAbort :: es)) = 0%nat.
Proof. exact abort_unprimed_prevents_run. Qed.
Print Assumptions C06_computation_abort_unprimed_prevents_run.

(* the abort callback (sub-executor abort: closes what the task started) is called at most once on
   every trace, and exactly once when a running computation is aborted *)
Theorem C06_computation_on_abort_at_most_once : forall c es, (on_abort_calls (crun c cinit es) <= 1)%nat.
Proof. exact on_abort_at_most_once. Qed.
Print Assumptions C06_computation_on_abort_at_most_once.

Theorem C06_computation_abort_running_calls_once : forall c es s,
  has_on_abort c = true -> status s = CPending -> cinv s -> on_abort_calls (crun c s (EAbort :: es)) = 1%nat.
Proof. exact abort_running_calls_once. Qed.
Print Assumptions C06_computation_abort_running_calls_once.

(* WorkQueue.cancel / Executor.abort: every listed task (listed once or several times) ends aborted,
   fn is not run by the walk, a running task's callback is called exactly once, a task that was not
   running gets no callback *)
Theorem C06_cancel_reaches_everything : forall c ids tbl j d,
  (j < length tbl)%nat -> In j ids -> cinv (nth j tbl d) ->
  let s := nth j tbl d in let s' := nth j (cancel_tasks c ids tbl) d in
  caborted s' /\ runs s' = runs s /\
  (status s = CPending -> has_on_abort c = true -> on_abort_calls s' = 1%nat) /\
  (status s <> CPending -> on_abort_calls s' = on_abort_calls s).
Proof. exact cancel_reaches_all. Qed.
Print Assumptions C06_cancel_reaches_everything.

(* ---- StreamItemQueue: control flags, bounded entries queue (producer blocked in push / parked on its
   final entry, _settle_parked), failure of the source incl. a cancellation turned into an exception,
   abort at any point.  Steps between two QTick events happen without the loop running.
   _partial: the machine has no event for a producer that swallows its cancellation and goes on pushing or
   finishing (it only has the cancellation turned into an exception), and does not model the content of the
   entries (batching); the runtime statement of the property is decided by exploration.
   The abort callback (closing the source) runs at most once on every trace. *)
Theorem C06_source_closed_at_most_once_partial : forall c es, (q_cb_calls (qrun c (qinit c) es) <= 1)%nat.
Proof. exact cb_at_most_once. Qed.
Print Assumptions C06_source_closed_at_most_once_partial.

(* after any trace, once the loop has settled: exactly one close if the trace contains an abort or
   failure that took effect before the source finished; none if the source finished by itself *)
Theorem C06_source_closed_exactly_once_partial : forall c es,
  let s := settle c (qrun c (qinit c) es) in
  (stopped_early s = true -> q_cb_calls s = if q_has_cb c then 1%nat else 0%nat) /\
  (q_finished s = true -> q_cb_calls s = 0%nat).
Proof. exact cb_exactly_once. Qed.
Print Assumptions C06_source_closed_exactly_once_partial.

(* model-level quiescence: after ANY trace, abort() followed by one settling of the loop leaves no producer
   task (running, blocked or parked), no pending item future and no cleanup continuation *)
Theorem C06_no_pending_after_quiescence_partial : forall c es,
  let s := qrun c (qinit c) es in quiescent (settle c (fst (do_qabort c s))) = true.
Proof. exact abort_then_settle_quiescent. Qed.
Print Assumptions C06_no_pending_after_quiescence_partial.

(* ---- work-finished hook: on every interleaving of background work with the single call of
   run_async_work_finished_hook the hook fires at most once; once no background work is left and the
   waiting task has been resumed it has fired exactly once *)
Theorem C06_hook_once_after_work : forall es,
  count_runhook es = 1%nat ->
  (h_fired (hrun hinit es) <= 1)%nat /\
  (h_bg (hrun hinit es) = 0%nat -> h_fired (hrun (hrun hinit es) (wakes 1)) = 1%nat).
Proof. exact hook_once. Qed.
Print Assumptions C06_hook_once_after_work.

(* ... and a firing step is only possible in a state with no tracked background work outstanding *)
Theorem C06_hook_only_when_idle : forall s e,
  h_fired (hstep s e) <> h_fired s -> h_bg s = 0%nat /\ h_fired (hstep s e) = S (h_fired s).
Proof. exact hook_fires_only_idle. Qed.
Print Assumptions C06_hook_only_when_idle.

(* every way an operation ends calls run_async_work_finished_hook exactly once *)
Theorem C06_hook_called_once_per_path : forall p, count_runhook (path_calls p) = 1%nat.
Proof. exact path_calls_once. Qed.
Print Assumptions C06_hook_called_once_per_path.

(* ---- subscription: map_async_iterable closes the source once *)
Theorem C06_aclosing_at_most_once : forall es, (a_close_calls (arun ainit es) <= 1)%nat.
Proof. exact aclosing_once. Qed.
Print Assumptions C06_aclosing_at_most_once.

Theorem C06_aclosing_exactly_once : forall es,
  entered es = true -> a_gen (arun ainit es) = GClosed -> a_close_calls (arun ainit es) = 1%nat.
Proof. exact aclosing_exactly_once. Qed.
Print Assumptions C06_aclosing_exactly_once.

(* non-vacuity: a running computation aborted twice, then asked again *)
Example C06_example :
  let c := {| has_on_abort := true; on_abort_async := true |} in
  let s := crun c cinit [EPrime FnAwaitable; EAbort; ECallback; EAbort; EResult FnValue] in
  (status s, runs s, on_abort_calls s) = (CRejected, 1%nat, 1%nat) /\ cinv s.
Proof. split; [reflexivity|]. apply cinv_run, cinv_init. Qed.
