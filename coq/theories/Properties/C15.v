(* C15 - input coercion and input validation agree on values, literals and variables.
   Theorems only; proofs live in Types/CoerceProps.v.  Model: Types/Coerce.v (+ Types/Scalars.v).

   Quantification: every theorem holds for all oracles pf (float(s) of a literal's text),
   fs (str(x) of a float), md (the interpreter's int<->str digit limit), all schemas s of the
   modelled grammar (built-in scalars, enums, recursive / OneOf input objects, literal defaults),
   all input types t over s, all Python values v / literals l / variable maps, and all fuel.
   Fuel: [settled r] = the run neither ran out of fuel nor raised (Crash = TypeError of an invalid
   default value or of a type that is no input type); validate = Some errs = not out of fuel.
   Hypotheses:
     wf_schema s  field names unique, no default on a OneOf field, no enum member whose internal
                  value is None/Undefined (what validate_schema / build_schema guarantee)
     wf_val v     dict keys unique (a Python dict)
     lit_wf l     no object literal names a field twice (UniqueInputFieldNamesRule)
     top_ok       the literal is not itself a variable without a value in a nullable position
                  (get_argument_values / coerce_variable_values handle that case before calling). *)
From GV Require Import Base.Prelude Types.Scalars Types.ScalarsProps Types.Coerce Types.CoerceProps.

(* coerce_input_value fails  <->  validate_input_value reports at least one error *)
Theorem C15_value_agree : forall pf md s fuel t v p errs,
  wf_schema s -> wf_val v ->
  settled (coerce_val pf md s fuel t v) ->
  validate_val md s fuel t v p = Some errs ->
  (coerce_val pf md s fuel t v = Invalid <-> errs <> []).
Proof. intros pf md s fuel t v p errs W. exact (value_agree pf md s W fuel t v p errs). Qed.
Print Assumptions C15_value_agree.

(* coerce_input_literal fails  <->  validate_input_literal (with the same variable values) reports *)
Theorem C15_literal_agree : forall pf s fuel vars t l p errs,
  wf_schema s -> lit_wf l -> top_ok vars t l = true ->
  settled (coerce_lit pf s fuel vars t l) ->
  validate_lit pf s fuel false vars t l p = Some errs ->
  (coerce_lit pf s fuel vars t l = Invalid <-> errs <> []).
Proof.
  intros pf s fuel vars t l p errs W Wl T.
  exact (lit_agree_gen pf s W fuel false vars t l p errs Wl (fun E => False_ind _ (Bool.diff_false_true E)) (fun _ => T)).
Qed.
Print Assumptions C15_literal_agree.

(* the hypothesis top_ok is needed: a variable without a value in a nullable position coerces to
   "no value" (the implementation's overloaded Undefined) while validation reports nothing *)
Example C15_literal_agree_needs_top_ok :
  let s := [([73], DScalar SInt)] in
  coerce_lit (fun _ => None) s 3 [] (TNamed [73]) (LVar [97]) = Invalid
  /\ validate_lit (fun _ => None) s 3 false [] (TNamed [73]) (LVar [97]) [] = Some [].
Proof. split; reflexivity. Qed.

(* ... and so is lit_wf: a OneOf object literal naming its field twice coerces (last one wins)
   but is rejected by validation *)
Example C15_literal_agree_needs_unique_fields :
  let s := [([73], DScalar SInt); ([79], DInput true [mkField [97] (TNamed [73]) None])] in
  let l := LObject [([97], LInt [49]); ([97], LInt [50])] in
  coerce_lit (fun _ => None) s 5 [] (TNamed [79]) l = Good (PDict [([97], PInt 2%Z)])
  /\ validate_lit (fun _ => None) s 5 false [] (TNamed [79]) l [] = Some [[]].
Proof. split; reflexivity. Qed.

(* the static validator used by ValuesOfCorrectTypeRule accepts a constant literal exactly when
   its coercion (without variables) succeeds.
   _partial: the rule itself = this validator called by a visitor at every outermost value node with
   the input type TypeInfo computes; that traversal is not modelled here (it is tied by the
   correspondence run through validate(schema, doc, [ValuesOfCorrectTypeRule])). *)
Theorem C15_rule_agrees_partial : forall pf s fuel t l p errs,
  wf_schema s -> lit_wf l -> lit_const l ->
  settled (coerce_lit pf s fuel [] t l) ->
  validate_lit pf s fuel true [] t l p = Some errs ->
  (coerce_lit pf s fuel [] t l = Invalid <-> errs <> []).
Proof.
  intros pf s fuel t l p errs W Wl C.
  exact (lit_agree_gen pf s W fuel true [] t l p errs Wl (fun _ => C)
           (fun E => False_ind _ (Bool.diff_true_false E))).
Qed.
Print Assumptions C15_rule_agrees_partial.

(* a coerced value conforms to its type: 32-bit Int, finite Float, text, bool, a declared enum
   value, exactly the declared fields with defaults applied and required fields present, exactly
   one non-null entry for OneOf, no null under non-null (see [conforms]) *)
Theorem C15_result_conforms : forall pf md s fuel t,
  wf_schema s ->
  (forall v r, coerce_val pf md s fuel t v = Good r -> conforms s t r)
  /\ (forall l r, coerce_lit pf s fuel [] t l = Good r -> conforms s t r).
Proof.
  intros pf md s fuel t W. split.
  - intros v r. exact (conforms_val pf md s W fuel t v r).
  - intros l r. exact (conforms_lit pf s W fuel t l r).
Qed.
Print Assumptions C15_result_conforms.

(* what "conforms" gives for the cases named in the property *)
Theorem C15_conforms_meaning : forall s,
  (forall t v, conforms s (TNonNull t) v -> is_null v = false)
  /\ (forall n v, conforms s (TNamed n) v -> assoc n s = Some (DScalar SInt) ->
        v = PNone \/ exists z, v = PInt z /\ (- 2 ^ 31 <= z <= 2 ^ 31 - 1)%Z)
  /\ (forall n v, conforms s (TNamed n) v -> assoc n s = Some (DScalar SFloat) ->
        v = PNone \/ exists neg m e, v = PFloat (FFin neg m e)).
Proof.
  intro s. split; [|split].
  - intros t v H. inversion H; subst; [discriminate | assumption].
  - intros n v H A. inversion H; subst; try congruence; [left; reflexivity|].
    rewrite A in *. match goal with X : Some _ = Some _ |- _ => inversion X; subst end.
    right. assumption.
  - intros n v H A. inversion H; subst; try congruence; [left; reflexivity|].
    rewrite A in *. match goal with X : Some _ = Some _ |- _ => inversion X; subst end.
    right. assumption.
Qed.
Print Assumptions C15_conforms_meaning.

(* converting an accepted value to a literal and coercing the literal gives the same result.
   The two oracles must be inverse on what is emitted (CPython: float(repr(x)) == x and
   float(str(z)) == float(z) for representable z), and the digit limit off or >= 309 (CPython: >= 640) *)
Theorem C15_literal_roundtrip : forall pf fs md s fuel t v r,
  wf_schema s ->
  (md = 0 \/ 309 <= md) ->
  (forall z str, int_representable z = true -> int_str md z = Some str -> pf str = Some (float_of_int z)) ->
  (forall x, f_finite x = true -> pf (fs x) = Some x) ->
  coerce_val pf md s fuel t v = Good r ->
  exists l, to_literal fs md s fuel t v = Good l /\ coerce_lit pf s fuel [] t l = Good r.
Proof.
  intros pf fs md s fuel t v r W M H1 H2 H.
  destruct (roundtrip pf fs md s W M H1 H2 fuel t v r H) as [l [A [B _]]]. exists l. auto.
Qed.
Print Assumptions C15_literal_roundtrip.

(* get_variable_values: either errors (at least one) or a value for every variable that is provided
   or has a default, and that value conforms to the variable's type *)
Theorem C15_variables_errors_or_value : forall pf md s fuel defs inputs,
  wf_schema s -> (forall k v, In (k, v) inputs -> wf_val v) ->
  match coerce_variables pf md s fuel defs inputs with
  | VValues cs =>
      forall d, In d defs ->
        (is_undef (dget (v_name d) inputs) = false \/ v_default d <> None) ->
        exists y, In (v_name d, y) cs /\ conforms s (v_type d) y
  | VErrors es => es <> []
  | VCrash | VFuel => True
  end.
Proof.
  intros pf md s fuel defs inputs W Wi. unfold coerce_variables.
  destruct (coerce_vars_loop pf md s fuel defs inputs) as [[[|e es] cs]| | |] eqn:L; try exact I.
  - intros d. exact (vars_loop_complete pf md s W fuel inputs Wi defs cs L d).
  - discriminate.
Qed.
Print Assumptions C15_variables_errors_or_value.

(* fuel: once a run has settled (not out of fuel, no TypeError), every larger fuel gives the same
   answer - the statements above do not depend on the fuel chosen, only on it being enough *)
Theorem C15_fuel_stable : forall pf md s f k,
  (forall t v, settled (coerce_val pf md s f t v) -> coerce_val pf md s (k + f) t v = coerce_val pf md s f t v)
  /\ (forall vars t l, settled (coerce_lit pf s f vars t l) ->
        coerce_lit pf s (k + f) vars t l = coerce_lit pf s f vars t l)
  /\ (forall t v p e, validate_val md s f t v p = Some e -> validate_val md s (k + f) t v p = Some e)
  /\ (forall st vars t l p e, validate_lit pf s f st vars t l p = Some e ->
        validate_lit pf s (k + f) st vars t l p = Some e).
Proof. exact fuel_stable. Qed.
Print Assumptions C15_fuel_stable.

(* ------------------------------------------------------------------ non-vacuity *)
Section Examples.
  (* enum E { A }  input I { a: Int = 3, e: [E!], r: I, d: String! }  input O @oneOf { x: Int, y: I } *)
  Let tInt := TNamed [73].
  Let s : schema :=
    [([73], DScalar SInt); ([83], DScalar SString);
     ([69], DEnum [([65], PStr [65])]);
     ([74], DInput false [mkField [97] tInt (Some (LInt [51]));
                          mkField [101] (TList (TNonNull (TNamed [69]))) None;
                          mkField [114] (TNamed [74]) None;
                          mkField [100] (TNonNull (TNamed [83])) None]);
     ([79], DInput true [mkField [120] tInt None; mkField [121] (TNamed [74]) None])].
  Let pf : text -> option pyfloat := fun _ => None.

  Example C15_ex_wf : wf_schema s.
  Proof.
    intros n d H. unfold s in H. cbn [assoc] in H.
    repeat match type of H with
           | (if ?c then _ else _) = _ => destruct c
           end; inversion H; subst; cbn [wf_tdef map f_name f_default].
    - exact I.
    - exact I.
    - intros n0 v [E|[]]. inversion E. reflexivity.
    - split; [|discriminate]. repeat constructor; cbn; intuition discriminate.
    - split; [repeat constructor; cbn; intuition discriminate|].
      intros _ fd [<-|[<-|[]]]; reflexivity.
  Qed.

  (* defaults applied, nested object, list of enum *)
  Example C15_ex_coerce :
    coerce_val pf 0 s 9 (TNamed [74])
      (PDict [([100], PStr [120]); ([101], PStr [65]); ([114], PDict [([100], PStr []); ([97], PNone)])])
    = Good (PDict [([97], PInt 3%Z); ([101], PList [PStr [65]]);
                   ([114], PDict [([97], PNone); ([100], PStr [])]); ([100], PStr [120])]).
  Proof. vm_compute. reflexivity. Qed.

  (* three errors with their paths: a wrong enum item, a missing required field, an unknown field *)
  Example C15_ex_validate :
    validate_val 0 s 9 (TNamed [74])
      (PDict [([101], PList [PStr [65]; PStr [66]]); ([122], PInt 1%Z)]) []
    = Some [[PName [101]; PIdx 1]; []; []].
  Proof. vm_compute. reflexivity. Qed.

  Example C15_ex_oneof :
    coerce_val pf 0 s 9 (TNamed [79]) (PDict [([120], PInt 1%Z)]) = Good (PDict [([120], PInt 1%Z)])
    /\ coerce_val pf 0 s 9 (TNamed [79]) (PDict [([120], PInt 1%Z); ([121], PNone)]) = Invalid
    /\ coerce_val pf 0 s 9 (TNamed [79]) (PDict [([120], PNone)]) = Invalid
    /\ validate_val 0 s 9 (TNamed [79]) (PDict [([120], PNone)]) [] = Some [[PName [120]]].
  Proof. vm_compute. repeat split. Qed.

  (* a variable inside an object literal, and the missing-variable-in-a-list rule *)
  Example C15_ex_literal :
    coerce_lit pf s 9 [([118], PInt 7%Z)] (TNamed [74])
      (LObject [([100], LString [113]); ([97], LVar [118])])
    = Good (PDict [([97], PInt 7%Z); ([100], PStr [113])])
    /\ coerce_lit pf s 9 [] (TList tInt) (LList [LInt [49]; LVar [118]]) = Good (PList [PInt 1%Z; PNone])
    /\ coerce_lit pf s 9 [] (TList (TNonNull tInt)) (LList [LVar [118]]) = Invalid.
  Proof. vm_compute. repeat split. Qed.

  Example C15_ex_variables :
    coerce_variables pf 0 s 9
      [mkVar [97] tInt (Some (LInt [53])); mkVar [98] (TNonNull tInt) None; mkVar [99] tInt None]
      [([98], PInt 2%Z)]
    = VValues [([97], PInt 5%Z); ([98], PInt 2%Z)]
    /\ coerce_variables pf 0 s 9 [mkVar [98] (TNonNull tInt) None] [([98], PStr [49])]
       = VErrors [([98], [])].
  Proof. vm_compute. repeat split. Qed.
End Examples.
