(* C15 - placeholder while the model is being tied *)
From GV Require Import Base.Prelude Types.Scalars Types.Coerce.
Example C15_example : is_nonnull (TNonNull (TNamed [])) = true.
Proof. reflexivity. Qed.
