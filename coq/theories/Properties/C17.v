(* C17 - a schema survives printing to SDL and rebuilding.  Theorems only; proofs in
   SchemaOps/BuildProps.v, DiffProps.v. *)
From GV Require Import Base.Prelude SchemaOps.Schema SchemaOps.Build SchemaOps.Sdl SchemaOps.BuildProps
  SchemaOps.Diff SchemaOps.DiffProps.

(* Building the printed document gives back the schema itself: same types of every kind with all
   members, arguments, default literals, descriptions, deprecations, directives with locations and
   repeatability, interfaces, union members, enum values, OneOf / specifiedBy markers, root
   operation types, all in the same order - for every schema with a query root.
   Partial: the document is the SDL *definition list* (the schema-definition omission rule, the
   ordering of directives and types and the by-convention root lookup are what is proved); the
   text level (string / block-string printing and lexing of descriptions, number and string
   literals) is property C08's round trip and is covered here by the direct laws. *)
Theorem C17_build_sdl_of_partial : forall s, s_query s <> None -> build (sdl_of s) = Some s.
Proof. exact build_sdl_of. Qed.
Print Assumptions C17_build_sdl_of_partial.

(* Printing the rebuilt schema gives the identical document, for EVERY schema (also without roots). *)
Theorem C17_print_idempotent : forall s, exists s', build (sdl_of s) = Some s' /\ sdl_of s' = sdl_of s.
Proof. exact print_idempotent. Qed.
Print Assumptions C17_print_idempotent.

(* The two schemas have no differences (C19's change detector; names unique per container). *)
Theorem C17_no_changes_partial : forall leb s, s_query s <> None -> wf s ->
  exists s', build (sdl_of s) = Some s' /\ diff leb s s' = [] /\ diff leb s' s = [].
Proof.
  intros leb s Hq Hwf. exists s. split; [apply build_sdl_of; exact Hq|].
  split; apply diff_refl; exact Hwf.
Qed.
Print Assumptions C17_no_changes_partial.

(* The schema definition is omitted exactly when it can be re-derived: no description and every
   root is the type carrying the conventional name (and no other type carries such a name). *)
Theorem C17_schema_block_rule : forall s, s_query s <> None ->
  (omit_schema_def s = true <->
   s_desc s = None /\ s_query s = conv nQuery (s_types s) None
   /\ s_mutation s = conv nMutation (s_types s) None /\ s_subscription s = conv nSubscription (s_types s) None).
Proof.
  intros s Hq. unfold omit_schema_def, default_roots, no_roots. split.
  - intro H. apply orb_true_iff in H. destruct H as [H|H].
    + destruct (s_query s); [discriminate|contradiction].
    + apply andb_true_iff in H. destruct H as [Hd H]. apply andb_true_iff in H. destruct H as [H Hs].
      apply andb_true_iff in H. destruct H as [Hqq Hm].
      repeat split; try (symmetry; apply is_conv_conv; assumption).
      destruct (s_desc s); [discriminate|reflexivity].
  - intros (Hd & H1 & H2 & H3). apply orb_true_iff. right. rewrite Hd. cbn.
    unfold is_conv, conv in *. rewrite H1, H2, H3.
    destruct (has_type nQuery (s_types s)), (has_type nMutation (s_types s)), (has_type nSubscription (s_types s));
      cbn; rewrite ?DiffProps.text_eqb_refl; reflexivity.
Qed.
Print Assumptions C17_schema_block_rule.

(* non-vacuity: a schema with non-conventional root names keeps its schema definition, one with
   conventional names drops it; both rebuild to themselves *)
Definition ex_t (n : name) : typedef :=
  mkType 1 n (Some [100]) [mkField [102] [mkArg [97] (TNamed [73; 110; 116]) (Some (VLeaf 1 [49])) None None]
                              (TNonNull (TNamed [73; 110; 116])) None (Some [120])] [] [] [] [] None false.
Definition ex_conv : schema := mkSchema None (Some nQuery) None None [ex_t nQuery] [].
Definition ex_named : schema := mkSchema None (Some [82]) (Some nQuery) None [ex_t [82]; ex_t nQuery] [].

Example C17_example :
  length (sdl_of ex_conv) = 1%nat /\ length (sdl_of ex_named) = 3%nat
  /\ build (sdl_of ex_conv) = Some ex_conv /\ build (sdl_of ex_named) = Some ex_named.
Proof. repeat split; reflexivity. Qed.
