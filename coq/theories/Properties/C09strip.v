(* C09 (strip part) - strip_ignored_characters.  Theorems only; proofs in Lang/StripProps.v. *)
From GV Require Import Base.Prelude Lang.Lexer Lang.LexerProps Lang.BlockString Lang.Strip Lang.StripProps.

Theorem C09_strip_rejects_stay : forall s q, lex s = SyntaxErr q -> strip s = SyntaxErr q.
Proof. exact strip_rejects_stay. Qed.
Print Assumptions C09_strip_rejects_stay.
