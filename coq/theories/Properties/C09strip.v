(* C09 (strip part) - strip_ignored_characters.  Theorems only; proofs in Lang/StripProps.v.
   Model: Lang/Strip.v (strip, written from utilities/strip_ignored_characters.py) over the lexer model
   Lang/Lexer.v and the block-string printer Lang/BlockString.v.  No hypothesis on the source text:
   every list of code points, lone surrogates and surrogate pairs included. *)
From GV Require Import Base.Prelude Lang.Lexer Lang.LexerProps Lang.BlockString Lang.BlockStringProps
  Lang.StripBlock Lang.Strip Lang.StripProps Lang.Ast Lang.Parser Lang.ParserProps Properties.ParserThms.

(* (a) every source that lexes is stripped to a text that lexes, and the significant tokens of the
   two agree in kind and value (their spans differ) *)
Theorem C09_strip_preserves_tokens : forall s ts, lex s = Ok ts ->
  exists out ts2, strip s = Ok out /\ lex out = Ok ts2 /\
    map tok_sig (significant ts2) = map tok_sig (significant ts).
Proof. exact strip_preserves_tokens. Qed.
Print Assumptions C09_strip_preserves_tokens.

(* (b) stripping is idempotent *)
Theorem C09_strip_idempotent : forall s out, strip s = Ok out -> strip out = Ok out.
Proof. exact strip_idempotent. Qed.
Print Assumptions C09_strip_idempotent.

(* (c) a source that does not lex is rejected by strip, at the position where the lexer rejects it;
   and strip rejects nothing else *)
Theorem C09_strip_rejects_stay : forall s q, lex s = SyntaxErr q -> strip s = SyntaxErr q.
Proof. exact strip_rejects_stay. Qed.
Print Assumptions C09_strip_rejects_stay.

Theorem C09_strip_accepts : forall s ts, lex s = Ok ts -> exists out, strip s = Ok out.
Proof. exact strip_accepts. Qed.
Print Assumptions C09_strip_accepts.

(* (d) the stripped text is tight (Strip.tight): its tokens - none a comment - are laid out as
   sep lexeme sep lexeme ... lexeme with no ignored character before the first or after the last
   lexeme, each sep is exactly the separator of the rule (one SPACE between two non-punctuators or
   between a non-punctuator and a spread, nothing otherwise), and the lexeme of every token other than
   a quoted string or a block string contains no ignored character *)
Theorem C09_strip_tight : forall s out, strip s = Ok out ->
  exists ts2, lex out = Ok ts2 /\ tight false 0 out ts2.
Proof. exact strip_tight. Qed.
Print Assumptions C09_strip_tight.

(* consequence of (a) with the parser's layout independence: the stripped text parses to the same
   tree with the same token count, or both are rejected (all entry points that use this lexer) *)
Theorem C09_strip_preserves_parse : forall e o s out, e <> ECoordinate -> strip s = Ok out ->
  (forall d c, parse_text e o s = Ok (d, c) <-> parse_text e o out = Ok (d, c)) /\
  ((exists p, parse_text e o s = SyntaxErr p) <-> (exists p, parse_text e o out = SyntaxErr p)).
Proof.
  intros e o s out He H. destruct (strip_ok_lex s out H) as (ts & Hl).
  destruct (strip_preserves_tokens s ts Hl) as (out1 & ts2 & H1 & H2 & H3).
  assert (out1 = out) by congruence. subst out1.
  exact (parser_text_layout_independent e o s out ts ts2 He Hl H2 (eq_sym H3)).
Qed.
Print Assumptions C09_strip_preserves_parse.

(* non-vacuity: comment, commas, CR LF, BOM, a block string that is re-printed, a number before a
   spread *)
Example C09_strip_example :
  let s := [65279; 123; 97; 35; 120; 13; 10; 44; 34; 34; 34; 10; 32; 32; 120; 10; 34; 34; 34; 32; 49; 32; 46; 46; 46; 98; 125] in
  strip s = Ok [123; 97; 32; 34; 34; 34; 120; 34; 34; 34; 32; 49; 32; 46; 46; 46; 98; 125] /\
  match lex s with Ok ts => length (significant ts) = 8%nat | _ => False end.
Proof.
  cbv zeta. split; vm_compute; reflexivity.
Qed.

(* a block string with a surrogate pair (U+D83D U+DE00 as two code points) and indentation *)
Example C09_strip_example_pair :
  strip [34; 34; 34; 10; 32; 32; 55357; 56832; 10; 32; 32; 32; 97; 10; 34; 34; 34; 35]
  = Ok [34; 34; 34; 10; 55357; 56832; 10; 32; 97; 34; 34; 34].
Proof. vm_compute. reflexivity. Qed.
