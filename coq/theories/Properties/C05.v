(* C05 - the incremental payload stream obeys the delivery protocol.  Theorems only; proofs in
   Incr/StreamQueueProps.v, Incr/WorkQueueProps.v, Incr/ExploreProps.v. *)
From GV Require Import Base.Prelude Incr.Protocol Incr.WorkQueue Incr.Publisher Incr.StreamQueue
  Incr.Explore Incr.Universe Incr.StreamQueueProps Incr.WorkQueueProps Incr.ExploreProps.

(* Stream queue order law: for every sequence of pushes, future settlements and consumer pulls, the
   entries delivered in batches, then the terminal entry (end / failure, if the iteration ended),
   then what the queue still holds, are exactly the pushed entries in push order: each pushed
   entry is delivered at most once, in order, without gaps, and a failure or the end is reported
   only after everything pushed before it has been delivered. *)
Theorem C05_stream_order : forall ops s outs,
  sq_run sq_init ops = (s, outs) ->
  concat (map out_entries outs) ++ q_term s ++ sq_contents s = pushed_of ops.
Proof. exact sq_order. Qed.
Print Assumptions C05_stream_order.

(* Termination exactly once: over every sequence of graph-event batches (enabled or not), the
   termination event is emitted at most once, as the very last event, exactly when a batch leaves
   no root group and no root stream; afterwards the queue is stopped (and emits nothing more). *)
Theorem C05_terminates_exactly_once : forall E bs s s' outs,
  stopped s = false -> run_batches E s bs = (s', outs) ->
  (stopped s' = true /\ roots s' = [] /\ rstreams s' = [] /\
     exists pre, concat outs = pre ++ [Termination] /\ no_term pre = true)
  \/ (stopped s' = false /\ no_term (concat outs) = true).
Proof. exact terminates_exactly_once. Qed.
Print Assumptions C05_terminates_exactly_once.

Theorem C05_nothing_after_termination : forall E bs s,
  stopped s = true -> run_batches E s bs = (s, []).
Proof. exact run_batches_stopped. Qed.
Print Assumptions C05_nothing_after_termination.

(* Bounded exhaustive exploration (partial: an explicit finite family of work graphs, one graph
   event per batch).  For every graph of [universe] and EVERY enabled sequence of at most 5 graph
   events over the graph's event alphabet: the graph invariant [inv] holds in the reached state
   (pending counter = number of unfinished tasks, child lists consistent with parents, roots
   non-empty with all their tasks running and no enclosing group left in the graph, ...), the
   queue is never stuck, a failed task's group subtrees are removed entirely, the payload stream
   of publish (run ...) is a valid prefix of the protocol - and a complete valid stream once the
   queue has stopped -, and values/announcements respect the creation order. *)
Theorem C05_protocol_and_graph_inv_bounded_partial : forall E w, In (E, w) universe ->
  forall evs, (length evs <= 5)%nat -> Forall (fun e => In e (candidates E)) evs ->
  enabled_path E (snd (init E w)) evs = true -> check_path E w evs = true.
Proof. exact bounded_universe. Qed.
Print Assumptions C05_protocol_and_graph_inv_bounded_partial.

(* The same for all enabled sequences of up to 10 events on the graphs of the family with a small
   state space; for these graphs this covers every run to termination. *)
Theorem C05_protocol_and_graph_inv_small_graphs_partial : forall E w,
  In (E, w) universe -> small_graph (E, w) = true ->
  forall evs, (length evs <= 10)%nat -> Forall (fun e => In e (candidates E)) evs ->
  enabled_path E (snd (init E w)) evs = true -> check_path E w evs = true.
Proof. exact bounded_small. Qed.
Print Assumptions C05_protocol_and_graph_inv_small_graphs_partial.

(* what [check_path] says, as separate facts *)
Theorem C05_check_path_meaning : forall E w evs,
  check_path E w evs = true ->
  let '(ig, is_, s0) := init E w in
  let '(s1, outs) := run_batches E s0 (single evs) in
  let ps := publish E ig is_ outs in
  inv E s1 = true
  /\ (stopped s1 = true \/ exists e, In e (candidates E) /\ en_single E s1 e = true)
  /\ last_step_ok E s0 evs = true
  /\ valid_prefix (e_parent E) ps = true
  /\ (stopped s1 = true -> valid (e_parent E) ps = true)
  /\ creation_ok E (concat outs) = true.
Proof. exact check_path_facts. Qed.
Print Assumptions C05_check_path_meaning.

(* non-vacuity *)
Example C05_example_valid :
  valid [] [mkPayload [mkPend 0 [1] 1 false 0] [] [] true; mkPayload [] [IDefer 0] [0] false] = true.
Proof. reflexivity. Qed.

Example C05_example_invalid_unannounced_completion :
  valid [] [mkPayload [mkPend 0 [1] 1 false 0] [] [] true; mkPayload [] [] [0; 2] false] = false.
Proof. reflexivity. Qed.

(* a parent/child graph run to termination: the hypotheses of the bounded theorems are satisfiable *)
Example C05_example_run :
  let E := mkEnv [(2, 1)] [(1, [1]); (2, [2])] [(1, mkWork [2] [2] [])] [] in
  let w := mkWork [1] [1] [] in
  enabled_path E (snd (init E w)) [TaskOk 1; TaskOk 2] = true
  /\ valid (e_parent E) (respond E w [[TaskOk 1]; [TaskOk 2]]) = true.
Proof. split; reflexivity. Qed.
