(* C05 - the incremental payload stream obeys the delivery protocol.  Theorems only. *)
From GV Require Import Base.Prelude Incr.Protocol Incr.WorkQueue Incr.Publisher Incr.StreamQueue.

Example C05_example_valid :
  valid [] [mkPayload [mkPend 0 [1] 1 false 0] [] [] true; mkPayload [] [IDefer 0] [0] false] = true.
Proof. reflexivity. Qed.
