(* C05 - the incremental payload stream obeys the delivery protocol.  Theorems only; proofs in
   Incr/StreamQueueProps.v, Incr/WorkQueueProps.v, Incr/ExploreProps.v. *)
From GV Require Import Base.Prelude Incr.Protocol Incr.WorkQueue Incr.Publisher Incr.StreamQueue
  Incr.NodeProtocol Incr.Explore Incr.Flat Incr.Universe Incr.StreamQueueProps Incr.WorkQueueProps
  Incr.ProtocolProps Incr.PublisherProps Incr.FlatProps Incr.ExploreProps.

(* What the executable validator means (general): in a payload stream accepted as a prefix every id
   is announced at most once (ids are never reused) and completed at most once, only after having
   been announced; in a stream accepted as complete every announced id is completed exactly once and
   hasNext is true on every payload except the last. *)
Theorem C05_validator_ids : forall parents ps,
  valid_prefix parents ps = true ->
  NoDup (announced_ids ps) /\ NoDup (completed_ids ps) /\
  (forall i, In i (completed_ids ps) -> In i (announced_ids ps)).
Proof. exact valid_prefix_ids. Qed.
Print Assumptions C05_validator_ids.

Theorem C05_validator_complete : forall parents ps,
  valid parents ps = true ->
  NoDup (announced_ids ps) /\ NoDup (completed_ids ps) /\
  (forall i, In i (announced_ids ps) <-> In i (completed_ids ps)) /\
  exists init last, ps = init ++ [last] /\ forallb pl_has_next init = true /\ pl_has_next last = false.
Proof. exact valid_complete. Qed.
Print Assumptions C05_validator_complete.

(* Stream queue order law: for every sequence of pushes, future settlements and consumer pulls, the
   entries delivered in batches, then the terminal entry (end / failure, if the iteration ended),
   then what the queue still holds, are exactly the pushed entries in push order: each pushed
   entry is delivered at most once, in order, without gaps, and a failure or the end is reported
   only after everything pushed before it has been delivered. *)
Theorem C05_stream_order : forall ops s outs,
  sq_run sq_init ops = (s, outs) ->
  concat (map out_entries outs) ++ q_term s ++ sq_contents s = pushed_of ops.
Proof. exact sq_order. Qed.
Print Assumptions C05_stream_order.

(* The same with back-pressure, for every capacity of the entries queue: a producer that cannot put
   (also its final end / failure marker) waits; nothing is lost, duplicated or reordered. *)
Theorem C05_stream_order_bounded : forall cap ops b outs (flags : list (bool * nat)),
  b_run (bsq_init cap) ops = (b, outs, flags) ->
  concat (map out_entries outs) ++ q_term (b_q b) ++ sq_contents (b_q b) ++ b_wait b = pushed_of ops.
Proof. exact bsq_order. Qed.
Print Assumptions C05_stream_order_bounded.

(* Termination exactly once: over every sequence of graph-event batches (enabled or not), the
   termination event is emitted at most once, as the very last event, exactly when a batch leaves
   no root group and no root stream; afterwards the queue is stopped (and emits nothing more). *)
Theorem C05_terminates_exactly_once : forall E bs s s' outs,
  stopped s = false -> run_batches E s bs = (s', outs) ->
  (stopped s' = true /\ roots s' = [] /\ rstreams s' = [] /\
     exists pre, concat outs = pre ++ [Termination] /\ no_term pre = true)
  \/ (stopped s' = false /\ no_term (concat outs) = true).
Proof. exact terminates_exactly_once. Qed.
Print Assumptions C05_terminates_exactly_once.

Theorem C05_nothing_after_termination : forall E bs s,
  stopped s = true -> run_batches E s bs = (s, []).
Proof. exact run_batches_stopped. Qed.
Print Assumptions C05_nothing_after_termination.

(* Publisher + protocol, general: EVERY trace of work-queue event batches that is well formed at node
   level (NodeProtocol.wq_wf: nodes announced once and before any event about them, values / success
   / failure only for announced unfinished nodes - the failure of a never announced group is
   ignored -, stream values continue at the next index, no group announced while an enclosing group
   is still open at the end of the batch, termination last with nothing open) is published, for any
   batching, as a payload stream accepted by the protocol validator: fresh ids never reused, every
   incremental entry targets a pending id of the right kind, every id completed once, nesting,
   contiguous stream items, hasNext true except on the last payload. *)
Theorem C05_publisher_protocol : forall E ig is_ bs,
  wq_wf E ig is_ bs = true -> valid_prefix (e_parent E) (publish E ig is_ bs) = true.
Proof. exact publish_valid_prefix. Qed.
Print Assumptions C05_publisher_protocol.

Theorem C05_publisher_protocol_complete : forall E ig is_ bs,
  wq_wf_closed E ig is_ bs = true -> valid (e_parent E) (publish E ig is_ bs) = true.
Proof. exact publish_valid_complete. Qed.
Print Assumptions C05_publisher_protocol_complete.

(* The core, by induction over ALL runs, for FLAT work (partial for that reason: groups with parents,
   tasks in any number of groups, root streams, but no nested work carried by task results or
   stream items).  For every flat work description whose initial graph state passes the executable
   check [init_ok] (true for every generated graph, evaluated by the harness), and EVERY enabled
   sequence of graph-event batches - any length, any batching -, the payload stream of
   publish (run ...) is accepted by the protocol validator as a prefix, and as a complete stream
   once the queue has stopped. *)
Theorem C05_protocol_flat_partial : forall E w bs,
  flatb E = true -> init_ok E w = true ->
  enabled_batches E (snd (init E w)) bs = true ->
  valid_prefix (e_parent E) (respond E w bs) = true /\
  (stopped (fst (run_batches E (snd (init E w)) bs)) = true -> valid (e_parent E) (respond E w bs) = true).
Proof. exact flat_protocol. Qed.
Print Assumptions C05_protocol_flat_partial.

(* The graph invariant [Phi] (unique group nodes; every group is listed as a child of at most one
   live node, only of its parent, and never once it has been announced; root groups = announced
   unfinished groups, all distinct, each with a node and with no enclosing group left in the graph;
   stream positions agree with the delivered items) is preserved by EVERY enabled graph event, the
   emitted work-queue events are accepted by the node-level protocol monitor, the group graph only
   shrinks, and no enclosing group of a newly announced group is left in the graph (a failed or
   finished group's subtree is removed or promoted entirely).  Flat work (partial). *)
Theorem C05_graph_inv_flat_partial : forall E s nst e,
  flatb E = true -> Phi E s nst -> enabled1 E s e = true ->
  let '(s', evs) := step E s e in
  exists nst', nsteps nst evs = Some nst' /\ Phi E s' nst' /\
    shrink (gnodes s) (gnodes s') /\ agok E s' (announced_groups evs).
Proof. intros E s nst e Hf. exact (step_ok E s nst e (flatb_tasks E Hf) (flatb_items E Hf)). Qed.
Print Assumptions C05_graph_inv_flat_partial.

(* Bounded exhaustive exploration (partial: an explicit finite family of work graphs, one graph
   event per batch).  For every graph of [universe] and EVERY enabled sequence of at most 5 graph
   events over the graph's event alphabet: the graph invariant [inv] holds in the reached state
   (pending counter = number of unfinished tasks, child lists consistent with parents, roots
   non-empty with all their tasks running and no enclosing group left in the graph, ...), the
   queue is never stuck, a failed task's group subtrees are removed entirely, the payload stream
   of publish (run ...) is a valid prefix of the protocol - and a complete valid stream once the
   queue has stopped -, values/announcements respect the creation order, and the work-queue event
   trace is well formed at node level (the hypothesis of C05_publisher_protocol). *)
Theorem C05_protocol_and_graph_inv_bounded_partial : forall E w, In (E, w) universe ->
  forall evs, (length evs <= 5)%nat -> Forall (fun e => In e (candidates E)) evs ->
  enabled_path E (snd (init E w)) evs = true -> check_path E w evs = true.
Proof. exact bounded_universe. Qed.
Print Assumptions C05_protocol_and_graph_inv_bounded_partial.

(* For the graphs of the family with a small state space (38 of 49) the exploration is complete:
   EVERY enabled event sequence, of any length (no enabled sequence is longer than 8 events; all
   runs to termination are covered). *)
Theorem C05_protocol_and_graph_inv_small_graphs_partial : forall E w,
  In (E, w) universe -> small_graph (E, w) = true ->
  forall evs, Forall (fun e => In e (candidates E)) evs ->
  enabled_path E (snd (init E w)) evs = true -> check_path E w evs = true.
Proof. exact small_graphs_all_sequences. Qed.
Print Assumptions C05_protocol_and_graph_inv_small_graphs_partial.

(* what [check_path] says, as separate facts *)
Theorem C05_check_path_meaning : forall E w evs,
  check_path E w evs = true ->
  let '(ig, is_, s0) := init E w in
  let '(s1, outs) := run_batches E s0 (single evs) in
  let ps := publish E ig is_ outs in
  inv E s1 = true
  /\ (stopped s1 = true \/ exists e, In e (candidates E) /\ en_single E s1 e = true)
  /\ last_step_ok E s0 evs = true
  /\ valid_prefix (e_parent E) ps = true
  /\ (stopped s1 = true -> valid (e_parent E) ps = true)
  /\ creation_ok E (concat outs) = true
  /\ wq_wf E ig is_ outs = true
  /\ wq_wf_closed E ig is_ outs = stopped s1.
Proof. exact check_path_facts. Qed.
Print Assumptions C05_check_path_meaning.

(* non-vacuity *)
Example C05_example_valid :
  valid [] [mkPayload [mkPend 0 [1] 1 false 0] [] [] true; mkPayload [] [IDefer 0] [0] false] = true.
Proof. reflexivity. Qed.

Example C05_example_invalid_unannounced_completion :
  valid [] [mkPayload [mkPend 0 [1] 1 false 0] [] [] true; mkPayload [] [] [0; 2] false] = false.
Proof. reflexivity. Qed.

(* a flat graph with a parent, a child and a shared task: the hypotheses of the flat theorems hold *)
Example C05_example_flat :
  let E := mkEnv [(2, 1)] [(1, [1; 2]); (2, [1]); (3, [2])] [] [(1, [no_work; no_work])] in
  let w := mkWork [1; 2] [1; 2; 3] [1] in
  flatb E = true /\ init_ok E w = true
  /\ enabled_batches E (snd (init E w)) [[TaskOk 2; Items 1 1 false]; [TaskOk 1]; [TaskOk 3; Items 1 1 true; StreamOk 1]] = true.
Proof. repeat split; reflexivity. Qed.

(* a parent/child graph run to termination: the hypotheses of the bounded theorems are satisfiable *)
Example C05_example_run :
  let E := mkEnv [(2, 1)] [(1, [1]); (2, [2])] [(1, mkWork [2] [2] [])] [] in
  let w := mkWork [1] [1] [] in
  enabled_path E (snd (init E w)) [TaskOk 1; TaskOk 2] = true
  /\ valid (e_parent E) (respond E w [[TaskOk 1]; [TaskOk 2]]) = true.
Proof. split; reflexivity. Qed.
