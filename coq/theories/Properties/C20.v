(* C20 - schema validation reports every type-system violation and never crashes.
   Theorems only; proofs live in Types/SchemaValidateProps.v.  The model is
   Types/SchemaValidate.validate : raw_schema -> list rule_kind over raw schemas whose references
   may resolve to a type of any kind.  The tie to /repo is the correspondence run of harness/c20.py;
   the "errors-only response" clause of the property is checked there, it has no Coq counterpart. *)
From GV Require Import Base.Prelude Types.SchemaValidate Types.SchemaValidateProps.

(* The place where validate.py reaches assert_leaf_type (pseudo kind KCrash) is never reached, and
   neither cycle detector runs out of fuel, for every raw schema - ill-kinded ones included. *)
Theorem C20_never_crashes : forall rs,
  ~ In KCrash (validate rs) /\ ~ In KOutOfFuel (validate rs).
Proof. exact validate_never_crashes. Qed.
Print Assumptions C20_never_crashes.

(* The guard that makes the previous theorem true: default-value validation started at a declared
   input type never meets a type that is neither wrapper, input object, scalar nor enum (nested input
   fields of a non-input type are skipped, their position error is reported by the field rule). *)
Theorem C20_default_validation_guarded : forall rs v t,
  is_input_tref rs t = true -> lit_check rs v t <> RAssert.
Proof. exact lit_check_no_assert. Qed.
Print Assumptions C20_default_validation_guarded.

(* The error list is empty exactly for the schemas satisfying the declarative rule set ValidSchema
   (stated in SchemaValidateProps.v without reference to the checker's control flow): root types
   (query present, all object types, pairwise distinct), reserved names, directive locations,
   input/output type positions, required-and-deprecated, valid defaults (inductive relation
   LitValid), interface implementation (only interfaces, not itself, once, transitive interfaces,
   every field present and covariant - inductive relation Subtype -, every argument present and
   invariant, extra arguments optional, deprecation), union members (objects, once), non-empty
   types, OneOf restrictions, and acyclicity of the non-null and of the default-value reference
   graphs (no node reaches itself). *)
Theorem C20_reflects : forall rs, validate rs = [] <-> ValidSchema rs.
Proof. exact validate_reflects. Qed.
Print Assumptions C20_reflects.

(* is_type_sub_type_of decides the covariance relation of the specification. *)
Theorem C20_covariance_spec : forall rs sub sup, subtype rs sub sup = true <-> Subtype rs sub sup.
Proof. exact subtype_reflect. Qed.
Print Assumptions C20_covariance_spec.

(* default-value validation accepts exactly the values valid for the type (null, list and
   single-item coercion, built-in scalar ranges, enum names, input objects: known fields only,
   required fields present, OneOf exactly one non-null field). *)
Theorem C20_valid_default_spec : forall rs v t, lit_check rs v t = RValid <-> LitValid rs v t.
Proof. exact lit_check_reflect. Qed.
Print Assumptions C20_valid_default_spec.

(* Both detectors terminate with fuel = number of named types, resp. number of input fields. *)
Theorem C20_cycle_detectors_terminate : forall rs,
  (exists st, dfs_all N N.eqb (nn_succ rs) (length (s_types rs)) (input_object_names rs) dstate0 = Some st)
  /\ (exists st, dfs_all fnode fnode_eqb (dv_succ rs) (length (all_input_fields rs)) (dv_roots rs) dstate0 = Some st).
Proof. intro rs. split; [exact (nn_detect_terminates rs) | exact (dv_detect_terminates rs)]. Qed.
Print Assumptions C20_cycle_detectors_terminate.

(* The edges of the non-null graph are exactly the fields of type T! whose T is an input object. *)
Theorem C20_nonnull_edge_spec : forall rs n m,
  In m (nn_succ rs n) <->
  exists f, In f (input_fields_of rs n) /\ iv_type f = TNonNull (TNamed m) /\ is_input_object rs m = true.
Proof. exact nn_succ_spec. Qed.
Print Assumptions C20_nonnull_edge_spec.

(* Every reported non-null cycle [top; ...; bottom] is a cycle of that graph:
   bottom -> ... -> top -> bottom. *)
Theorem C20_nonnull_cycles_sound : forall rs st,
  nn_detect rs = Some st -> Forall (is_cycle (nn_succ rs)) (d_reports st).
Proof. exact nn_detect_sound. Qed.
Print Assumptions C20_nonnull_cycles_sound.

(* If nothing is reported the graph has no cycle at all (every input object is a root). *)
Theorem C20_nonnull_cycles_complete : forall rs st,
  nn_detect rs = Some st -> d_reports st = [] -> forall n, ~ reach (nn_succ rs) n n.
Proof. exact nn_detect_complete. Qed.
Print Assumptions C20_nonnull_cycles_complete.

Theorem C20_default_cycles_sound : forall rs st,
  dv_detect rs = Some st -> Forall (is_cycle (dv_succ rs)) (d_reports st).
Proof. exact dv_detect_sound. Qed.
Print Assumptions C20_default_cycles_sound.

Theorem C20_default_cycles_complete : forall rs st,
  dv_detect rs = Some st -> d_reports st = [] -> forall nd, ~ reach (dv_succ rs) nd nd.
Proof. exact dv_detect_complete. Qed.
Print Assumptions C20_default_cycles_complete.

(* Per-kind completeness for the kinds involved in the reproduced defects and for the cycle rules:
   the kind is reported exactly when the rule is violated somewhere.  [all_invals] = every directive
   argument, field argument and input field of the schema; [all_fields] = every object/interface
   field. *)
Theorem C20_kind_not_input_type : forall rs,
  In KNotInputType (validate rs) <->
  exists iv, In iv (all_invals rs) /\ is_input_tref rs (iv_type iv) = false.
Proof. exact kind_not_input_type. Qed.
Print Assumptions C20_kind_not_input_type.

Theorem C20_kind_not_output_type : forall rs,
  In KNotOutputType (validate rs) <->
  exists f, In f (all_fields rs) /\ is_output_tref rs (f_type f) = false.
Proof. exact kind_not_output_type. Qed.
Print Assumptions C20_kind_not_output_type.

Theorem C20_kind_invalid_default : forall rs,
  In KInvalidDefault (validate rs) <->
  exists iv v, In iv (all_invals rs) /\ iv_default iv = DLit v
               /\ is_input_tref rs (iv_type iv) = true /\ lit_check rs v (iv_type iv) = RInvalid.
Proof. exact kind_invalid_default. Qed.
Print Assumptions C20_kind_invalid_default.

Theorem C20_kind_required_deprecated : forall rs,
  In KRequiredDeprecated (validate rs) <->
  exists iv, In iv (all_invals rs) /\ required iv = true /\ iv_dep iv = true.
Proof. exact kind_required_deprecated. Qed.
Print Assumptions C20_kind_required_deprecated.

Theorem C20_kind_nonnull_cycle : forall rs,
  In KNonNullCycle (validate rs) <-> exists n, reach (nn_succ rs) n n.
Proof. exact kind_nonnull_cycle. Qed.
Print Assumptions C20_kind_nonnull_cycle.

Theorem C20_kind_default_cycle : forall rs,
  In KDefaultCycle (validate rs) <-> exists nd, reach (dv_succ rs) nd nd.
Proof. exact kind_default_cycle. Qed.
Print Assumptions C20_kind_default_cycle.

(* A request against an invalid schema returns the schema errors and nothing else; it proceeds to
   document validation/execution exactly for the valid schemas.  (The model of graphql_impl's first
   statement is a two-line definition; the implementation side is checked by the correspondence.) *)
Theorem C20_invalid_schema_response : forall rs,
  (forall k ks, validate rs = k :: ks -> request rs = ErrorsOnly (k :: ks))
  /\ (request rs = Proceeds <-> ValidSchema rs).
Proof.
  intro rs. unfold request. split.
  - intros k ks H. rewrite H. reflexivity.
  - rewrite <- validate_reflects. destruct (validate rs); split; intro H; congruence.
Qed.
Print Assumptions C20_invalid_schema_response.

(* ---- non-vacuity.  Names: 2 Query, 4 Int, 6 I, 8 A, 10 f, 12 x, 14 a *)
Definition ex_int : N * tdef := (4, DScalar SInt).

(* type Query { f(x: I = {a: 1}): Int }  input I { a: Int!  b: I } *)
Definition ex_valid : raw_schema :=
  mkSchema
    [ex_int;
     (2, DObject [mkField 10 (TNamed 4) false
                    [mkInval 12 (TNamed 6) false (DLit (LObj [(14, LInt false 1)]))]] []);
     (6, DInput false [mkInval 14 (TNonNull (TNamed 4)) false DNone;
                       mkInval 16 (TNamed 6) false DNone])]
    (Some 2) None None [].

Example C20_example_valid : validate ex_valid = [] /\ ValidSchema ex_valid.
Proof.
  assert (H : validate ex_valid = []) by (vm_compute; reflexivity).
  split; [exact H | apply validate_reflects; exact H].
Qed.

(* the schema of the known defect: type Query { f(x: Query = 1): Int } - one position error, the
   default is not validated, no assert site *)
Definition ex_defect : raw_schema :=
  mkSchema
    [ex_int;
     (2, DObject [mkField 10 (TNamed 4) false
                    [mkInval 12 (TNamed 2) false (DLit (LInt false 1))]] [])]
    (Some 2) None None [].

Example C20_example_defect : validate ex_defect = [KNotInputType; KDefaultNotValidated].
Proof. vm_compute. reflexivity. Qed.

(* input A { a: A! }  and  input A { a: A = {} } : one report each, each a genuine cycle *)
Definition ex_cyc (d : dflt) (t : tref) : raw_schema :=
  mkSchema [ex_int; (2, DObject [mkField 10 (TNamed 4) false []] []);
            (8, DInput false [mkInval 14 t false d])] (Some 2) None None [].

Example C20_example_cycles :
  validate (ex_cyc DNone (TNonNull (TNamed 8))) = [KNonNullCycle]
  /\ validate (ex_cyc (DLit (LObj [])) (TNamed 8)) = [KDefaultCycle]
  /\ reach (nn_succ (ex_cyc DNone (TNonNull (TNamed 8)))) 8 8.
Proof.
  split; [vm_compute; reflexivity|]. split; [vm_compute; reflexivity|].
  apply reach_one. vm_compute. left. reflexivity.
Qed.
