(* C20 - stub, replaced below *)
From GV Require Import Base.Prelude Types.SchemaValidate.
Example C20_example_stub : chk true KCrash = []. Proof. reflexivity. Qed.
