(* C10 - every reported source location is the true line and column.
   Theorems only; proofs live in Lang/LocationProps.v. *)
From GV Require Import Base.Prelude Lang.Location Lang.LocationProps Lang.Lexer Lang.LexerLoc
  Lang.Render Lang.RenderProps.

(* get_location = 1 + #terminators(LF, CR LF once, CR; nothing else) before the offset,
   1 + distance from the end of the last one. *)
Theorem C10_location_spec : forall body pos,
  get_location body pos = location_spec body pos.
Proof. exact get_location_is_spec. Qed.
Print Assumptions C10_location_spec.

(* Rendering never indexes out of range: the line named by a location exists in the
   regex-split of (padding ++ body), for every body, offset and column padding. *)
Theorem C10_render_total : forall pad body pos,
  exists l, render_line pad body (fst (get_location body pos)) = Some l.
Proof. exact render_line_in_range. Qed.
Print Assumptions C10_render_total.

(* The lexer's incremental (line, line_start) bookkeeping over a stretch of text equals
   counting the terminators of that stretch. *)
Theorem C10_lexer_bookkeeping : forall s line ls pos,
  scan_lines line ls pos s =
  ((line + count_lt false s)%nat,
   if (count_lt false s =? 0)%nat then ls else (pos + length s - tail_len 0 s)%nat).
Proof. intros. apply (scan_lines_spec_n (length s)). lia. Qed.
Print Assumptions C10_lexer_bookkeeping.

(* Every token of every source that lexes - comments and EOF included, block strings spanning
   lines included - carries as line/column exactly get_location of its start offset: the
   lexer's incremental line/line_start bookkeeping agrees with the specification. *)
Theorem C10_token_locations : forall s ts, lex s = Ok ts ->
  Forall (fun t => (tline t, tcol t) = get_location s (tstart t)) ts.
Proof. exact token_locations. Qed.
Print Assumptions C10_token_locations.

(* The complete rendering (print_source_location: header, previous/named/next line or the 80-column
   sub-lines of a line longer than 120 characters, caret row) of the location of ANY offset of ANY
   body under ANY location offset never fails: every index access of the code is in range. *)
Theorem C10_render_never_fails : forall name pad lineoff body pos,
  exists t, print_source_location name pad lineoff (fst (get_location body pos))
              (snd (get_location body pos)) body = Some t.
Proof. exact print_location_total. Qed.
Print Assumptions C10_render_never_fails.

(* Ordinary lines: the rows are exactly (previous line if any, the NAMED line under its line number,
   the caret row at the printed column, next line if any). *)
Theorem C10_render_excerpt_short : forall lines li ln cn ll,
  nth_error lines li = Some ll -> (length ll <= 120)%nat ->
  rows lines li ln cn =
  Some [(num_prefix (ln - 1), if (0 <? li)%nat then nth_error lines (li - 1) else None);
        (num_prefix ln, Some ll);
        (bar_prefix, Some (rjust cn [CARET]));
        (num_prefix (ln + 1), nth_error lines (li + 1))].
Proof. exact rows_short. Qed.
Print Assumptions C10_render_excerpt_short.

(* Long ("minified") lines: the rows above the caret, concatenated, are exactly the first
   80 * (column div 80 + 1) characters of the NAMED line; one more sub-line follows if there is one. *)
Theorem C10_render_excerpt_long : forall lines li ln cn ll,
  nth_error lines li = Some ll -> (120 < length ll)%nat ->
  let idx := (cn / 80)%nat in
  let mid := slice 1 (idx + 1) (sub_lines ll) in
  let nxt := if (idx + 1 <? length (sub_lines ll))%nat
             then Some (firstn 80 (skipn (80 * (idx + 1)) ll)) else None in
  rows lines li ln cn =
    Some ((num_prefix ln, Some (firstn 80 ll))
          :: map (fun s => (bar_prefix, Some s)) mid
          ++ [(bar_prefix, Some (rjust (cn mod 80) [CARET])); (bar_prefix, nxt)])
  /\ firstn 80 ll ++ concat mid = firstn (80 * (idx + 1)) ll.
Proof. exact rows_long. Qed.
Print Assumptions C10_render_excerpt_long.

(* The printed column points at the offset: the named line of the (padded) text starts with
   exactly column-1 characters = (first-line padding) ++ the text between the last line
   terminator before the offset and the offset. *)
Theorem C10_caret_at_location : forall pad body pos,
  let line := fst (get_location body pos) in
  let col := snd (get_location body pos) in
  let cn := (col + (if (line =? 1)%nat then pad else 0))%nat in
  exists ll suffix,
    nth_error (split_lines (repeat SP pad ++ body)) (line - 1) = Some ll /\
    ll = ((if (line =? 1)%nat then repeat SP pad else []) ++ last (split_lines (firstn pos body)) []) ++ suffix /\
    (cn - 1 = length ((if (line =? 1)%nat then repeat SP pad else []) ++ last (split_lines (firstn pos body)) []))%nat.
Proof. exact caret_column_is_location. Qed.
Print Assumptions C10_caret_at_location.

(* non-vacuity: a concrete text with all three terminators and a non-terminator FF *)
Example C10_example :
  get_location [97; 13; 10; 98; 12; 13; 99; 10; 100] 8%nat = (4%nat, 1%nat).
Proof. reflexivity. Qed.

(* non-vacuity of the rendering theorems: "a\nbc\nd", offset 3 -> "G:2:2\n1 | a\n2 | bc\n  |  ^\n3 | d" *)
Example C10_render_example :
  print_source_location [71] 0 0 2 2 [97; 10; 98; 99; 10; 100] =
  Some [71; 58; 50; 58; 50; 10; 49; 32; 124; 32; 97; 10; 50; 32; 124; 32; 98; 99; 10;
        32; 32; 124; 32; 32; 94; 10; 51; 32; 124; 32; 100].
Proof. vm_compute. reflexivity. Qed.
