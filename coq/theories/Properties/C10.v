(* C10 - every reported source location is the true line and column.
   Theorems only; proofs live in Lang/LocationProps.v. *)
From GV Require Import Base.Prelude Lang.Location Lang.LocationProps Lang.Lexer Lang.LexerLoc.

(* get_location = 1 + #terminators(LF, CR LF once, CR; nothing else) before the offset,
   1 + distance from the end of the last one. *)
Theorem C10_location_spec : forall body pos,
  get_location body pos = location_spec body pos.
Proof. exact get_location_is_spec. Qed.
Print Assumptions C10_location_spec.

(* Rendering never indexes out of range: the line named by a location exists in the
   regex-split of (padding ++ body), for every body, offset and column padding. *)
Theorem C10_render_total : forall pad body pos,
  exists l, render_line pad body (fst (get_location body pos)) = Some l.
Proof. exact render_line_in_range. Qed.
Print Assumptions C10_render_total.

(* The lexer's incremental (line, line_start) bookkeeping over a stretch of text equals
   counting the terminators of that stretch. *)
Theorem C10_lexer_bookkeeping : forall s line ls pos,
  scan_lines line ls pos s =
  ((line + count_lt false s)%nat,
   if (count_lt false s =? 0)%nat then ls else (pos + length s - tail_len 0 s)%nat).
Proof. intros. apply (scan_lines_spec_n (length s)). lia. Qed.
Print Assumptions C10_lexer_bookkeeping.

(* Every token of every source that lexes - comments and EOF included, block strings spanning
   lines included - carries as line/column exactly get_location of its start offset: the
   lexer's incremental line/line_start bookkeeping agrees with the specification. *)
Theorem C10_token_locations : forall s ts, lex s = Ok ts ->
  Forall (fun t => (tline t, tcol t) = get_location s (tstart t)) ts.
Proof. exact token_locations. Qed.
Print Assumptions C10_token_locations.

(* non-vacuity: a concrete text with all three terminators and a non-terminator FF *)
Example C10_example :
  get_location [97; 13; 10; 98; 12; 13; 99; 10; 100] 8%nat = (4%nat, 1%nat).
Proof. reflexivity. Qed.
