(* C14 - placeholder while the correspondence is being validated *)
From GV Require Import Base.Prelude Valid.Overlap Valid.PairSet.
