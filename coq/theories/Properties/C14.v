(* C14 - field-merge validation equals the specification.  Theorems only; proofs in
   Valid/OverlapProps.v and Valid/PairSetProps.v.

   What is proved here: laws of the two memo tables as the code has them; termination of the
   specification function on every document (cyclic spreads included); sanity of the
   specification function, and its adequacy: it decides the declarative (inductive) reading of
   FieldsInSetCanMerge / SameResponseShape; for the memoised algorithm as modelled in Valid/OverlapOpt.v (steps
   A-J with both memo tables, tied to the real rule by verdict, final memo tables and the
   sequence of memo decisions): termination on every document; every comparison skipped on a memo hit was started earlier
   under a flag that subsumes the query.
   Relation of the memoised algorithm to [spec_conflicts]: EQUIVALENCE IS PROVED for every typable,
   well-formed document, named / nested / mutually recursive / cyclic fragments included
   ([C14_equiv]), from its two halves: the memoisation never hides a conflict
   ([C14_memo_never_hides]: specification conflict => the algorithm reports one) and the algorithm
   reports no conflict the specification does not have ([C14_memo_sound]).  What remains outside
   Coq is the tie between the memoised MODEL and the real rule (verdict, memo decision trace and
   final memo tables compared on every generated document by harness/c14.py). *)
From Coq Require Import Permutation.
From GV Require Import Base.Prelude Valid.Overlap Valid.OverlapProps Valid.PairSet Valid.PairSetProps
  Valid.OverlapOpt Valid.OverlapOptProps Valid.OverlapAdequacy Valid.OverlapEquiv Valid.OverlapOptTerm
  Valid.OverlapMemoSound Valid.OverlapMemoConv.

(* PairSet: has after add; a non-exclusive entry answers the exclusive and the non-exclusive
   query, an exclusive entry only the exclusive query; the set is unordered; an addition is
   invisible to every other unordered pair. *)
Theorem C14_pairset_laws : forall s a b,
  (forall e, ps_has (ps_add s a b e) a b e = true) /\
  (forall q, ps_has (ps_add s a b false) a b q = true) /\
  (ps_has (ps_add s a b true) a b true = true /\ ps_has (ps_add s a b true) a b false = false) /\
  (forall e, ps_has s a b e = ps_has s b a e /\ ps_add s a b e = ps_add s b a e) /\
  (forall e c d q, order c d <> order a b -> ps_has (ps_add s a b e) c d q = ps_has s c d q).
Proof.
  intros s a b. repeat split; intros.
  - apply ps_has_after_add.
  - apply ps_nonexclusive_answers_both.
  - apply ps_exclusive_answers_only_exclusive.
  - apply ps_exclusive_answers_only_exclusive.
  - apply ps_symmetric.
  - apply ps_symmetric.
  - apply ps_add_frame; assumption.
Qed.
Print Assumptions C14_pairset_laws.

(* Used as the rule uses it (`if has(..): return` then `add(..)`): an entry never disappears,
   only moves from exclusive (true) to non-exclusive (false), and no answer once given is
   ever withdrawn. *)
Theorem C14_pairset_monotone : forall s c d e a b,
  (forall r, ps_get s a b = Some r ->
     exists r', ps_get (ps_record s c d e) a b = Some r' /\ (r = false -> r' = false)) /\
  (forall q, ps_has s a b q = true -> ps_has (ps_record s c d e) a b q = true).
Proof.
  intros. split; intros.
  - apply ps_record_monotone; assumption.
  - apply ps_record_keeps_answers; assumption.
Qed.
Print Assumptions C14_pairset_monotone.

(* OrderedPairSet: same flag laws; the pair is ordered (first component by identity, second by
   value): an addition is visible only to queries with the same first and the same second
   component; under has-then-add an entry never disappears and only moves from true to false. *)
Theorem C14_ordered_pairset_laws : forall s a b,
  (forall e, ops_has (ops_add s a b e) a b e = true) /\
  (forall q, ops_has (ops_add s a b false) a b q = true) /\
  (ops_has (ops_add s a b true) a b true = true /\ ops_has (ops_add s a b true) a b false = false) /\
  (forall e c d q, (c, d) <> (a, b) -> ops_has (ops_add s a b e) c d q = ops_has s c d q) /\
  (forall c d e r, ops_get s a b = Some r ->
     exists r', ops_get (ops_record s c d e) a b = Some r' /\ (r = false -> r' = false)).
Proof.
  intros s a b. repeat split; intros.
  - apply ops_has_after_add.
  - apply (ops_flag_laws s a b).
  - apply (ops_flag_laws s a b).
  - apply (ops_flag_laws s a b).
  - apply ops_add_frame; assumption.
  - apply ops_record_monotone; assumption.
Qed.
Print Assumptions C14_ordered_pairset_laws.

(* The specification function terminates on every schema and document: with
   collect_fuel = #fragment definitions and depth_fuel = 2 * #fields^2 + 1 (the number of distinct (field, field, mode) pairs + 1) neither fuel is
   exhausted, whatever the spread graph (cyclic, mutually recursive). *)
Theorem C14_terminates : forall s d, spec_verdict s d <> VFuel.
Proof. exact spec_verdict_terminates. Qed.
Print Assumptions C14_terminates.

(* The memoised algorithm (Valid/OverlapOpt.v, the shape of the implementation) terminates on
   every document, cyclic and mutually recursive spreads included, in whatever order the
   definitions are visited: with opt_fuel d = (2*#sets*#fragments + 2*#fragments^2 + 1) *
   (2*depth + 3) it never runs out of fuel.  (Every memo miss strictly decreases a potential
   over the finite set of memo keys; between two misses calls descend into sub-selections.) *)
Theorem C14_memoised_terminates : forall s d order fuel,
  (opt_fuel d <= fuel)%nat -> opt_run s d order fuel <> RFuel.
Proof. exact opt_terminates. Qed.
Print Assumptions C14_memoised_terminates.

(* The executable specification function (a search with a visited set) decides the declarative
   reading of section 5.3.2: [DocConf s d] = some selection set of the document (operation,
   fragment, field or inline-fragment selection set, with the type it applies to), with fragments
   expanded once per set, contains two fields with the same response name that have a finite
   derivation [Conf] of "cannot be merged": a direct conflict (different field or arguments
   unless the parent types are different object types or an enclosing pair already was; or
   return types of different response shape), or a conflicting pair of the merged
   sub-selections.  Hypotheses: field ids are unique (checked at run time by the extracted
   entry) and the document can be typed (inside the modelled fragment). *)
Theorem C14_spec_adequate : forall s d,
  nodupb (doc_fids d) = true -> spec_verdict s d <> VUntyped ->
  (spec_conflicts s d = true <-> DocConf s d).
Proof. exact spec_adequate. Qed.
Print Assumptions C14_spec_adequate.

(* SameResponseShape on return types is symmetric and reflexive *)
Theorem C14_shape_symmetric : forall s a b,
  shape_conflict s a b = shape_conflict s b a /\ shape_conflict s a a = false.
Proof. intros. split; [apply shape_conflict_sym | apply shape_conflict_refl]. Qed.
Print Assumptions C14_shape_symmetric.

(* a selection set of plain fields with pairwise distinct response names never conflicts at
   its own level, whatever the schema, the fragments and the fuels *)
Theorem C14_distinct_names_never_conflict : forall s frags cf df p ss,
  fields_only ss -> NoDup (rnames ss) -> check_set s frags cf df p ss = VNo.
Proof. exact distinct_names_never_conflict. Qed.
Print Assumptions C14_distinct_names_never_conflict.

(* The memoisation of compared pairs never replaces a comparison by a weaker one: whenever the
   memoised algorithm (Valid/OverlapOpt.v) skips a fields-vs-fragment or fragment-vs-fragment
   comparison on a memo hit, the same pair was started earlier in the run under a flag that
   subsumes the queried one (recorded non-exclusive, or recorded with the same flag): an entry
   made under "mutually exclusive" never answers a non-exclusive query.  The log is latest
   first. *)
Theorem C14_no_hidden_comparison : forall s d order fuel m,
  opt_run s d order fuel = ROk m \/ opt_run s d order fuel = RConflict m ->
  forall l1 t a b q l2, m_log m = l1 ++ EvSkip t a b q :: l2 ->
    exists a' b' r, In (EvStart t a' b' r) l2 /\ same_key t a b a' b' /\ (r = false \/ r = q).
Proof. intros s d order fuel m H. exact (no_hidden_comparison s d order fuel m H). Qed.
Print Assumptions C14_no_hidden_comparison.

(* THE MEMOISATION NEVER HIDES A CONFLICT - for all documents, named and cyclic fragments
   included: whenever the specification function finds a conflict, the memoised algorithm (both
   memo tables, field maps per selection set, any visiting order that covers all definitions)
   reports one.  Hypotheses are well-formedness only: field / inline-fragment ids identify
   occurrences, fragment names are unique, argument names are unique per field, enough fuel.
   Proof (Valid/OverlapOptTrace, OverlapOptClosure, OverlapMemoSound): a traced copy of the
   algorithm computes the same verdict; if it completes without a conflict its log is closed
   (every logged comparison was carried out completely, a memo hit being covered by an earlier
   start under a subsuming flag); a closed log covers, under a subsuming flag, every pair of
   every merged set the specification looks at; a covered pair has no derivation of a conflict. *)
Theorem C14_memo_never_hides : forall s d ord fuel,
  covers_all d ord -> nodupb (doc_all_ids d) = true -> NoDup (map fr_name (d_frags d)) ->
  (forall o, In o (d_ops d) -> args_ok (snd o)) ->
  (forall fd, In fd (d_frags d) -> args_ok (fr_body fd)) ->
  (opt_fuel d <= fuel)%nat ->
  spec_conflicts s d = true -> opt_conflicts s d ord fuel = Some true.
Proof. intros s d ord fuel H1 H2 H3 H4 H5. exact (memo_never_hides s d ord H1 H2 H3 H4 H5 fuel). Qed.
Print Assumptions C14_memo_never_hides.

(* EVERY CONFLICT THE MEMOISED ALGORITHM REPORTS IS A CONFLICT OF THE SPECIFICATION - for all
   typable documents, cyclic fragments included (no false rejection).  Every pair of fields the
   algorithm compares (within a set, fields vs fragment, fragment vs fragment, between the
   sub-selections of two merged fields) co-occurs, under the same flag, in a merged set of the
   specification; a conflict of such a pair yields - using that conflicts are symmetric up to a
   conflict of the document, and that fragment collection is complete - a conflict of some
   selection set of the document.  Hypotheses: the document can be typed (composite root and
   fragment types, every field and type condition known), unique argument names, unique field ids. *)
Theorem C14_memo_sound : forall s d ord fuel,
  (forall o, In o (d_ops d) -> is_composite s (fst o) = true /\ typed_sels s (fst o) (snd o)) ->
  (forall fd, In fd (d_frags d) -> is_composite s (fr_type fd) = true /\ typed_sels s (fr_type fd) (fr_body fd)) ->
  (forall o, In o (d_ops d) -> args_ok (snd o)) ->
  (forall fd, In fd (d_frags d) -> args_ok (fr_body fd)) ->
  nodupb (doc_fids d) = true ->
  opt_conflicts s d ord fuel = Some true -> spec_conflicts s d = true.
Proof. intros s d ord fuel H1 H2 H3 H4 H5. exact (memo_sound s d H1 H2 H3 H4 H5 ord fuel). Qed.
Print Assumptions C14_memo_sound.

(* THE MEMOISED ALGORITHM ACCEPTS EXACTLY WHAT THE SPECIFICATION FUNCTION ACCEPTS: for every typable
   well-formed document (unique ids, fragment names and argument names), every visiting order that
   covers all definitions, and the fuel opt_fuel d (which C14_memoised_terminates shows sufficient). *)
Theorem C14_equiv : forall s d ord fuel,
  (forall o, In o (d_ops d) -> is_composite s (fst o) = true /\ typed_sels s (fst o) (snd o)) ->
  (forall fd, In fd (d_frags d) -> is_composite s (fr_type fd) = true /\ typed_sels s (fr_type fd) (fr_body fd)) ->
  (forall o, In o (d_ops d) -> args_ok (snd o)) ->
  (forall fd, In fd (d_frags d) -> args_ok (fr_body fd)) ->
  nodupb (doc_fids d) = true -> nodupb (doc_all_ids d) = true -> NoDup (map fr_name (d_frags d)) ->
  covers_all d ord -> (opt_fuel d <= fuel)%nat ->
  opt_conflicts s d ord fuel = Some (spec_conflicts s d).
Proof. intros s d ord fuel H1 H2 H3 H4 H5 H6 H7. exact (memo_equiv s d H1 H2 H3 H4 H5 H6 H7 ord fuel). Qed.
Print Assumptions C14_equiv.

(* ---- non-vacuity ---- *)
Definition ex_schema : schema :=
  [ mkTdef 1 KLeaf []; mkTdef 2 KLeaf [];
    mkTdef 10 KObject [(20, TNamed 11); (21, TNamed 12); (22, TNamed 10)];
    mkTdef 11 KObject [(30, TNamed 1); (31, TNamed 2); (32, TNonNull (TNamed 1)); (22, TNamed 11)];
    mkTdef 12 KObject [(30, TNamed 1); (31, TNamed 2); (22, TNamed 12)] ].
Definition fl (id rn nm : N) : fld := mkFld id rn nm [].

(* hypotheses of C14_distinct_names_never_conflict are satisfiable *)
Example C14_example_distinct :
  let ss := SelField (fl 1 20 20) SelNil (SelField (fl 2 21 21) SelNil SelNil) in
  fields_only ss /\ NoDup (rnames ss).
Proof. cbn. split; auto. repeat constructor; cbn; intuition discriminate. Qed.

(* { a: self { ...F } }  fragment F on T11 { x: f30  self { ...F  x: f31 } }  -- cyclic, conflict found *)
Example C14_example_cyclic_conflict :
  spec_verdict ex_schema
    (mkDoc [(10, SelField (fl 1 22 22) (SelSpread 50 SelNil) SelNil)]
           [mkFrag 50 11 (SelField (fl 2 40 30) SelNil
                          (SelField (fl 3 22 22) (SelSpread 50 (SelField (fl 4 40 31) SelNil SelNil)) SelNil))])
  = VConflict.
Proof. vm_compute. reflexivity. Qed.

(* fragment F on T11 { self { ...F } self { ...F } }  -- the literal algorithm would not terminate *)
Example C14_example_cyclic_mergeable :
  spec_verdict ex_schema
    (mkDoc [(10, SelField (fl 1 20 20) (SelSpread 50 SelNil) SelNil)]
           [mkFrag 50 11 (SelField (fl 2 22 22) (SelSpread 50 SelNil)
                          (SelField (fl 3 22 22) (SelSpread 50 SelNil) SelNil))])
  = VNo.
Proof. vm_compute. reflexivity. Qed.

(* different object parents: differing field names are allowed, differing shapes are not *)
Example C14_example_exclusive :
  let doc (n2 : N) := mkDoc [(10, SelInline 90 (Some 11) (SelField (fl 1 40 30) SelNil SelNil)
                                  (SelInline 91 (Some 12) (SelField (fl 2 40 n2) SelNil SelNil) SelNil))] [] in
  spec_verdict ex_schema (doc 30) = VNo /\ spec_verdict ex_schema (doc 31) = VConflict /\
  spec_verdict ex_schema
    (mkDoc [(10, SelInline 90 (Some 11) (SelField (fl 1 40 30) SelNil (SelField (fl 2 40 31) SelNil SelNil)) SelNil)] [])
  = VConflict.
Proof. vm_compute. repeat split. Qed.

(* the memoised model on the cyclic example: same verdict, and a memo hit in its log *)
Example C14_example_opt :
  let d := mkDoc [(10, SelField (fl 1 22 22) (SelSpread 50 SelNil) SelNil)]
                 [mkFrag 50 11 (SelField (fl 2 40 30) SelNil
                                (SelField (fl 3 22 22) (SelSpread 50 (SelField (fl 4 40 31) SelNil SelNil)) SelNil))] in
  opt_conflicts ex_schema d (default_order d) 100 = Some (spec_conflicts ex_schema d) /\
  let d2 := mkDoc [(10, SelField (fl 1 20 20) (SelSpread 50 SelNil) SelNil)]
                  [mkFrag 50 11 (SelField (fl 2 22 22) (SelSpread 50 SelNil)
                                 (SelField (fl 3 22 22) (SelSpread 50 SelNil) SelNil))] in
  match opt_run ex_schema d2 (default_order d2) 100 with
  | ROk m => existsb (fun e => match e with EvSkip _ _ _ _ => true | _ => false end) (m_log m) = true
  | _ => False
  end.
Proof. vm_compute. split; reflexivity. Qed.

(* the hypotheses of C14_equiv are satisfiable: a cyclic fragment, typable, with a conflict *)
Example C14_example_equiv_hyps :
  let d := mkDoc [(10, SelField (fl 1 22 22) (SelSpread 50 SelNil) SelNil)]
                 [mkFrag 50 11 (SelField (fl 2 40 30) SelNil
                                (SelField (fl 3 22 22) (SelSpread 50 (SelField (fl 4 40 31) SelNil SelNil)) SelNil))] in
  (forall o, In o (d_ops d) -> is_composite ex_schema (fst o) = true /\ typed_sels ex_schema (fst o) (snd o)) /\
  (forall fd, In fd (d_frags d) ->
     is_composite ex_schema (fr_type fd) = true /\ typed_sels ex_schema (fr_type fd) (fr_body fd)) /\
  nodupb (doc_fids d) = true /\ spec_conflicts ex_schema d = true.
Proof.
  cbn zeta. split.
  { intros o [<-|[]]. cbn [fst snd typed_sels]. split; [reflexivity|]. split; [|exact I].
    exists (TNamed 10). split; [reflexivity | exact I]. }
  split.
  { intros fd [<-|[]]. cbn [fr_type fr_body typed_sels]. split; [reflexivity|]. split.
    - exists (TNamed 1). split; [reflexivity | exact I].
    - split; [|exact I]. exists (TNamed 11). split; [reflexivity|]. cbn [named typed_sels].
      split; [|exact I]. exists (TNamed 2). split; [reflexivity | exact I]. }
  split; vm_compute; reflexivity.
Qed.

(* the hypotheses of C14_memo_never_hides hold on the cyclic example (and so does its conclusion) *)
Example C14_example_memo_hyps :
  let d := mkDoc [(10, SelField (fl 1 22 22) (SelSpread 50 SelNil) SelNil)]
                 [mkFrag 50 11 (SelField (fl 2 40 30) SelNil
                                (SelField (fl 3 22 22) (SelSpread 50 (SelField (fl 4 40 31) SelNil SelNil)) SelNil))] in
  covers_all d (default_order d) /\ nodupb (doc_all_ids d) = true /\ NoDup (map fr_name (d_frags d)) /\
  (forall o, In o (d_ops d) -> args_ok (snd o)) /\ (forall fd, In fd (d_frags d) -> args_ok (fr_body fd)) /\
  spec_conflicts ex_schema d = true /\ opt_conflicts ex_schema d (default_order d) (opt_fuel d) = Some true.
Proof.
  cbn zeta. split.
  - split; intros i Hi; cbn in *; assert (i = 0%nat) by lia; subst; auto.
  - split; [reflexivity|]. split; [repeat constructor; intros []|].
    split; [intros o [<-|[]]; cbn; repeat split; constructor|].
    split; [intros fd [<-|[]]; cbn; repeat split; constructor|].
    split; vm_compute; reflexivity.
Qed.

(* PairSet: an exclusive entry does not answer the non-exclusive query; after re-recording
   non-exclusively it answers both *)
Example C14_example_pairset :
  let s1 := ps_record [] [98] [97] true in
  let s2 := ps_record s1 [97] [98] false in
  ps_has s1 [97] [98] true = true /\ ps_has s1 [97] [98] false = false /\
  ps_has s2 [98] [97] true = true /\ ps_has s2 [98] [97] false = true.
Proof. vm_compute. repeat split. Qed.
