(* C02 - execution computes exactly what the specification's algorithm computes.
   Theorems only; proofs in Exec/SpecProps.v.  The model Exec/Spec.v IS the specification's
   algorithm (hand-written from spec section 6); the correspondence run of harness/c02.py ties it
   to /repo.  The theorems below establish, for ALL schemas, documents, variables and data graphs
   of the model, the invariants the property names.  Fuel is explicit: the statements hold for
   every fuel and only speak about runs that produce a response (`Resp`); `execute` is
   `execute_fuel` at `default_fuel`, so every statement covers it. *)
From GV Require Import Base.Prelude Exec.Value Exec.Schema Exec.Spec Exec.SpecProps.

(* Every response: data is null or an object of the shape the root type and the operation's
   selection set prescribe ([shaped_obj]: keys, nesting, nullability, leaf kinds - see Spec.v);
   every error path leads to a null in data (at the path or at one of its prefixes: the nearest
   nullable ancestor); a null data has an error; every logged resolver call carries exactly the
   result of CoerceArgumentValues for some field of the schema. *)
Theorem C02_response_invariants : forall fuel s d vars root j es cs,
  execute_fuel fuel s d vars root = Resp j es cs ->
  exists cv tn,
    coerce_variable_values s (d_vars d) vars = Some cv /\ root_type s (d_kind d) = Some tn /\
    (j = JNull \/ exists kvs, j = JObj kvs /\ shaped_obj s (d_frags d) cv tn (d_sels d) kvs) /\
    Forall (fun e : err => hits_null (fst e) j = true) es /\
    (j = JNull -> es <> []) /\
    Forall (call_ok s cv) cs.
Proof. exact response_invariants. Qed.
Print Assumptions C02_response_invariants.

(* non-null propagation is correct: a null sits only at a nullable position *)
Theorem C02_null_only_where_nullable : forall s frags cv t sels,
  shaped s frags cv t sels JNull -> is_nonnull t = false.
Proof. exact shaped_null_nullable. Qed.
Print Assumptions C02_null_only_where_nullable.

(* keys of every response object = response keys of the collected field set (those whose field
   the runtime type defines), in the order of the collected field set ... *)
Theorem C02_object_keys : forall s frags cv rt g kvs,
  shaped_fields s frags cv rt g kvs -> keys kvs = keys (filter (field_known s rt) g).
Proof. exact shaped_fields_keys. Qed.
Print Assumptions C02_object_keys.

(* ... which is the order of first appearance among the fields CollectFields visits *)
Theorem C02_keys_first_appearance : forall s frags cv tn fuel sels v g,
  collect s frags cv tn fuel sels ([], []) = Some (v, g) ->
  exists fl, collect_flat s frags cv tn fuel sels ([], []) = Some (v, fl) /\
             g = group fl /\ keys g = first_occ (map fst fl) /\ NoDup (keys g).
Proof. exact collect_first_appearance. Qed.
Print Assumptions C02_keys_first_appearance.

(* data is null iff a field error propagated through the root selection set *)
Theorem C02_data_null_iff_propagated : forall fuel s d vars root j es cs,
  execute_fuel fuel s d vars root = Resp j es cs ->
  (j = JNull <-> root_propagated fuel s d vars root).
Proof. exact null_iff_propagated. Qed.
Print Assumptions C02_data_null_iff_propagated.

(* "a null exactly where the specification nulls": value completion yields null only for a null
   value; a null field is either a null value with nothing wrong below, or has an error recorded at
   or below it (field errors, non-null propagation to this nearest nullable ancestor) *)
Theorem C02_null_accounted : forall s frags cv fuel rt obj f1 fs es cs,
  exec_field s frags cv fuel rt obj (f1 :: fs) = Some (FRes (CVal JNull, es, cs)) ->
  (match lookup (fs_name f1) obj with Some d => d | None => DNull end = DNull /\ es = []) \/ es <> [].
Proof. exact field_null_accounted. Qed.
Print Assumptions C02_null_accounted.

Theorem C02_completion_null_is_data_null : forall s frags cv fuel t sels d es cs,
  complete s frags cv fuel t sels d = Some (CVal JNull, es, cs) -> d = DNull /\ es = [].
Proof. exact complete_null. Qed.
Print Assumptions C02_completion_null_is_data_null.

(* fuel is only fuel: two runs that are not out of fuel give the same response, so `execute`
   (= execute_fuel at default_fuel) is THE response whenever it is not OutOfFuelR *)
Theorem C02_fuel_independent : forall f1 f2 s d vars root,
  execute_fuel f1 s d vars root <> OutOfFuelR -> execute_fuel f2 s d vars root <> OutOfFuelR ->
  execute_fuel f1 s d vars root = execute_fuel f2 s d vars root.
Proof. exact execute_fuel_independent. Qed.
Print Assumptions C02_fuel_independent.

(* Determinism and history independence.  The specification's algorithm is a function of
   (schema, document, variables, data): there is no state a previous request could leave behind.
   Stated for the record; what it rules out in /repo (memoised defaults, cached sub-selections
   changing an answer) is checked by the harness, which executes every request three times. *)
Theorem C02_history_independent : forall s (earlier : list (document * list (str * value) * data)) d vars root,
  last (map (fun q => execute s (fst (fst q)) (snd (fst q)) (snd q)) (earlier ++ [(d, vars, root)]))
       RequestError
  = execute s d vars root.
Proof. intros. rewrite map_app. cbn. apply last_last. Qed.
Print Assumptions C02_history_independent.

(* non-vacuity: { a { x y } } where T.x : Int! is absent in the data: the error at a.x nulls the
   nearest nullable ancestor a; y is not executed any more *)
Example C02_example :
  let q := [81] in let t := [84] in let a := [97] in let x := [120] in let y := [121] in
  let s := mkSchema [(q, TObject [mkField a (TNamed t) []] []);
                     (t, TObject [mkField x (TNonNull (TNamed n_Int)) [];
                                  mkField y (TNamed n_String) []] [])] q None in
  let d := mkDoc OpQuery [] [SField None a [] [] [SField None x [] [] []; SField None y [] [] []]] [] in
  let root := DObj [] [(a, DObj [] [(y, DLeaf (LStr [104]))])] in
  execute s d [] root
  = Resp (JObj [(a, JNull)]) [([PKey a; PKey x], CauseNull)] [([PKey a], a, []); ([PKey a; PKey x], x, [])].
Proof. vm_compute. reflexivity. Qed.
