(* C12 (rules) - the twelve validation rules that never consult the schema, as concrete functions
   of the parser AST (Lang/Ast.v), against declarative specifications.
   Theorems only; model Valid/Rules.v, specifications Valid/RulesSpec.v, proofs Valid/RulesProps.v
   (RulesNames, RulesGraph, RulesCycles, RulesErase).

   d ranges over ALL trees (no well-formedness hypothesis).  The data of a document:
     xdefs d (definitions in order), ops_of / frags_of (operations / fragment definitions with name,
     variable definitions, fragment spreads, variable usages), all_spreads d, arg_lists d,
     object_fields d.  An error is (rule number, paths of the AST nodes it points at).
   Each rule: (a) exactly what is reported and when nothing is; (b) fuel sufficiency where the
   code loops through fragments; (c) independence of descriptions, and of layout for parsed text.
   (d) Each rule is a function of the document alone (no shared state): "rule alone = rule among
   the others" for these rules is exactly the correspondence harness/crules.py establishes between
   this function and the rule run alone and inside validate() with all specified rules. *)
From Coq Require Import Relations.
From GV Require Import Base.Prelude Lang.Lexer Lang.Ast Lang.Parser Lang.ParserProps Lang.Wf Lang.WfProps
  Valid.RulesWf
  Valid.Rules Valid.RulesSpec Valid.RulesNames Valid.RulesGraph Valid.RulesCycles Valid.RulesErase
  Valid.RulesProps Valid.RulesSpreads Valid.RulesPaths Valid.RulesExact.

(* ---- 1 ExecutableDefinitions: one error per definition that is neither operation nor fragment *)
Theorem C12_rule_executable_definitions : forall d e,
  In e (rule_executable_definitions d) <-> exists p, NonExecutable d p /\ e = VE R_EXEC [p].
Proof. exact executable_definitions_In. Qed.
Print Assumptions C12_rule_executable_definitions.

Theorem C12_rule_executable_definitions_silent : forall d,
  rule_executable_definitions d = [] <-> forall p, ~ NonExecutable d p.
Proof. exact executable_definitions_nil. Qed.
Print Assumptions C12_rule_executable_definitions_silent.

(* ---- 2 UniqueOperationNames: one error per named operation whose name was defined before,
   pointing at the FIRST definition's name and at its own *)
Theorem C12_rule_unique_operation_names : forall d e,
  In e (rule_unique_operation_names d) <->
  exists p0 p, Dup (named_ops (xdefs d)) p0 p /\ e = VE R_UOPN [p0; p].
Proof. exact unique_operation_names_In. Qed.
Print Assumptions C12_rule_unique_operation_names.

Theorem C12_rule_unique_operation_names_silent : forall d,
  rule_unique_operation_names d = [] <-> UniqueNames (named_ops (xdefs d)).
Proof. exact unique_operation_names_nil. Qed.
Print Assumptions C12_rule_unique_operation_names_silent.

(* ---- 3 LoneAnonymousOperation *)
Theorem C12_rule_lone_anonymous_operation : forall d e,
  In e (rule_lone_anonymous_operation d) <->
  exists o, In o (ops_of (xdefs d)) /\ o_name o = None /\ (1 < length (ops_of (xdefs d)))%nat /\
            e = VE R_LONE [o_path o].
Proof. exact lone_anonymous_In. Qed.
Print Assumptions C12_rule_lone_anonymous_operation.

Theorem C12_rule_lone_anonymous_operation_silent : forall d,
  rule_lone_anonymous_operation d = [] <-> LoneAnonymous (ops_of (xdefs d)).
Proof. exact lone_anonymous_nil. Qed.
Print Assumptions C12_rule_lone_anonymous_operation_silent.

(* ---- 4 KnownFragmentNames: one error per fragment spread (anywhere in the document) whose name
   no fragment definition carries, pointing at the spread's name *)
Theorem C12_rule_known_fragment_names : forall d e,
  In e (rule_known_fragment_names d) <->
  exists s, UnknownSpread d s /\ e = VE R_KFRAG [sp_path s ++ name_step].
Proof. exact known_fragment_names_In. Qed.
Print Assumptions C12_rule_known_fragment_names.

Theorem C12_rule_known_fragment_names_silent : forall d,
  rule_known_fragment_names d = [] <->
  forall s, In s (all_spreads d) -> Defined (frags_of (xdefs d)) (sp_name s).
Proof. exact known_fragment_names_nil. Qed.
Print Assumptions C12_rule_known_fragment_names_silent.

(* ---- 5 UniqueFragmentNames *)
Theorem C12_rule_unique_fragment_names : forall d e,
  In e (rule_unique_fragment_names d) <->
  exists p0 p, Dup (named_frags (xdefs d)) p0 p /\ e = VE R_UFRAG [p0; p].
Proof. exact unique_fragment_names_In. Qed.
Print Assumptions C12_rule_unique_fragment_names.

Theorem C12_rule_unique_fragment_names_silent : forall d,
  rule_unique_fragment_names d = [] <-> NoDup (map f_name (frags_of (xdefs d))).
Proof.
  intro d. rewrite unique_fragment_names_nil. unfold UniqueNames. rewrite named_frags_names. tauto.
Qed.
Print Assumptions C12_rule_unique_fragment_names_silent.

(* ---- the fragment table: the work list of get_recursively_referenced_fragments never runs out
   of fuel (cyclic spreads included) and returns exactly the fragments reachable through fragment
   spreads, each once *)
Theorem C12_rule_referenced_fragments_fuel : forall fs start, exists r, refs fs start = Some r.
Proof. exact refs_total. Qed.
Print Assumptions C12_rule_referenced_fragments_fuel.

Theorem C12_rule_referenced_fragments : forall fs start r, refs fs start = Some r ->
  (forall f, In f r <-> Reach fs start f) /\ NoDup (map f_name r).
Proof. exact refs_spec. Qed.
Print Assumptions C12_rule_referenced_fragments.

(* a name resolves to THE definition of that name when fragment names are unique (rule 5 silent) *)
Theorem C12_rule_resolves_unique : forall fs s f, NoDup (map f_name fs) ->
  (Resolves fs s f <-> In f fs /\ f_name f = s).
Proof. exact resolves_unique. Qed.
Print Assumptions C12_rule_resolves_unique.

(* ---- 6 NoUnusedFragments *)
Theorem C12_rule_no_unused_fragments_fuel : forall d, exists es, rule_no_unused_fragments d = Some es.
Proof. exact no_unused_fragments_total. Qed.
Print Assumptions C12_rule_no_unused_fragments_fuel.

Theorem C12_rule_no_unused_fragments : forall d es e, rule_no_unused_fragments d = Some es ->
  (In e es <-> exists f, In f (frags_of (xdefs d)) /\
                         ~ Used (frags_of (xdefs d)) (ops_of (xdefs d)) (f_name f) /\
                         e = VE R_UNUSEDF [f_path f]).
Proof. exact no_unused_fragments_In. Qed.
Print Assumptions C12_rule_no_unused_fragments.

Theorem C12_rule_no_unused_fragments_silent : forall d es, rule_no_unused_fragments d = Some es ->
  (es = [] <-> forall f, In f (frags_of (xdefs d)) ->
                         Used (frags_of (xdefs d)) (ops_of (xdefs d)) (f_name f)).
Proof. exact no_unused_fragments_nil. Qed.
Print Assumptions C12_rule_no_unused_fragments_silent.

(* ---- 7 NoFragmentCycles: the depth-first search with visited_frags terminates within fuel
   S (number of fragment definitions) on every document; every error is a closed chain of
   fragment spreads; with unique fragment names it is silent iff no fragment is cyclic *)
Theorem C12_rule_no_fragment_cycles_fuel : forall d, exists es, rule_no_fragment_cycles d = Some es.
Proof. exact no_fragment_cycles_total. Qed.
Print Assumptions C12_rule_no_fragment_cycles_fuel.

Theorem C12_rule_no_fragment_cycles_sound : forall d es e,
  rule_no_fragment_cycles d = Some es -> In e es ->
  exists c, IsCycle (frags_of (xdefs d)) c /\ e = VE R_CYCLES (map sp_path c).
Proof. exact no_fragment_cycles_sound. Qed.
Print Assumptions C12_rule_no_fragment_cycles_sound.

Theorem C12_rule_cycle_is_cyclic : forall fs c, IsCycle fs c -> exists a, Cyclic fs a.
Proof. exact IsCycle_cyclic. Qed.
Print Assumptions C12_rule_cycle_is_cyclic.

Theorem C12_rule_no_fragment_cycles_silent : forall d es,
  NoDup (map f_name (frags_of (xdefs d))) -> rule_no_fragment_cycles d = Some es ->
  (es = [] <-> forall a, ~ Cyclic (frags_of (xdefs d)) a).
Proof. exact no_fragment_cycles_nil. Qed.
Print Assumptions C12_rule_no_fragment_cycles_silent.

(* ---- 8 UniqueVariableNames: per operation one error per variable name defined more than once,
   pointing at all its definitions *)
Theorem C12_rule_unique_variable_names : forall d e,
  In e (rule_unique_variable_names d) <->
  exists o s, In o (ops_of (xdefs d)) /\ In s (map fst (var_names o)) /\
              e = VE R_UVAR (occ s (var_names o)) /\ (2 <= length (occ s (var_names o)))%nat.
Proof. exact unique_variable_names_In. Qed.
Print Assumptions C12_rule_unique_variable_names.

Theorem C12_rule_unique_variable_names_silent : forall d,
  rule_unique_variable_names d = [] <-> forall o, In o (ops_of (xdefs d)) -> UniqueNames (var_names o).
Proof. exact unique_variable_names_nil. Qed.
Print Assumptions C12_rule_unique_variable_names_silent.

(* group_by reporting: the exact list - names in order of first occurrence *)
Theorem C12_rule_duplicate_groups : forall r l,
  dup_groups r l =
  flat_map (fun s => match occ s l with _ :: _ :: _ => [VE r (occ s l)] | _ => [] end)
           (distinct (map fst l)).
Proof. exact dup_groups_spec. Qed.
Print Assumptions C12_rule_duplicate_groups.

(* ---- 9 NoUndefinedVariables *)
Theorem C12_rule_recursive_usages : forall fs o us, op_usages fs o = Some us ->
  forall u, In u us <-> InScope fs o u.
Proof. intros fs o us. exact (op_usages_spec_gen fs o us). Qed.
Print Assumptions C12_rule_recursive_usages.

Theorem C12_rule_no_undefined_variables_fuel : forall d, exists es, rule_no_undefined_variables d = Some es.
Proof. exact no_undefined_variables_total. Qed.
Print Assumptions C12_rule_no_undefined_variables_fuel.

Theorem C12_rule_no_undefined_variables : forall d es e, rule_no_undefined_variables d = Some es ->
  (In e es <-> exists o u, In o (ops_of (xdefs d)) /\ UndefinedUse (frags_of (xdefs d)) o u /\
                           e = VE R_UNDEFV [us_path u; o_path o]).
Proof. exact no_undefined_variables_In. Qed.
Print Assumptions C12_rule_no_undefined_variables.

Theorem C12_rule_no_undefined_variables_silent : forall d es, rule_no_undefined_variables d = Some es ->
  (es = [] <-> forall o u, In o (ops_of (xdefs d)) -> ~ UndefinedUse (frags_of (xdefs d)) o u).
Proof. exact no_undefined_variables_nil. Qed.
Print Assumptions C12_rule_no_undefined_variables_silent.

(* ---- 10 NoUnusedVariables *)
Theorem C12_rule_no_unused_variables_fuel : forall d, exists es, rule_no_unused_variables d = Some es.
Proof. exact no_unused_variables_total. Qed.
Print Assumptions C12_rule_no_unused_variables_fuel.

Theorem C12_rule_no_unused_variables : forall d es e, rule_no_unused_variables d = Some es ->
  (In e es <->
   (exists o v, In o (ops_of (xdefs d)) /\ UnusedVar (frags_of (xdefs d)) o v /\
                e = VE R_UNUSEDV [vd_path v]) \/
   (exists f v, In f (frags_of (xdefs d)) /\ UnusedFragVar f v /\ e = VE R_UNUSEDV [vd_path v])).
Proof. exact no_unused_variables_In. Qed.
Print Assumptions C12_rule_no_unused_variables.

Theorem C12_rule_no_unused_variables_silent : forall d es, rule_no_unused_variables d = Some es ->
  (es = [] <-> (forall o v, In o (ops_of (xdefs d)) -> ~ UnusedVar (frags_of (xdefs d)) o v) /\
               (forall f v, In f (frags_of (xdefs d)) -> ~ UnusedFragVar f v)).
Proof. exact no_unused_variables_nil. Qed.
Print Assumptions C12_rule_no_unused_variables_silent.

(* ---- 11 UniqueArgumentNames: per field and per directive (anywhere, type-system definitions
   included) one error per argument name given more than once *)
Theorem C12_rule_unique_argument_names : forall d e,
  In e (rule_unique_argument_names d) <->
  exists args s, In args (arg_lists d) /\ In s (map fst args) /\
                 e = VE R_UARG (occ s args) /\ (2 <= length (occ s args))%nat.
Proof. exact unique_argument_names_In. Qed.
Print Assumptions C12_rule_unique_argument_names.

Theorem C12_rule_unique_argument_names_silent : forall d,
  rule_unique_argument_names d = [] <-> forall args, In args (arg_lists d) -> UniqueNames args.
Proof. exact unique_argument_names_nil. Qed.
Print Assumptions C12_rule_unique_argument_names_silent.

(* ---- 12 UniqueInputFieldNames *)
Theorem C12_rule_unique_input_field_names : forall d e,
  In e (rule_unique_input_field_names d) <->
  exists before s p pre p0 post,
    In (before, (s, p)) (object_fields d) /\ before = pre ++ (s, p0) :: post /\
    ~ In s (map fst pre) /\ e = VE R_UINF [p0; p].
Proof. exact unique_input_field_names_In. Qed.
Print Assumptions C12_rule_unique_input_field_names.

Theorem C12_rule_unique_input_field_names_silent : forall d,
  rule_unique_input_field_names d = [] <->
  forall before s p, In (before, (s, p)) (object_fields d) -> ~ In s (map fst before).
Proof. exact unique_input_field_names_nil. Qed.
Print Assumptions C12_rule_unique_input_field_names_silent.

(* ---- node identity and multiplicities ---- *)
(* a path denotes the node the traversal found there, and no path is visited twice *)
Theorem C12_rule_paths_identify_nodes : forall d it,
  In it (doc_items d) -> get d (it_path it) = Some (it_node it).
Proof. exact doc_items_get. Qed.
Print Assumptions C12_rule_paths_identify_nodes.

Theorem C12_rule_paths_distinct : forall d, NoDup (map it_path (doc_items d)).
Proof. exact doc_items_NoDup. Qed.
Print Assumptions C12_rule_paths_distinct.

(* hence the node-by-node rules report nothing twice: with the membership theorems above their
   reported lists are determined as multisets *)
Theorem C12_rule_no_repetition : forall d,
  NoDup (rule_executable_definitions d) /\ NoDup (rule_lone_anonymous_operation d) /\
  NoDup (rule_known_fragment_names d) /\ NoDup (rule_unique_input_field_names d) /\
  (forall es, rule_no_unused_fragments d = Some es -> NoDup es).
Proof.
  intro d. repeat split;
    [apply executable_definitions_NoDup | apply lone_anonymous_NoDup | apply known_fragment_names_NoDup
    | apply unique_input_field_names_NoDup | apply no_unused_fragments_NoDup].
Qed.
Print Assumptions C12_rule_no_repetition.

(* the dictionary scan of rules 2, 5 (and 12), state-free: exact list *)
Theorem C12_rule_duplicate_scan_exact : forall l, dup_scan [] l = dup_spec [] l.
Proof. exact dup_scan_exact. Qed.
Print Assumptions C12_rule_duplicate_scan_exact.

(* the usages an operation answers for, with multiplicity: its own, then those of every
   transitively spread fragment exactly once *)
Theorem C12_rule_scope_exact : forall fs o,
  exists rf, NoDup (map f_name rf) /\ (forall f, In f rf <-> Reach fs (o_spreads o) f) /\
             scope fs o = o_usages o ++
                          flat_map (fun f => filter (fun u => negb (frag_local fs f u)) (f_usages f)) rf.
Proof. exact scope_exact. Qed.
Print Assumptions C12_rule_scope_exact.

Theorem C12_rule_no_undefined_variables_exact : forall d es, rule_no_undefined_variables d = Some es ->
  es = flat_map (fun o =>
         flat_map (fun u => if mem (us_name u) (map vd_name (o_vdefs o)) then []
                            else [VE R_UNDEFV [us_path u; o_path o]])
                  (scope (frags_of (xdefs d)) o))
       (ops_of (xdefs d)).
Proof. exact no_undefined_variables_exact. Qed.
Print Assumptions C12_rule_no_undefined_variables_exact.

Theorem C12_rule_no_unused_variables_exact : forall d es, rule_no_unused_variables d = Some es ->
  es = flat_map (fun x =>
         match x with
         | XOp o => flat_map (fun v => if mem (vd_name v) (map us_name (scope (frags_of (xdefs d)) o))
                                       then [] else [VE R_UNUSEDV [vd_path v]]) (o_vdefs o)
         | XFrag f => flat_map (fun v => if mem (vd_name v) (map us_name (f_usages f))
                                         then [] else [VE R_UNUSEDV [vd_path v]]) (f_vdefs f)
         | XOther _ => []
         end) (xdefs d).
Proof. exact no_unused_variables_exact. Qed.
Print Assumptions C12_rule_no_unused_variables_exact.

(* get_fragment_spreads as the code runs it (a stack of selection sets popped from the end, fuel
   = number of selection sets + 1) returns the structurally defined list the rules use *)
Theorem C12_rule_fragment_spreads_worklist : forall p s,
  get_fragment_spreads p s = Some (set_spreads p s).
Proof. exact get_fragment_spreads_spec. Qed.
Print Assumptions C12_rule_fragment_spreads_worklist.

(* rule 12 in the words of the specification: when it is silent, every visited input object value
   (whose fields are object fields) has pairwise different field names *)
Theorem C12_rule_input_object_fields_unique : forall d, rule_unique_input_field_names d = [] ->
  forall it fl r, In it (doc_items d) -> it_node it = Nd KObjectValue (AList fl :: r) ->
    forallb is_object_field fl = true -> NoDup (map arg_name fl).
Proof. exact input_object_fields_unique. Qed.
Print Assumptions C12_rule_input_object_fields_unique.

(* ---- (b) all twelve: never out of fuel *)
Theorem C12_rule_all_fuel : forall d, exists es, all_rules d = Some es.
Proof. exact all_rules_total. Qed.
Print Assumptions C12_rule_all_fuel.

(* ---- (c) descriptions: what the rules read from the tree is unchanged by erasing descriptions *)
Theorem C12_rule_descriptions_data : forall d,
  xdefs (erase_descriptions d) = xdefs d /\ all_spreads (erase_descriptions d) = all_spreads d /\
  arg_lists (erase_descriptions d) = arg_lists d /\ object_fields (erase_descriptions d) = object_fields d.
Proof.
  intro d. repeat split; [apply xdefs_erase | apply all_spreads_erase | apply arg_lists_erase | apply object_fields_erase].
Qed.
Print Assumptions C12_rule_descriptions_data.

Theorem C12_rule_descriptions : forall d,
  rule_executable_definitions (erase_descriptions d) = rule_executable_definitions d /\
  rule_unique_operation_names (erase_descriptions d) = rule_unique_operation_names d /\
  rule_lone_anonymous_operation (erase_descriptions d) = rule_lone_anonymous_operation d /\
  rule_known_fragment_names (erase_descriptions d) = rule_known_fragment_names d /\
  rule_unique_fragment_names (erase_descriptions d) = rule_unique_fragment_names d /\
  rule_no_unused_fragments (erase_descriptions d) = rule_no_unused_fragments d /\
  rule_no_fragment_cycles (erase_descriptions d) = rule_no_fragment_cycles d /\
  rule_unique_variable_names (erase_descriptions d) = rule_unique_variable_names d /\
  rule_no_undefined_variables (erase_descriptions d) = rule_no_undefined_variables d /\
  rule_no_unused_variables (erase_descriptions d) = rule_no_unused_variables d /\
  rule_unique_argument_names (erase_descriptions d) = rule_unique_argument_names d /\
  rule_unique_input_field_names (erase_descriptions d) = rule_unique_input_field_names d.
Proof.
  intro d. repeat split;
    [apply erase_executable_definitions | apply erase_unique_operation_names
    | apply erase_lone_anonymous_operation | apply erase_known_fragment_names
    | apply erase_unique_fragment_names | apply erase_no_unused_fragments
    | apply erase_no_fragment_cycles | apply erase_unique_variable_names
    | apply erase_no_undefined_variables | apply erase_no_unused_variables
    | apply erase_unique_argument_names | apply erase_unique_input_field_names].
Qed.
Print Assumptions C12_rule_descriptions.

(* ---- (c) ignored characters: the AST carries no layout, so for two sources whose significant
   tokens agree in kind and value the rules report the same errors (same rule, same node paths) *)
Theorem C12_rule_layout_independent : forall o s1 s2 ts1 ts2 d1 c1 d2 c2,
  lex s1 = Ok ts1 -> lex s2 = Ok ts2 -> map sig (significant ts1) = map sig (significant ts2) ->
  parse_text EDocument o s1 = Ok (d1, c1) -> parse_text EDocument o s2 = Ok (d2, c2) ->
  all_rules d1 = all_rules d2.
Proof.
  intros o s1 s2 ts1 ts2 d1 c1 d2 c2 L1 L2 E P1 P2.
  rewrite (parse_text_lex EDocument o s1 ts1) in P1 by (discriminate || assumption).
  rewrite (parse_text_lex EDocument o s2 ts2) in P2 by (discriminate || assumption).
  destruct (parse_entry_layout EDocument o _ _ E) as [H _].
  apply H in P1. rewrite P1 in P2. inversion P2. reflexivity.
Qed.
Print Assumptions C12_rule_layout_independent.

(* ---- parser outputs: every definition of a parsed document is read as what the grammar says it
   is - operation, fragment definition, or a type-system definition / extension (the ones rule 1
   reports), at path [(0, j)] *)
Theorem C12_rule_parsed_definitions : forall o s d c,
  parse_text EDocument o s = Ok (d, c) ->
  let xfa := exp_fragment_arguments o in
  let xdd := exp_directives_on_directive_definitions o in
  exists l, d = Nd KDocument [AList l] /\ length (xdefs d) = length l /\
    forall j m, nth_error l j = Some m ->
      (wf_operation xfa m /\ exists op, nth_error (xdefs d) j = Some (XOp op) /\ o_path op = [(O, j)]) \/
      (wf_fragment_definition xfa m /\ exists f, nth_error (xdefs d) j = Some (XFrag f) /\ f_path f = [(O, j)]) \/
      ((wf_type_system_definition xdd m \/ wf_extension xdd m) /\
       nth_error (xdefs d) j = Some (XOther [(O, j)])).
Proof.
  intros o s d c H. unfold parse_text in H.
  destruct (token_stream false s) as [ts| | |] eqn:Et; cbn in H; try discriminate.
  apply (wf_document_xdefs _ _ d). exact (parse_entry_wf EDocument o ts d c H).
Qed.
Print Assumptions C12_rule_parsed_definitions.

(* ---- (d) a rule reads nothing but the extracted data of the document *)
Theorem C12_rule_function_of_document_data : forall d d',
  xdefs d = xdefs d' -> all_spreads d = all_spreads d' -> arg_lists d = arg_lists d' ->
  object_fields d = object_fields d' -> all_rules d = all_rules d'.
Proof.
  intros d d' H1 H2 H3 H4.
  unfold all_rules, rule_executable_definitions, rule_unique_operation_names,
    rule_lone_anonymous_operation, rule_known_fragment_names, rule_unique_fragment_names,
    rule_no_unused_fragments, rule_no_fragment_cycles, rule_unique_variable_names,
    rule_no_undefined_variables, rule_no_unused_variables, rule_unique_argument_names,
    rule_unique_input_field_names.
  rewrite H1, H2, H3, H4. reflexivity.
Qed.
Print Assumptions C12_rule_function_of_document_data.

(* ---- non-vacuity: a parsed document on which ten of the rules report ---- *)
(* query Q($a:Int,$a:Int){...A f(x:$b,x:{y:1,y:2})} {g} fragment A on T{...B}
   fragment B on T{...A ...Z} fragment C on T{f} type T{f:Int} *)
Definition ex_text : list N :=
  [113;117;101;114;121;32;81;40;36;97;58;73;110;116;44;36;97;58;73;110;116;41;123;46;46;46;65;32;102;
   40;120;58;36;98;44;120;58;123;121;58;49;44;121;58;50;125;41;125;32;123;103;125;32;102;114;97;103;
   109;101;110;116;32;65;32;111;110;32;84;123;46;46;46;66;125;32;102;114;97;103;109;101;110;116;32;66;
   32;111;110;32;84;123;46;46;46;65;32;46;46;46;90;125;32;102;114;97;103;109;101;110;116;32;67;32;111;
   110;32;84;123;102;125;32;116;121;112;101;32;84;123;102;58;73;110;116;125].

Example C12_rule_example :
  match parse_text EDocument (mkOpts None false false) ex_text with
  | Ok (d, _) =>
    option_map (map ve_rule) (all_rules d) = Some [1; 3; 4; 6; 7; 8; 9; 10; 10; 11; 12] /\
    option_map (map ve_nodes) (rule_no_fragment_cycles d) =
      Some [[[(0, 2); (0, 0); (0, 0)]; [(0, 3); (0, 0); (0, 0)]]%nat] /\
    Cyclic (frags_of (xdefs d)) [65] /\
    NoDup (map f_name (frags_of (xdefs d)))
  | _ => False
  end.
Proof.
  vm_compute. repeat split.
  - apply t_trans with [66]; apply t_step.
    + eexists _, _. split; [left; reflexivity|]. split; [reflexivity|]. split; [left; reflexivity | reflexivity].
    + eexists _, _. split; [right; left; reflexivity|]. split; [reflexivity|]. split; [left; reflexivity | reflexivity].
  - repeat constructor; cbn; intuition discriminate.
Qed.

(* the hypothesis "unique fragment names" of C12_rule_no_fragment_cycles_silent cannot be dropped:
   `fragment A on T{f} fragment A on T{...A}` - the second A spreads itself, the search looks
   at one definition per name only (the implementation answers [] as well; rule 5 reports the
   duplicate name) *)
Definition ex_dup_text : list N :=
  [102;114;97;103;109;101;110;116;32;65;32;111;110;32;84;123;102;125;32;102;114;97;103;109;101;110;116;
   32;65;32;111;110;32;84;123;46;46;46;65;125].

Example C12_rule_cycles_need_unique_names :
  match parse_text EDocument (mkOpts None false false) ex_dup_text with
  | Ok (d, _) =>
    rule_no_fragment_cycles d = Some [] /\ Cyclic (frags_of (xdefs d)) [65] /\
    rule_unique_fragment_names d <> []
  | _ => False
  end.
Proof.
  vm_compute. repeat split.
  - apply t_step. eexists _, _. split; [right; left; reflexivity|]. split; [reflexivity|].
    split; [left; reflexivity | reflexivity].
  - discriminate.
Qed.

