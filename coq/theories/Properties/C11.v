(* C11 - AST traversal.  Theorems only; proofs in Lang/VisitProps.v, Gen/TableChecks.v. *)
From GV Require Import Base.Prelude Lang.Visit Lang.VisitProps Lang.VisitParallelProps Gen.Tables Gen.TableChecks.

(* A visitor that never returns REMOVE or a replacement (whatever its state and whatever it
   skips or breaks) never produces an edit: the traversal answers "keep", i.e. the caller
   gets the identical input tree back (or the traversal was broken off / out of fuel). *)
Theorem C11_no_edit_identity : forall St decide fuel,
  non_editing St decide -> forall t k p n h s,
  not_edit (fst (visit_tree St decide fuel t k p n h s)).
Proof. intros St decide fuel H. exact (visit_tree_pure St decide fuel H). Qed.
Print Assumptions C11_no_edit_identity.

(* With the all-idle visitor every node reachable through the key tables is entered once
   in depth-first order and left after its children; key, path and number of ancestors of
   each call are those of [dfs_tree]; fuel = depth suffices (no out-of-fuel). *)
Theorem C11_enter_leave_order : forall root,
  visit unit idle_dec (depth_tree root) root tt = (RKeep, tt, dfs_tree root KNone [] 0%nat false).
Proof. exact idle_visit_log. Qed.
Print Assumptions C11_enter_leave_order.

(* QUERY_DOCUMENT_KEYS is complete and exact w.r.t. the node classes (re-swept every run) *)
Theorem C11_keys_complete : keys_missing_count = 0 /\ keys_unknown_count = 0.
Proof. exact keys_complete. Qed.
Print Assumptions C11_keys_complete.

(* ParallelVisitor: every non-editing visitor sees in the parallel run exactly the call sequence it
   sees alone, including after SKIP and BREAK of itself and of the others (distinct node ids: the
   implementation identifies the skipped node by object identity). *)
Theorem C11_parallel_projection : forall fuel root scs i sc,
  Forall script_ne scs -> NoDup (ids_tree root) -> (depth_tree root <= fuel)%nat ->
  nth_error scs i = Some sc ->
  projsub i (snd (visit_parallel fuel root scs)) = proj_log (snd (visit_scripted fuel root sc)).
Proof. exact parallel_projection. Qed.
Print Assumptions C11_parallel_projection.

(* the call sequence of a single scripted non-editing visitor is a structural function of the
   tree: SKIP = no calls below the node and no leave call, BREAK = nothing afterwards *)
Theorem C11_solo_calls : forall sc, script_ne sc -> forall fuel root, (depth_tree root <= fuel)%nat ->
  proj_log (snd (visit_scripted fuel root sc)) = fst (solo_tree sc root).
Proof. exact solo_log. Qed.
Print Assumptions C11_solo_calls.

(* non-vacuity: a root with an absent slot, a single child and an array of two *)
Example C11_example :
  let leaf i := Node 1 i SNil in
  let root := Node 2 1 (SCons SNone (SCons (SOne (leaf 2)) (SCons (SArr (TCons (leaf 3) (TCons (leaf 4) TNil))) SNil))) in
  map c_id (dfs_tree root KNone [] 0%nat false) = [1; 2; 2; 3; 3; 4; 4; 1].
Proof. reflexivity. Qed.
