(* C12 (rules, continued) - four further rules of specified_rules as functions of the parser's AST,
   the presence of the root operation types and the schema's directive table (Valid/RulesDir.v):
     23 KnownOperationTypesRule   24 KnownDirectivesRule   25 UniqueDirectivesPerLocationRule
     26 DeferStreamDirectiveLabel
   Theorems only; proofs in Valid/RulesDirProps.v.  Correspondence with the implementation, each
   rule alone and the three together: harness/crulesdir.py (model `rules`, op 5).

   Vocabulary: Rules.doc_items d = the nodes validate() visits, in order, with their paths;
   RulesDir.chain d p [] = the containers on the way to the node at p, nearest first (the visitor's
   `ancestors` is its tail); RulesSpec.Dup l p0 p = p repeats the key first seen at p0. *)
From GV Require Import Base.Prelude Lang.Lexer Lang.Ast Lang.Parser
  Valid.Rules Valid.RulesSpec Valid.RulesPaths Valid.RulesDir Valid.RulesDirProps.

(* ---- 23 KnownOperationTypes: one error per operation definition whose root type is absent ---- *)
Theorem C12_dirs_known_operation_types : forall ds d e,
  In e (rule_known_operation_types ds d) <->
  exists j n o, nth_error (ddefs d) j = Some n /\ op_code n = Some o /\ has_root ds o = false /\
                e = VE R_KOPT [[(O, j)]].
Proof. exact known_operation_types_In. Qed.
Print Assumptions C12_dirs_known_operation_types.

Theorem C12_dirs_known_operation_types_silent : forall ds d,
  rule_known_operation_types ds d = [] <->
  forall n o, In n (ddefs d) -> op_code n = Some o -> has_root ds o = true.
Proof. exact known_operation_types_nil. Qed.
Print Assumptions C12_dirs_known_operation_types_silent.

(* ---- the `ancestors` of a visited node ---- *)
Theorem C12_dirs_ancestors_defined : forall d it,
  In it (doc_items d) -> exists up, chain d (it_path it) [] = Some up.
Proof. exact doc_items_chain. Qed.
Print Assumptions C12_dirs_ancestors_defined.

Theorem C12_dirs_ancestors_step : forall q n acc i j,
  chain n (q ++ [(i, j)]) acc =
  match chain n q acc, get n q with
  | Some up, Some m =>
    match nth i (attrs_of m) ANone with
    | ANode _ => if (j =? 0)%nat then Some (uitem_of m :: up) else None
    | AList l => match nth_error l j with Some _ => Some (UList :: uitem_of m :: up) | None => None end
    | _ => None
    end
  | _, _ => None
  end.
Proof. exact chain_snoc. Qed.
Print Assumptions C12_dirs_ancestors_step.

(* ---- get_directive_location_for_ast_path: a directive in a tuple of its owner ---- *)
Theorem C12_dirs_location_by_kind : forall d q i j owner l up,
  get d q = Some owner -> chain d q [] = Some up ->
  nth i (attrs_of owner) ANone = AList l -> (j < length l)%nat ->
  kind_of owner <> KOperationDefinition -> kind_of owner <> KInputValueDefinition ->
  kind_of owner <> KVariableDefinition ->
  exists up', chain d (q ++ [(i, j)]) [] = Some up' /\ loc_of (tl up') = Some (kind_loc (kind_of owner)).
Proof. exact directive_location_plain. Qed.
Print Assumptions C12_dirs_location_by_kind.

Theorem C12_dirs_location_operation : forall d q i j owner l up o,
  get d q = Some owner -> chain d q [] = Some up ->
  nth i (attrs_of owner) ANone = AList l -> (j < length l)%nat ->
  kind_of owner = KOperationDefinition -> op_code owner = Some o -> o < 3 ->
  exists up', chain d (q ++ [(i, j)]) [] = Some up' /\ loc_of (tl up') = Some (Some o).
Proof. exact directive_location_operation. Qed.
Print Assumptions C12_dirs_location_operation.

Theorem C12_dirs_location_variable : forall d q0 i0 j0 i j gp l0 vd l up,
  get d q0 = Some gp -> chain d q0 [] = Some up ->
  nth i0 (attrs_of gp) ANone = AList l0 -> nth_error l0 j0 = Some vd ->
  kind_of vd = KVariableDefinition ->
  nth i (attrs_of vd) ANone = AList l -> (j < length l)%nat ->
  exists up', chain d ((q0 ++ [(i0, j0)]) ++ [(i, j)]) [] = Some up' /\
              loc_of (tl up') = Some (Some (if is_kind (kind_of gp) KOperationDefinition then L_VARDEF else L_FRAGVARDEF)).
Proof. exact directive_location_variable. Qed.
Print Assumptions C12_dirs_location_variable.

(* ---- 24 KnownDirectives: one error per visited directive that is unknown (no entry, or an entry
   without locations) or stands at a location it is not declared for ---- *)
Theorem C12_dirs_known_directives : forall ds d lm es e,
  locations_map ds d = Some lm -> rule_known_directives ds d = Some es ->
  (In e es <-> exists it, In it (doc_items d) /\ is_directive (it_node it) = true /\
                          e = VE R_KDIR [it_path it] /\
                          (Unknown lm (dir_name (it_node it)) \/ Misplaced lm d (it_path it) (dir_name (it_node it)))).
Proof. exact known_directives_In. Qed.
Print Assumptions C12_dirs_known_directives.

(* ---- 25 UniqueDirectivesPerLocation: [first, this] for every directive that must be unique and
   repeats a (dictionary, name) key ---- *)
Theorem C12_dirs_unique_directives : forall ds d e,
  In e (rule_unique_directives_per_location ds d) <->
  exists p0 p, Dup (udir_occs ds d) p0 p /\ e = VE R_UDIR [p0; p].
Proof. exact unique_directives_In. Qed.
Print Assumptions C12_dirs_unique_directives.

Theorem C12_dirs_unique_directives_silent : forall ds d,
  rule_unique_directives_per_location ds d = [] <-> UniqueNames (udir_occs ds d).
Proof. exact unique_directives_nil. Qed.
Print Assumptions C12_dirs_unique_directives_silent.

(* the single dictionary of the model separates the implementation's dictionaries *)
Theorem C12_dirs_unique_directives_keys : forall g x g' x', dkey g x = dkey g' x' -> g = g' /\ x = x'.
Proof. exact dkey_inj. Qed.
Print Assumptions C12_dirs_unique_directives_keys.

Theorem C12_dirs_unique_directives_per_node : forall ds d it,
  rule_unique_directives_per_location ds d = [] -> In it (doc_items d) ->
  NoDup (map fst (item_dirs (unique_map ds d) it)).
Proof. exact unique_directives_per_node. Qed.
Print Assumptions C12_dirs_unique_directives_per_node.

(* ---- 26 DeferStreamDirectiveLabel: one error per @defer / @stream whose label is neither null nor
   a string literal; [first, this] for every string label that repeats ---- *)
Theorem C12_dirs_defer_stream_label : forall d e,
  In e (rule_defer_stream_label d) <->
  (exists it p, In it (doc_items d) /\ label_of it = LStatic p /\ e = VE R_LABEL [p]) \/
  (exists p0 p, Dup (labels d) p0 p /\ e = VE R_LABEL [p0; p]).
Proof. exact defer_stream_label_In. Qed.
Print Assumptions C12_dirs_defer_stream_label.

Theorem C12_dirs_defer_stream_label_silent : forall d,
  rule_defer_stream_label d = [] <->
  (forall it p, In it (doc_items d) -> label_of it <> LStatic p) /\ UniqueNames (labels d).
Proof. exact defer_stream_label_nil. Qed.
Print Assumptions C12_dirs_defer_stream_label_silent.

(* ---- non-vacuity ----
   schema: query and mutation types, no subscription type;
           directive @once on FIELD | QUERY | INPUT_FIELD_DEFINITION      (not repeatable)
           directive @rep repeatable on FIELD
   subscription S @once @once @nope { f @rep @rep @once @once ...F @once }
   extend input A { j: Int @once } *)
Definition n_once : str := [111;110;99;101].   Definition n_rep : str := [114;101;112].
Definition ex_ds : dschema :=
  DS [true; true; false] [DI n_once [L_FIELD; L_QUERY; L_INPUTFIELDDEF] false; DI n_rep [L_FIELD] true].
Definition ex_dirs_text : list N :=
  [115;117;98;115;99;114;105;112;116;105;111;110;32;83;32;64;111;110;99;101;32;64;111;110;99;101;32;64;110;111;
   112;101;32;123;32;102;32;64;114;101;112;32;64;114;101;112;32;64;111;110;99;101;32;64;111;110;99;101;32;46;46;
   46;70;32;64;111;110;99;101;32;125;32;101;120;116;101;110;100;32;105;110;112;117;116;32;65;32;123;32;106;58;
   32;73;110;116;32;64;111;110;99;101;32;125].

Example C12_dirs_example :
  match parse_text EDocument (mkOpts None false false) ex_dirs_text with
  | Ok (d, _) =>
    (* subscription is not supported *)
    map ve_nodes (rule_known_operation_types ex_ds d) = [[[(0, 0)]]]%nat /\
    (* @once, @once on SUBSCRIPTION; @nope unknown; @once on FRAGMENT_SPREAD; and the @once on the
       input field of an `extend input`, which get_directive_location_for_ast_path takes for an
       ARGUMENT_DEFINITION (reported as a finding) *)
    option_map (map ve_nodes) (rule_known_directives ex_ds d) =
      Some [[[(0, 0); (4, 0)]]; [[(0, 0); (4, 1)]]; [[(0, 0); (4, 2)]]; [[(0, 0); (0, 0); (0, 1); (0, 0)]];
            [[(0, 1); (2, 0); (4, 0)]]]%nat /\
    (* the second @once of the operation and of the field; @rep may repeat *)
    map ve_nodes (rule_unique_directives_per_location ex_ds d) =
      [[[(0, 0); (4, 0)]; [(0, 0); (4, 1)]];
       [[(0, 0); (0, 0); (0, 0); (0, 2)]; [(0, 0); (0, 0); (0, 0); (0, 3)]]]%nat
  | _ => False
  end.
Proof. vm_compute. repeat split. Qed.

(* { a @defer(label: "x") ... @defer(label: $v) { b @stream(label: "x") c @defer(label: null) } } *)
Definition ex_label_text : list N :=
  [123;32;97;32;64;100;101;102;101;114;40;108;97;98;101;108;58;32;34;120;34;41;32;46;46;46;32;64;100;101;102;
   101;114;40;108;97;98;101;108;58;32;36;118;41;32;123;32;98;32;64;115;116;114;101;97;109;40;108;97;98;101;108;
   58;32;34;120;34;41;32;99;32;64;100;101;102;101;114;40;108;97;98;101;108;58;32;110;117;108;108;41;32;125;32;125].

Example C12_dirs_label_example :
  match parse_text EDocument (mkOpts None false false) ex_label_text with
  | Ok (d, _) =>
    map ve_nodes (rule_defer_stream_label d) =
      [[[(0, 0); (0, 0); (0, 1); (0, 0)]];
       [[(0, 0); (0, 0); (0, 0); (0, 0)]; [(0, 0); (0, 0); (0, 1); (1, 0); (0, 0); (0, 0)]]]%nat
  | _ => False
  end.
Proof. vm_compute. reflexivity. Qed.
