(* C08 - print then parse gives the same value back.  Theorems only.
   Proved here: both string forms.  Quoted: every string of Unicode scalar values, with the
   escape table regenerated from the implementation on every run.  Block: every value in the
   range of the lexer's block-string denotation, both minimize modes, any re-indentation.
   The whole-document round trip is in Properties/ParserThms.v (parser model) and explored. *)
From GV Require Import Base.Prelude Gen.Tables Gen.TableChecks Lang.Lexer Lang.LexerProps
  Lang.PrintString Lang.PrintStringProps Lang.BlockString Lang.BlockStringProps
  Properties.BlockStringThms Lang.Ast Lang.Parser Lang.Unparse Lang.Wf Lang.ParserProps Lang.UnparseProps
  Lang.WfProps Properties.ParserThms Lang.Description Lang.DescriptionProps.

(* For every text of Unicode scalar values, reading print_string's output (from the character
   after the opening quote, at offset pos, with anything following the closing quote) yields
   exactly the text, ends right after the closing quote and leaves the rest untouched. *)
Theorem C08_quoted_roundtrip : forall (s tail : list N) (pos : nat),
  Forall (fun c => is_scalar c = true) s ->
  read_string_loop (S (length (print_string_body s ++ 34 :: tail))) pos []
                   (print_string_body s ++ 34 :: tail)
  = Ok ((pos + length (print_string_body s) + 1)%nat, s, tail).
Proof.
  intros s tail pos H.
  exact (read_printed _ s pos [] tail H (Nat.lt_succ_diag_r _)).
Qed.
Print Assumptions C08_quoted_roundtrip.

(* the obligations on the regenerated escape table that the theorem rests on *)
Theorem C08_escape_table_ok :
  forallb (fun e => in_ranges print_string_passthrough (fst e) || check_entry e) print_string_tbl = true
  /\ forallb (fun c => in_ranges print_string_passthrough c
                       || match lookup_tbl print_string_tbl c with Some _ => true | None => false end)
             (map N.of_nat (seq 0 256)) = true
  /\ existsb (fun r => (fst r <=? 256) && (1114111 <=? snd r)) print_string_passthrough = true.
Proof. exact (conj table_entries_ok (conj table_covers_low passthrough_covers_high)). Qed.
Print Assumptions C08_escape_table_ok.

(* ---- block strings (proofs in Lang/BlockStringProps.v, statements in Properties/BlockStringThms.v) ---- *)
Theorem C08_block_roundtrip :
  forall (raw v : list N) (minimize : bool) (pads : list (list N)) (cu : cursor) (rest : list N),
  block_value raw = Ok v ->
  Forall (fun c => is_scalar c = true) v ->
  Forall (Forall (fun c => is_blank_char c = true)) pads ->
  exists tk cu',
    read_token cu (indent_all pads (print_block_string v minimize) ++ rest) = Ok (tk, cu', rest) /\
    tkind tk = K_BLOCK_STRING /\ thasval tk = true /\ tvalue tk = v /\
    tstart tk = cpos cu /\
    tend tk = (cpos cu + length (indent_all pads (print_block_string v minimize)))%nat /\
    cpos cu' = tend tk.
Proof. exact block_roundtrip. Qed.
Print Assumptions C08_block_roundtrip.

Theorem C08_block_range_char : forall v : list N,
  (in_block_range v = true /\ Forall (fun c => is_scalar c = true) v) <->
  (exists raw, Forall (fun c => is_scalar c = true) raw /\ block_value raw = Ok v).
Proof. exact block_range_char. Qed.
Print Assumptions C08_block_range_char.

Theorem C08_printable_in_range : forall v,
  is_printable_as_block_string v = true -> in_block_range v = true.
Proof. exact printable_in_range. Qed.
Print Assumptions C08_printable_in_range.

(* "any string values" in block form means "any value in the range": these two have no block form *)
Theorem C08_out_of_range_refuted : forall raw,
  block_value raw <> Ok [10] /\ block_value raw <> Ok [32; 97; 10; 32; 98].
Proof. exact out_of_range_refuted. Qed.
Print Assumptions C08_out_of_range_refuted.


(* ---- a string value as the printer emits it (printer.leave_string_value; print_schema.print_description
   chooses block = is_printable_as_block_string(value) and re-indents): for EVERY string of Unicode
   scalar values, whichever form is chosen and under any blank re-indentation, the printed text lexes
   back to one string token with exactly that value, spanning exactly the printed characters.
   (An empty value printed in quoted form must not be followed by a quote.) ---- *)
Theorem C08_quoted_token_roundtrip : forall (s rest : list N) (cu : cursor),
  Forall (fun c => is_scalar c = true) s ->
  (s = [] -> hd_error rest <> Some 34) ->
  read_token cu (print_string s ++ rest) =
  Ok (mk K_STRING cu (cpos cu) (cpos cu + length (print_string s))%nat (Some s),
      mkCur (cpos cu + length (print_string s))%nat (cline cu) (cls cu), rest).
Proof. exact print_string_token. Qed.
Print Assumptions C08_quoted_token_roundtrip.

Theorem C08_description_roundtrip : forall (v indent rest : list N) (cu : cursor),
  Forall (fun c => is_scalar c = true) v ->
  Forall (fun c => is_blank_char c = true) indent ->
  (v = [] -> hd_error rest <> Some 34) ->
  exists tk cu',
    read_token cu (print_description_text v indent ++ rest) = Ok (tk, cu', rest) /\
    thasval tk = true /\ tvalue tk = v /\ tstart tk = cpos cu /\
    tend tk = (cpos cu + length (print_description_text v indent))%nat.
Proof. exact description_roundtrip. Qed.
Print Assumptions C08_description_roundtrip.

(* ---- whole documents, values, types: token-level unparse then parse (proofs in Lang/UnparseProps.v) ----
   tokens_of is the token sequence that print_ast realises up to layout (tied by the correspondence).
   Full grammar: executable, type-system, extensions, mixed, fragment arguments, directives on
   directive definitions. *)
Theorem C08_unparse_parse_roundtrip : forall e o ts x v,
  max_tokens o = None ->
  wf_ast e (exp_fragment_arguments o) (exp_directives_on_directive_definitions o) x ->
  map sig ts = tokens_of x ++ [(K_EOF, v)] ->
  parse_entry e o ts = Ok (x, length (tokens_of x)).
Proof. exact parser_unparse_roundtrip. Qed.
Print Assumptions C08_unparse_parse_roundtrip.

(* wf_ast describes exactly the trees the parser returns ... *)
Theorem C08_parser_output_wf : forall e o ts x c,
  parse_entry e o ts = Ok (x, c) ->
  wf_ast e (exp_fragment_arguments o) (exp_directives_on_directive_definitions o) x.
Proof. exact parser_output_wf. Qed.
Print Assumptions C08_parser_output_wf.

(* as a whole token: lexing the printed string gives one STRING token with that value *)
Example C08_example :
  match lex (print_string [97; 10; 34; 92; 8232; 127; 128512]) with
  | Ok [t; _] => tvalue t = [97; 10; 34; 92; 8232; 127; 128512] /\ tkind t = K_STRING
  | _ => False end.
Proof. vm_compute. split; reflexivity. Qed.
