(* C08 - print then parse gives the same value back.  Theorems only.
   Proved here: the quoted-string form, for every string of Unicode scalar values, with the
   escape table regenerated from the implementation on every run.  The block-string form and
   the whole-document round trip are decided by correspondence/exploration (see DESIGN.md). *)
From GV Require Import Base.Prelude Gen.Tables Gen.TableChecks Lang.Lexer Lang.LexerProps
  Lang.PrintString Lang.PrintStringProps.

(* For every text of Unicode scalar values, reading print_string's output (from the character
   after the opening quote, at offset pos, with anything following the closing quote) yields
   exactly the text, ends right after the closing quote and leaves the rest untouched. *)
Theorem C08_quoted_roundtrip : forall (s tail : list N) (pos : nat),
  Forall (fun c => is_scalar c = true) s ->
  read_string_loop (S (length (print_string_body s ++ 34 :: tail))) pos []
                   (print_string_body s ++ 34 :: tail)
  = Ok ((pos + length (print_string_body s) + 1)%nat, s, tail).
Proof.
  intros s tail pos H.
  exact (read_printed _ s pos [] tail H (Nat.lt_succ_diag_r _)).
Qed.
Print Assumptions C08_quoted_roundtrip.

(* the obligations on the regenerated escape table that the theorem rests on *)
Theorem C08_escape_table_ok :
  forallb (fun e => in_ranges print_string_passthrough (fst e) || check_entry e) print_string_tbl = true
  /\ forallb (fun c => in_ranges print_string_passthrough c
                       || match lookup_tbl print_string_tbl c with Some _ => true | None => false end)
             (map N.of_nat (seq 0 256)) = true
  /\ existsb (fun r => (fst r <=? 256) && (1114111 <=? snd r)) print_string_passthrough = true.
Proof. exact (conj table_entries_ok (conj table_covers_low passthrough_covers_high)). Qed.
Print Assumptions C08_escape_table_ok.

(* as a whole token: lexing the printed string gives one STRING token with that value *)
Example C08_example :
  match lex (print_string [97; 10; 34; 92; 8232; 127; 128512]) with
  | Ok [t; _] => tvalue t = [97; 10; 34; 92; 8232; 127; 128512] /\ tkind t = K_STRING
  | _ => False end.
Proof. vm_compute. split; reflexivity. Qed.
