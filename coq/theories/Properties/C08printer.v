(* C08 (printer part) - print_ast then parse gives the same tree back, at the level of TEXT.
   Theorems only; proofs in Lang/PrinterProps.v.
   Model: Lang/Printer.v (pp = print_ast, written from language/printer.py) over the trees of Lang/Ast.v,
   the lexer model Lang/Lexer.v, the parser model Lang/Parser.v and the token-level unparse Lang/Unparse.v.

   Side conditions on the tree x:
     wf_ast e xfa xdd x   x has the shape of a parser output for entry point e under the experimental flags
                          (Lang/Wf.v; C08_parser_output_wf: exactly the trees the parser returns)
     lex_ok x             the leaves are lexically possible: every Name value is a Name lexeme, every
                          IntValue / FloatValue value is an Int / Float lexeme (it lexes alone to that
                          token), every quoted string value is a string of Unicode scalar values, every
                          block-flagged string value is in the range of the lexer's block-string
                          denotation (C08_block_range_char) with surrogates only in lead-trail pairs.
   A tree built by hand that violates lex_ok (a name "a b", an int "1x", a block string " x") prints to
   a text that denotes a different tree or none; such trees are outside the property. *)
From GV Require Import Base.Prelude Lang.Lexer Lang.LexerProps Lang.BlockString Lang.BlockStringProps
  Lang.StripBlock Lang.Strip Lang.StripProps Lang.Ast Lang.Parser Lang.Unparse Lang.Wf Lang.Printer
  Lang.PrinterProps Lang.PrinterParsed Lang.PrinterCoord Lang.ParserProps Lang.WfProps Lang.UnparseProps Properties.ParserThms.

(* the printed text lexes, and its significant tokens are exactly the token-level unparse of the tree:
   this replaces the re-lex correspondence between tokens_of and print_ast by a proof *)
Theorem C08_print_lexes_to_tokens : forall e xfa xdd x,
  e <> ECoordinate -> wf_ast e xfa xdd x -> lex_ok x ->
  exists ts, lex (pp x) = Ok ts /\ map sig (significant ts) = tokens_of x ++ [(K_EOF, [])].
Proof. exact print_lexes. Qed.
Print Assumptions C08_print_lexes_to_tokens.

(* text-level round trip: parsing the printed text gives the tree back, with the token count of the
   unparse, for every entry point that uses the text lexer and under every flag setting *)
Theorem C08_print_parse_roundtrip : forall e o x,
  e <> ECoordinate -> max_tokens o = None ->
  wf_ast e (exp_fragment_arguments o) (exp_directives_on_directive_definitions o) x -> lex_ok x ->
  parse_text e o (pp x) = Ok (x, length (tokens_of x)).
Proof.
  intros e o x He Hm W Hok.
  destruct (print_lexes e _ _ x He W Hok) as (ts & El & Hs).
  rewrite (parse_text_lex e o (pp x) ts He El).
  exact (parse_entry_roundtrip e o (significant ts) x [] Hm W Hs).
Qed.
Print Assumptions C08_print_parse_roundtrip.

(* with a token limit: accepted as soon as the limit is at least the number of tokens of the tree *)
Theorem C08_print_parse_roundtrip_limited : forall e o n x,
  e <> ECoordinate ->
  wf_ast e (exp_fragment_arguments o) (exp_directives_on_directive_definitions o) x -> lex_ok x ->
  (length (tokens_of x) <= n)%nat ->
  parse_text e (with_max o (Some n)) (pp x) = Ok (x, length (tokens_of x)).
Proof.
  intros e o n x He W Hok Hn.
  destruct (print_lexes e _ _ x He W Hok) as (ts & El & Hs).
  rewrite (parse_text_lex e _ (pp x) ts He El).
  exact (parser_unparse_roundtrip_limited e o n (significant ts) x [] W Hs Hn).
Qed.
Print Assumptions C08_print_parse_roundtrip_limited.

(* printing is a fixed point of parse-then-print *)
Theorem C08_print_fixed_point : forall e o x x' c,
  e <> ECoordinate -> max_tokens o = None ->
  wf_ast e (exp_fragment_arguments o) (exp_directives_on_directive_definitions o) x -> lex_ok x ->
  parse_text e o (pp x) = Ok (x', c) -> x' = x /\ pp x' = pp x.
Proof.
  intros e o x x' c He Hm W Hok H.
  rewrite (C08_print_parse_roundtrip e o x He Hm W Hok) in H. inversion H; subst. split; reflexivity.
Qed.
Print Assumptions C08_print_fixed_point.

(* schema coordinates (their own lexer: names and . ( ) : @, nothing ignored) *)
Theorem C08_print_parse_roundtrip_coordinate : forall o x,
  max_tokens o = None -> wf_coordinate x -> lex_ok x ->
  parse_text ECoordinate o (pp x) = Ok (x, length (tokens_of x)).
Proof.
  intros o x Hm W Hok. destruct (print_coordinate_tokens x W Hok) as (ts & E & Hs).
  unfold parse_text. rewrite E. cbn [obind].
  exact (parse_entry_roundtrip ECoordinate o ts x [] Hm W Hs).
Qed.
Print Assumptions C08_print_parse_roundtrip_coordinate.

(* the side conditions are no restriction on parsed trees: whatever the parser returns for a source text of
   Unicode scalar values is well formed (C08_parser_output_wf) and satisfies lex_ok *)
Theorem C08_parsed_lex_ok : forall e o s x c,
  e <> ECoordinate -> Forall (fun ch => is_scalar ch = true) s -> parse_text e o s = Ok (x, c) -> lex_ok x.
Proof.
  intros e o s x c He Hs H. pose proof (lex_total s) as T.
  destruct (lex s) as [ts|q| |] eqn:El; try contradiction.
  - rewrite (parse_text_lex e o s ts He El) in H.
    exact (parse_entry_lex_ok e o (significant ts) x c He (lex_tok_ok s ts Hs El) H).
  - destruct (parser_unlexable_rejected e o s q He El) as (p & Hp). congruence.
Qed.
Print Assumptions C08_parsed_lex_ok.

(* hence parse, print, parse is the identity on every text of Unicode scalar values that parses
   (whatever the token limit of the first parse), and printing the re-parsed tree gives the same text *)
Theorem C08_parse_print_parse : forall e o s x c,
  e <> ECoordinate -> Forall (fun ch => is_scalar ch = true) s -> parse_text e o s = Ok (x, c) ->
  parse_text e (with_max o None) (pp x) = Ok (x, length (tokens_of x)).
Proof.
  intros e o s x c He Hs H.
  assert (Hok : lex_ok x) by (eapply C08_parsed_lex_ok; eauto).
  assert (W : wf_ast e (exp_fragment_arguments o) (exp_directives_on_directive_definitions o) x).
  { pose proof (lex_total s) as T. destruct (lex s) as [ts|q| |] eqn:El; try contradiction.
    - rewrite (parse_text_lex e o s ts He El) in H. exact (parse_entry_wf e o _ x c H).
    - destruct (parser_unlexable_rejected e o s q He El) as (p & Hp). congruence. }
  exact (C08_print_parse_roundtrip e (with_max o None) x He eq_refl W Hok).
Qed.
Print Assumptions C08_parse_print_parse.

(* the printed text of a document never uses the query short form where it would be read as the
   continuation of the previous definition: instance with a type definition without fields *)
Example C08_print_example :
  let name s := Nd KName [AStr s] in
  let sel := Nd KSelectionSet [AList [Nd KField [ANone; ANode (name [97]); ANone; ANone; ANone]]] in
  let d := Nd KDocument [AList
    [Nd KObjectTypeDefinition [ANode (name [84]); ANode (Nd KStringValue [AStr [100; 10; 32; 101]; ABool true]); ANone; ANone; ANone];
     Nd KOperationDefinition [ANode sel; ANone; ANone; ANone; ANone; AEnum 0]]] in
  wf_document false false d /\
  pp d = [34; 34; 34; 10; 100; 10; 32; 101; 10; 34; 34; 34; 10; 116; 121; 112; 101; 32; 84; 10; 10;
          113; 117; 101; 114; 121; 32; 123; 10; 32; 32; 97; 10; 125] /\
  parse_text EDocument (mkOpts None false false) (pp d) = Ok (d, length (tokens_of d)).
Proof.
  cbv zeta. split; [|split; vm_compute; reflexivity].
  apply wf_document_intro.
  - apply wf_def_type_system, wf_object_def; repeat constructor.
  - constructor; [|constructor]. apply wf_def_operation. constructor; repeat constructor.
Qed.
