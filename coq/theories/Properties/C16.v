(* C16 - leaf results are serialised within the specification's value domains.
   Theorems only; proofs live in Types/ScalarsProps.v.  Model: Types/Scalars.v.

   Every theorem is universally quantified over the four oracles
     pi : text -> option Z        int(s)       (None = ValueError)
     pf : text -> option pyfloat  float(s)     (None = ValueError)
     fs : pyfloat -> text         str(x)
     md : N                       sys.get_int_max_str_digits()
   and over all Python values of the universe [pyval] (ints unbounded, floats exact dyadics
   or nan/inf, strings, bytes, lists, dicts, opaque objects, None, Undefined). *)
From GV Require Import Base.Prelude Types.Scalars Types.ScalarsProps.

Local Open Scope Z_scope.

(* Int: an integer within 32 bits *)
Theorem C16_int_range : forall pi pf fs md v o,
  serialize pi pf fs md SInt v = COk o -> exists z, o = PInt z /\ - 2 ^ 31 <= z <= 2 ^ 31 - 1.
Proof. intros pi pf fs md v o. exact (serialize_in_domain pi pf fs md SInt v o). Qed.
Print Assumptions C16_int_range.

(* Float: a finite number (the int 0/1 for a bool, else a finite float), never nan/inf *)
Theorem C16_float_finite : forall pi pf fs md v o,
  serialize pi pf fs md SFloat v = COk o ->
  (exists z, o = PInt z /\ (z = 0 \/ z = 1)) \/ (exists n m e, o = PFloat (FFin n m e)).
Proof. intros pi pf fs md v o. exact (serialize_in_domain pi pf fs md SFloat v o). Qed.
Print Assumptions C16_float_finite.

(* every scalar: the emitted value lies in the type's domain (String/ID text, Boolean a bool) *)
Theorem C16_types : forall pi pf fs md sc v o,
  serialize pi pf fs md sc v = COk o -> in_domain sc o.
Proof. exact serialize_in_domain. Qed.
Print Assumptions C16_types.

(* ... or else a field error: there is no third outcome *)
Theorem C16_errors_only_otherwise : forall pi pf fs md sc v,
  serialize pi pf fs md sc v = CErr \/
  exists o, serialize pi pf fs md sc v = COk o /\ in_domain sc o.
Proof. exact serialize_domain_or_error. Qed.
Print Assumptions C16_errors_only_otherwise.

(* no silent precision loss, int -> Float: accepted exactly when the int is a binary64 value
   (|z| = m * 2^k with m < 2^53, |z| < 2^1024), and then the float emitted has exactly value z *)
Theorem C16_no_precision_loss_int_to_float : forall pi pf fs md z,
  (forall o, serialize pi pf fs md SFloat (PInt z) = COk o ->
     o = PFloat (float_of_int z) /\ f_int_value (float_of_int z) = Some z /\ binary64_int z)
  /\ (binary64_int z -> serialize pi pf fs md SFloat (PInt z) = COk (PFloat (float_of_int z))).
Proof.
  intros. split; [apply float_of_int_exact | apply float_of_int_complete].
Qed.
Print Assumptions C16_no_precision_loss_int_to_float.

(* float -> Int and number -> ID: only integral floats, the integer emitted is the exact value;
   an int passes through Int unchanged *)
Theorem C16_no_precision_loss_to_int : forall pi pf fs md,
  (forall f o, serialize pi pf fs md SInt (PFloat f) = COk o ->
     exists z, o = PInt z /\ f_int_value f = Some z)
  /\ (forall z o, serialize pi pf fs md SInt (PInt z) = COk o -> o = PInt z)
  /\ (forall f o, serialize pi pf fs md SID (PFloat f) = COk o ->
     exists z s, f_int_value f = Some z /\ int_str md z = Some s /\ o = PStr s)
  /\ (forall z o, serialize pi pf fs md SID (PInt z) = COk o ->
     exists s, int_str md z = Some s /\ o = PStr s).
Proof.
  intros. split; [apply int_of_float_exact|]. split; [apply int_of_int_same|].
  split; intros x o H; exact (id_of_number_exact pi pf fs md _ o H).
Qed.
Print Assumptions C16_no_precision_loss_to_int.

(* [f_int_value] is the exact value of the dyadic: meaning of the two statements above *)
Theorem C16_f_int_value_exact : forall n m e z,
  f_int_value (FFin n m e) = Some z ->
  (0 <= e /\ z = signed n (Z.of_N m * 2 ^ e)) \/
  (e < 0 /\ Z.of_N m = Z.abs z * 2 ^ (- e) /\ z = signed n (Z.abs z)).
Proof. exact f_int_value_exact. Qed.
Print Assumptions C16_f_int_value_exact.

(* a value emitted by a scalar is accepted back by the same scalar's input coercion, with the
   same meaning (identical, or the float with the same exact value for the int 0/1 of Float) *)
Theorem C16_reaccepted : forall pi pf fs md sc v o,
  serialize pi pf fs md sc v = COk o ->
  exists o', coerce_input md sc o = COk o' /\ same_meaning o o'.
Proof. exact serialize_reaccepted. Qed.
Print Assumptions C16_reaccepted.

(* enum: the result is one of the declared value names, namely of a member whose internal value
   (its name, if it has none) equals the resolver's value by Python == *)
Theorem C16_enum_declared_name : forall e v o,
  enum_output e v = COk o ->
  exists name val, o = PStr name /\ In (name, val) e /\ In name (map fst e) /\
    (pyeq (lookup_key name val) v = true \/ pyeq val v = true).
Proof.
  intros e v o H. destruct (enum_output_declared e v o H) as [n [E I]].
  destruct (enum_output_member e v o H) as [name [val [-> [A B]]]].
  inversion E; subst. exists n, val. auto.
Qed.
Print Assumptions C16_enum_declared_name.

Theorem C16_enum_reaccepted : forall e v o,
  NoDup (map fst e) -> enum_output e v = COk o ->
  exists name val, o = PStr name /\ enum_input e o = COk val /\
    (pyeq (lookup_key name val) v = true \/ pyeq val v = true).
Proof. exact enum_reaccepted. Qed.
Print Assumptions C16_enum_reaccepted.

(* complete_value on a leaf field: null for None/Undefined, else exactly the coercer's outcome;
   the "coercer returned None" TypeError is unreachable for built-in scalars and enums *)
Theorem C16_complete_leaf_scalar : forall pi pf fs md sc v,
  match complete_leaf (serialize pi pf fs md sc) v with
  | COk o => (is_null v = true /\ o = PNone)
             \/ (is_null v = false /\ serialize pi pf fs md sc v = COk o /\ in_domain sc o)
  | CErr => is_null v = false /\ serialize pi pf fs md sc v = CErr
  end.
Proof. exact complete_leaf_scalar. Qed.
Print Assumptions C16_complete_leaf_scalar.

Theorem C16_complete_leaf_enum : forall e v,
  match complete_leaf (enum_output e) v with
  | COk o => (is_null v = true /\ o = PNone)
             \/ (is_null v = false /\ exists name, o = PStr name /\ In name (map fst e))
  | CErr => is_null v = false /\ enum_output e v = CErr
  end.
Proof. exact complete_leaf_enum. Qed.
Print Assumptions C16_complete_leaf_enum.

(* ------------------------------------------------------------------ non-vacuity *)
Local Close Scope Z_scope.
Section Examples.
  Let pi : text -> option Z := fun _ => Some 1000%Z.          (* int("1_000") *)
  Let pf : text -> option pyfloat := fun _ => Some (FFin false 125 3%Z).  (* float("1e3") *)
  Let fs : pyfloat -> text := fun _ => [49; 46; 53].         (* "1.5" *)
  Let md : N := 4300%N.

  Example C16_ex_int_of_float :
    serialize pi pf fs md SInt (PFloat (FFin true 3 1%Z)) = COk (PInt (-6)%Z).
  Proof. reflexivity. Qed.
  Example C16_ex_int_out_of_range : serialize pi pf fs md SInt (PInt (2 ^ 31)%Z) = CErr.
  Proof. reflexivity. Qed.
  Example C16_ex_int_of_fraction : serialize pi pf fs md SInt (PFloat (FFin false 3 (-1)%Z)) = CErr.
  Proof. reflexivity. Qed.
  Example C16_ex_float_of_string :
    serialize pi pf fs md SFloat (PStr [49; 101; 51]) = COk (PFloat (FFin false 125 3%Z)).
  Proof. reflexivity. Qed.
  Example C16_ex_float_2_53_plus_1 : serialize pi pf fs md SFloat (PInt (2 ^ 53 + 1)%Z) = CErr.
  Proof. vm_compute. reflexivity. Qed.
  Example C16_ex_float_2_53_plus_2 :
    serialize pi pf fs md SFloat (PInt (2 ^ 53 + 2)%Z) = COk (PFloat (FFin false (2 ^ 52 + 1) 1%Z)).
  Proof. vm_compute. reflexivity. Qed.
  Example C16_ex_float_nan : serialize pi pf fs md SFloat (PFloat FNan) = CErr.
  Proof. reflexivity. Qed.
  Example C16_ex_id_of_int : serialize pi pf fs md SID (PInt (-120)%Z) = COk (PStr [45; 49; 50; 48]).
  Proof. vm_compute. reflexivity. Qed.
  Example C16_ex_string_of_list : serialize pi pf fs md SString (PList []) = CErr.
  Proof. reflexivity. Qed.
  (* True == 1 == 1.0: the first member with an equal value wins; unhashable values are scanned *)
  Example C16_ex_enum :
    let e := [([65], PInt 1%Z); ([66], PBool true); ([67], PList [PFloat (FFin false 1 0%Z)]); ([68], PNone)] in
    enum_output e (PFloat (FFin false 1 0%Z)) = COk (PStr [65])
    /\ enum_output e (PBool true) = COk (PStr [65])
    /\ enum_output e (PList [PInt 1%Z]) = COk (PStr [67])
    /\ enum_output e (PStr [68]) = COk (PStr [68])
    /\ enum_output e (PInt 2%Z) = CErr.
  Proof. vm_compute. repeat split. Qed.
  (* a tuple and a list with equal items are different values: (1, 1) != [1, 1] *)
  Example C16_ex_enum_tuple :
    enum_output [([85], PTuple [PInt 1%Z; PInt 1%Z])] (PList [PInt 1%Z; PInt 1%Z]) = CErr
    /\ (let e := [([84], PTuple [PInt 1%Z; PInt 2%Z]); ([76], PList [PInt 1%Z; PInt 2%Z])] in
        enum_output e (PList [PInt 1%Z; PInt 2%Z]) = COk (PStr [76])
        /\ enum_output e (PTuple [PFloat (FFin false 1 0%Z); PInt 2%Z]) = COk (PStr [84]))
    /\ hashable (PTuple [PList []]) = false.
  Proof. vm_compute. repeat split. Qed.
End Examples.
