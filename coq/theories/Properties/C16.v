(* C16 - placeholder while the model is being tied *)
From GV Require Import Base.Prelude Types.Scalars.
Example C16_example : serialize_int (fun _ => None) (PBool true) = COk (PInt 1%Z).
Proof. reflexivity. Qed.
