(* C13 - a document that passes validation cannot go wrong at execution time.
   Theorems only; proofs in Exec/Soundness.v (and Exec/SpecProps.v for the shape).

   [well_typed s d] is the model's typing judgment for the validation rules execution depends on
   (Exec/Typing.v); harness/c13.py checks on every run that validate(schema, doc) == [] implies it.
   [well_typed_at s d cv] is the same judgment evaluated with the knowledge which variables of
   nullable type are null at run time: it differs from [well_typed] exactly when such a variable
   sits in a non-null position (legal because a default exists) - the one case the specification
   defers to run time.  [conforms_root] says the data graph matches the schema's types.
   Statements hold for every fuel and speak about runs that return a response. *)
From GV Require Import Base.Prelude Exec.Value Exec.Schema Exec.Spec Exec.SpecProps Exec.Typing
  Exec.Soundness.

(* TOTAL for the modelled fragment (objects, interfaces, unions, enums, scalars, lists, non-null,
   arguments, variables with defaults, fragments, inline fragments, @skip/@include, aliases):
   no errors, and data is an object of the prescribed shape. *)
Theorem C13_sound : forall fuel s d vars root cv rt j es cs,
  schema_ok s = true ->
  coerce_variable_values s (d_vars d) vars = Some cv ->
  well_typed_at s d cv = true ->
  root_type s (d_kind d) = Some rt ->
  conforms_root s rt root = true ->
  execute_fuel fuel s d vars root = Resp j es cs ->
  es = [] /\ j <> JNull.
Proof. exact soundness. Qed.
Print Assumptions C13_sound.

Theorem C13_sound_static : forall fuel s d vars root cv rt j es cs,
  schema_ok s = true ->
  well_typed s d = true ->
  coerce_variable_values s (d_vars d) vars = Some cv ->
  nulls_of (d_vars d) cv = [] ->
  root_type s (d_kind d) = Some rt ->
  conforms_root s rt root = true ->
  execute_fuel fuel s d vars root = Resp j es cs ->
  es = [] /\ j <> JNull.
Proof. exact soundness_static. Qed.
Print Assumptions C13_sound_static.

(* ... and the response has exactly the shape the selection set and the types prescribe (this part
   needs no hypothesis on the document or the data: C02) *)
Theorem C13_shape : forall fuel s d vars root j es cs,
  execute_fuel fuel s d vars root = Resp j es cs -> j <> JNull ->
  exists cv tn kvs,
    coerce_variable_values s (d_vars d) vars = Some cv /\ root_type s (d_kind d) = Some tn /\
    j = JObj kvs /\ shaped_obj s (d_frags d) cv tn (d_sels d) kvs.
Proof.
  intros fuel s d vars root j es cs H Hn.
  destruct (response_invariants _ _ _ _ _ _ _ _ H) as [cv [tn [H1 [H2 [[->|[kvs [-> H3]]] _]]]]];
    [congruence | exists cv, tn, kvs; repeat split; assumption].
Qed.
Print Assumptions C13_shape.

(* With ARBITRARY data: every field execution can reach has a defined field and arguments that
   coerce - an error is never attributable to an argument, a variable or an unknown field of a
   well-typed operation.  (The remaining sources of field errors in Spec.complete are properties
   of the data: raising resolver, null in a non-null position, non-list, unserialisable leaf,
   unresolvable runtime type; harness/c13.py classifies every error of /repo accordingly.) *)
Theorem C13_arguments_coerce : forall s frags vdefs cv rt top k f,
  schema_ok s = true -> cv_ok vdefs cv ->
  set_typed s frags vdefs (nulls_of vdefs cv) rt top ->
  reach s frags rt top k f ->
  str_eqb (fs_name f) n_typename = false ->
  exists fd args, lookup_field s rt (fs_name f) = Some fd /\
                  coerce_args s cv (f_args fd) (fs_args f) = Some args.
Proof. exact arguments_coerce. Qed.
Print Assumptions C13_arguments_coerce.

(* ... hence, with ARBITRARY data, no error of a well-typed operation has the cause "argument
   coercion failed": every error carries one of the data causes of Spec.cause. *)
Theorem C13_errors_attributable : forall fuel s d vars root cv j es cs,
  schema_ok s = true ->
  coerce_variable_values s (d_vars d) vars = Some cv ->
  well_typed_at s d cv = true ->
  execute_fuel fuel s d vars root = Resp j es cs ->
  Forall (fun e : err => snd e <> CauseArgs) es.
Proof. exact errors_attributable. Qed.
Print Assumptions C13_errors_attributable.

(* the boolean checker run by the harness decides (soundly) the declarative judgment *)
Theorem C13_checker_sound : forall s frags vdefs nulls fuel rt sels,
  check_set s frags vdefs nulls fuel rt sels = true -> set_typed s frags vdefs nulls rt sels.
Proof. exact check_set_sound. Qed.
Print Assumptions C13_checker_sound.

(* the extracted shape predicate the harness evaluates on /repo's responses implies [shaped] *)
Theorem C13_shape_checker_sound : forall s frags cv fuel t sels j,
  shape_ok s frags cv fuel t sels j = true -> shaped s frags cv t sels j.
Proof. intros s frags cv fuel. exact (proj1 (shape_ok_sound s frags cv fuel)). Qed.
Print Assumptions C13_shape_checker_sound.

(* accepted variable values are what the theorem needs of them *)
Theorem C13_variables : forall s vdefs given cv,
  nodup_names (map v_name vdefs) = true ->
  coerce_variable_values s vdefs given = Some cv -> cv_ok vdefs cv.
Proof. exact coerce_vars_ok. Qed.
Print Assumptions C13_variables.

(* ---- witnesses:  type Q { f(x: Int! = 7): Int }   query ($v: Int = 1) { f(x: $v) } ---- *)
Definition ex_q : str := [81].
Definition ex_f : str := [102].
Definition ex_x : str := [120].
Definition ex_v : str := [118].
Definition ex_schema : schema :=
  mkSchema [(ex_q, TObject [mkField ex_f (TNamed n_Int)
                              [mkArg ex_x (TNonNull (TNamed n_Int)) (Some (VInt 7))]] [])] ex_q None.
Definition ex_doc : document :=
  mkDoc OpQuery [mkVar ex_v (TNamed n_Int) (Some (VInt 1))]
        [SField None ex_f [(ex_x, VVar ex_v)] [] []] [].
Definition ex_root : data := DObj [] [(ex_f, DLeaf (LInt 5))].

(* the hypotheses of C13_sound are satisfiable, and the conclusion is what execution gives *)
Example C13_example :
  schema_ok ex_schema = true /\
  coerce_variable_values ex_schema (d_vars ex_doc) [] = Some [(ex_v, VInt 1)] /\
  well_typed_at ex_schema ex_doc [(ex_v, VInt 1)] = true /\
  conforms_root ex_schema ex_q ex_root = true /\
  execute ex_schema ex_doc [] ex_root
  = Resp (JObj [(ex_f, JInt 5)]) [] [([PKey ex_f], ex_f, [(ex_x, VInt 1)])].
Proof. vm_compute. repeat split. Qed.

(* the exception is exact: the same operation with $v explicitly null is accepted by the static
   judgment, rejected by the judgment at run time, and does produce the deferred error *)
Example C13_exception_is_exact :
  well_typed ex_schema ex_doc = true /\
  coerce_variable_values ex_schema (d_vars ex_doc) [(ex_v, VNull)] = Some [(ex_v, VNull)] /\
  well_typed_at ex_schema ex_doc [(ex_v, VNull)] = false /\
  conforms_root ex_schema ex_q ex_root = true /\
  execute ex_schema ex_doc [(ex_v, VNull)] ex_root = Resp (JObj [(ex_f, JNull)]) [([PKey ex_f], CauseArgs)] [].
Proof. vm_compute. repeat split. Qed.
