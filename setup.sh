#!/bin/sh
# Build the framework offline from files on disk: table sweep from /repo, full .vo build of everything the
# registered checks need (Properties/<id>.vo, the extraction files of their models and all dependencies),
# OCaml drivers.  Files of checks that are not registered in MANIFEST.json are built too but cannot fail setup.
cd "$(dirname "$0")" || exit 2
PYTHONPATH=/verif:/repo/src PYTHONHASHSEED=0 PYTHONDONTWRITEBYTECODE=1 exec /venv/bin/python - <<'PY'
import json, sys
from harness import common
reg = json.load(open(common.VERIF / "harness" / "registry.json"))
ok = True
models = sorted({m for ms in reg.values() for m in ms})
targets = [f"theories/Properties/{pid}.vo" for pid in reg]
try:
    extra = json.load(open(common.VERIF / "harness" / "registry_extra.json"))
except OSError:
    extra = {}
targets += [f"theories/Properties/{n}.vo" for pid, ns in extra.items() if pid in reg for n in ns]
r = common.build("SETUP", models=tuple(models), extra_targets=tuple(targets), timeout=3000)
print(r.log[-2000:])
if not r.ok:
    print("SETUP FAILED at", r.failed_file)
    ok = False
bad = common.scan_forbidden(common.dep_closure([f"Properties/{pid}.v" for pid in reg]
                                               + [f"Properties/{n}.v" for ns in extra.values() for n in ns]))
if bad:
    print("forbidden constructs:", bad)
    ok = False
# best effort: everything else (work in progress of unregistered checks); never fails setup
r2 = common.build(None, timeout=3000)
print("full build of all theories:", "ok" if r2.ok else f"incomplete ({r2.failed_file})")
sys.exit(0 if ok else 1)
PY
