#!/bin/sh
# Build the framework offline from files on disk: table sweep from /repo, full .vo build, extraction, OCaml driver.
cd "$(dirname "$0")" || exit 2
PYTHONPATH=/verif:/repo/src PYTHONHASHSEED=0 PYTHONDONTWRITEBYTECODE=1 exec /venv/bin/python - <<'PY'
import sys
from harness import common
r = common.build(None)
print(r.log[-3000:])
bad = common.scan_forbidden()
if bad:
    print("forbidden constructs:", bad)
sys.exit(0 if r.ok and not bad else 1)
PY
