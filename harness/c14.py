"""C14 - the overlapping-fields rule accepts exactly what the specification's
FieldsInSetCanMerge / SameResponseShape accepts; PairSet / OrderedPairSet laws."""
from __future__ import annotations

import json
import signal
import time

from . import common
from .common import Check, Model, cps

ASSUMPTIONS = [
    "C14 model: Valid/Overlap.v, the specification's FieldsInSetCanMerge/SameResponseShape (section 5.3.2) over a compact "
    "schema/document model, written from the specification text; names are interned to integers by the harness (only "
    "name equality is observed); field ids identify field occurrences (checked unique by the extracted entry)",
    "cyclic fragment spreads are outside the specification's defined domain; the model reads it as: each fragment is "
    "visited once per collected set, and a field pair already under comparison on the current chain is not compared again "
    "(a conflict exists iff a finite chain of nested pairs ends in a direct conflict)",
    "the memoised algorithm of the implementation (steps A-J with PairSet/OrderedPairSet, field maps per selection set) is "
    "modelled in Valid/OverlapOpt.v and tied to the real rule by verdict, by the sequence of memo has/add decisions and by the "
    "final memo tables (read from a subclass of the rule instance; if these internals are not readable the tie degrades to the "
    "verdict). Its equivalence with the specification function is proved for all typable well-formed documents, cyclic "
    "fragments included (C14_equiv = C14_memo_never_hides + C14_memo_sound); the run still compares extracted opt_conflicts "
    "with extracted spec_conflicts on every document as a check of harness and encoding",
    "out of the modelled fragment (skipped, counted): fields or type conditions the schema cannot type, __schema/__type, "
    "unknown or duplicate fragments, duplicate argument/input-field names, block strings in arguments, @stream, "
    "fragment variable definitions / spread arguments (experimental syntax)",
    "literal arguments are identical iff same kind and same source text after sorting input-object keys (1 vs 1.0 differ)",
]

GUARD_S = 10.0
OPT_FUEL = 20000


# --------------------------------------------------------------------------- generators

LEAVES = ["Int", "String", "Boolean", "Float", "ID", "E", "S"]
WRAPS = ["{}", "{}", "{}!", "[{}]", "[{}]!", "[{}!]", "[[{}]]"]
ARGS_DEF = "(x: Int, y: In, z: [Int], w: String)"
LEAF_FIELDS = ["a", "b", "c", "d"]
COMP_FIELDS = ["n", "m", "k"]
# families of argument lists: (members that are identical up to argument / input-field order, near misses)
ARG_FAMILIES = [
    (["(x: 1)"], ["(x: 2)", "(x: 1.0)", "(x: A)", '(x: "1")']),
    (["(x: $v)"], ["(x: $w)", "(x: 1)", "(x: [$v])"]),
    (["(y: {p: 1, r: [1, 2]})", "(y: {r: [1, 2], p: 1})"], ["(y: {p: 1, r: [2, 1]})"]),
    (["(y: {p: 1, q: {p: 2, r: []}})", "(y: {q: {r: [], p: 2}, p: 1})", "(y: {q: {p: 2, r: []}, p: 1})"],
     ["(y: {q: {r: [], p: 3}, p: 1})"]),
    (["(y: {p: $v, q: {p: $w}})", "(y: {q: {p: $w}, p: $v})"], ["(y: {q: {p: $v}, p: $w})"]),
    (['(x: 1, w: "s")', '(w: "s", x: 1)'], ['(w: "s")', '(x: 1, w: null)', '(w: "s", x: 2)']),
    (['(w: "1")'], ["(w: 1)", "(w: null)", "(w: A)", '(w: "A")', '(w: "null")']),
    (["(z: [1, $v])"], ["(z: [$v, 1])", "(z: [])", "(z: [[]])"]),
    (["(y: {a1: 1, a10: 2, a2: 3})", "(y: {a10: 2, a2: 3, a1: 1})", "(y: {a2: 3, a1: 1, a10: 2})"],
     ["(y: {a10: 2, a2: 3, a1: 2})"]),
    (["(z: [{p: 1, q: {r: [1], p: 2}}])", "(z: [{q: {p: 2, r: [1]}, p: 1}])"], ["(z: [{q: {p: 2, r: [1]}}, {p: 1}])"]),
    (["(x: 1, y: {p: 1, r: []}, w: null)", "(w: null, y: {r: [], p: 1}, x: 1)"], ["(w: null, y: {r: [], p: 1})"]),
    (["(y: {l: [{p: 1, a1: 2}]})", "(y: {l: [{a1: 2, p: 1}]})"], ["(y: {l: [{a1: 1, p: 2}]})"]),
    (["(y: {l: [{p: 1, q: {a1: 1, a2: 2}}, {p: 2}], p: 3})", "(y: {p: 3, l: [{q: {a2: 2, a1: 1}, p: 1}, {p: 2}]})"],
     ["(y: {p: 3, l: [{p: 2}, {q: {a2: 2, a1: 1}, p: 1}]})"]),
    (["(y: {ll: [[{p: 1, r: [2]}], []]})", "(y: {ll: [[{r: [2], p: 1}], []]})"], ["(y: {ll: [[], [{r: [2], p: 1}]]})"]),
    (["(z: [[{p: 1, q: {p: 2, a1: 3}}]])", "(z: [[{q: {a1: 3, p: 2}, p: 1}]])"], ["(z: [[{q: {a1: 3, p: 2}}], [{p: 1}]])"]),
]


def random_arg_family(rng):
    """A random nested argument value rendered with the input-object keys permuted independently at every
    nesting level (objects inside lists inside objects, lists of lists, ...), plus near misses."""
    keys = ["p", "q", "r", "l", "ll", "a1", "a2", "a10"]
    leaves = ["1", "2", "$v", "$w", '"s"', "null", "true", "A", "1.5"]

    def tree(depth):
        r = rng.random()
        if depth <= 0 or r < 0.2:
            return ("leaf", rng.choice(leaves))
        if r < 0.6:
            ks = rng.sample(keys, rng.randint(2, 3))
            return ("obj", [(k, tree(depth - 1)) for k in ks])
        return ("list", [tree(depth - 1) for _ in range(rng.randint(1, 2))])

    def render(t, shuffle):
        if t[0] == "leaf":
            return t[1]
        if t[0] == "list":
            return "[" + ", ".join(render(x, shuffle) for x in t[1]) + "]"
        fs = list(t[1])
        if shuffle:
            rng.shuffle(fs)
        return "{" + ", ".join(f"{k}: {render(v, shuffle)}" for k, v in fs) + "}"

    def mutate_leaf(t):
        """Change one leaf (or swap two list items): a value that is really different."""
        if t[0] == "leaf":
            return ("leaf", rng.choice([x for x in leaves if x != t[1]]))
        if t[0] == "list":
            if len(t[1]) >= 2 and rng.random() < 0.4 and t[1][0] != t[1][1]:
                return ("list", [t[1][1], t[1][0]] + t[1][2:])
            i = rng.randrange(len(t[1]))
            return ("list", [mutate_leaf(x) if j == i else x for j, x in enumerate(t[1])])
        i = rng.randrange(len(t[1]))
        return ("obj", [(k, mutate_leaf(v)) if j == i else (k, v) for j, (k, v) in enumerate(t[1])])

    # make sure there is an object below a list below an object, or a list of lists, most of the time
    for _ in range(8):
        t = ("obj", [("l", tree(3)), (rng.choice(["p", "q"]), tree(2))]) if rng.random() < 0.5 else tree(4)
        txt = render(t, False)
        if "[{" in txt or "[[" in txt:
            break
    name = rng.choice(["y", "z"])
    eq = [f"({name}: {render(t, False)})"] + [f"({name}: {render(t, True)})" for _ in range(3)]
    ne = [f"({name}: {render(mutate_leaf(t), True)})" for _ in range(2)]
    return (eq, ne)


DIRECTIVES = [" @include(if: $c)", " @skip(if: true)", " @dir(a: 1)", " @dir(a: 2)", " @include(if: true) @dir"]


class SchemaInfo:
    def __init__(self, sdl, schema):
        from graphql import (get_named_type, is_interface_type, is_object_type, is_union_type)
        self.sdl, self.schema = sdl, schema
        self.composites, self.objects, self.fields = [], [], {}
        for name, t in schema.type_map.items():
            if name.startswith("__"):
                continue
            if is_object_type(t) or is_interface_type(t):
                self.composites.append(name)
                if is_object_type(t):
                    self.objects.append(name)
                self.fields[name] = {fn: (str(f.type), get_named_type(f.type).name) for fn, f in t.fields.items()}
            elif is_union_type(t):
                self.composites.append(name)
                self.fields[name] = {}


def gen_schema(rng):
    from graphql import build_schema
    nobj, nint, nuni = rng.randint(2, 4), rng.randint(0, 2), rng.randint(0, 2)
    objs = [f"O{i}" for i in range(nobj)]
    ints = [f"I{i}" for i in range(nint)]
    unis = [f"U{i}" for i in range(nuni)]
    comps = objs + ints + unis
    # two candidate types per field name: same name, equal or different shapes across types
    cand = {}
    for f in LEAF_FIELDS:
        cand[f] = [rng.choice(WRAPS).format(rng.choice(LEAVES)) for _ in range(2)]
    for f in COMP_FIELDS:
        cand[f] = [rng.choice(WRAPS).format(rng.choice(comps)) for _ in range(2)]
    ifields = {}
    for i in ints:
        names = rng.sample(LEAF_FIELDS + COMP_FIELDS, rng.randint(1, 3))
        ifields[i] = {n: rng.choice(cand[n]) for n in names}
    out = ["directive @dir(a: Int) repeatable on FIELD | FRAGMENT_SPREAD | INLINE_FRAGMENT",
           "enum E { A B }", "scalar S", "input In { p: Int q: In r: [Int] l: [In] ll: [[In]] a1: Int a2: Int a10: Int }"]
    for i in ints:
        out.append(f"interface {i} {{ " + " ".join(f"{n}{ARGS_DEF}: {t}" for n, t in ifields[i].items()) + " }")
    for o in objs:
        impl = [i for i in ints if rng.random() < 0.5]
        fs = {"self": o}
        for i in impl:
            for n, t in ifields[i].items():
                if n in fs and fs[n] != t:
                    impl = [j for j in impl if j != i]
                    break
            else:
                fs.update(ifields[i])
        for n in rng.sample(LEAF_FIELDS + COMP_FIELDS, rng.randint(2, 6)):
            if n not in fs:
                fs[n] = rng.choice(cand[n])
        head = f"type {o}" + (" implements " + " & ".join(impl) if impl else "")
        out.append(head + " { " + " ".join(f"{n}{ARGS_DEF}: {t}" for n, t in fs.items()) + " }")
    for u in unis:
        out.append(f"union {u} = " + " | ".join(rng.sample(objs, rng.randint(1, len(objs)))))
    q = {c.lower(): rng.choice(["{}", "{}", "[{}]", "{}!"]).format(c) for c in comps}
    q["query"] = "Query"
    for n in rng.sample(LEAF_FIELDS, 2):
        q[n] = rng.choice(cand[n])
    out.append("type Query { " + " ".join(f"{n}{ARGS_DEF}: {t}" for n, t in q.items()) + " }")
    if rng.random() < 0.3:
        out.append("type Mutation { " + " ".join(f"{n}{ARGS_DEF}: {t}" for n, t in list(q.items())[:3]) + " }")
    sdl = "\n".join(out)
    return SchemaInfo(sdl, build_schema(sdl))


class DocGen:
    def __init__(self, rng, info, nfrags, mutate=0.0):
        self.rng, self.info, self.mutate = rng, info, mutate
        self.frags = [f"F{i}" for i in range(nfrags)]
        self.aliases = ["x", "y"] if rng.random() < 0.7 else ["x", "y", "z", "a", "b"]
        self.p_spread = rng.choice([0.1, 0.2, 0.35]) if nfrags else 0.0
        self.p_inline = rng.choice([0.1, 0.2, 0.3])
        self.p_args = rng.choice([0.0, 0.2, 0.5])
        self.p_alias = rng.choice([0.3, 0.6, 0.9])
        self.fams = rng.sample(ARG_FAMILIES, rng.randint(1, 2))
        if rng.random() < 0.5:
            self.fams.append(random_arg_family(rng))
        self.argpool = [a for eq, ne in self.fams for a in eq + eq + ne]
        # consistent mode: alias and arguments are a function of the field name, so that fields with
        # the same response name are the same field call (conflicts then come from type shapes only)
        self.consistent = rng.random() < 0.45
        self.cmap = {}
        # forwarding-only fragments: a body made only of spreads (also inside inline fragments)
        self.p_forward = rng.choice([0.0, 0.15, 0.4]) if nfrags >= 2 else 0.0

    def selset(self, tname, depth, lo=1, hi=4):
        items = [self.selection(tname, depth) for _ in range(self.rng.randint(lo, hi))]
        return "{ " + " ".join(items) + " }"

    def selection(self, tname, depth):
        r = self.rng.random()
        if r < self.p_spread:
            d = self.rng.choice(DIRECTIVES) if self.rng.random() < 0.1 else ""
            return "..." + self.rng.choice(self.frags) + d
        if r < self.p_spread + self.p_inline and depth > 0:
            return self.inline(tname, depth)
        return self.field(tname, depth)

    def inline(self, tname, depth):
        rng, info = self.rng, self.info
        r = rng.random()
        if r < 0.2:
            tc, t = "", tname
        else:
            t = rng.choice(info.objects) if r < 0.75 else rng.choice(info.composites + ["Query"])
            tc = " on " + t
        d = rng.choice(DIRECTIVES) if rng.random() < 0.1 else ""
        return "..." + tc + d + " " + self.selset(t, depth - 1, 1, 3)

    def field(self, tname, depth):
        rng, info = self.rng, self.info
        fs = info.fields.get(tname, {})
        names = list(fs)
        if depth <= 0:
            names = [n for n in names if fs[n][1] not in info.fields]
        if rng.random() < 0.08 or not names:
            name, named = "__typename", None
        else:
            name = rng.choice(names)
            named = fs[name][1]
        if rng.random() < self.mutate:
            name = rng.choice(["zz", "__schema", "__type"])
            named = None
        alias = ""
        if rng.random() < self.p_alias:
            alias = rng.choice(self.aliases) + ": "
        args = rng.choice(self.argpool) if rng.random() < self.p_args else ""
        if self.consistent and rng.random() < 0.97:
            if name not in self.cmap:
                self.cmap[name] = (rng.choice(["", "", name[0] + "_: "]),
                                   rng.choice(self.fams)[0] if rng.random() < self.p_args + 0.2 else [""])
            alias, eq = self.cmap[name]
            args = rng.choice(eq)
        d = rng.choice(DIRECTIVES) if rng.random() < 0.15 else ""
        sub = ""
        if named in info.fields:
            sub = " " + self.selset(named, depth - 1, 1, 3)
        return f"{alias}{name}{args}{d}{sub}"

    def forwarding_body(self, targets, tname):
        """A selection set consisting solely of fragment spreads, possibly wrapped in inline fragments
        that again contain only spreads."""
        rng = self.rng
        items = ["..." + t for t in targets]
        rng.shuffle(items)
        r = rng.random()
        if r < 0.25:
            tc = rng.choice(["", " on " + tname, " on " + rng.choice(self.info.composites + ["Query"])])
            return "{ ..." + tc + " { " + " ".join(items) + " } }"
        if r < 0.45 and len(items) >= 2:
            tc = rng.choice(["", " on " + tname])
            return "{ " + items[0] + " ..." + tc + " { " + " ".join(items[1:]) + " } }"
        return "{ " + " ".join(items) + " }"

    def fragment(self, name, depth):
        t = self.rng.choice(self.info.composites + ["Query"])
        if self.rng.random() < self.p_forward:
            others = [f for f in self.frags if f != name] or self.frags
            targets = self.rng.sample(others, self.rng.randint(1, min(3, len(others))))
            if self.rng.random() < 0.15:
                targets.append(name)  # cyclic forwarding
            return f"fragment {name} on {t} " + self.forwarding_body(targets, t)
        return f"fragment {name} on {t} " + self.selset(t, depth)

    def document(self, depth=3):
        rng = self.rng
        parts = []
        nops = 1 if rng.random() < 0.8 else 2
        for i in range(nops):
            root = "Query"
            kw = "query"
            if self.info.schema.mutation_type and rng.random() < 0.2:
                root, kw = "Mutation", "mutation"
            parts.append(f"{kw} Q{i} " + self.selset(root, depth))
        for f in self.frags:
            parts.append(self.fragment(f, rng.randint(1, depth)))
        rng.shuffle(parts)
        return "\n".join(parts)


def typename_document(rng, info):
    """__typename under one object against a typed leaf under another (SameResponseShape on String!)."""
    if len(info.objects) < 2:
        return None
    oi, oj = rng.sample(info.objects, 2)
    fs = info.fields[oj]
    leaf = [n for n in fs if fs[n][1] not in info.fields]
    if not leaf:
        return None
    holder = rng.choice(info.composites).lower()
    a, b = f"... on {oi} {{ x: __typename }}", f"... on {oj} {{ x: {rng.choice(leaf)} }}"
    if rng.random() < 0.5:
        a, b = b, a
    return f"{{ {holder} {{ {a} {b} }} }}"


def equal_subselection_document(rng, info):
    """Textually equal sub-selections under different parent types (equal nodes in a location-free AST)."""
    if len(info.objects) < 2:
        return None
    oi, oj = rng.sample(info.objects, 2)
    common_leaf = [n for n in info.fields[oi] if n in info.fields[oj]
                   and info.fields[oi][n][1] not in info.fields and info.fields[oj][n][1] not in info.fields]
    if not common_leaf:
        return None
    sub = "{ " + " ".join(rng.sample(common_leaf, rng.randint(1, min(2, len(common_leaf))))) + " }"
    holder = rng.choice(info.composites).lower()
    alias = rng.choice(["x: ", ""])
    return f"{{ {holder} {{ ... on {oi} {{ {alias}self {sub} }} ... on {oj} {{ {alias}self {sub} }} }} }}"


def forwarding_document(rng, info, g):
    """Two leaf fragments with the same response name, at least one of them reachable only through 1-3
    levels of pure forwarding fragments (bodies made only of spreads, also inside inline fragments, also
    cyclic), met on the fragment-vs-fragment path (two spreads of one set; spreads in the sub-selections
    of two merged fields) or on the fields-vs-fragment path."""
    if not info.objects:
        return None
    o = rng.choice(info.objects)
    fs = info.fields[o]
    leaf = [n for n in fs if fs[n][1] not in info.fields]
    if not leaf:
        return None
    a = rng.choice(leaf)
    b = rng.choice(leaf) if rng.random() < 0.75 else a
    arg0, arg1 = "", ""
    if a == b and rng.random() < 0.5:
        arg0, arg1 = rng.choice([("(x: 1)", "(x: 2)"), ("(x: $v)", "(x: $w)"), ("(x: 1)", ""), ("(x: 1)", "(x: 1)")])
    defs = {"L0": f"{{ x: {a}{arg0} }}", "L1": f"{{ x: {b}{arg1} }}"}
    b = b + arg1

    def chain(side, leafname):
        k = rng.choice([0, 1, 1, 2, 3]) if side else rng.choice([1, 1, 2, 3])
        names = [f"W{side}{i}" for i in range(k)]
        for i, n in enumerate(names):
            targets = [names[i + 1] if i + 1 < k else leafname]
            if rng.random() < 0.25:
                targets.append(rng.choice(names))          # cyclic forwarding (also self)
            if rng.random() < 0.15:
                targets.append(f"W{1 - side}0")             # cross link (possibly undefined: then out of fragment)
            defs[n] = g.forwarding_body(targets, o)
        return names[0] if names else leafname
    top0, top1 = chain(0, "L0"), chain(1, "L1")
    if "W10" not in defs and any("W10" in v for v in defs.values()):
        defs["W10"] = g.forwarding_body(["L1"], o)   # target of a cross link
    s0, s1 = ("..." + top0, "..." + top1) if rng.random() < 0.5 else ("..." + top1, "..." + top0)
    layout = rng.randrange(6)
    if layout == 0:      # fragment vs fragment inside one selection set
        inner = f"{s0} {s1}"
    elif layout == 1:    # spreads in the sub-selections of two merged fields
        inner = f"y: self {{ {s0} }} y: self {{ {s1} }}"
    elif layout == 2:    # fields vs forwarding fragment
        inner = f"x: {b} ...{top0}" if rng.random() < 0.5 else f"...{top0} x: {b}"
    elif layout == 3:    # fields vs forwarding fragment through sub-selections
        inner = f"y: self {{ x: {b} }} y: self {{ ...{top0} }}"
    elif layout == 4:    # both spreads inside a forwarding root fragment
        defs["R"] = g.forwarding_body([top0, top1], o)
        inner = "...R"
    else:                # inline fragments that contain only spreads
        inner = f"... {{ {s0} }} ... on {o} {{ {s1} }}"
    holder = rng.choice(info.composites).lower()
    parts = [f"{{ {holder} {{ ... on {o} {{ {inner} }} }} }}"]
    parts += [f"fragment {n} on {o} {body}" for n, body in defs.items()]
    rng.shuffle(parts)
    return "\n".join(parts)


def template_document(rng, info, g):
    """The same two fragments compared under mutually exclusive parents and under non-exclusive
    parents, in both visiting orders, optionally through further (mutually recursive) fragments."""
    if len(info.objects) < 2:
        return None
    oi, oj = rng.sample(info.objects, 2)
    fa, fb = "F0", "F1"
    excl = f"... on {oi} {{ y: self {{ ...{fa} }} }} ... on {oj} {{ y: self {{ ...{fb} }} }}"
    if rng.random() < 0.5:
        excl = f"... on {oi} {{ y: self {{ ...{fb} }} }} ... on {oj} {{ y: self {{ ...{fa} }} }}"
    nonx = f"... on {oi} {{ z: self {{ ...{fa} }} z: self {{ ...{fb} }} }}"
    if rng.random() < 0.3:
        nonx = f"... on {oi} {{ z: self {{ ...{fa} }} }} ... on {oi} {{ z: self {{ ...{fb} }} }}"
    if rng.random() < 0.3:
        nonx = f"... on {oi} {{ y: self {{ ...{fa} ...{fb} }} }}"
    holder = rng.choice(info.composites).lower()
    order = rng.random() < 0.5
    layout = rng.randint(0, 2)
    a, b = (excl, nonx) if order else (nonx, excl)
    if layout == 0:
        ops = [f"{{ {holder} {{ {a} {b} }} }}"]
    elif layout == 1:
        ops = [f"query A {{ {holder} {{ {a} }} }}", f"query B {{ {holder} {{ {b} }} }}"]
    else:
        ops = [f"{{ p: {holder} {{ {a} }} q: {holder} {{ {b} }} }}"]
    # fragment bodies: same-shaped leaf fields under one alias, different names
    bodies = []
    for k in range(len(g.frags)):
        t = oi if rng.random() < 0.8 else rng.choice(info.objects)
        fs = info.fields[t]
        leaf = [n for n in fs if fs[n][1] not in info.fields]
        if leaf and rng.random() < 0.7:
            items = [f"x: {rng.choice(leaf)}" + (rng.choice(g.argpool) if rng.random() < 0.3 else "")]
        else:
            items = [g.field(t, 1)]
        if len(g.frags) > 2 and rng.random() < 0.6:
            items.append("..." + rng.choice(g.frags[2:] if k < 2 else g.frags))
        if rng.random() < 0.3:
            items.append(f"self {{ ...{rng.choice(g.frags)} }}")
        rng.shuffle(items)
        bodies.append(f"fragment F{k} on {t} {{ " + " ".join(items) + " }")
    parts = ops + bodies
    rng.shuffle(parts)
    return "\n".join(parts)


# --------------------------------------------------------------------------- encoding


class OutOfFragment(Exception):
    pass


class Interner:
    def __init__(self):
        self.map = {"__typename": 0, "String": 1}

    def of(self, s):
        if s not in self.map:
            self.map[s] = len(self.map)
        return self.map[s]


def enc_type(t, it):
    from graphql import is_list_type, is_non_null_type
    if is_non_null_type(t):
        return [2] + enc_type(t.of_type, it)
    if is_list_type(t):
        return [1] + enc_type(t.of_type, it)
    return [0, it.of(t.name)]


def enc_schema(schema, it):
    from graphql import is_input_object_type, is_interface_type, is_object_type, is_union_type
    out, n = [], 0
    for name, t in schema.type_map.items():
        if name.startswith("__") or is_input_object_type(t):
            continue
        n += 1
        if is_object_type(t) or is_interface_type(t):
            out += [it.of(name), 0 if is_object_type(t) else 1, len(t.fields)]
            for fn, f in t.fields.items():
                out += [it.of(fn)] + enc_type(f.type, it)
        elif is_union_type(t):
            out += [it.of(name), 2, 0]
        else:
            out += [it.of(name), 3, 0]
    return [n] + out


ATOM = {"IntValue": 1, "FloatValue": 2, "StringValue": 3, "BooleanValue": 4, "NullValue": 5, "EnumValue": 6}


def enc_value(v, it):
    from graphql.language import (ListValueNode, ObjectValueNode, StringValueNode, VariableNode)
    if isinstance(v, VariableNode):
        return [0, it.of("$" + v.name.value)]
    if isinstance(v, ListValueNode):
        out = [2, len(v.values)]
        for x in v.values:
            out += enc_value(x, it)
        return out
    if isinstance(v, ObjectValueNode):
        keys = [f.name.value for f in v.fields]
        if len(set(keys)) != len(keys):
            raise OutOfFragment("duplicate input field")
        out = [3, len(v.fields)]
        for f in v.fields:
            out += [it.of(f.name.value)] + enc_value(f.value, it)
        return out
    kind = type(v).__name__.replace("Const", "").replace("Node", "")
    if kind not in ATOM:
        raise OutOfFragment("value kind " + kind)
    if isinstance(v, StringValueNode) and v.block:
        raise OutOfFragment("block string argument")
    val = getattr(v, "value", "")
    txt = ("true" if val else "false") if isinstance(val, bool) else ("" if val is None else str(val))
    return [1, ATOM[kind], len(txt)] + cps(txt)


class DocEncoder:
    def __init__(self, schema, it):
        self.schema, self.it, self.nfields = schema, it, 0
        self.collisions = False
        self.setcode = {}   # id(SelectionSetNode) -> code of its identity in the memoised model
        self.order = []     # definitions in document order: (is operation, index)

    def sels(self, sset, parent, code=None):
        """parent: a GraphQL named type (composite)."""
        if code is not None:
            self.setcode[id(sset)] = code
        from graphql import get_named_type, is_composite_type, is_interface_type, is_object_type
        from graphql.language import FieldNode, FragmentSpreadNode, InlineFragmentNode
        it = self.it
        out = [len(sset.selections)]
        for s in sset.selections:
            for d in s.directives or ():
                if d.name.value == "stream":
                    raise OutOfFragment("@stream")
            if isinstance(s, FieldNode):
                name = s.name.value
                if name == "__typename":
                    ftype = None
                elif name in ("__schema", "__type"):
                    raise OutOfFragment("__schema/__type")
                else:
                    if not (is_object_type(parent) or is_interface_type(parent)) or name not in parent.fields:
                        raise OutOfFragment("unknown field")
                    ftype = parent.fields[name].type
                self.nfields += 1
                rn = s.alias.value if s.alias else name
                args = s.arguments or ()
                an = [a.name.value for a in args]
                if len(set(an)) != len(an):
                    raise OutOfFragment("duplicate argument")
                fid_now = self.nfields
                out += [0, self.nfields, it.of(rn), it.of(name), len(args)]
                for a in args:
                    out += [it.of(a.name.value)] + enc_value(a.value, it)
                if s.selection_set is None:
                    out += [0]
                else:
                    if ftype is None:
                        raise OutOfFragment("selection on __typename")
                    nt = get_named_type(ftype)
                    if not is_composite_type(nt):
                        raise OutOfFragment("selection on leaf")
                    out += self.sels(s.selection_set, nt, 4 * fid_now + 2)
            elif isinstance(s, InlineFragmentNode):
                self.nfields += 1  # inline fragments share the id counter of fields
                iid_now = self.nfields
                if s.type_condition is None:
                    t = parent
                    out += [1, self.nfields, 0, 0]
                else:
                    t = self.schema.get_type(s.type_condition.name.value)
                    if t is None or not is_composite_type(t):
                        raise OutOfFragment("bad type condition")
                    out += [1, self.nfields, 1, it.of(t.name)]
                out += self.sels(s.selection_set, t, 4 * iid_now + 3)
            elif isinstance(s, FragmentSpreadNode):
                if getattr(s, "arguments", None):
                    raise OutOfFragment("spread arguments")
                if s.name.value not in self.fragnames:
                    raise OutOfFragment("unknown fragment")
                out += [2, it.of("#" + s.name.value)]
            else:
                raise OutOfFragment("selection kind")
        return out

    def document(self, doc):
        from graphql import is_composite_type
        from graphql.language import FragmentDefinitionNode, OperationDefinitionNode
        ops, frs = [], []
        names = [d.name.value for d in doc.definitions if isinstance(d, FragmentDefinitionNode)]
        if len(set(names)) != len(names):
            raise OutOfFragment("duplicate fragment")
        self.fragnames = set(names)
        for d in doc.definitions:
            if isinstance(d, OperationDefinitionNode):
                root = self.schema.get_root_type(d.operation)
                if root is None:
                    raise OutOfFragment("no root type")
                self.order.append((1, len(ops)))
                ops.append([self.it.of(root.name)] + self.sels(d.selection_set, root, 4 * len(ops)))
            elif isinstance(d, FragmentDefinitionNode):
                if getattr(d, "variable_definitions", None):
                    raise OutOfFragment("fragment variables")
                t = self.schema.get_type(d.type_condition.name.value)
                if t is None or not is_composite_type(t):
                    raise OutOfFragment("bad type condition")
                self.order.append((0, len(frs)))
                fcode = self.it.of("#" + d.name.value)
                frs.append([fcode, self.it.of(t.name)] + self.sels(d.selection_set, t, 4 * fcode + 1))
            else:
                raise OutOfFragment("non-executable definition")
        out = [len(ops)]
        for o in ops:
            out += o
        out += [len(frs)]
        for f in frs:
            out += f
        return out


def encode_case(schema, doc):
    it = Interner()
    s = enc_schema(schema, it)
    enc = DocEncoder(schema, it)
    d = enc.document(doc)
    return [1] + s + d, enc



def doc_features(doc):
    """(has colliding response names, has fragment cycle, number of spreads)."""
    from graphql.language import FieldNode, FragmentDefinitionNode, FragmentSpreadNode, Visitor, visit
    names, spreads, cur = [], {}, [None]

    class V(Visitor):
        def enter_fragment_definition(self, node, *_):
            cur[0] = node.name.value
            spreads.setdefault(cur[0], set())

        def leave_fragment_definition(self, *_):
            cur[0] = None

        def enter_field(self, node, *_):
            names.append(node.alias.value if node.alias else node.name.value)

        def enter_fragment_spread(self, node, *_):
            spreads.setdefault(cur[0], set()).add(node.name.value)

    visit(doc, V())
    collide = len(set(names)) != len(names)
    nsp = sum(len(v) for v in spreads.values())
    # cycle detection
    state = {}

    def dfs(u):
        state[u] = 1
        for w in spreads.get(u, ()):
            if state.get(w) == 1:
                return True
            if w not in state and w in spreads and dfs(w):
                return True
        state[u] = 2
        return False
    cyc = any(dfs(u) for u in list(spreads) if u is not None and u not in state)
    return collide, cyc, nsp


class Guard:
    """Wall-clock guard: non-termination of the rule becomes an observation, not a hang."""

    def __init__(self, seconds):
        self.seconds = seconds

    def __enter__(self):
        def handler(signum, frame):
            raise TimeoutError("wall-clock guard")
        self.old = signal.signal(signal.SIGALRM, handler)
        signal.setitimer(signal.ITIMER_REAL, self.seconds)

    def __exit__(self, *a):
        signal.setitimer(signal.ITIMER_REAL, 0)
        signal.signal(signal.SIGALRM, self.old)
        return False


def impl_conflicts(schema, doc, spy=False):
    from graphql import validate
    from graphql.validation import OverlappingFieldsCanBeMergedRule
    captured = []
    rule = OverlappingFieldsCanBeMergedRule
    if spy:
        from graphql.validation.rules import overlapping_fields_can_be_merged as mod

        class Spy(OverlappingFieldsCanBeMergedRule):
            def __init__(self, context):
                super().__init__(context)
                captured.append(self)
                self.memo_trace = trace = []
                try:  # record the has/add decisions of both memo tables
                    class RecPairSet(mod.PairSet):
                        __slots__ = ()

                        def has(self, a, b, flag):
                            r = super().has(a, b, flag)
                            if r:
                                trace.append((1, 1, a, b, bool(flag)))
                            return r

                        def add(self, a, b, flag):
                            trace.append((0, 1, a, b, bool(flag)))
                            return super().add(a, b, flag)

                    class RecOrderedPairSet(mod.OrderedPairSet):
                        __slots__ = ()

                        def has(self, a, b, flag):
                            r = super().has(a, b, flag)
                            if r:
                                trace.append((1, 0, id(a), b, bool(flag)))
                            return r

                        def add(self, a, b, flag):
                            trace.append((0, 0, id(a), b, bool(flag)))
                            return super().add(a, b, flag)
                    self.compared_fragment_pairs = RecPairSet()
                    self.compared_fields_and_fragment_pairs = RecOrderedPairSet()
                except Exception:  # noqa: BLE001
                    self.memo_trace = None
        rule = Spy
    try:
        with Guard(GUARD_S):
            errs = validate(schema, doc, [rule], max_errors=10 ** 9)
    except TimeoutError:
        r = ("timeout", None)
    except RecursionError:
        r = ("raised", "RecursionError")
    except Exception as e:  # noqa: BLE001
        r = ("raised", type(e).__name__ + ": " + str(e)[:120])
    else:
        r = ("ok", errs != [])
    return r + (captured[0] if captured else None,) if spy else r


def compare_memo(inst, enc, out2, complete):
    """Memo decisions of the real rule instance vs the memoised model: the model's decision trace must be a
    prefix of the real one (equal when the model ran to completion), and then the final tables are equal.
    Returns 'equal', 'differ' or 'unreadable' (internals not accessible: degraded, not a violation)."""
    try:
        it = enc.it
        nff = out2[1]
        ff = out2[2:2 + nff]
        nfp = out2[2 + nff]
        fp = out2[3 + nff:3 + nff + nfp]
        nlg = out2[3 + nff + nfp]
        lg = out2[4 + nff + nfp:4 + nff + nfp + nlg]
        m_ff = {(frozenset((ff[i], ff[i + 1])), ff[i + 2]) for i in range(0, nff, 3)}
        m_fp = {(fp[i], fp[i + 1], fp[i + 2]) for i in range(0, nfp, 3)}
        m_log = [tuple(lg[i:i + 5]) for i in range(0, nlg, 5)]

        def fk(k):
            k = k[:-2] if k.endswith("()") else k
            return it.map["#" + k]
        fm_to_set = {}
        for k, (fm, _sp) in inst.cached_fields_and_fragment_spreads.items():
            fm_to_set[id(fm)] = k if isinstance(k, int) else id(k)
        i_log = []
        for skip, tbl, a, b, flag in inst.memo_trace:
            if tbl == 1:
                i_log.append((skip, 1, fk(a), fk(b), int(flag)))
            else:
                i_log.append((skip, 0, enc.setcode[fm_to_set[a]], fk(b), int(flag)))
        if i_log[:len(m_log)] != m_log:
            return "differ"
        if not complete:
            return "equal"
        if len(i_log) != len(m_log):
            return "differ"
        i_ff = {(frozenset((fk(a), fk(b))), int(flag))
                for a, inner in inst.compared_fragment_pairs._data.items() for b, flag in inner.items()}
        i_fp = set()
        for fmid, inner in inst.compared_fields_and_fragment_pairs._data.items():
            code = enc.setcode[fm_to_set[fmid]]
            for b, flag in inner.items():
                i_fp.add((code, fk(b), int(flag)))
        return "equal" if (i_ff == m_ff and i_fp == m_fp) else "differ"
    except Exception:  # noqa: BLE001
        return "unreadable"


def uses_typename_alias(doc):
    from graphql.language import Visitor, visit
    hit = [False]

    class V(Visitor):
        def enter_field(self, node, *_):
            if node.name.value == "__typename":
                hit[0] = True
    visit(doc, V())
    return hit[0]


# --------------------------------------------------------------------------- the check


def compare_documents(ck, m, items):
    """items: list of (sdl, schema, text). Runs impl and model, records violations."""
    from graphql import parse
    cases, cases2, meta = [], [], []
    for sdl, schema, text in items:
        try:
            doc = parse(text)
        except Exception:  # noqa: BLE001
            ck.count("skipped_unparseable")
            continue
        try:
            wire, enc = encode_case(schema, doc)
        except OutOfFragment as e:
            ck.count("skipped_out_of_fragment")
            ck.count("skip: " + str(e))
            # the rule must still terminate without raising on such documents
            st, _ = impl_conflicts(schema, doc)
            if st != "ok":
                ck.violation(f"total:{text!r}", f"the rule did not return ({st}) on {text!r}",
                             {"relation": "rule terminates", "schema": sdl, "document": text})
            continue
        cases.append(wire)
        order = [x for o in enc.order for x in o]
        cases2.append([4, OPT_FUEL, len(enc.order)] + order + wire[1:])
        meta.append((sdl, schema, text, doc, enc))
    outs = m.run_batch(cases) if cases else []
    outs2 = m.run_batch(cases2) if cases2 else []
    for (sdl, schema, text, doc, enc), out, out2 in zip(meta, outs, outs2):
        collide, cyc, nsp = doc_features(doc)
        rep = {"relation": "validate(schema, doc, [OverlappingFieldsCanBeMergedRule]) != [] <-> spec_conflicts",
               "schema": sdl, "document": text}
        if out[0] in (8, 9):
            raise RuntimeError(f"wire/encoder error {out} on {text!r}")
        verdict = out[0]
        if verdict == 2:
            raise RuntimeError(f"harness classified as typed but the model could not type: {text!r}\n{sdl}")
        st, got, inst = impl_conflicts(schema, doc, spy=True)
        ck.note_case((sdl, text), nontrivial=collide or nsp > 0)
        ck.count("documents_compared")
        if cyc:
            ck.count("with_cyclic_spreads")
        if collide:
            ck.count("with_colliding_response_names")
        if verdict == 3:
            ck.violation(f"fuel:{text!r}", "model ran out of fuel (contradicts theorem C14_terminates)", rep)
            continue
        if st != "ok":
            ck.violation(f"total:{text!r}", f"the rule did not return ({st}: {got}) on {text!r}",
                         dict(rep, relation="rule terminates", cyclic=cyc))
            continue
        want = out[1] == 1
        ck.count("spec_conflict" if want else "spec_mergeable")
        # the memoised algorithm as modelled (Valid/OverlapOpt.v): same verdict as the specification function,
        # and (when nothing conflicts) the same final memo tables as the real rule instance
        if out2[0] in (8, 9):
            raise RuntimeError(f"wire/encoder error {out2} (memoised model) on {text!r}")
        if out2[0] == 3:
            raise RuntimeError(f"memoised model out of fuel on {text!r}")
        if (out2[0] == 1) != want:
            ck.violation(f"optmodel:{text!r}",
                         f"modelled memoised algorithm answers {out2[0] == 1}, specification function {want} "
                         f"(contradicts theorem C14_equiv: harness or encoding error, or the memoised model is wrong): {text!r}",
                         dict(rep, relation="opt_conflicts = spec_conflicts", model_opt=out2[0] == 1, model_spec=want))
        elif inst is not None and got == (out2[0] == 1):
            cmp = compare_memo(inst, enc, out2, complete=out2[0] == 0)
            ck.count("memo_trace_and_tables_" + cmp)
            if cmp == "differ":
                ck.extra.setdefault("memo_differs_on", []).append(text[:300])
        # the same document as an AST without locations (textually equal selection sets are then equal nodes)
        try:
            st2, got2 = impl_conflicts(schema, parse(text, no_location=True))
        except Exception as e:  # noqa: BLE001
            st2, got2 = "raised", repr(e)[:100]
        ck.count("location_free_variants")
        if st2 != "ok" or got2 != want:
            ck.violation(f"noloc:{text!r}",
                         f"on the location-free AST the rule answers {st2}/{got2}, specification algorithm "
                         f"{'finds a conflict' if want else 'finds none'}: {text!r}",
                         dict(rep, impl=got2, model=want, parse_options="no_location=True"))
        if got != want:
            key = f"equiv:{text!r}"
            ck.violation(key,
                         f"rule reports {'a' if got else 'no'} conflict, specification algorithm finds "
                         f"{'one' if want else 'none'}: {text!r}",
                         dict(rep, impl=got, model=want, cyclic=cyc))


def pairset_scripts(ck, m, n):
    """Random has/add sequences on real PairSet / OrderedPairSet instances vs the model."""
    rng = ck.rng
    try:
        from graphql.validation.rules import overlapping_fields_can_be_merged as mod
        PairSet, OrderedPairSet = mod.PairSet, mod.OrderedPairSet
        PairSet().has("a", "b", True)
        OrderedPairSet().has({}, "b", True)
    except Exception as e:  # noqa: BLE001
        ck.degraded.append(f"PairSet/OrderedPairSet not drivable directly: {e!r}")
        return
    keys = ["", "a", "b", "ab", "a(x: 1)", "a(x: 2)", "B", "é", "a\U0001F600", "aa", "F1", "F10", "F2"]
    cases, meta = [], []
    for i in range(n):
        ordered = i % 2 == 1
        ks = rng.sample(keys, rng.randint(2, 4))
        maps = [{} for _ in range(3)]  # field maps (identity matters, content does not)
        ops, wire = [], []
        for _ in range(rng.randint(1, 14)):
            isadd, e = rng.random() < 0.45, rng.random() < 0.5
            b = rng.choice(ks)
            if ordered:
                a = rng.randrange(3)
                ops.append((isadd, a, b, e))
                wire += [int(isadd), int(e), a, len(b)] + cps(b)
            else:
                a = rng.choice(ks)
                ops.append((isadd, a, b, e))
                wire += [int(isadd), int(e), len(a)] + cps(a) + [len(b)] + cps(b)
        cases.append([3 if ordered else 2, len(ops)] + wire)
        meta.append((ordered, ops, maps))
    outs = m.run_batch(cases)
    for (ordered, ops, maps), out in zip(meta, outs):
        inst = OrderedPairSet() if ordered else PairSet()
        got = []
        try:
            for isadd, a, b, e in ops:
                aa = maps[a] if ordered else a
                if isadd:
                    inst.add(aa, b, e)
                else:
                    got.append(int(bool(inst.has(aa, b, e))))
        except Exception as ex:  # noqa: BLE001
            got = ["raised", type(ex).__name__]
        name = "OrderedPairSet" if ordered else "PairSet"
        ck.note_case((name, repr(ops)), nontrivial=any(o[0] for o in ops) and any(not o[0] for o in ops))
        ck.count("pairset_scripts")
        if out[0] != 0 or got != out[1:]:
            ck.violation(f"{name}:{ops!r}", f"{name} has/add sequence answers differ from the model: {ops!r}",
                         {"relation": f"{name} = model", "ops": ops, "impl": got, "model": out[1:]})


def corpus_items(ck):
    from graphql import build_schema
    items = []
    for c in common.load_corpus("C14"):
        try:
            items.append((c["schema"], build_schema(c["schema"]), c["document"]))
        except Exception:  # noqa: BLE001
            ck.count("corpus_unusable")
    return items


def run(tier):
    ck = Check("C14", tier)
    ck.assumptions += ASSUMPTIONS
    br = common.build("C14", models=("overlap",))
    ck.proofs(br)
    if not br.ok:
        return ck.finish()
    m = Model("overlap")
    quick = tier == "quick"
    rng = ck.rng
    ck.rule = ("generated valid schemas (2-4 objects, 0-2 interfaces, 0-2 unions, fields with list/non-null wrapped leaves and "
               "composites, same field name with equal or different types across types) x type-directed documents: aliases from "
               "a 2-5 name pool (collisions on purpose), __typename, inline fragments with/without type condition, 0-4 named "
               "fragments spread anywhere (cyclic and mutually recursive spreads included; forwarding-only fragments made solely of "
               "spreads, 1-3 levels, also inside inline fragments and cyclic, on the fragment-vs-fragment and fields-vs-fragment "
               "paths), arguments from a pool with literals, "
               "variables, input objects in permuted key order, directives; plus templates that reach the same two fragments under "
               "mutually exclusive and non-exclusive parents in both visiting orders; plus untypable mutants (skipped, counted, "
               "termination still checked). Compared: validate(schema, doc, [OverlappingFieldsCanBeMergedRule]) != [] (under a "
               f"{GUARD_S:.0f} s wall-clock guard) vs extracted spec_conflicts. Real PairSet/OrderedPairSet instances vs model on "
               "random has/add scripts. non-trivial = document with at least one response-name collision or fragment spread; "
               "script with both add and has")
    t0 = time.time()
    items = corpus_items(ck)
    nschemas = 60 if quick else 4000
    per_schema = 30 if quick else 40
    budget = 75 if quick else 840
    for _ in range(nschemas):
        if time.time() - t0 > budget:
            ck.count("stopped_on_time_budget")
            break
        try:
            info = gen_schema(rng)
        except Exception as e:  # noqa: BLE001
            ck.count("schema_generation_failed")
            ck.extra.setdefault("schema_generation_errors", []).append(repr(e)[:200])
            continue
        batch = list(items)
        items = []
        for j in range(per_schema):
            nfr = rng.choice([0, 1, 2, 2, 3, 4])
            g = DocGen(rng, info, nfr, mutate=0.03 if j % 10 == 9 else 0.0)
            if j == 7:
                text = typename_document(rng, info) or g.document(2)
            elif j == 8:
                text = equal_subselection_document(rng, info) or g.document(2)
            elif j % 6 == 4:
                text = forwarding_document(rng, info, g)
                if text is None:
                    text = g.document(2)
                else:
                    ck.count("forwarding_documents")
            elif j % 3 == 2 and nfr >= 2:
                text = template_document(rng, info, g)
                if text is None:
                    text = g.document(rng.randint(1, 3))
                else:
                    ck.count("template_documents")
            else:
                text = g.document(rng.randint(1, 3))
            batch.append((info.sdl, info.schema, text))
        compare_documents(ck, m, batch)
    pairset_scripts(ck, m, 1500 if quick else 20000)
    if ck.dist.get("memo_trace_and_tables_differ") or ck.dist.get("memo_trace_and_tables_unreadable"):
        ck.degraded.append("the memo decisions of the real rule instance could not be read or differ from Valid/OverlapOpt.v "
                           "(the memoised model is then tied by its verdict only)")
    if ck.dist.get("documents_compared", 0):
        ck.samples.append({"schema": "generated SDL", "document": "query Q0 { o0 { x: a x: b ...F0 } } fragment F0 on O0 { ... }"})
    return ck.finish()


def replay(path):
    from graphql import build_schema, parse
    d = json.loads(open(path).read())
    print(json.dumps({k: d[k] for k in d if k not in ("proof_breaks",)}, indent=1)[:3000])
    if "schema" in d and "document" in d:
        schema = build_schema(d["schema"])
        doc = parse(d["document"], no_location=(d.get("parse_options") == "no_location=True"))
        st, got = impl_conflicts(schema, doc)
        print("implementation:", st, got)
        try:
            wire, _enc = encode_case(schema, doc)
            out = Model("overlap").run_batch([wire])[0]
            print("model [verdict, spec_conflicts, #fields, #fragments]:", out)
            return 0 if (st == "ok" and out[0] in (0, 1) and got == (out[1] == 1)) else 1
        except OutOfFragment as e:
            print("outside the modelled fragment:", e)
            return 0 if st == "ok" else 1
    return 0
