"""C20 - schema validation reports every type-system violation and never crashes.

Abstract schemas (plain JSON-able dicts, references are names and may point to any kind) are
generated, built into real GraphQLSchema objects programmatically and from SDL, dumped from the
*built* object into the integer wire format and given to the extracted Coq model
(Types/SchemaValidate.validate).  Compared: raises or not, emptiness, set of violated rule kinds
(message -> kind classifier below), and the response of graphql_sync.
"""
from __future__ import annotations

import copy
import hashlib
import json

from . import common
from .common import Check, Model

ASSUMPTIONS = [
    "C20 model: Types/SchemaValidate.v, a rule checker over raw schemas written from the specification's type-system rules in the rule order of validate.py; cycle reports are appended after the per-type rules (order of errors is not compared)",
    "the model is evaluated on a dump of the *built* GraphQLSchema (type_map without introspection types, fields, args, interfaces, members, defaults, roots, non-specified directives); the dump code reads the implementation's data attributes and is part of the trusted harness; it is cross-checked against the generator's abstract schema",
    "error messages are mapped to rule kinds by the regex classifier in harness/c20.py; a message no pattern matches is counted as `unclassified` (the case is then compared on raise/emptiness only)",
    "default values: const literals / Python values over null, int, non-integral float, string (not an enum value name), bool, enum name, list, object; built-in scalars by their documented literal ranges, custom scalars accept everything (default parse functions)",
    "when a default value meets a type that is not an input type (declared type or a nested input field type) the model does not validate it there; presence of the kind `invalid default` is then not compared (the position error is)",
    "objects that are not GraphQL types/directives are generated as named, hashable dummy objects in every position validate.py handles (type map, field/argument/input field type, interface list, union member, root operation type, directive list)",
    "not generated (rejected by the constructors or outside validate_schema): duplicate type names, duplicate field/argument/enum value names in one definition, NonNull of NonNull, redefinition of specified scalars/introspection types, unnamed non-type objects (None, numbers) in type positions, custom scalars with their own coercion functions, schemas built with assume_valid=True (validation is switched off by the caller)",
]

BUILTIN = ["Int", "Float", "String", "Boolean", "ID"]
SORT = {"Int": 0, "Float": 1, "String": 2, "Boolean": 3, "ID": 4}
PSEUDO = {90: "crash-site", 91: "out-of-fuel", 92: "default-not-validated"}
KIND_NAMES = {
    1: "missing-query", 2: "root-not-object", 3: "roots-not-distinct", 4: "reserved-name",
    5: "directive-no-locations", 6: "not-input-type", 7: "not-output-type", 8: "required-deprecated",
    9: "invalid-default", 10: "no-fields", 11: "empty-union", 12: "empty-enum", 13: "empty-input",
    14: "implements-non-interface", 15: "implements-self", 16: "duplicate-interface",
    17: "missing-transitive-interface", 18: "missing-interface-field", 19: "field-not-covariant",
    20: "missing-interface-arg", 21: "arg-not-invariant", 22: "extra-required-arg",
    23: "deprecated-implementation", 24: "non-object-member", 25: "duplicate-member",
    26: "oneof-non-null", 27: "oneof-default", 28: "non-null-input-cycle", 29: "default-value-cycle",
    30: "not-a-named-type", 31: "not-a-directive",
}

import re

CLASSIFIER = [
    (re.compile(r"^Query root type must be provided\.$"), 1),
    (re.compile(r"root type must be Object type"), 2),
    (re.compile(r"^All root types must be different"), 3),
    (re.compile(r"must not begin with '__'"), 4),
    (re.compile(r"must include 1 or more locations"), 5),
    (re.compile(r"has invalid default value"), 9),
    (re.compile(r"must be Input Type but got"), 6),
    (re.compile(r"must be Output Type but got"), 7),
    (re.compile(r"^Required (argument|input field) .* cannot be deprecated\.$", re.S), 8),
    (re.compile(r"^Input Object type .* must define one or more fields\.$"), 13),
    (re.compile(r"^Type .* must define one or more fields\.$"), 10),
    (re.compile(r"^Union type .* must define one or more member types\.$"), 11),
    (re.compile(r"^Enum type .* must define one or more values\.$"), 12),
    (re.compile(r"must only implement Interface types"), 14),
    (re.compile(r"cannot implement itself because it would create a circular reference"), 15),
    (re.compile(r"^Type .* can only implement .* once\.$"), 16),
    (re.compile(r"^Type .* must implement .* because it is implemented by"), 17),
    (re.compile(r"^Type .* cannot implement .* because it would create a circular reference"), 17),
    (re.compile(r"^Interface field argument .* expected but .* does not provide it\.$"), 20),
    (re.compile(r"^Interface field argument .* expects type"), 21),
    (re.compile(r"^Interface field .* expected but .* does not provide it\.$"), 18),
    (re.compile(r"^Interface field .* expects type"), 19),
    (re.compile(r"must not be required type"), 22),
    (re.compile(r"is not deprecated, so implementation field"), 23),
    (re.compile(r"can only include Object types"), 24),
    (re.compile(r"^Union type .* can only include type .* once\.$"), 25),
    (re.compile(r"^OneOf input field .* must be nullable\.$"), 26),
    (re.compile(r"^OneOf input field .* cannot have a default value\.$"), 27),
    (re.compile(r"^Invalid circular reference\. The Input Object "), 28),
    (re.compile(r"^Invalid circular reference\. The default value of Input Object field"), 29),
    (re.compile(r"^Expected GraphQL named type but got"), 30),
    (re.compile(r"^Expected directive but got"), 31),
]


def classify(msg):
    for rx, k in CLASSIFIER:
        if rx.search(msg):
            return k
    return None


class OutOfFragment(Exception):
    pass


# ----------------------------------------------------------------------------- abstract schemas
# tref: ["n", name] | ["l", tref] | ["nn", tref]
# lit : ["null"] | ["int", z] | ["float"] | ["str"] | ["bool", b] | ["enum", name] | ["list", [..]] | ["obj", [[k, v]..]]
# default: None | ["internal"] | ["lit", lit, mode]   mode in "literal", "value"


def tn(name):
    return ["n", name]


def named_of(t):
    while t[0] != "n":
        t = t[1]
    return t[1]


def tref_sdl(t):
    if t[0] == "n":
        return t[1]
    if t[0] == "l":
        return "[" + tref_sdl(t[1]) + "]"
    return tref_sdl(t[1]) + "!"


def lit_sdl(v):
    k = v[0]
    if k == "null":
        return "null"
    if k == "int":
        return str(v[1])
    if k == "float":
        return "1.5"
    if k == "str":
        return '"s"'
    if k == "bool":
        return "true" if v[1] else "false"
    if k == "enum":
        return v[1]
    if k == "list":
        return "[" + ", ".join(lit_sdl(x) for x in v[1]) + "]"
    return "{" + ", ".join(f"{a}: {lit_sdl(b)}" for a, b in v[1]) + "}"


def lit_has_enum(v):
    if v[0] == "enum":
        return True
    if v[0] == "list":
        return any(lit_has_enum(x) for x in v[1])
    if v[0] == "obj":
        return any(lit_has_enum(x) for _, x in v[1])
    return False


def lit_py(v):
    k = v[0]
    if k == "null":
        return None
    if k == "int":
        return v[1]
    if k == "float":
        return 1.5
    if k == "str":
        return "s"
    if k == "bool":
        return bool(v[1])
    if k == "list":
        return [lit_py(x) for x in v[1]]
    if k == "obj":
        return {a: lit_py(b) for a, b in v[1]}
    raise OutOfFragment("enum literal has no Python value form")


def inval_sdl(iv):
    s = f"{iv['name']}: {tref_sdl(iv['type'])}"
    d = iv.get("default")
    if d is not None:
        if d[0] != "lit":
            return None
        s += " = " + lit_sdl(d[1])
    if iv.get("dep"):
        s += " @deprecated"
    return s


def to_sdl(S, r=None):
    """SDL text of an abstract schema, or None when it has no SDL form.  With a PRNG the
    definitions are randomly split into a base definition and an `extend` part, get descriptions
    and are shuffled (the built schema is the same)."""
    out, ext = [], []
    names = {t["name"] for t in S["types"]}
    roots = {"query": S.get("query"), "mutation": S.get("mutation"), "subscription": S.get("subscription")}
    default_names = {"query": "Query", "mutation": "Mutation", "subscription": "Subscription"}
    need_def = False
    for op, dn in default_names.items():
        if roots[op] is None:
            if dn in names:
                need_def = True
        elif roots[op] != dn:
            need_def = True

    def desc():
        return '"""d"""\n' if r is not None and r.random() < 0.15 else ""

    def split(l):
        """(base part, extension part) of a list"""
        if r is None or not l or r.random() < 0.6:
            return l, []
        k = r.randint(0, len(l))
        return l[:k], l[k:]

    if need_def:
        ops = [f"{op}: {roots[op]}" for op in default_names if roots[op] is not None]
        if not ops:
            return None
        b, e = split(ops)
        if not b:
            b, e = ops, []
        out.append(desc() + "schema { " + " ".join(b) + " }")
        if e:
            ext.append("extend schema { " + " ".join(e) + " }")
    if any(t["kind"] == "bogus" for t in S["types"]) or any(d.get("bogus") for d in S.get("directives", [])):
        return None
    for d in S.get("directives", []):
        if not d["locations"]:
            return None
        args = [inval_sdl(a) for a in d["args"]]
        if None in args:
            return None
        out.append(desc() + f"directive @{d['name']}" + (("(" + ", ".join(args) + ")") if args else "")
                   + " on " + " | ".join(d["locations"]))
    for t in S["types"]:
        k, n = t["kind"], t["name"]
        if k == "scalar":
            out.append(desc() + f"scalar {n}")
        elif k in ("object", "interface"):
            kw = "type " if k == "object" else "interface "
            fl = []
            for f in t["fields"]:
                args = [inval_sdl(a) for a in f["args"]]
                if None in args:
                    return None
                fl.append(f"  {desc()}{f['name']}" + (("(" + ", ".join(args) + ")") if args else "")
                          + f": {tref_sdl(f['type'])}" + (" @deprecated" if f.get("dep") else ""))
            (fb, fe), (ib, ie) = split(fl), split(t["interfaces"])
            for tgt, pre, ff, ii in ((out, desc() + kw, fb, ib), (ext, "extend " + kw, fe, ie)):
                if tgt is ext and not ff and not ii:
                    continue
                tgt.append(pre + n + ((" implements " + " & ".join(ii)) if ii else "")
                           + (" {\n" + "\n".join(ff) + "\n}" if ff else ""))
        elif k == "union":
            b, e = split(t["members"])
            out.append(desc() + f"union {n}" + ((" = " + " | ".join(b)) if b else ""))
            if e:
                ext.append(f"extend union {n} = " + " | ".join(e))
        elif k == "enum":
            b, e = split(t["values"])
            out.append(desc() + f"enum {n}" + ((" { " + " ".join(b) + " }") if b else ""))
            if e:
                ext.append(f"extend enum {n}" + " { " + " ".join(e) + " }")
        elif k == "input":
            fl = [inval_sdl(a) for a in t["fields"]]
            if None in fl:
                return None
            b, e = split(fl)
            out.append(desc() + f"input {n}" + (" @oneOf" if t.get("oneof") else "")
                       + ((" {\n  " + "\n  ".join(b) + "\n}") if b else ""))
            if e:
                ext.append(f"extend input {n}" + " {\n  " + "\n  ".join(e) + "\n}")
    if r is not None:
        out = out + ext
        r.shuffle(out)
        ext = []
    return "\n".join(out + ext) + "\n"


def build_prog(S, rng=None, force_mode=None, dcache=None):
    """Build the schema with the Python constructors (thunks resolve the names).
    dcache: dict shared between builds; the GraphQLDefaultInput object of a position is reused when
    position, value and form are unchanged (schemas derived from one another share default objects)."""
    from graphql.language import parse_const_value
    from graphql.type import (
        GraphQLArgument, GraphQLBoolean, GraphQLDefaultInput, GraphQLDirective, GraphQLEnumType,
        GraphQLEnumValue, GraphQLField, GraphQLFloat, GraphQLID, GraphQLInputField,
        GraphQLInputObjectType, GraphQLInt, GraphQLInterfaceType, GraphQLList, GraphQLNonNull,
        GraphQLObjectType, GraphQLScalarType, GraphQLSchema, GraphQLString, GraphQLUnionType,
        specified_directives)
    from graphql.language import DirectiveLocation
    reg = {"Int": GraphQLInt, "Float": GraphQLFloat, "String": GraphQLString,
           "Boolean": GraphQLBoolean, "ID": GraphQLID}

    class Bogus:  # an object that is not a GraphQL type (has a name, is hashable)
        def __init__(self, name):
            self.name = name

        def __repr__(self):
            return f"<Bogus {self.name}>"

    def ty(t):
        if t[0] == "n":
            return reg[t[1]]
        if t[0] == "l":
            return GraphQLList(ty(t[1]))
        return GraphQLNonNull(ty(t[1]))

    def mkdefault(pos, lit, mode):
        def make():
            if mode == "value":
                return GraphQLDefaultInput(value=lit_py(lit))
            return GraphQLDefaultInput(literal=parse_const_value(lit_sdl(lit)))
        if dcache is None:
            return make()
        key = (pos, json.dumps(lit), mode)
        if key not in dcache:
            dcache[key] = make()
        return dcache[key]

    def dkw(iv, pos=""):
        d = iv.get("default")
        kw = {}
        if iv.get("dep"):
            kw["deprecation_reason"] = "gone"
        if d is None:
            return kw
        if d[0] == "internal":
            kw["default_value"] = 0
            return kw
        mode = force_mode or d[2]
        mode = "value" if (mode == "value" and not lit_has_enum(d[1])) else "literal"
        kw["default"] = mkdefault(pos + ":" + iv["name"], d[1], mode)
        return kw

    def args(l, pos):
        return {a["name"]: GraphQLArgument(ty(a["type"]), **dkw(a, pos)) for a in l}

    def fields(t):
        return lambda: {f["name"]: GraphQLField(ty(f["type"]), args=args(f["args"], t["name"] + "." + f["name"]),
                                                deprecation_reason="gone" if f.get("dep") else None)
                        for f in t["fields"]}

    for t in S["types"]:
        k, n = t["kind"], t["name"]
        if k == "scalar":
            reg[n] = GraphQLScalarType(n)
        elif k == "bogus":
            reg[n] = Bogus(n)
        elif k == "object":
            reg[n] = GraphQLObjectType(n, fields(t), interfaces=(lambda t=t: [reg[i] for i in t["interfaces"]]))
        elif k == "interface":
            reg[n] = GraphQLInterfaceType(n, fields(t), interfaces=(lambda t=t: [reg[i] for i in t["interfaces"]]))
        elif k == "union":
            reg[n] = GraphQLUnionType(n, (lambda t=t: [reg[i] for i in t["members"]]))
        elif k == "enum":
            reg[n] = GraphQLEnumType(n, {v: GraphQLEnumValue(v) for v in t["values"]})
        elif k == "input":
            reg[n] = GraphQLInputObjectType(
                n, (lambda t=t: {a["name"]: GraphQLInputField(ty(a["type"]), **dkw(a, t["name"])) for a in t["fields"]}),
                is_one_of=bool(t.get("oneof")))
    dirs = list(specified_directives)
    for d in S.get("directives", []):
        if d.get("bogus"):
            dirs.append(Bogus(d["name"]) if d["name"] != "str" else "not a directive")
            continue
        dirs.append(GraphQLDirective(d["name"], [DirectiveLocation[x] for x in d["locations"]],
                                     args=args(d["args"], "@" + d["name"])))
    return GraphQLSchema(
        query=reg[S["query"]] if S.get("query") else None,
        mutation=reg[S["mutation"]] if S.get("mutation") else None,
        subscription=reg[S["subscription"]] if S.get("subscription") else None,
        types=[reg[t["name"]] for t in S["types"]],
        directives=dirs)


# ----------------------------------------------------------------------------- dump of a built schema


def warm_defaults(schema, rng=None):
    """Use a (valid) schema the way requests do: coerce every default value (memoized on the default
    objects) and run a few requests on root fields.  Nothing is compared here."""
    from graphql import graphql_sync
    from graphql.type import (GraphQLDirective, GraphQLInputObjectType, GraphQLInterfaceType,
                              GraphQLObjectType, is_leaf_type, get_named_type)
    from graphql.utilities.coerce_input_value import coerce_default_value
    n = 0
    holders = []
    for t in schema.type_map.values():
        if isinstance(t, (GraphQLObjectType, GraphQLInterfaceType)):
            for f in t.fields.values():
                holders += list(f.args.values())
        elif isinstance(t, GraphQLInputObjectType):
            holders += list(t.fields.values())
    for d in schema.directives:
        if isinstance(d, GraphQLDirective):
            holders += list(d.args.values())
    for h in holders:
        if h.default is not None:
            try:
                coerce_default_value(h)
                n += 1
            except Exception:  # noqa: BLE001
                pass
    q = schema.query_type
    if q is not None:
        k = 0
        for fn, f in q.fields.items():
            if k >= 3:
                break
            if is_leaf_type(get_named_type(f.type)) and not fn.startswith("__"):
                k += 1
                try:
                    graphql_sync(schema, "{ " + fn + " }")
                except Exception:  # noqa: BLE001
                    pass
    return n


def ast_lit(node):
    from graphql.language import (BooleanValueNode, EnumValueNode, FloatValueNode, IntValueNode,
                                  ListValueNode, NullValueNode, ObjectValueNode, StringValueNode)
    if isinstance(node, NullValueNode):
        return ["null"]
    if isinstance(node, IntValueNode):
        return ["int", int(node.value)]
    if isinstance(node, FloatValueNode):
        return ["float"]
    if isinstance(node, StringValueNode):
        return ["str"]
    if isinstance(node, BooleanValueNode):
        return ["bool", bool(node.value)]
    if isinstance(node, EnumValueNode):
        return ["enum", node.value]
    if isinstance(node, ListValueNode):
        return ["list", [ast_lit(x) for x in node.values]]
    if isinstance(node, ObjectValueNode):
        ks = [f.name.value for f in node.fields]
        if len(set(ks)) != len(ks):
            raise OutOfFragment("duplicate keys in an object literal")
        return ["obj", [[f.name.value, ast_lit(f.value)] for f in node.fields]]
    raise OutOfFragment(f"literal {type(node).__name__}")


def py_lit(v, enum_names):
    if v is None:
        return ["null"]
    if isinstance(v, bool):
        return ["bool", v]
    if isinstance(v, int):
        return ["int", v]
    if isinstance(v, float):
        if v != v or v in (float("inf"), float("-inf")) or v.is_integer():
            raise OutOfFragment("float default that is integral or not finite")
        return ["float"]
    if isinstance(v, str):
        if v in enum_names:
            raise OutOfFragment("string default equal to an enum value name")
        return ["str"]
    if isinstance(v, (list, tuple)):
        return ["list", [py_lit(x, enum_names) for x in v]]
    if isinstance(v, dict):
        if not all(isinstance(k, str) for k in v):
            raise OutOfFragment("non-string key")
        return ["obj", [[k, py_lit(x, enum_names)] for k, x in v.items()]]
    raise OutOfFragment(f"default of Python type {type(v).__name__}")


def dump_schema(schema):
    """Built GraphQLSchema -> abstract schema (same shape as the generator's)."""
    from graphql.pyutils import Undefined
    from graphql.type import (GraphQLEnumType, GraphQLInputObjectType, GraphQLInterfaceType,
                              GraphQLList, GraphQLNamedType, GraphQLNonNull, GraphQLObjectType,
                              GraphQLScalarType, GraphQLUnionType, GraphQLDirective,
                              is_introspection_type, is_specified_scalar_type, specified_directives)
    enum_names = set()
    for t in schema.type_map.values():
        if isinstance(t, GraphQLEnumType):
            enum_names |= set(t.values)

    def tref(t):
        if isinstance(t, GraphQLNonNull):
            if isinstance(t.of_type, GraphQLNonNull):
                raise OutOfFragment("NonNull of NonNull")
            return ["nn", tref(t.of_type)]
        if isinstance(t, GraphQLList):
            return ["l", tref(t.of_type)]
        if isinstance(t, GraphQLNamedType) or isinstance(getattr(t, "name", None), str):
            if schema.type_map.get(t.name) is not t:
                raise OutOfFragment("reference to a type that is not the type map's")
            return ["n", t.name]
        raise OutOfFragment("type position holds an unnamed non-type")

    def inval(name, a):
        d = None
        if a.default is not None:
            if a.default.literal is not None:
                d = ["lit", ast_lit(a.default.literal), "literal"]
            else:
                d = ["lit", py_lit(a.default.value, enum_names), "value"]
        elif a.default_value is not Undefined:
            d = ["internal"]
        return {"name": name, "type": tref(a.type), "dep": a.deprecation_reason is not None, "default": d}

    types = []
    for name, t in schema.type_map.items():
        if is_introspection_type(t):
            continue
        if isinstance(t, GraphQLScalarType):
            if not is_specified_scalar_type(t) and (
                    t.coerce_input_value.__func__ is not GraphQLScalarType.coerce_input_value
                    if hasattr(t.coerce_input_value, "__func__") else False):
                raise OutOfFragment("custom scalar with its own coercion")
            types.append({"name": name, "kind": "scalar"})
        elif isinstance(t, (GraphQLObjectType, GraphQLInterfaceType)):
            fs = []
            for fn, f in t.fields.items():
                fs.append({"name": fn, "type": tref(f.type), "dep": f.deprecation_reason is not None,
                           "args": [inval(an, a) for an, a in f.args.items()]})
            types.append({"name": name, "kind": "object" if isinstance(t, GraphQLObjectType) else "interface",
                          "fields": fs, "interfaces": [named_of(tref(i)) for i in t.interfaces]})
        elif isinstance(t, GraphQLUnionType):
            types.append({"name": name, "kind": "union", "members": [named_of(tref(m)) for m in t.types]})
        elif isinstance(t, GraphQLEnumType):
            types.append({"name": name, "kind": "enum", "values": list(t.values)})
        elif isinstance(t, GraphQLInputObjectType):
            types.append({"name": name, "kind": "input", "oneof": bool(t.is_one_of),
                          "fields": [inval(fn, f) for fn, f in t.fields.items()]})
        else:
            types.append({"name": name, "kind": "bogus"})
    dirs = []
    for d in schema.directives:
        if not isinstance(d, GraphQLDirective):
            dirs.append({"name": getattr(d, "name", None) if isinstance(getattr(d, "name", None), str) else "str",
                         "bogus": True, "locations": [], "args": []})
            continue
        if any(d is sd for sd in specified_directives):
            continue
        dirs.append({"name": d.name, "locations": [l.name for l in d.locations],
                     "args": [inval(an, a) for an, a in d.args.items()]})

    def root(t):
        return None if t is None else named_of(tref(t))
    return {"types": types, "query": root(schema.query_type), "mutation": root(schema.mutation_type),
            "subscription": root(schema.subscription_type), "directives": dirs}


def canon(S):
    """Order-insensitive canonical form used to compare a dump with the generator's schema."""
    def iv(a):
        d = a.get("default")
        return (a["name"], json.dumps(a["type"]), bool(a.get("dep")),
                None if d is None else (d[0], json.dumps(d[1]) if d[0] == "lit" else None))
    ts = {}
    for t in S["types"]:
        k = t["kind"]
        if k == "scalar":
            if t["name"] in BUILTIN:
                continue
            ts[t["name"]] = ("scalar",)
        elif k == "bogus":
            ts[t["name"]] = ("bogus",)
        elif k in ("object", "interface"):
            ts[t["name"]] = (k, tuple((f["name"], json.dumps(f["type"]), bool(f.get("dep")),
                                       tuple(iv(a) for a in f["args"])) for f in t["fields"]),
                             tuple(t["interfaces"]))
        elif k == "union":
            ts[t["name"]] = (k, tuple(t["members"]))
        elif k == "enum":
            ts[t["name"]] = (k, tuple(t["values"]))
        else:
            ts[t["name"]] = (k, bool(t.get("oneof")), tuple(iv(a) for a in t["fields"]))
    return (ts, S.get("query"), S.get("mutation"), S.get("subscription"),
            tuple(sorted((d["name"], bool(d.get("bogus")), bool(d["locations"]), tuple(iv(a) for a in d["args"]))
                         for d in S.get("directives", []))))


# ----------------------------------------------------------------------------- wire encoding


def wire(S):
    names = set()

    def walk_t(t):
        names.add(named_of(t))

    def walk_l(v):
        if v[0] == "enum":
            names.add(v[1])
        elif v[0] == "list":
            for x in v[1]:
                walk_l(x)
        elif v[0] == "obj":
            for k, x in v[1]:
                names.add(k)
                walk_l(x)

    def walk_iv(a):
        names.add(a["name"])
        walk_t(a["type"])
        d = a.get("default")
        if d is not None and d[0] == "lit":
            walk_l(d[1])

    for t in S["types"]:
        names.add(t["name"])
        for f in t.get("fields", []):
            if t["kind"] == "input":
                walk_iv(f)
            else:
                names.add(f["name"])
                walk_t(f["type"])
                for a in f["args"]:
                    walk_iv(a)
        names.update(t.get("interfaces", []))
        names.update(t.get("members", []))
        names.update(t.get("values", []))
    for d in S.get("directives", []):
        names.add(d["name"])
        for a in d["args"]:
            walk_iv(a)
    for op in ("query", "mutation", "subscription"):
        if S.get(op):
            names.add(S[op])
    ids = {n: 2 * (i + 1) + (1 if n.startswith("__") else 0) for i, n in enumerate(sorted(names))}

    def e_t(t):
        if t[0] == "n":
            return [0, ids[t[1]]]
        return [1 if t[0] == "l" else 2] + e_t(t[1])

    def e_l(v):
        k = v[0]
        if k == "null":
            return [0]
        if k == "int":
            if abs(v[1]) >= 2 ** 60:
                raise OutOfFragment("huge int literal")
            return [1, 1 if v[1] < 0 else 0, abs(v[1])]
        if k == "float":
            return [2]
        if k == "str":
            return [3]
        if k == "bool":
            return [4, 1 if v[1] else 0]
        if k == "enum":
            return [5, ids[v[1]]]
        if k == "list":
            return [6, len(v[1])] + [y for x in v[1] for y in e_l(x)]
        return [7, len(v[1])] + [y for a, b in v[1] for y in [ids[a]] + e_l(b)]

    def e_iv(a):
        d = a.get("default")
        return ([ids[a["name"]]] + e_t(a["type"]) + [1 if a.get("dep") else 0]
                + ([0] if d is None else [1] if d[0] == "internal" else [2] + e_l(d[1])))

    def e_f(f):
        return ([ids[f["name"]]] + e_t(f["type"]) + [1 if f.get("dep") else 0, len(f["args"])]
                + [y for a in f["args"] for y in e_iv(a)])

    out = [len(S["types"])]
    for t in S["types"]:
        k = t["kind"]
        out.append(ids[t["name"]])
        if k == "scalar":
            out += [0, SORT.get(t["name"], 5)]
        elif k == "bogus":
            out += [6]
        elif k in ("object", "interface"):
            out += [1 if k == "object" else 2, len(t["fields"])] + [y for f in t["fields"] for y in e_f(f)]
            out += [len(t["interfaces"])] + [ids[i] for i in t["interfaces"]]
        elif k == "union":
            out += [3, len(t["members"])] + [ids[i] for i in t["members"]]
        elif k == "enum":
            out += [4, len(t["values"])] + [ids[i] for i in t["values"]]
        else:
            out += [5, 1 if t.get("oneof") else 0, len(t["fields"])] + [y for a in t["fields"] for y in e_iv(a)]
    for op in ("query", "mutation", "subscription"):
        out.append(ids[S[op]] + 1 if S.get(op) else 0)
    ds = S.get("directives", [])
    out.append(len(ds))
    for d in ds:
        out += [ids[d["name"]], 0 if d.get("bogus") else 1, 1 if d["locations"] else 0, len(d["args"])] \
            + [y for a in d["args"] for y in e_iv(a)]
    return out


# ----------------------------------------------------------------------------- generator of valid schemas

LOCS = ["QUERY", "FIELD", "FIELD_DEFINITION", "OBJECT", "ARGUMENT_DEFINITION", "ENUM_VALUE", "INPUT_OBJECT"]


class ValidGen:
    def __init__(self, rng, big=False):
        self.r = rng
        self.big = big

    def wrap_any(self, t, depth=2):
        r = self.r
        while depth > 0 and r.random() < 0.35:
            t = ["l", t] if r.random() < 0.6 or t[0] == "nn" else ["nn", t]
            depth -= 1
        if t[0] != "nn" and r.random() < 0.3:
            t = ["nn", t]
        return t

    def schema(self):
        r = self.r
        m = 2 if self.big else 1
        self.scalars = [f"Sc{i}" for i in range(r.randint(0, 2))]
        self.enums = {f"En{i}": [f"V{i}{j}" for j in range(r.randint(1, 3))] for i in range(r.randint(0, 2))}
        self.inputs = [f"In{i}" for i in range(r.randint(0, 3 * m))]
        self.ifaces = [f"If{i}" for i in range(r.randint(0, 2 * m))]
        self.objects = [f"Ob{i}" for i in range(r.randint(1, 3 * m))]
        self.unions = [f"Un{i}" for i in range(r.randint(0, 2))]
        self.leaf_in = BUILTIN + self.scalars + list(self.enums)
        self.in_fields = {}
        self.oneof = {}
        # input objects, pass 1: field types
        for i, n in enumerate(self.inputs):
            one = r.random() < 0.25
            self.oneof[n] = one
            fs = []
            for j in range(r.randint(1, 3)):
                if self.inputs and r.random() < 0.45 and not (one and j == 0):
                    k = r.randrange(len(self.inputs))
                    t = tn(self.inputs[k])
                    shape = r.random()
                    if shape < 0.3 and k < i and not one:
                        t = ["nn", t]
                    elif shape < 0.6:
                        t = ["l", ["nn", t]] if r.random() < 0.5 else ["l", t]
                        if r.random() < 0.4 and not one:
                            t = ["nn", t]
                else:
                    t = self.wrap_any(tn(r.choice(self.leaf_in)))
                    if one and t[0] == "nn":
                        t = t[1]
                fs.append({"name": f"a{j}", "type": t, "dep": False, "default": None})
            self.in_fields[n] = fs
        # pass 2: defaults, in index order
        for i, n in enumerate(self.inputs):
            if self.oneof[n]:
                continue
            for f in self.in_fields[n]:
                if r.random() < 0.4:
                    f["default"] = ["lit", self.lit(f["type"], i, 2), r.choice(["literal", "value"])]
                elif r.random() < 0.05:
                    f["default"] = ["internal"]
                if (f["type"][0] != "nn" or f["default"] is not None) and r.random() < 0.15:
                    f["dep"] = True
        # interfaces
        impl = {}
        own = {}
        for i, n in enumerate(self.ifaces):
            s = set()
            for j in range(i):
                if r.random() < 0.5:
                    s.add(self.ifaces[j])
                    s |= set(impl[self.ifaces[j]])
            impl[n] = [x for x in self.ifaces if x in s]
        obj_impl = {}
        for n in self.objects:
            s = set()
            for j in self.ifaces:
                if r.random() < 0.4:
                    s.add(j)
                    s |= set(impl[j])
            lst = [x for x in self.ifaces if x in s]
            r.shuffle(lst)
            obj_impl[n] = lst
        self.impl, self.obj_impl = impl, obj_impl
        members = {u: r.sample(self.objects, r.randint(1, min(3, len(self.objects)))) for u in self.unions}
        self.members = members
        self.out_names = BUILTIN + self.scalars + list(self.enums) + self.ifaces + self.objects + self.unions
        if_fields = {}
        for i, n in enumerate(self.ifaces):
            fs = []
            seen = set()
            for p in impl[n]:
                for f in if_fields[p]:
                    if f["name"] not in seen:
                        seen.add(f["name"])
                        fs.append(copy.deepcopy(f))
            for j in range(r.randint(0 if fs else 1, 2)):
                fs.append(self.out_field(f"f{i}x{j}"))
            if_fields[n] = fs
        types = []
        for n in self.scalars:
            types.append({"name": n, "kind": "scalar"})
        for n, vs in self.enums.items():
            types.append({"name": n, "kind": "enum", "values": vs})
        for n in self.inputs:
            types.append({"name": n, "kind": "input", "oneof": self.oneof[n], "fields": self.in_fields[n]})
        for n in self.ifaces:
            types.append({"name": n, "kind": "interface", "fields": if_fields[n], "interfaces": impl[n]})
        for u in self.unions:
            types.append({"name": u, "kind": "union", "members": members[u]})
        for k, n in enumerate(self.objects):
            fs, seen = [], set()
            for p in obj_impl[n]:
                for f in if_fields[p]:
                    if f["name"] not in seen:
                        seen.add(f["name"])
                        fs.append(self.narrow_field(f))
            for j in range(r.randint(0 if fs else 1, 2)):
                fs.append(self.out_field(f"g{k}x{j}"))
            types.append({"name": n, "kind": "object", "fields": fs, "interfaces": obj_impl[n]})
        qn = "Query" if r.random() < 0.65 else "RootQ"
        S = {"types": types, "query": qn, "mutation": None, "subscription": None, "directives": []}
        types.append({"name": qn, "kind": "object", "interfaces": [],
                      "fields": [self.out_field(f"q{j}") for j in range(r.randint(1, 3))]})
        if r.random() < 0.3:
            mn = "Mutation" if r.random() < 0.6 else "Mut"
            types.append({"name": mn, "kind": "object", "interfaces": [], "fields": [self.out_field("m0")]})
            S["mutation"] = mn
        if r.random() < 0.2:
            sn = "Subscription" if r.random() < 0.6 else "Sub"
            types.append({"name": sn, "kind": "object", "interfaces": [], "fields": [self.out_field("s0")]})
            S["subscription"] = sn
        for i in range(r.randint(0, 2)):
            S["directives"].append({"name": f"d{i}", "locations": r.sample(LOCS, r.randint(1, 3)),
                                    "args": [self.arg(f"x{j}") for j in range(r.randint(0, 2))]})
        r.shuffle(types)
        return S

    def in_type(self):
        r = self.r
        if self.inputs and r.random() < 0.4:
            return self.wrap_any(tn(r.choice(self.inputs)))
        return self.wrap_any(tn(r.choice(self.leaf_in)))

    def arg(self, name, optional=False):
        r = self.r
        t = self.in_type()
        a = {"name": name, "type": t, "dep": False, "default": None}
        if r.random() < 0.4 or (optional and t[0] == "nn"):
            a["default"] = ["lit", self.lit(t, None, 2), r.choice(["literal", "value"])]
        elif r.random() < 0.05:
            a["default"] = ["internal"]
        if (t[0] != "nn" or a["default"] is not None) and r.random() < 0.15:
            a["dep"] = True
        return a

    def out_field(self, name):
        r = self.r
        return {"name": name, "type": self.wrap_any(tn(r.choice(self.out_names))), "dep": r.random() < 0.1,
                "args": [self.arg(f"x{j}") for j in range(r.choice([0, 0, 1, 2]))]}

    def narrow(self, t):
        r = self.r
        if t[0] == "nn":
            return ["nn", self.narrow(t[1])]
        if r.random() < 0.3:
            return ["nn", self.narrow(t)] if t[0] != "n" or True else t
        if t[0] == "l":
            return ["l", self.narrow(t[1])]
        n = t[1]
        if r.random() < 0.5:
            if n in self.ifaces:
                c = [o for o in self.objects if n in self.obj_impl[o]] + [i for i in self.ifaces if n in self.impl[i]]
                if c:
                    return tn(r.choice(c))
            if n in self.unions:
                return tn(r.choice(self.members[n]))
        return t

    def narrow_field(self, f):
        r = self.r
        g = copy.deepcopy(f)
        t = self.narrow(g["type"])
        # never produce NonNull of NonNull
        def fix(t):
            if t[0] == "nn":
                inner = fix(t[1])
                return inner if inner[0] == "nn" else ["nn", inner]
            if t[0] == "l":
                return ["l", fix(t[1])]
            return t
        g["type"] = fix(t)
        if r.random() < 0.3:
            g["args"].append(self.arg(f"e{len(g['args'])}", optional=True))
        if f["dep"]:
            g["dep"] = r.random() < 0.5
        return g

    # ---- valid literals
    def lit(self, t, ctx, depth, nonnull=False):
        r = self.r
        if t[0] == "nn":
            return self.lit(t[1], ctx, depth, True)
        if not nonnull and (depth <= 0 or r.random() < 0.15):
            return ["null"]
        if t[0] == "l":
            if depth <= 0:
                return ["list", []]
            if r.random() < 0.7:
                return ["list", [self.lit(t[1], ctx, depth - 1) for _ in range(r.randint(0, 2))]]
            v = self.lit(t[1], ctx, depth - 1)
            return v if (v[0] != "null" or not nonnull) else ["list", []]
        n = t[1]
        if n == "Int":
            return ["int", r.choice([0, 1, -1, 7, 2147483647, -2147483648, r.randint(-10 ** 6, 10 ** 6)])]
        if n == "Float":
            return r.choice([["float"], ["int", r.randint(-5, 2 ** 40)]])
        if n == "String":
            return ["str"]
        if n == "Boolean":
            return ["bool", r.random() < 0.5]
        if n == "ID":
            return r.choice([["str"], ["int", r.randint(-3, 2 ** 35)]])
        if n in self.scalars:
            return r.choice([["int", 2 ** 33], ["float"], ["str"], ["bool", True], ["list", [["int", 1], ["str"]]],
                             ["obj", [["k", ["float"]]]], ["enum", "ANY"]])
        if n in self.enums:
            return ["enum", r.choice(self.enums[n])]
        # input object
        idx = self.inputs.index(n)
        known = ctx is None or idx < ctx
        fs = self.in_fields[n]
        if self.oneof[n]:
            # the first field of a OneOf type is leaf-typed (possibly a list): recursion always ends
            f = r.choice(fs) if depth > 0 else fs[0]
            return ["obj", [[f["name"], self.lit(f["type"], ctx, depth - 1, True)]]]
        kvs = []
        for f in fs:
            ft = f["type"]
            must = False
            if ft[0] == "nn":
                must = not (known and f["default"] is not None)
            if named_of(ft) in self.inputs and not known:
                must = True
            if must or (depth > 0 and r.random() < 0.4):
                kvs.append([f["name"], self.lit(ft, ctx, depth - 1)])
        r.shuffle(kvs)
        return ["obj", kvs]


# ----------------------------------------------------------------------------- rule-violating mutations


def types_of(S, *kinds):
    return [t for t in S["types"] if t["kind"] in kinds]


def field_args(S):
    return [(t, f, a) for t in types_of(S, "object", "interface") for f in t["fields"] for a in f["args"]]


def out_fields(S):
    return [(t, f) for t in types_of(S, "object", "interface") for f in t["fields"]]


def input_fields(S):
    return [(t, a) for t in types_of(S, "input") for a in t["fields"]]


def dir_args(S):
    return [(d, a) for d in S["directives"] for a in d["args"]]


def rename_type(S, old, new):
    def rt(t):
        if t[0] == "n":
            if t[1] == old:
                t[1] = new
        else:
            rt(t[1])
    for t in S["types"]:
        if t["name"] == old:
            t["name"] = new
        for key in ("interfaces", "members"):
            if key in t:
                t[key] = [new if x == old else x for x in t[key]]
        for f in t.get("fields", []):
            rt(f["type"])
            for a in f.get("args", []):
                rt(a["type"])
    for d in S["directives"]:
        for a in d["args"]:
            rt(a["type"])
    for op in ("query", "mutation", "subscription"):
        if S.get(op) == old:
            S[op] = new


def wrap_rand(r, t):
    c = r.random()
    if c < 0.4:
        return t
    if c < 0.6:
        return ["nn", t]
    if c < 0.8:
        return ["l", t]
    return ["nn", ["l", ["nn", t]]]


def pick(r, l):
    return r.choice(l) if l else None


def implementers(S):
    return [(t, i) for t in types_of(S, "object", "interface") for i in t["interfaces"]]


def tmap(S):
    return {t["name"]: t for t in S["types"]}


def inherited(S):
    """(implementer type, its field, interface type, interface field) for shared field names."""
    tm = tmap(S)
    out = []
    for t, i in implementers(S):
        it = tm.get(i)
        if it and it["kind"] == "interface" and it is not t:
            for jf in it["fields"]:
                for f in t["fields"]:
                    if f["name"] == jf["name"]:
                        out.append((t, f, it, jf))
    return out


def M_no_query(S, r):
    S["query"] = None
    return True


def M_root_kind(S, r):
    c = types_of(S, "input", "enum", "scalar", "interface", "union")
    if not c:
        return False
    S[r.choice(["query", "mutation", "subscription"])] = r.choice(c)["name"]
    return True


def M_root_dup(S, r):
    if r.random() < 0.5 or not S.get("mutation"):
        S[r.choice(["mutation", "subscription"])] = S.get("query")
    else:
        S["subscription"] = S["mutation"]
    return S.get("query") is not None


def M_reserved_type(S, r):
    t = r.choice(S["types"])
    rename_type(S, t["name"], "__" + t["name"])
    return True


def M_reserved_field(S, r):
    c = out_fields(S)
    if not c:
        return False
    r.choice(c)[1]["name"] = "__f"
    return True


def M_reserved_arg(S, r):
    c = [a for _, _, a in field_args(S)] + [a for _, a in dir_args(S)] + [a for _, a in input_fields(S)]
    if not c:
        return False
    r.choice(c)["name"] = "__a"
    return True


def M_reserved_enum_value(S, r):
    c = [t for t in types_of(S, "enum") if t["values"]]
    if not c:
        return False
    t = r.choice(c)
    t["values"][r.randrange(len(t["values"]))] = "__V"
    return True


def M_reserved_directive(S, r):
    if not S["directives"]:
        S["directives"].append({"name": "__d", "locations": ["FIELD"], "args": []})
    else:
        r.choice(S["directives"])["name"] = "__d"
    return True


def M_dir_nolocs(S, r):
    if not S["directives"]:
        S["directives"].append({"name": "dz", "locations": [], "args": []})
    else:
        r.choice(S["directives"])["locations"] = []
    return True


def _noninput(S, r):
    c = types_of(S, "object", "interface", "union")
    return wrap_rand(r, tn(r.choice(c)["name"]))


def _set_noninput(S, r, a, with_default):
    a["type"] = _noninput(S, r)
    if with_default == "keep":
        return
    if with_default:
        a["default"] = ["lit", r.choice([["int", 1], ["str"], ["obj", [["a", ["int", 1]]]], ["list", [["int", 1]]],
                                         ["enum", "X"], ["bool", True], ["null"], ["list", []]]),
                        r.choice(["literal", "value"])]
    else:
        a["default"] = None


def M_arg_noninput(S, r, wd=False):
    c = field_args(S)
    if not c:
        fs = out_fields(S)
        if not fs:
            return False
        a = {"name": "zx", "type": tn("Int"), "dep": False, "default": None}
        r.choice(fs)[1]["args"].append(a)
    else:
        a = r.choice(c)[2]
    _set_noninput(S, r, a, wd)
    return True


def M_arg_noninput_default(S, r):
    return M_arg_noninput(S, r, True)


def M_arg_noninput_keep(S, r):
    return M_arg_noninput(S, r, "keep")


def M_inputfield_noninput(S, r, wd=False):
    c = input_fields(S)
    if not c:
        return False
    _set_noninput(S, r, r.choice(c)[1], wd)
    return True


def M_inputfield_noninput_default(S, r):
    return M_inputfield_noninput(S, r, True)


def M_dirarg_noninput(S, r, wd=False):
    c = dir_args(S)
    if not c:
        a = {"name": "zx", "type": tn("Int"), "dep": False, "default": None}
        if not S["directives"]:
            S["directives"].append({"name": "dz", "locations": ["FIELD"], "args": []})
        r.choice(S["directives"])["args"].append(a)
    else:
        a = r.choice(c)[1]
    _set_noninput(S, r, a, wd)
    return True


def M_dirarg_noninput_default(S, r):
    return M_dirarg_noninput(S, r, True)


def M_nested_noninput_default(S, r):
    """An input object whose field has a non-input type, used by a default one level up."""
    c = types_of(S, "input")
    if not c:
        return False
    t = r.choice(c)
    t["fields"].append({"name": "zq", "type": _noninput(S, r), "dep": False, "default": None})
    a = {"name": "zy", "type": tn(t["name"]), "dep": False,
         "default": ["lit", ["obj", [["zq", r.choice([["int", 1], ["obj", []], ["list", [["str"]]]])]]],
                     r.choice(["literal", "value"])]}
    fs = out_fields(S)
    if not fs:
        return False
    r.choice(fs)[1]["args"].append(a)
    return True


def M_field_nonoutput(S, r):
    c, i = out_fields(S), types_of(S, "input")
    if not c or not i:
        return False
    r.choice(c)[1]["type"] = wrap_rand(r, tn(r.choice(i)["name"]))
    return True


def M_required_deprecated(S, r):
    c = [a for _, _, a in field_args(S)] + [a for _, a in dir_args(S)] + [a for _, a in input_fields(S)]
    if not c:
        return False
    a = r.choice(c)
    if a["type"][0] != "nn":
        a["type"] = ["nn", a["type"]]
    a["default"] = None
    a["dep"] = True
    return True


def M_bad_default(S, r):
    tm = tmap(S)
    c = [a for _, _, a in field_args(S)] + [a for _, a in dir_args(S)] + [a for _, a in input_fields(S)]
    c = [a for a in c if named_of(a["type"]) in BUILTIN or tm.get(named_of(a["type"]), {}).get("kind") in ("enum", "input")]
    if not c:
        return False
    a = r.choice(c)
    n = named_of(a["type"])
    if n in BUILTIN or tm[n]["kind"] == "enum":
        bad = r.choice([["obj", [["zzz", ["int", 1]]]], ["enum", "NOPE"],
                        ["int", 2 ** 31] if n in ("Int", "String", "Boolean") or n not in BUILTIN else ["bool", True]])
    else:
        bad = r.choice([["int", 5], ["obj", [["nope", ["int", 1]]]], ["str"]])
    a["default"] = ["lit", bad, "literal" if lit_has_enum(bad) else r.choice(["literal", "value"])]
    return True


def M_null_default_nonnull(S, r):
    c = [a for _, _, a in field_args(S)] + [a for _, a in dir_args(S)] + [a for _, a in input_fields(S)]
    c = [a for a in c if a["type"][0] == "nn"]
    if not c:
        return False
    a = r.choice(c)
    a["default"] = ["lit", ["null"], r.choice(["literal", "value"])]
    a["dep"] = False
    return True


def M_empty(S, r, kinds=("object", "interface", "input", "union", "enum")):
    c = types_of(S, *kinds)
    if not c:
        return False
    t = r.choice(c)
    for k in ("fields", "members", "values"):
        if k in t:
            t[k] = []
    return True


def M_empty_object(S, r):
    return M_empty(S, r, ("object",))


def M_empty_interface(S, r):
    return M_empty(S, r, ("interface",))


def M_empty_input(S, r):
    return M_empty(S, r, ("input",))


def M_empty_union(S, r):
    return M_empty(S, r, ("union",))


def M_empty_enum(S, r):
    return M_empty(S, r, ("enum",))


def M_impl_noninterface(S, r):
    c = types_of(S, "object", "interface")
    o = [t for t in S["types"] if t["kind"] != "interface"]
    t = r.choice(c)
    t["interfaces"].insert(r.randint(0, len(t["interfaces"])), r.choice(o)["name"])
    return True


def M_impl_self(S, r):
    c = types_of(S, "interface")
    if not c:
        return False
    t = r.choice(c)
    t["interfaces"].append(t["name"])
    return True


def M_impl_dup(S, r):
    c = [t for t in types_of(S, "object", "interface") if t["interfaces"]]
    if not c:
        return False
    t = r.choice(c)
    t["interfaces"].append(r.choice(t["interfaces"]))
    return True


def M_missing_transitive(S, r):
    tm = tmap(S)
    c = []
    for t in types_of(S, "object", "interface"):
        for i in t["interfaces"]:
            for anc in tm[i].get("interfaces", []):
                if anc in t["interfaces"]:
                    c.append((t, anc))
    if not c:
        return False
    t, anc = r.choice(c)
    t["interfaces"] = [x for x in t["interfaces"] if x != anc]
    return True


def M_impl_cycle(S, r):
    """Two interfaces implementing each other (circular-reference wording)."""
    c = types_of(S, "interface")
    if len(c) < 2:
        return False
    a, b = r.sample(c, 2)
    a["interfaces"].append(b["name"])
    b["interfaces"].append(a["name"])
    return True


def M_remove_iface_field(S, r):
    c = inherited(S)
    if not c:
        return False
    t, f, _, _ = r.choice(c)
    t["fields"] = [x for x in t["fields"] if x is not f]
    return True


def M_break_covariance(S, r):
    c = inherited(S)
    if not c:
        return False
    t, f, it, jf = r.choice(c)
    jt = jf["type"]
    if jt[0] == "nn" and r.random() < 0.5:
        f["type"] = copy.deepcopy(jt[1])
    elif jt[0] == "l" and r.random() < 0.5:
        f["type"] = copy.deepcopy(jt[1])
    elif r.random() < 0.5:
        f["type"] = ["l", copy.deepcopy(jt)]
    else:
        n = named_of(jt)
        o = [x["name"] for x in S["types"] if x["kind"] != "input" and x["name"] != n]
        f["type"] = tn(r.choice(o + [b for b in BUILTIN if b != n]))
    return True


def M_remove_iface_arg(S, r):
    c = [(t, f, it, jf) for t, f, it, jf in inherited(S) if jf["args"]]
    if not c:
        return False
    t, f, it, jf = r.choice(c)
    n = r.choice(jf["args"])["name"]
    f["args"] = [a for a in f["args"] if a["name"] != n]
    return True


def M_change_arg_type(S, r):
    c = [(t, f, it, jf) for t, f, it, jf in inherited(S) if jf["args"]]
    if not c:
        return False
    t, f, it, jf = r.choice(c)
    n = r.choice(jf["args"])["name"]
    for a in f["args"]:
        if a["name"] == n:
            ty = a["type"]
            a["type"] = ty[1] if ty[0] == "nn" else (["nn", ty] if r.random() < 0.5 else ["l", ty])
            if a["type"][0] == "nn" and a["default"] is None:
                a["dep"] = False
    return True


def M_extra_required_arg(S, r):
    c = inherited(S)
    if not c:
        return False
    t, f, it, jf = r.choice(c)
    f["args"].append({"name": "zreq", "type": ["nn", tn(r.choice(BUILTIN))], "dep": False, "default": None})
    return True


def M_deprecate_impl(S, r):
    c = [(t, f, it, jf) for t, f, it, jf in inherited(S) if not jf.get("dep")]
    if not c:
        return False
    r.choice(c)[1]["dep"] = True
    return True


def M_union_nonobject(S, r):
    c = types_of(S, "union")
    o = [t for t in S["types"] if t["kind"] != "object"]
    if not c:
        return False
    t = r.choice(c)
    t["members"].insert(r.randint(0, len(t["members"])), r.choice(o + [{"name": "Int"}])["name"])
    return True


def M_union_dup(S, r):
    c = [t for t in types_of(S, "union") if t["members"]]
    if not c:
        return False
    t = r.choice(c)
    t["members"].append(r.choice(t["members"]))
    return True


def M_oneof_nonnull(S, r):
    c = [t for t in types_of(S, "input") if t["fields"]]
    if not c:
        return False
    t = r.choice(c)
    t["oneof"] = True
    a = r.choice(t["fields"])
    if a["type"][0] != "nn":
        a["type"] = ["nn", a["type"]]
    return True


def M_oneof_default(S, r):
    c = [t for t in types_of(S, "input") if t["fields"]]
    if not c:
        return False
    t = r.choice(c)
    t["oneof"] = True
    a = r.choice(t["fields"])
    a["default"] = r.choice([["lit", ["null"], "literal"], ["internal"], ["lit", ["null"], "value"]])
    return True


def M_nn_cycle(S, r):
    c = types_of(S, "input")
    if not c:
        return False
    k = r.randint(1, min(3, len(c)))
    ring = r.sample(c, k)
    for i, t in enumerate(ring):
        t["fields"].append({"name": "zc", "type": ["nn", tn(ring[(i + 1) % k]["name"])], "dep": False, "default": None})
    return True


def M_default_cycle(S, r):
    c = [t for t in types_of(S, "input") if not t.get("oneof")]
    if not c:
        return False
    k = r.randint(1, min(3, len(c)))
    ring = r.sample(c, k)
    for i, t in enumerate(ring):
        nxt = ring[(i + 1) % k]["name"]
        shape = r.random()
        ty, v = (tn(nxt), ["obj", []]) if shape < 0.5 else (["l", tn(nxt)], ["list", [["obj", []]]])
        t["fields"].append({"name": "zd", "type": ty, "dep": False,
                            "default": ["lit", v, r.choice(["literal", "value"])]})
    return True


MUTATIONS = [
    M_no_query, M_root_kind, M_root_dup, M_reserved_type, M_reserved_field, M_reserved_arg,
    M_reserved_enum_value, M_reserved_directive, M_dir_nolocs, M_arg_noninput, M_arg_noninput_default,
    M_arg_noninput_keep, M_inputfield_noninput, M_inputfield_noninput_default, M_dirarg_noninput,
    M_dirarg_noninput_default, M_nested_noninput_default, M_field_nonoutput, M_required_deprecated,
    M_bad_default, M_null_default_nonnull, M_empty_object, M_empty_interface, M_empty_input,
    M_empty_union, M_empty_enum, M_impl_noninterface, M_impl_self, M_impl_dup, M_missing_transitive,
    M_impl_cycle, M_remove_iface_field, M_break_covariance, M_remove_iface_arg, M_change_arg_type,
    M_extra_required_arg, M_deprecate_impl, M_union_nonobject, M_union_dup, M_oneof_nonnull,
    M_oneof_default, M_nn_cycle, M_default_cycle,
]


# ---- more operators: defaults of input-object type, covariance direction, near misses, non-GraphQL objects


def valid_lit(S, t, r, depth=2, nonnull=False):
    """A literal valid for type t of abstract schema S (needs well-kinded input types)."""
    tm = tmap(S)
    if t[0] == "nn":
        return valid_lit(S, t[1], r, depth, True)
    if not nonnull and (depth <= 0 or r.random() < 0.1):
        return ["null"]
    if t[0] == "l":
        if depth <= 0:
            return ["list", []]
        return ["list", [valid_lit(S, t[1], r, depth - 1) for _ in range(r.randint(0, 2))]]
    n = t[1]
    if n == "Int":
        return ["int", r.randint(-9, 9)]
    if n == "Float":
        return ["float"]
    if n in ("String", "ID"):
        return ["str"]
    if n == "Boolean":
        return ["bool", True]
    d = tm.get(n)
    if d is None or d["kind"] == "scalar":
        return ["str"]
    if d["kind"] == "enum":
        if not d["values"]:
            raise ValueError("empty enum")
        return ["enum", r.choice(d["values"])]
    if d["kind"] != "input" or depth < -6:
        raise ValueError("no valid literal")
    if d.get("oneof"):
        f = d["fields"][0] if depth <= 0 else r.choice(d["fields"])
        return ["obj", [[f["name"], valid_lit(S, f["type"], r, depth - 1, True)]]]
    kvs = []
    for f in d["fields"]:
        if (f["type"][0] == "nn" and f["default"] is None) or (depth > 0 and r.random() < 0.5):
            kvs.append([f["name"], valid_lit(S, f["type"], r, depth - 1)])
    return ["obj", kvs]


def invals_of_kind(S, *kinds):
    tm = tmap(S)
    c = [a for _, _, a in field_args(S)] + [a for _, a in dir_args(S)] + [a for _, a in input_fields(S)]
    return [a for a in c if tm.get(named_of(a["type"]), {}).get("kind") in kinds], tm


def _set_obj_default(S, r, pred, edit):
    c, tm = invals_of_kind(S, "input")
    c = [a for a in c if a["type"][0] == "n" or (a["type"][0] == "nn" and a["type"][1][0] == "n")]
    c = [a for a in c if pred(tm[named_of(a["type"])])]
    if not c:
        return False
    a = r.choice(c)
    d = tm[named_of(a["type"])]
    v = valid_lit(S, ["nn", tn(d["name"])], r, 2)
    if not edit(d, v, r):
        return False
    a["default"] = ["lit", v, "literal" if lit_has_enum(v) else r.choice(["literal", "value"])]
    a["dep"] = False
    return True


def M_default_missing_required(S, r):
    def edit(d, v, r):
        req = [f["name"] for f in d["fields"] if f["type"][0] == "nn" and f["default"] is None]
        if not req:
            return False
        k = r.choice(req)
        v[1][:] = [kv for kv in v[1] if kv[0] != k]
        return True
    return _set_obj_default(S, r, lambda d: not d.get("oneof"), edit)


def M_default_unknown_field(S, r):
    def edit(d, v, r):
        v[1].append(["zunknown", ["int", 1]])
        return True
    return _set_obj_default(S, r, lambda d: True, edit)


def M_default_oneof_two(S, r):
    def edit(d, v, r):
        other = [f for f in d["fields"] if f["name"] != v[1][0][0]]
        if not other:
            return False
        f = r.choice(other)
        v[1].append([f["name"], valid_lit(S, f["type"], r, 1, True)])
        return True
    return _set_obj_default(S, r, lambda d: d.get("oneof") and d["fields"], edit)


def M_default_oneof_null(S, r):
    def edit(d, v, r):
        v[1][0][1] = ["null"]
        return True
    return _set_obj_default(S, r, lambda d: d.get("oneof") and d["fields"], edit)


def M_default_oneof_empty(S, r):
    def edit(d, v, r):
        v[1][:] = []
        return True
    return _set_obj_default(S, r, lambda d: d.get("oneof") and d["fields"], edit)


def M_default_nested_bad(S, r):
    """A wrong value deep inside an otherwise valid object default."""
    def edit(d, v, r):
        if not v[1]:
            return False
        kv = r.choice(v[1])
        kv[1] = ["obj", [["zdeep", ["bool", True]]]] if kv[1][0] != "obj" else ["int", 3]
        f = [f for f in d["fields"] if f["name"] == kv[0]][0]
        return named_of(f["type"]) in BUILTIN or tmap(S).get(named_of(f["type"]), {}).get("kind") in ("enum", "input")
    return _set_obj_default(S, r, lambda d: not d.get("oneof"), edit)


WRONG_LEAF = {
    "Int": [["int", 2 ** 31], ["int", -2 ** 31 - 1], ["float"], ["str"], ["bool", True], ["enum", "X"], ["list", [["str"]]]],
    "Float": [["str"], ["bool", False], ["enum", "X"], ["obj", []]],
    "String": [["int", 1], ["float"], ["bool", True], ["enum", "X"]],
    "Boolean": [["int", 0], ["str"], ["enum", "X"], ["float"]],
    "ID": [["float"], ["bool", True], ["enum", "X"], ["obj", []]],
}


def M_default_wrong_leaf(S, r):
    tm = tmap(S)
    c = [a for _, _, a in field_args(S)] + [a for _, a in dir_args(S)] + [a for _, a in input_fields(S)]
    c = [a for a in c if named_of(a["type"]) in BUILTIN or tm.get(named_of(a["type"]), {}).get("kind") == "enum"]
    if not c:
        return False
    a = r.choice(c)
    n = named_of(a["type"])
    bad = r.choice(WRONG_LEAF[n]) if n in BUILTIN else r.choice([["str"], ["int", 1], ["enum", "ZNOPE"], ["bool", True]])
    # put it at the leaf position of the wrappers
    def at(t, v):
        if t[0] == "nn":
            return at(t[1], v)
        if t[0] == "l" and r.random() < 0.7:
            return ["list", [at(t[1], v)]]
        if t[0] == "l":
            return at(t[1], v)
        return v
    v = at(a["type"], copy.deepcopy(bad))
    a["default"] = ["lit", v, "literal" if lit_has_enum(v) else r.choice(["literal", "value"])]
    a["dep"] = False
    return True


def M_default_null_item(S, r):
    """[null] for a list of non-null items."""
    c = [a for _, _, a in field_args(S)] + [a for _, a in dir_args(S)] + [a for _, a in input_fields(S)]
    def has(t):
        return t[0] == "l" and t[1][0] == "nn" or (t[0] != "n" and has(t[1]))
    c = [a for a in c if has(a["type"])]
    if not c:
        return False
    a = r.choice(c)
    def mk(t):
        if t[0] == "nn":
            return mk(t[1])
        if t[0] == "l":
            return ["list", [["null"]]] if t[1][0] == "nn" else ["list", [mk(t[1])]]
        return ["null"]
    a["default"] = ["lit", mk(a["type"]), r.choice(["literal", "value"])]
    a["dep"] = False
    return True


def M_reverse_covariance(S, r):
    """The implementing field returns a SUPER type of the interface field's type."""
    tm = tmap(S)
    c = []
    for t, f, it, jf in inherited(S):
        n = named_of(jf["type"])
        d = tm.get(n)
        if d and d["kind"] in ("object", "interface"):
            sup = list(d["interfaces"]) + [u["name"] for u in types_of(S, "union") if n in u["members"]]
            sup = [x for x in sup if x != n]
            if sup:
                c.append((f, jf, sup))
    if not c:
        return False
    f, jf, sup = r.choice(c)
    def repl(t, new):
        return tn(new) if t[0] == "n" else [t[0], repl(t[1], new)]
    f["type"] = repl(copy.deepcopy(jf["type"]), r.choice(sup))
    return True


def M_covariance_list_depth(S, r):
    c = inherited(S)
    if not c:
        return False
    t, f, it, jf = r.choice(c)
    jt = copy.deepcopy(jf["type"])
    f["type"] = ["l", ["nn", jt]] if jt[0] != "nn" else ["nn", ["l", jt]]
    return True


def M_iface_arg_default_only(S, r):
    """Validity-preserving: an implementation may change an argument's default/deprecation."""
    c = [(t, f, it, jf) for t, f, it, jf in inherited(S) if f["args"]]
    if not c:
        return False
    t, f, it, jf = r.choice(c)
    a = r.choice(f["args"])
    tm = tmap(S)
    try:
        a["default"] = ["lit", valid_lit(S, a["type"], r, 1), "literal"]
    except ValueError:
        return False
    return True


def M_ok_selfref_null_default(S, r):
    """Validity-preserving near miss of a default cycle / non-null cycle."""
    c = [t for t in types_of(S, "input") if not t.get("oneof")]
    if not c:
        return False
    t = r.choice(c)
    shape = r.randrange(4)
    if shape == 0:
        t["fields"].append({"name": "zk", "type": tn(t["name"]), "dep": False, "default": ["lit", ["null"], "literal"]})
    elif shape == 1:
        t["fields"].append({"name": "zk", "type": ["nn", ["l", ["nn", tn(t["name"])]]], "dep": False,
                            "default": ["lit", ["list", []], r.choice(["literal", "value"])]})
    elif shape == 2:
        t["fields"].append({"name": "zk", "type": ["l", tn(t["name"])], "dep": False, "default": None})
    else:
        t["fields"].append({"name": "zk", "type": tn(t["name"]), "dep": False, "default": ["internal"]})
    return True


def M_default_cycle_nested(S, r):
    """A.zx: B = {zy: {}}  with  B.zy: A  -  the cycle goes through a provided nested object."""
    c = [t for t in types_of(S, "input") if not t.get("oneof")]
    if not c:
        return False
    a = r.choice(c)
    b = r.choice(c)
    if any(f["type"][0] == "nn" and f["default"] is None for f in a["fields"] + b["fields"]):
        pass  # the nested {} is then also an invalid default: both kinds are expected
    b["fields"].append({"name": "zy", "type": tn(a["name"]), "dep": False, "default": None})
    a["fields"].append({"name": "zx", "type": tn(b["name"]), "dep": False,
                        "default": ["lit", ["obj", [["zy", ["obj", []]]]], r.choice(["literal", "value"])]})
    return True


def M_default_cycle_broken(S, r):
    """Near miss: the nested object provides the field, so its default is not applied."""
    c = [t for t in types_of(S, "input") if not t.get("oneof")]
    if not c:
        return False
    a = r.choice(c)
    v = valid_lit(S, ["nn", tn(a["name"])], r, 1)
    v[1].append(["zx", ["null"]])
    a["fields"].append({"name": "zx", "type": tn(a["name"]), "dep": False,
                        "default": ["lit", v, "literal" if lit_has_enum(v) else r.choice(["literal", "value"])]})
    return True


def _add_bogus(S):
    n = "Bog%d" % len(S["types"])
    S["types"].append({"name": n, "kind": "bogus"})
    return n


def M_bogus_type(S, r):
    _add_bogus(S)
    return True


def M_bogus_reserved_name(S, r):
    S["types"].append({"name": "__Bog", "kind": "bogus"})
    return True


def M_bogus_field_type(S, r):
    c = out_fields(S)
    if not c:
        return False
    r.choice(c)[1]["type"] = wrap_rand(r, tn(_add_bogus(S)))
    return True


def M_bogus_arg_type(S, r):
    c = [a for _, _, a in field_args(S)] + [a for _, a in dir_args(S)] + [a for _, a in input_fields(S)]
    if not c:
        return False
    a = r.choice(c)
    a["type"] = wrap_rand(r, tn(_add_bogus(S)))
    if r.random() < 0.6:
        a["default"] = ["lit", r.choice([["int", 1], ["obj", []], ["null"], ["list", [["str"]]]]), r.choice(["literal", "value"])]
    return True


def M_bogus_interface(S, r):
    c = types_of(S, "object", "interface")
    t = r.choice(c)
    t["interfaces"].insert(r.randint(0, len(t["interfaces"])), _add_bogus(S))
    return True


def M_bogus_member(S, r):
    c = types_of(S, "union")
    if not c:
        return False
    t = r.choice(c)
    t["members"].insert(r.randint(0, len(t["members"])), _add_bogus(S))
    return True


def M_bogus_root(S, r):
    S[r.choice(["query", "mutation", "subscription"])] = _add_bogus(S)
    return True


def M_bogus_directive(S, r):
    S["directives"].insert(r.randint(0, len(S["directives"])),
                           {"name": r.choice(["str", "bogd"]), "bogus": True, "locations": [], "args": []})
    return True


def M_redefine_specified_directive(S, r):
    """A user directive that takes the name of a specified one is validated like any other."""
    S["directives"].append({"name": r.choice(["skip", "include"]), "locations": ["FIELD"],
                            "args": [{"name": r.choice(["if", "__x"]), "type": _noninput(S, r) if r.random() < 0.6 else tn("Boolean"),
                                      "dep": False, "default": None}]})
    return True


def holders_of(S, fname):
    return [(t, f) for t in types_of(S, "object", "interface") for f in t["fields"] if f["name"] == fname]


def _kind_swap_pair(r, base):
    """Two types of equal wrapper depth that differ in the KIND of a wrapper."""
    return r.choice([(["l", base], ["nn", base]), (["nn", base], ["l", base]),
                     (["l", ["nn", base]], ["l", ["l", base]]), (["l", ["l", base]], ["l", ["nn", base]]),
                     (["nn", ["l", base]], ["l", ["l", base]])])


def M_arg_wrapper_kind_swap(S, r):
    c = [(t, f, it, jf) for t, f, it, jf in inherited(S) if jf["args"]]
    if not c:
        return False
    t, f, it, jf = r.choice(c)
    an = r.choice(jf["args"])["name"]
    base = tn(named_of([a for a in jf["args"] if a["name"] == an][0]["type"]))
    A, B = _kind_swap_pair(r, base)
    for _, hf in holders_of(S, f["name"]):
        for a in hf["args"]:
            if a["name"] == an:
                a["type"], a["default"], a["dep"] = copy.deepcopy(A), None, False
    for a in f["args"]:
        if a["name"] == an:
            a["type"] = copy.deepcopy(B)
    return True


def M_field_wrapper_kind_swap(S, r):
    c = inherited(S)
    if not c:
        return False
    t, f, it, jf = r.choice(c)
    base = tn(named_of(jf["type"]))
    A, B = _kind_swap_pair(r, base)
    for _, hf in holders_of(S, f["name"]):
        hf["type"] = copy.deepcopy(A)
    f["type"] = copy.deepcopy(B)
    return True


def _default_lits(S):
    c = [a for _, _, a in field_args(S)] + [a for _, a in dir_args(S)] + [a for _, a in input_fields(S)]
    return [a for a in c if a.get("default") and a["default"][0] == "lit"]


def M_enum_drop_used_value(S, r):
    """Narrow an enum: a value used by some default disappears, the default stays as it is."""
    used = set()

    def walk(v):
        if v[0] == "enum":
            used.add(v[1])
        elif v[0] == "list":
            for x in v[1]:
                walk(x)
        elif v[0] == "obj":
            for _, x in v[1]:
                walk(x)
    for a in _default_lits(S):
        walk(a["default"][1])
    c = [(t, v) for t in types_of(S, "enum") if len(t["values"]) >= 2 for v in t["values"] if v in used]
    if not c:
        return False
    t, v = r.choice(c)
    t["values"] = [x for x in t["values"] if x != v]
    return True


def M_input_add_required_field(S, r):
    """A new required input field: every default object written for the type is now incomplete."""
    tm = tmap(S)
    c = [tm[named_of(a["type"])] for a in _default_lits(S)
         if tm.get(named_of(a["type"]), {}).get("kind") == "input" and not tm[named_of(a["type"])].get("oneof")]
    c = c or [t for t in types_of(S, "input") if not t.get("oneof")]
    if not c:
        return False
    r.choice(c)["fields"].append({"name": "zreq", "type": ["nn", tn(r.choice(["Int", "Boolean"]))],
                                  "dep": False, "default": None})
    return True


def M_input_field_retype(S, r):
    """Change the leaf type of an input field: values given for it inside defaults no longer fit."""
    c = [(t, a) for t, a in input_fields(S) if named_of(a["type"]) in BUILTIN]
    if not c:
        return False
    t, a = r.choice(c)
    old = named_of(a["type"])
    new = r.choice([b for b in ("Int", "Boolean", "String") if b != old])

    def repl(ty):
        return tn(new) if ty[0] == "n" else [ty[0], repl(ty[1])]
    a["type"] = repl(a["type"])
    return True


MUTATIONS += [
    M_arg_wrapper_kind_swap, M_field_wrapper_kind_swap, M_enum_drop_used_value,
    M_input_add_required_field, M_input_field_retype,
    M_redefine_specified_directive,
    M_default_missing_required, M_default_unknown_field, M_default_oneof_two, M_default_oneof_null,
    M_default_oneof_empty, M_default_nested_bad, M_default_wrong_leaf, M_default_null_item,
    M_reverse_covariance, M_covariance_list_depth, M_default_cycle_nested,
    M_bogus_type, M_bogus_reserved_name, M_bogus_field_type, M_bogus_arg_type, M_bogus_interface,
    M_bogus_member, M_bogus_root, M_bogus_directive,
]
# operators that must keep a valid schema valid
BENIGN = [M_iface_arg_default_only, M_ok_selfref_null_default, M_default_cycle_broken]


class SiteRng:
    """PRNG whose FIRST choice() (the mutation site) is dictated: lets the driver enumerate all sites."""

    def __init__(self, rng, first):
        self._r, self._first, self.options = rng, first, None

    def choice(self, seq):
        if self.options is None:
            self.options = len(seq)
            return seq[self._first % len(seq)]
        return self._r.choice(seq)

    def __getattr__(self, name):
        return getattr(self._r, name)


# ----------------------------------------------------------------------------- grammar-random (ill-kinded) schemas


def random_raw(r, n=None):
    n = n or r.randint(1, 6)
    kinds = ["scalar", "object", "object", "interface", "union", "enum", "input", "input"]
    names = [f"T{i}" for i in range(n)]
    if r.random() < 0.6:
        names[0] = "Query"
    if n > 2 and r.random() < 0.2:
        names[1] = "Mutation"
    anyname = names + BUILTIN
    tk = {nm: r.choice(kinds) for nm in names}
    if names[0] == "Query" and r.random() < 0.8:
        tk["Query"] = "object"
    enum_vals = [f"E{i}" for i in range(3)]

    def rt():
        t = tn(r.choice(anyname))
        for _ in range(3):
            c = r.random()
            if c < 0.2:
                t = ["l", t]
            elif c < 0.35 and t[0] != "nn":
                t = ["nn", t]
        return t

    def rl(d=2):
        c = r.random()
        if d <= 0 or c < 0.55:
            return r.choice([["null"], ["int", r.choice([0, 5, -7, 2 ** 31, 2 ** 40])], ["float"], ["str"],
                             ["bool", True], ["enum", r.choice(enum_vals)]])
        if c < 0.75:
            return ["list", [rl(d - 1) for _ in range(r.randint(0, 2))]]
        ks = r.sample(["a0", "a1", "a2", "zz"], r.randint(0, 3))
        return ["obj", [[k, rl(d - 1)] for k in ks]]

    def riv(nm):
        t = rt()
        d = ["lit", rl(), "literal"] if r.random() < 0.45 else None
        return {"name": nm, "type": t, "dep": r.random() < 0.15, "default": d}

    types = []
    for nm in names:
        k = tk[nm]
        if k == "scalar":
            types.append({"name": nm, "kind": k})
        elif k in ("object", "interface"):
            fs = [{"name": f"f{j}", "type": rt(), "dep": r.random() < 0.1,
                   "args": [riv(f"a{i}") for i in range(r.choice([0, 0, 1, 2]))]}
                  for j in range(r.randint(0, 3))]
            types.append({"name": nm, "kind": k, "fields": fs,
                          "interfaces": [r.choice(names) for _ in range(r.choice([0, 0, 1, 1, 2]))]})
        elif k == "union":
            types.append({"name": nm, "kind": k, "members": [r.choice(anyname if r.random() < 0.1 else names)
                                                           for _ in range(r.randint(0, 3))]})
        elif k == "enum":
            types.append({"name": nm, "kind": k, "values": enum_vals[:r.randint(0, 3)]})
        else:
            types.append({"name": nm, "kind": k, "oneof": r.random() < 0.25,
                          "fields": [riv(f"a{i}") for i in range(r.randint(0, 3))]})
    S = {"types": types, "query": None, "mutation": None, "subscription": None, "directives": []}
    if r.random() < 0.08:
        types.append({"name": "Bog", "kind": "bogus"})
        anyname.append("Bog")
        names = names + ["Bog"]
    if "Query" in names and r.random() < 0.8:
        S["query"] = "Query"
        if "Mutation" in names:
            S["mutation"] = "Mutation"
    else:
        for op in ("query", "mutation", "subscription"):
            if r.random() < 0.5:
                S[op] = r.choice(names)
        if "Mutation" in names and S["mutation"] is None and S["query"] is None and S["subscription"] is None:
            S["mutation"] = "Mutation"
    for i in range(r.choice([0, 0, 1])):
        S["directives"].append({"name": f"d{i}", "locations": r.sample(LOCS, r.randint(1, 2)),
                                "args": [riv(f"a{j}") for j in range(r.randint(0, 2))]})
    return S


# ----------------------------------------------------------------------------- running one schema


def impl_observe(schema):
    """-> dict(raised, messages, sync) for a built schema."""
    from graphql import graphql_sync
    from graphql.type import validate_schema
    ob = {"raised": None, "messages": None, "sync": None}
    errs = None
    try:
        errs = validate_schema(schema)
        if not isinstance(errs, list):
            ob["raised"] = f"returned {type(errs).__name__}"
            errs = None
        else:
            ob["messages"] = [e.message for e in errs]
            ob["cached"] = validate_schema(schema) is errs
    except Exception as e:  # noqa: BLE001
        ob["raised"] = f"{type(e).__name__}: {str(e)[:120]}"
    try:
        res = graphql_sync(schema, "{ __typename }")
        if errs is None:
            ob["sync"] = "returned although validate_schema raised"
        elif errs:
            ok = res.data is None and res.errors is not None and \
                [e.message for e in res.errors] == [e.message for e in errs]
            ob["sync"] = "ok" if ok else f"response is not the schema errors: data={res.data!r} errors={[e.message for e in res.errors or []][:3]}"
        else:
            qn = schema.query_type.name if schema.query_type else None
            ok = res.errors is None and res.data == {"__typename": qn}
            ob["sync"] = "ok" if ok else f"valid schema did not execute: data={res.data!r} errors={[e.message for e in res.errors or []][:3]}"
    except Exception as e:  # noqa: BLE001
        ob["sync"] = f"raised {type(e).__name__}: {str(e)[:120]}"
    return ob


def default_sites(D):
    """Where a literal default meets a declared non-input type (for grouping of findings)."""
    tm = {t["name"]: t["kind"] for t in D["types"]}
    def is_in(t):
        return tm.get(named_of(t), "scalar") in ("scalar", "enum", "input")
    sites = set()
    for t in D["types"]:
        for f in t.get("fields", []):
            if t["kind"] == "input":
                if f.get("default") and f["default"][0] == "lit" and not is_in(f["type"]):
                    sites.add("input-field")
            else:
                for a in f["args"]:
                    if a.get("default") and a["default"][0] == "lit" and not is_in(a["type"]):
                        sites.add("argument")
    for d in D["directives"]:
        for a in d["args"]:
            if a.get("default") and a["default"][0] == "lit" and not is_in(a["type"]):
                sites.add("directive-argument")
    return sites


class Runner:
    def __init__(self, ck):
        self.ck = ck
        self.cases = []     # (origin, info, D, ob, wire)
        self.groups = {}    # violation group -> (size, key, what, replay)
        self.nsample = {}

    def add_built(self, origin, info, schema, S=None):
        ck = self.ck
        try:
            D = dump_schema(schema)
            w = wire(D)
        except OutOfFragment as e:
            ck.count("skipped_out_of_fragment")
            ck.count(f"oof:{str(e)[:40]}")
            return
        if S is not None:
            if canon(D) != canon(S):
                ck.count("dump_differs_from_generator")
                if "dump_mismatch" not in ck.extra:
                    ck.extra["dump_mismatch"] = {"origin": origin, "abstract": S, "dump": D}
            else:
                ck.count("dump_equals_generator")
        ob = impl_observe(schema)
        self.cases.append((origin, info, D, ob, w))

    def add_abstract(self, S, label, rng, sdl=True, prog=True, base=None):
        """Build S programmatically and from SDL (with and without SDL pre-validation).
        base = (abstract, built and already VALIDATED valid schema): S is then also constructed from
        the base's to_kwargs() with the schema parts replaced (history-dependent construction), and
        a sample is passed through lexicographic_sort_schema."""
        from graphql import GraphQLError, build_schema
        from graphql.type import GraphQLSchema
        ck = self.ck
        if prog:
            for mode in ((None,) if rng.random() < 0.7 else ("literal", "value")):
                try:
                    sch = build_prog(S, force_mode=mode)
                except (TypeError, GraphQLError) as e:
                    ck.count("not_constructible_programmatically")
                    ck.count(f"ncp:{str(e)[:50]}")
                    continue
                self.add_built("programmatic", {"label": label, "abstract": S, "force_mode": mode}, sch, S)
                if base is not None:
                    try:
                        sch2 = build_prog(S, force_mode=mode, dcache=base[2])
                        kw = dict(base[1].to_kwargs())
                        kw.update(query=sch2.query_type, mutation=sch2.mutation_type,
                                  subscription=sch2.subscription_type,
                                  types=tuple(sch2.type_map.values()), directives=sch2.directives)
                        re_ = GraphQLSchema(**kw)
                    except (TypeError, GraphQLError):
                        ck.count("not_constructible_from_kwargs")
                    else:
                        self.add_built("from-validated-kwargs",
                                       {"label": label, "abstract": S, "force_mode": mode,
                                        "base_abstract": base[0], "via": "to_kwargs"}, re_, S)
                    if rng.random() < 0.15:
                        self.add_sorted(sch, {"label": label, "abstract": S, "force_mode": mode, "via": "sort"})
        if sdl:
            ext = rng.random() < 0.5
            text = to_sdl(S, rng if ext else None)
            if text is None:
                ck.count("no_sdl_form")
                return
            if ext and "extend " in text:
                ck.count("sdl_with_extensions")
            for av in (True, False):
                try:
                    sch = build_schema(text, assume_valid_sdl=av)
                except (TypeError, GraphQLError) as e:
                    ck.count("sdl_rejected_by_sdl_validation" if not av else "sdl_not_buildable")
                    if av:
                        ck.count(f"snb:{str(e)[:50]}")
                    continue
                except Exception as e:  # noqa: BLE001  construction, not validation: counted, reported in evidence
                    ck.count(f"sdl_build_raised:{type(e).__name__}")
                    continue
                self.add_built("sdl" if av else "sdl-prevalidated",
                               {"label": label, "sdl": text, "assume_valid_sdl": av}, sch, S)

    def add_sorted(self, sch, info):
        """lexicographic_sort_schema of an already validated schema (it goes through to_kwargs)."""
        from graphql.type import validate_schema
        from graphql.utilities import lexicographic_sort_schema
        try:
            validate_schema(sch)
        except Exception:  # noqa: BLE001  reported for the schema itself
            return
        try:
            srt = lexicographic_sort_schema(sch)
        except Exception as e:  # noqa: BLE001  a transformation, not validation: counted only
            self.ck.count(f"sort_failed:{type(e).__name__}")
            return
        self.add_built("sorted-after-validation", info, srt)

    def add_history(self, S, base, rng):
        """Schemas derived from a validated valid schema: edited to_kwargs() and extend_schema."""
        from graphql import GraphQLError, build_schema, extend_schema, parse
        from graphql.language import DirectiveLocation
        from graphql.type import GraphQLDirective, GraphQLSchema, validate_schema
        ck = self.ck
        kinds = {t["name"]: t["kind"] for t in S["types"]}
        tm = base.type_map
        edits = [("same", {}), ("no-query", {"query": None}),
                 ("dup-root", {"mutation": base.query_type}),
                 ("dir-no-locations", {"directives": tuple(base.directives) + (GraphQLDirective("zd", []),)})]
        for n, k in kinds.items():
            if k in ("input", "enum", "union", "interface", "scalar"):
                edits.append((f"root-{k}", {rng.choice(["query", "mutation", "subscription"]): tm[n]}))
        for lab, ed in edits:
            try:
                re_ = GraphQLSchema(**{**base.to_kwargs(), **ed})
            except (TypeError, GraphQLError):
                ck.count("not_constructible_from_kwargs")
                continue
            self.add_built("from-validated-kwargs", {"label": "kwargs:" + lab, "base_abstract": S,
                                                     "via": "to_kwargs-edit", "edit": lab}, re_)
        self.add_sorted(base, {"label": "valid", "abstract": S, "via": "sort"})
        text = to_sdl(S)
        if text is None:
            return
        try:
            b2 = build_schema(text)
            if validate_schema(b2) != []:
                return
        except (TypeError, GraphQLError):
            return
        warm_defaults(b2, rng)
        objs = [n for n, k in kinds.items() if k == "object"]
        ins = [n for n, k in kinds.items() if k == "input"]
        ifs = [n for n, k in kinds.items() if k == "interface"]
        uns = [n for n, k in kinds.items() if k == "union"]
        o = rng.choice(objs)
        docs = [f"extend type {o} {{ zok: Int }}", f"extend type {o} {{ zq(a: {o} = 1): Int }}",
                f"extend type {o} {{ __z: Int }}", f"type ZNew implements {o} {{ a: Int }}", "type ZEmpty",
                f"extend type {o} {{ zr(a: Int! @deprecated): Int }}"]
        if ins:
            i = rng.choice(ins)
            docs += [f"extend type {o} {{ zbad: {i} }}", f"extend input {i} {{ zc: {i}! }}",
                     f"extend input {i} {{ zd: {i} = {{}} }}"]
        # a new required field invalidates every default object written for the type (also nested ones)
        plain = [t["name"] for t in S["types"] if t["kind"] == "input" and not t.get("oneof")]
        for i in rng.sample(plain, min(3, len(plain))):
            docs.append(f"extend input {i} {{ znew: {rng.choice(['Int!', '[Int!]!', 'Boolean!'])} }}")
        if ifs:
            docs.append(f"type ZImp implements {rng.choice(ifs)} {{ zz: Int }}")
        if uns:
            docs.append(f"extend union {rng.choice(uns)} = Int")
        if S.get("mutation") is None and "Mutation" not in kinds:
            docs.append(f"extend schema {{ mutation: {S['query']} }}")
        for doc in docs:
            for av in (False, True):
                try:
                    ex = extend_schema(b2, parse(doc), assume_valid_sdl=av)
                except (TypeError, GraphQLError):
                    ck.count("extension_rejected")
                    continue
                except Exception as e:  # noqa: BLE001
                    ck.count(f"extend_schema_raised:{type(e).__name__}")
                    continue
                self.add_built("extended-after-validation",
                               {"label": "extend", "sdl": text, "extension": doc, "assume_valid_sdl": av,
                                "via": "extend_schema"}, ex)

    def group(self, g, size, key, what, replay):
        cur = self.groups.get(g)
        if cur is None or size < cur[0]:
            self.groups[g] = (size, key, what, replay)

    def finish(self, m):
        ck = self.ck
        outs = m.run_batch([[1] + c[4] for c in self.cases])
        for (origin, info, D, ob, w), out in zip(self.cases, outs):
            h = hashlib.blake2b(repr(w).encode(), digest_size=6).hexdigest()
            replay = dict(info)
            replay.update({"origin": origin, "dump": D, "impl": ob, "wire": w})
            size = len(w)
            if out[0] != 0:
                self.group("model-decode", size, f"decode:{h}", "the model could not decode the schema dump (harness/model break)", replay)
                continue
            codes = out[1:]
            mk = set(codes)
            replay["model_kinds"] = sorted(KIND_NAMES.get(k, PSEUDO.get(k, str(k))) for k in mk)
            if 90 in mk or 91 in mk:
                self.group("model-pseudo", size, f"model:{h}",
                           f"the model reached {[PSEUDO[k] for k in mk if k in (90, 91)]} (contradicts the proved theorems)", replay)
                continue
            masked = 92 in mk
            mk -= {92}
            nontriv = bool(mk) or len(D["types"]) > 6
            self.nsample[origin] = self.nsample.get(origin, 0) + 1
            ck.note_case(("schema", origin, w), nontrivial=nontriv,
                         sample={"origin": origin, "label": info.get("label"),
                                 "sdl": info.get("sdl") or to_sdl(D),
                                 "model_kinds": replay["model_kinds"]} if self.nsample[origin] in (3, 40) else None)
            ck.count(f"origin:{origin}")
            ck.count("model_valid" if not mk else "model_invalid")
            for k in mk:
                ck.count(f"kind:{KIND_NAMES.get(k, k)}")
            if masked:
                ck.count("default_meets_non_input_type")
            label = info.get("label", "") or ""
            if label.endswith(":benign"):
                ck.count("benign_mutant_valid" if not mk else "benign_mutant_invalid_by_rules")
                if mk:
                    ck.count("benign_invalid:" + label + ":" + ",".join(replay["model_kinds"]))
            if ob["raised"] is not None:
                sites = sorted(default_sites(D)) or ["nested-input-field"]
                bogus = {t["name"] for t in D["types"] if t["kind"] == "bogus"}
                if any(D.get(op) in bogus for op in ("query", "mutation", "subscription")):
                    sites = ["non-type-root"]
                elif not masked:
                    sites = ["other:" + h]
                for site in sites:
                    self.group("raises:" + site, size + (0 if len(sites) == 1 else 10 ** 6),
                               f"validate_schema-raises:{site}",
                               f"validate_schema raised {ob['raised']} instead of returning errors "
                               + ("(a root operation type that is not a GraphQL type object); " if site == "non-type-root" else
                                  f"(default value at {site} position whose type is not an input type); ") +
                               f"graphql_sync: {ob['sync']}; expected rule kinds {replay['model_kinds']}", replay)
                ck.count("impl_raised")
                continue
            kinds, uncl = set(), []
            for msg in ob["messages"]:
                k = classify(msg)
                if k is None:
                    uncl.append(msg)
                else:
                    kinds.add(k)
            if ob.get("cached") is False:
                ck.count("second_call_returned_a_new_list")   # observation only: the property does not fix caching
            if ob["sync"] != "ok":
                self.group("sync:" + ob["sync"][:30], size, f"graphql_sync:{h}",
                           f"graphql_sync on the schema: {ob['sync']}", replay)
            if bool(ob["messages"]) != bool(mk):
                self.group("emptiness:" + ("impl-empty" if mk else "model-empty") + ":" + ",".join(sorted(KIND_NAMES.get(k, str(k)) for k in (mk or kinds)))[:80],
                           size, f"emptiness:{h}",
                           f"validate_schema returned {ob['messages'][:3]} but the rules give {replay['model_kinds']}", replay)
                continue
            if uncl:
                ck.count("unclassified", len(uncl))
                ck.extra.setdefault("unclassified_messages", [])
                if len(ck.extra["unclassified_messages"]) < 10:
                    ck.extra["unclassified_messages"].append(uncl[0])
                continue
            a, b = set(kinds), set(mk)
            if masked:
                a.discard(9)
                b.discard(9)
            if a != b:
                only_i = sorted(KIND_NAMES[k] for k in a - b)
                only_m = sorted(KIND_NAMES[k] for k in b - a)
                self.group(f"kinds:impl-only={only_i}:model-only={only_m}", size, f"kinds:{h}",
                           f"violated rule kinds differ: only implementation {only_i}, only rules {only_m}; "
                           f"messages {ob['messages'][:4]}", replay)
                continue
            ck.count("agree")
        for g in sorted(self.groups, key=lambda g: self.groups[g][0]):
            size, key, what, replay = self.groups[g]
            ck.violation(key, what, replay)
        ck.extra["violation_groups"] = {g: v[2][:200] for g, v in self.groups.items()}


CORPUS_BUILTIN = [
    {"sdl": "type Query { g(x: Query = 1): Int }", "assume_valid_sdl": True},
    {"sdl": "type Query { g: Int }\ninput I { a: Query = 1 }", "assume_valid_sdl": True},
    {"sdl": "directive @d(a: Query = 1) on FIELD\ntype Query { g: Int }", "assume_valid_sdl": True},
    {"sdl": "type Query { g(x: I = {a: 1}): Int }\ninput I { a: Query }", "assume_valid_sdl": True},
    {"sdl": "type Query { g(x: Query = null): Int }", "assume_valid_sdl": True},
    {"sdl": "type Query { g(x: [Query!]! = []): Int }", "assume_valid_sdl": False},
    {"sdl": "type Query { g: Int }\ninput A { a: A! }", "assume_valid_sdl": True},
    {"sdl": "type Query { g: Int }\ninput A { a: A = {} }", "assume_valid_sdl": True},
    {"sdl": "type Query { g: Int }\ninput A { a: B = {b: {}} }\ninput B { b: A = {} }", "assume_valid_sdl": False},
]


def run(tier):
    from graphql import GraphQLError, build_schema
    from graphql.type import validate_schema

    ck = Check("C20", tier)
    ck.assumptions += ASSUMPTIONS
    br = common.build("C20", models=("schemaval",))
    ck.proofs(br)
    if not br.ok:
        return ck.finish()
    m = Model("schemaval")
    rn = Runner(ck)
    r = ck.rng
    quick = tier == "quick"
    n_base = 60 if quick else 700
    n_double = 6 if quick else 12
    n_allsites = 6 if quick else 100      # base schemas on which every operator is applied at every site
    n_raw = 500 if quick else 15000
    ck.rule = (f"{n_base} schemas from the valid-schema generator (all kinds, interface hierarchies, recursive inputs with "
               "nullable/list breaks, OneOf, custom directives, non-default roots, literal/value/internal defaults), each built "
               "programmatically and from SDL with and without SDL pre-validation; every mutation operator "
               f"({len(MUTATIONS)} violating + {len(BENIGN)} validity-preserving) applied at one random site of every base schema and at "
               f"every site (<= 12 per operator) of the first {n_allsites} base schemas, plus {n_double} sampled operator pairs per base; {n_raw} grammar-random "
               "ill-kinded schemas (any reference may name any type) built three ways; corpus first. History-dependent construction: every "
               "base schema is validated first, then every mutant is also built as GraphQLSchema(**{**base.to_kwargs(), mutated parts}), "
               "the base's kwargs are edited directly (no query, duplicate root, wrong-kind root, location-less directive), violating "
               "documents are applied with extend_schema to the validated base, and a sample goes through lexicographic_sort_schema. "
               "Compared per built schema: "
               "validate_schema raises?, emptiness, set of rule kinds, graphql_sync response. non-trivial = the rule checker "
               "reports at least one kind, or the schema has more than 6 types")

    for c in common.load_corpus("C20"):
        if "abstract" in c:
            rn.add_abstract(c["abstract"], "corpus", r, sdl=False, prog=True)
    for c in CORPUS_BUILTIN + [c for c in common.load_corpus("C20") if "sdl" in c]:
        try:
            sch = build_schema(c["sdl"], assume_valid_sdl=bool(c.get("assume_valid_sdl")))
        except (TypeError, GraphQLError):
            ck.count("corpus_not_buildable")
            continue
        rn.add_built("corpus", {"label": "corpus", "sdl": c["sdl"], "assume_valid_sdl": bool(c.get("assume_valid_sdl"))}, sch)

    for i in range(n_base):
        S = ValidGen(r, big=(i % 3 == 0)).schema()
        rn.add_abstract(S, "valid", r)
        # a validated valid base: mutants are ALSO constructed from its to_kwargs()
        base = None
        try:
            dcache = {}
            bsch = build_prog(S, dcache=dcache)
            if validate_schema(bsch) == []:
                ck.count("base_defaults_coerced_before_deriving", warm_defaults(bsch, r))
                base = (S, bsch, dcache)
                rn.add_history(S, bsch, r)
            else:
                ck.count("base_not_valid_by_implementation")
        except Exception:  # noqa: BLE001  reported through the plain build above
            ck.count("base_not_validated")
        all_sites = i < n_allsites
        for mu in MUTATIONS + BENIGN:
            first = 0
            while True:
                S2 = copy.deepcopy(S)
                sr = SiteRng(r, first) if all_sites else r
                try:
                    ok = mu(S2, sr)
                except (KeyError, IndexError, ValueError):
                    ok = False
                if not ok:
                    ck.count("mutation_not_applicable")
                else:
                    ck.count(f"mut:{mu.__name__[2:]}")
                    lab = mu.__name__[2:] + (":benign" if mu in BENIGN else "")
                    rn.add_abstract(S2, lab, r, sdl=(i % 2 == 0), prog=True, base=base)
                first += 1
                if not all_sites or sr.options is None or first >= min(sr.options, 12):
                    break
        for _ in range(n_double):
            S2 = copy.deepcopy(S)
            m1, m2 = r.sample(MUTATIONS, 2)
            try:
                ok = m1(S2, r) and m2(S2, r)
            except (KeyError, IndexError, ValueError):
                ok = False
            if not ok:
                ck.count("mutation_not_applicable")
                continue
            ck.count("double_mutants")
            rn.add_abstract(S2, m1.__name__[2:] + "+" + m2.__name__[2:], r, sdl=r.random() < 0.5, base=base)
    for i in range(n_raw):
        S = random_raw(r)
        rn.add_abstract(S, "grammar-random", r, sdl=True, prog=(i % 3 == 0))
    # SDL documents that the SDL pre-validation rejects (or that do not build at all): not constructible
    noise = ["type T0 { f: Int }", "extend type Nope { f: Int }", "type Z { f: Missing }",
             "type Z { f: Int f: Int }", "enum Z { A A }", "directive @d0 on FIELD\ndirective @d0 on FIELD"]
    for i in range(n_raw // 10):
        S = random_raw(r)
        text = to_sdl(S)
        if text is None:
            continue
        text += r.choice(noise) + "\n"
        for av in (True, False):
            try:
                sch = build_schema(text, assume_valid_sdl=av)
            except (TypeError, GraphQLError):
                ck.count("noise_sdl_rejected" if not av else "noise_sdl_not_buildable")
                continue
            except Exception as e:  # noqa: BLE001
                ck.count(f"noise_sdl_build_raised:{type(e).__name__}")
                continue
            rn.add_built("sdl-noise" if av else "sdl-noise-prevalidated",
                         {"label": "grammar-random+noise", "sdl": text, "assume_valid_sdl": av}, sch)
    rn.finish(m)
    return ck.finish()


def replay(path):
    from graphql import build_schema, extend_schema, parse
    from graphql.type import GraphQLDirective, GraphQLSchema, validate_schema
    from graphql.utilities import lexicographic_sort_schema
    d = json.loads(open(path).read())
    via = d.get("via")
    if via == "extend_schema":
        print("base SDL (validated first):\n" + d["sdl"] + "\nextension: " + d["extension"])
        base = build_schema(d["sdl"])
        print("base errors:", validate_schema(base))
        print("defaults coerced on the base before extending:", warm_defaults(base))
        sch = extend_schema(base, parse(d["extension"]), assume_valid_sdl=bool(d.get("assume_valid_sdl")))
    elif via in ("to_kwargs", "to_kwargs-edit"):
        dcache = {}
        base = build_prog(d["base_abstract"], dcache=dcache)
        print("base errors (validated first):", validate_schema(base))
        print("defaults coerced on the base before deriving (default objects are shared):", warm_defaults(base))
        kw = dict(base.to_kwargs())
        if via == "to_kwargs":
            print("mutant:", json.dumps(d["abstract"])[:2000])
            m = build_prog(d["abstract"], force_mode=d.get("force_mode"), dcache=dcache)
            kw.update(query=m.query_type, mutation=m.mutation_type, subscription=m.subscription_type,
                      types=tuple(m.type_map.values()), directives=m.directives)
        else:
            lab = d.get("edit", "")
            print("edit of the base's to_kwargs():", lab)
            if lab == "no-query":
                kw["query"] = None
            elif lab == "dup-root":
                kw["mutation"] = base.query_type
            elif lab == "dir-no-locations":
                kw["directives"] = tuple(base.directives) + (GraphQLDirective("zd", []),)
            elif lab.startswith("root-"):
                dump = d["dump"]
                for op in ("query", "mutation", "subscription"):
                    kw[op] = base.type_map.get(dump.get(op)) if dump.get(op) else None
        sch = GraphQLSchema(**kw)
    elif d.get("sdl") is not None and d.get("origin") != "programmatic":
        print("SDL:\n" + d["sdl"])
        sch = build_schema(d["sdl"], assume_valid_sdl=bool(d.get("assume_valid_sdl")))
    elif d.get("abstract") is not None:
        print("abstract schema:", json.dumps(d["abstract"])[:2000])
        sch = build_prog(d["abstract"], force_mode=d.get("force_mode"))
        if via == "sort":
            validate_schema(sch)
            sch = lexicographic_sort_schema(sch)
    else:
        print(d)
        return 0
    ob = impl_observe(sch)
    print("implementation:", json.dumps(ob, indent=1))
    br = common.build("C20", models=("schemaval",))
    bad = ob["raised"] is not None or ob["sync"] != "ok"
    if br.ok:
        out = Model("schemaval").run_batch([[1] + wire(dump_schema(sch))])[0]
        mk = set(out[1:]) - {92}
        print("rules (model):", sorted(KIND_NAMES.get(k, PSEUDO.get(k, str(k))) for k in mk))
        if ob["messages"] is not None:
            ik = {classify(m) for m in ob["messages"]}
            if bool(ik) != bool(mk) or (None not in ik and 92 not in out and ik != mk):
                bad = True
    print("property violated on this input" if bad else "implementation and rules agree on this input")
    return 1 if bad else 0
