"""C19 - extend equals build, sort only reorders, diff is reflexive and sound."""
from __future__ import annotations

import copy
import json

from . import common
from . import gen_schema as G
from .common import Check, Model

ASSUMPTIONS = [
    "C19 model: SchemaOps/{Schema,Sort,Diff,Build,Extend,NatOrder}.v; the sort order is a Section parameter of the "
    "theorems (any total order on names), instantiated with natural_comparison_key (ASCII digits; GraphQL names are "
    "ASCII) in the executable model",
    "sort correspondence is on the defined types and non-specified directives (built-in types are not mapped by "
    "map_schema_config; filtering commutes with a stable sort); object literals inside default values are compared "
    "with sorted field names (a default held as a Python value is printed in the field order of its input type)",
    "a quarter of the schemas carry their own definitions of specified directives (@skip, @deprecated, ...): the "
    "implementation passes directives with a specified name through unmapped and never prints them, so the model sees "
    "the schema without them for sort/extend/build (they are part of the diff encoding and of the dumps)",
    "diff correspondence compares the multiset of change kinds (never the description strings) on the whole type map; "
    "the places named by the changes are covered by the theorem C19_diff_sound (witness per kind) on the model",
    "extension documents come from the generator domain of the property (add fields/interfaces/members/values/"
    "input fields/directives/operation types/new types, directive-only extension blocks of every kind incl. "
    "@specifiedBy on scalar extensions and @oneOf on input extensions); a new type named Query/Mutation/Subscription is outside "
    "that domain (build_schema adopts it as a root by convention, extend_schema does not)",
]


# --------------------------------------------------------------------------- single-edit mutants


def mutate(spec, rng):
    """One edit of a deep copy of the spec; returns (mutant, label) or None."""
    m = copy.deepcopy(spec)
    g = G._G(rng, 2, adversarial=False)
    g.used |= {t.name for t in m.types}
    g.input_names = G.BUILTIN_SCALARS + [t.name for t in m.types if t.kind in ("scalar", "enum", "input")]
    g.output_names = G.BUILTIN_SCALARS + [t.name for t in m.types if t.kind != "input"]
    by = lambda *k: [t for t in m.types if t.kind in k]
    roots = {m.query, m.mutation, m.subscription}
    ops = ["field_remove", "field_add", "field_type", "arg_add_opt", "arg_add_req", "arg_remove", "arg_type",
           "default_change", "default_remove", "default_add", "desc_type", "desc_field", "desc_arg", "desc_enum",
           "enum_add", "enum_remove", "union_add", "union_remove", "iface_add", "iface_remove", "type_remove",
           "type_add", "type_kind", "dir_add", "dir_remove", "dir_arg_add", "dir_arg_remove", "dir_repeatable",
           "dir_loc_add", "dir_loc_remove", "dir_desc", "input_add_opt", "input_add_req", "input_remove",
           "input_type", "reorder", "deprecate", "specified_by"]
    op = rng.choice(ops)
    fielded = [t for t in by("object", "interface") if t.fields]

    def some_field(min_fields=1):
        c = [t for t in fielded if len(t.fields) >= min_fields]
        if not c:
            return None, None
        t = rng.choice(c)
        return t, rng.choice(t.fields)

    def retype(tr):
        r = rng.random()
        if r < 0.3:
            return tr[1] if tr[0] == "nn" else G.NN(tr)
        if r < 0.5:
            return G.L(tr)
        if r < 0.7 and tr[0] == "l":
            return tr[1]
        return None

    if op == "field_remove":
        t, f = some_field(2)
        if not t:
            return None
        t.fields.remove(f)
    elif op == "field_add":
        t, _ = some_field()
        if not t:
            return None
        t.fields.append(G.Field("zz_new", G.N("Int")))
    elif op == "field_type":
        t, f = some_field()
        if not t:
            return None
        nt = retype(f.type)
        if nt is None:
            nt = G.N("String") if G.tref_named(f.type) != "String" else G.N("Int")
        f.type = nt
    elif op in ("arg_add_opt", "arg_add_req"):
        t, f = some_field()
        if not t:
            return None
        f.args.append(G.Arg("zz_arg", G.NN(G.N("Int")) if op == "arg_add_req" else G.N("Int"),
                            ("v", 3) if rng.random() < 0.3 else None))
    elif op in ("arg_remove", "arg_type", "default_change", "default_remove", "default_add", "desc_arg"):
        c = [(t, f, a) for t in fielded for f in t.fields for a in f.args]
        if op in ("default_change", "default_remove"):
            c = [x for x in c if x[2].default is not None]
        if op == "default_add":
            c = [x for x in c if x[2].default is None]
        if not c:
            return None
        t, f, a = rng.choice(c)
        if op == "arg_remove":
            f.args.remove(a)
        elif op == "arg_type":
            nt = retype(a.type)
            if nt is None:
                nt = G.N("String") if G.tref_named(a.type) != "String" else G.N("Int")
            a.type = nt
        elif op == "default_change":
            a.default = ("v", "changed" if a.default[1] != "changed" else "again")
        elif op == "default_remove":
            a.default = None
        elif op == "default_add":
            a.default = ("v", None) if a.type[0] != "nn" else ("v", 1)
        else:
            a.desc = (a.desc or "") + "!"
    elif op == "desc_type":
        t = rng.choice(m.types)
        t.desc = None if (t.desc is not None and rng.random() < 0.3) else (t.desc or "") + "!"
    elif op == "desc_field":
        t, f = some_field()
        if not t:
            return None
        f.desc = (f.desc or "") + "!"
    elif op in ("desc_enum", "enum_add", "enum_remove"):
        c = by("enum")
        if not c:
            return None
        t = rng.choice(c)
        if op == "desc_enum":
            v = rng.choice(t.values)
            v.desc = (v.desc or "") + "!"
        elif op == "enum_add":
            t.values.append(G.EnumVal("ZZ_NEW"))
        else:
            if len(t.values) < 2:
                return None
            t.values.remove(rng.choice(t.values))
    elif op in ("union_add", "union_remove"):
        c = by("union")
        if not c:
            return None
        u = rng.choice(c)
        if op == "union_add":
            cand = [o.name for o in by("object") if o.name not in u.members]
            if not cand:
                return None
            u.members.append(rng.choice(cand))
        else:
            if len(u.members) < 2:
                return None
            u.members.remove(rng.choice(u.members))
    elif op in ("iface_add", "iface_remove"):
        c = by("object", "interface")
        t = rng.choice(c)
        if op == "iface_add":
            cand = [i.name for i in by("interface") if i.name not in t.ifaces and i.name != t.name]
            if not cand:
                return None
            t.ifaces.append(rng.choice(cand))
        else:
            if not t.ifaces:
                return None
            t.ifaces.remove(rng.choice(t.ifaces))
    elif op == "type_remove":
        used = set()
        for t in m.types:
            for f in t.fields:
                used.add(G.tref_named(f.type))
                used |= {G.tref_named(a.type) for a in f.args}
            used |= {G.tref_named(a.type) for a in t.inputs} | set(t.ifaces) | set(t.members)
        for d in m.directives:
            used |= {G.tref_named(a.type) for a in d.args}
        c = [t for t in m.types if t.name not in used and t.name not in roots]
        if not c:
            return None
        m.types.remove(rng.choice(c))
    elif op == "type_add":
        t = G.Type("scalar", "ZzNew")
        m.types.insert(rng.randint(0, len(m.types)), t)
    elif op == "type_kind":
        c = by("enum")
        if not c:
            return None
        t = rng.choice(c)
        t.kind, t.values = "scalar", []
    elif op == "dir_add":
        m.directives.append(G.Directive("zzdir", ["FIELD"]))
    elif op in ("dir_remove", "dir_arg_add", "dir_arg_remove", "dir_repeatable", "dir_loc_add", "dir_loc_remove",
                "dir_desc"):
        if not m.directives:
            return None
        d = rng.choice(m.directives)
        if op == "dir_remove":
            m.directives.remove(d)
        elif op == "dir_arg_add":
            d.args.append(G.Arg("zz_arg", G.NN(G.N("Int")) if rng.random() < 0.5 else G.N("Int")))
        elif op == "dir_arg_remove":
            if not d.args:
                return None
            d.args.remove(rng.choice(d.args))
        elif op == "dir_repeatable":
            d.repeatable = not d.repeatable
        elif op == "dir_loc_add":
            cand = [l for l in G.LOCATIONS if l not in d.locs]
            d.locs.append(rng.choice(cand))
        elif op == "dir_loc_remove":
            if len(d.locs) < 2:
                return None
            d.locs.remove(rng.choice(d.locs))
        else:
            d.desc = (d.desc or "") + "!"
    elif op in ("input_add_opt", "input_add_req", "input_remove", "input_type"):
        c = by("input")
        if not c:
            return None
        t = rng.choice(c)
        if op == "input_add_opt":
            t.inputs.append(G.Arg("zz_in", G.N("Int")))
        elif op == "input_add_req":
            t.inputs.append(G.Arg("zz_in", G.NN(G.N("Int")), ("v", 1) if rng.random() < 0.3 else None))
        elif op == "input_remove":
            if len(t.inputs) < 2:
                return None
            t.inputs.remove(rng.choice(t.inputs))
        else:
            a = rng.choice(t.inputs)
            nt = retype(a.type)
            if nt is None:
                nt = G.N("String") if G.tref_named(a.type) != "String" else G.N("Int")
            a.type = nt
    elif op == "reorder":
        rng.shuffle(m.types)
        for t in m.types:
            for l in (t.fields, t.ifaces, t.members, t.values, t.inputs):
                rng.shuffle(l)
            for f in t.fields:
                rng.shuffle(f.args)
        rng.shuffle(m.directives)
        for d in m.directives:
            rng.shuffle(d.locs)
            rng.shuffle(d.args)
    elif op == "deprecate":
        t, f = some_field()
        if not t:
            return None
        f.depr = None if f.depr is not None else "gone"
    elif op == "specified_by":
        c = by("scalar")
        if not c:
            return None
        t = rng.choice(c)
        t.specified_by = None if t.specified_by else "https://x.example"
    return m, op


# --------------------------------------------------------------------------- extension documents


def gen_extension(spec, rng):
    """Extension definitions (SDL strings) valid against the schema of `spec`, and the labels of what they add."""
    g = G._G(rng, 2, adversarial=rng.random() < 0.5)
    g.used |= {t.name for t in spec.types}
    g.input_names = G.BUILTIN_SCALARS + [t.name for t in spec.types if t.kind in ("scalar", "enum", "input")]
    g.output_names = G.BUILTIN_SCALARS + [t.name for t in spec.types if t.kind != "input"]
    defs, labels = [], []
    by = lambda *k: [t for t in spec.types if t.kind in k]
    # new types first (so that extensions may refer to them)
    new_objs = []
    for _ in range(rng.randint(0, 2)):
        t = G.Type("object", g.fresh("type"), g.text(0.3))
        t.fields = [G.Field("nf" + str(i), g.wrap(rng.choice(g.output_names))) for i in range(rng.randint(1, 2))]
        new_objs.append(t)
        defs.append(G.type_sdl(t))
        labels.append("new_object")
    if rng.random() < 0.3:
        t = G.Type("enum", g.fresh("type"))
        t.values = [G.EnumVal("N1"), G.EnumVal("N2", depr="x")]
        defs.append(G.type_sdl(t))
        g.input_names.append(t.name)
        g.output_names.append(t.name)
        labels.append("new_enum")
    if rng.random() < 0.3:
        t = G.Type("scalar", g.fresh("type"), g.text(0.3))
        defs.append(G.type_sdl(t))
        g.input_names.append(t.name)
        labels.append("new_scalar")
    g.output_names += [t.name for t in new_objs]
    uid = [0]

    def fresh_fields(have, n):
        out = []
        for _ in range(n):
            f = g.out_field(spec, set())
            uid[0] += 1
            f.name = "x%d_%s" % (uid[0], f.name)
            out.append(f)
        return out

    extra_iface_fields = {}  # interface name -> fields added to it by this document
    ext_ifaces, ext_members = {}, {}
    # phase 1: interfaces get new fields; every implementer gets them too (own extension blocks)
    for t in by("interface"):
        if rng.random() < 0.4:
            fs = fresh_fields(None, rng.randint(1, 2))
            extra_iface_fields[t.name] = fs
            for impl in [t] + [x for x in by("object", "interface") if t.name in x.ifaces]:
                e = G.Type(impl.kind, impl.name)
                e.fields = [f.copy() for f in fs]
                defs.append(G.type_sdl(e, extend=True))
            labels.append("fields")
    # phase 2: members of every kind
    for t in spec.types:
        if rng.random() < 0.5:
            continue
        for _ in range(rng.randint(1, 2)):  # possibly two extensions of the same type
            e = G.Type(t.kind, t.name)
            if t.kind == "object":
                e.fields = fresh_fields(None, rng.randint(0, 2))
                # implement an additional interface (with all its fields and its ancestors)
                if rng.random() < 0.4:
                    already = set(t.ifaces) | ext_ifaces.get(t.name, set())
                    cand = [i for i in by("interface") if i.name not in already]
                    if cand:
                        i = rng.choice(cand)
                        add = [a for a in i.ifaces + [i.name] if a not in already]
                        ext_ifaces[t.name] = already | set(add)
                        e.ifaces = add
                        names = {f.name for f in t.fields}
                        for x in already:
                            names |= {f.name for f in spec.type(x).fields}
                            names |= {f.name for f in extra_iface_fields.get(x, [])}
                        for a in add:
                            for f in spec.type(a).fields + extra_iface_fields.get(a, []):
                                if f.name not in names:
                                    e.fields.append(f.copy())
                                    names.add(f.name)
                if not e.fields and not e.ifaces:
                    continue
                if e.fields:
                    labels.append("fields")
                if e.ifaces:
                    labels.append("interfaces")
            elif t.kind == "union":
                have = set(t.members) | ext_members.get(t.name, set())
                cand = [o.name for o in by("object") + new_objs if o.name not in have]
                if not cand:
                    continue
                e.members = [rng.choice(cand)]
                ext_members[t.name] = have | set(e.members)
                labels.append("union_members")
            elif t.kind == "enum":
                uid[0] += 1
                e.values = [G.EnumVal("X%d_%d" % (uid[0], i), g.text(0.3), g.reason(0.3))
                            for i in range(rng.randint(1, 2))]
                labels.append("enum_values")
            elif t.kind == "input":
                uid[0] += 1
                if t.one_of:
                    e.inputs = [G.Arg("x%d_in" % uid[0], G.N(rng.choice(g.input_names)), None, g.text(0.3))]
                else:
                    e.inputs = [G.Arg("x%d_in" % uid[0], G.N(rng.choice(G.BUILTIN_SCALARS)), None, g.text(0.3))]
                    if rng.random() < 0.3:
                        e.inputs[0].type = G.N("Int")
                        e.inputs[0].default = ("v", rng.choice([0, 5, -3, None]))
                labels.append("input_fields")
            else:
                continue
            defs.append(G.type_sdl(e, extend=True))
    dnames = {d.name for d in spec.directives}
    for _ in range(rng.randint(0, 2)):
        n = g.fresh("dir", dnames | {"skip", "include", "deprecated", "specifiedBy", "oneOf", "defer", "stream"})
        dnames.add(n)
        locs = list(G.LOCATIONS)
        rng.shuffle(locs)
        defs.append(G.directive_sdl(G.Directive(n, locs[:rng.randint(1, 3)], g.args(spec, 2), rng.random() < 0.4,
                                                g.text(0.4))))
        labels.append("directive")
    # operation types
    ops = []
    cand = [o.name for o in by("object") + new_objs if o.name not in (spec.query, spec.mutation, spec.subscription)
            and o.name not in ("Query", "Mutation", "Subscription")]
    rng.shuffle(cand)
    for k in ("mutation", "subscription"):
        if getattr(spec, k) is None and cand and rng.random() < 0.4 and not spec.type(k.capitalize()):
            ops.append((k, cand.pop()))
    if ops:
        if len(ops) == 2 and rng.random() < 0.5:
            defs.append(G.schema_block_sdl(spec, extend=True, ops=ops[:1]))
            defs.append(G.schema_block_sdl(spec, extend=True, ops=ops[1:]))
        else:
            defs.append(G.schema_block_sdl(spec, extend=True, ops=ops))
        labels.append("operation_types")
    # directive-only extension blocks of every kind and of the schema itself (1-3 blocks per scalar, any order after
    # the shuffle); a scalar without a URL may gain @specifiedBy in any one of its blocks, a scalar with a URL
    # must keep it through blocks that do not mention @specifiedBy; `extend input X @oneOf` has no effect
    kw = {"scalar": "scalar", "object": "type", "interface": "interface", "union": "union", "enum": "enum",
          "input": "input"}
    tag = lambda: rng.choice(["@xtag", "@xtag(n: 1)", "@xtag @xtag(n: 2)"])
    tagged = False
    for t in spec.types:
        if rng.random() >= (0.7 if t.kind == "scalar" else 0.2):
            continue
        blocks = [f"extend {kw[t.kind]} {t.name} {tag()}" for _ in range(rng.randint(1, 3 if t.kind == "scalar" else 2))]
        labels.append("directive_only_" + t.kind)
        if t.kind == "scalar" and t.specified_by is None and rng.random() < 0.6:
            url = G.quote(rng.choice(["https://ext.example/spec", "urn:ext", "", G.adversarial_text(rng)]))
            blocks[rng.randrange(len(blocks))] = f"extend scalar {t.name} " + rng.choice(
                [f"@specifiedBy(url: {url})", f"@xtag @specifiedBy(url: {url})", f"@specifiedBy(url: {url}) @xtag"])
            labels.append("scalar_specified_by")
        if t.kind == "scalar" and t.specified_by is not None:
            labels.append("scalar_with_url_extended")
        if t.kind == "input" and not t.one_of and rng.random() < 0.4:
            blocks.append(f"extend input {t.name} @oneOf")
            labels.append("oneOf_on_extension")
        tagged = tagged or any("@xtag" in b for b in blocks)
        defs += blocks
    if rng.random() < 0.2:
        defs.append("extend schema @xtag")
        labels.append("directive_only_schema")
        tagged = True
    if tagged:
        defs.append("directive @xtag(n: Int) repeatable on SCALAR | OBJECT | INTERFACE | UNION | ENUM | INPUT_OBJECT | SCHEMA")
    rng.shuffle(defs)
    return defs, labels


# --------------------------------------------------------------------------- model answers


def decode_changes(out):
    if not out or out[0] != 1:
        return None
    r = G.Reader(out, 1)
    res = []
    for _ in range(r.n()):
        k = r.n()
        path = [r.text() for _ in range(r.n())]
        res.append((k, tuple(path)))
    return res


def canon_dump(schema):
    """Order-insensitive canonical form of the dump (for 'sorting changes only ordering')."""
    from graphql import print_ast
    from graphql.utilities import get_default_value_ast
    from graphql.utilities.sort_value_node import sort_value_node

    def canon(x):
        if isinstance(x, dict):
            return {k: (v if k == "roots" else canon(v)) for k, v in x.items()}
        if isinstance(x, list):
            l = [canon(v) for v in x]
            return sorted(l, key=lambda v: v["name"] if isinstance(v, dict) else v)
        return x

    d = G.dump(schema)

    # defaults: printed with sorted object fields
    def fix_args(args, objs):
        for a in args:
            ast = get_default_value_ast(objs[a["name"]])
            a["default"] = None if ast is None else print_ast(sort_value_node(ast))

    for t in d["types"]:
        ty = schema.type_map[t["name"]]
        if t["kind"] in ("object", "interface"):
            for f in t["fields"]:
                fix_args(f["args"], ty.fields[f["name"]].args)
        elif t["kind"] == "input":
            fix_args(t["inputs"], ty.fields)
    for dd in d["directives"]:
        fix_args(dd["args"], schema.get_directive(dd["name"]).args)
    return canon(d)


def run(tier):
    from graphql import build_schema, parse, print_schema, validate_schema
    from graphql.pyutils import natural_comparison_key
    from graphql.utilities import extend_schema, find_schema_changes, lexicographic_sort_schema

    ck = Check("C19", tier)
    ck.assumptions += ASSUMPTIONS
    br = common.build("C19", models=("schemaops",))
    ck.proofs(br)
    if not br.ok:
        return ck.finish()
    m = Model("schemaops")
    quick = tier == "quick"
    rng = ck.rng
    ck.rule = ("generated valid schemas (SDL-built and programmatic; all kinds, interface hierarchies, custom directives, "
               "non-default roots): (S) lexicographic_sort_schema vs extracted model sort on the wire-encoded schema "
               "(exact container orders), sorted twice == once, find_schema_changes(s, sort s) == [] == (sort s, s), "
               "(s, s) == [], order-insensitive dumps equal; natural_comparison_key vs model comparison on name pairs; "
               "(M) single-edit mutants: reported changes => printed forms differ, pure reorderings => no changes, "
               "multiset of change kinds == extracted model diff; (E) (base SDL A, extension SDL B) pairs with shuffled "
               "definitions: print/dump of extend_schema(build A, parse B) == build_schema(A + B), original unchanged, "
               "documents without type-system definitions return the identical schema object. non-trivial = a schema "
               "whose sort differs from it / a mutant with at least one reported change / an extension that adds "
               "at least one member")

    def viol(key, what, rep):
        ck.violation(key, what, rep)

    # ---- natural order on name pairs ------------------------------------------------
    names = set()
    for p in G.NAME_POOLS.values():
        names |= set(p)
    names |= {"", "1", "01", "a", "a1", "a01", "a1b", "a1b2", "a10", "a9", "_", "_1", "A1", "a1_", "a00", "a0",
              "9a", "10a", "1a1", "a1b01", "a1b1", "a01b1", "z", "Z"}
    names = sorted(names)
    cases, meta = [], []
    for a in names:
        for b in names:
            cases.append([3] + G.w_text(a) + G.w_text(b))
            meta.append((a, b))
    for (a, b), o in zip(meta, m.run_batch(cases)):
        ka, kb = natural_comparison_key(a), natural_comparison_key(b)
        want = 0 if ka < kb else (1 if ka == kb else 2)
        if o != [want]:
            viol(f"natural:{a!r}:{b!r}", f"natural order of {a!r} vs {b!r}: impl {want}, model {o}",
                 {"relation": "natural_comparison_key = NatOrder.natural_cmp", "a": a, "b": b, "impl": want, "model": o})
    ck.count("natural_order_pairs", len(cases))

    # ---- generated schemas -----------------------------------------------------------
    nschemas = 150 if quick else 900
    specs = []
    for i in range(nschemas):
        spec = G.gen_spec(rng, size=rng.randint(1, 3), adversarial=i % 3 != 0, override_specified=i % 4 == 1,
                          incremental=i % 5 == 2)
        mode = "sdl" if i % 2 == 0 else "prog"
        try:
            s = (build_schema(G.spec_to_sdl(spec)) if mode == "sdl"
                 else G.spec_to_schema(spec, rng, subclasses=i % 6 == 1))
            if validate_schema(s):
                raise ValueError("invalid")
        except Exception:  # noqa: BLE001
            ck.count("generator_invalid")
            continue
        specs.append((spec, mode, s))
    ck.count("schemas", len(specs))

    # (S) sort
    cases, meta = [], []
    for spec, mode, s in specs:
        sdl = G.spec_to_sdl(spec)
        rep = {"relation": "sort", "mode": mode, "sdl": sdl}
        key = "sort:" + sdl
        try:
            ss = lexicographic_sort_schema(s)
            ss2 = lexicographic_sort_schema(ss)
            before = print_schema(s)
            psorted = print_schema(ss)
        except Exception as e:  # noqa: BLE001
            viol(key, f"lexicographic_sort_schema raised {type(e).__name__}: {e}", rep)
            continue
        ck.note_case(("sort", sdl, mode), nontrivial=psorted != before)
        if print_schema(ss2) != psorted or G.dump(ss2) != G.dump(ss):
            viol(key, "sorting twice differs from sorting once", dict(rep, once=psorted, twice=print_schema(ss2)))
        for a, b, nm in ((s, ss, "(s, sort s)"), (ss, s, "(sort s, s)"), (s, s, "(s, s)"), (ss, ss, "(sort s, sort s)")):
            try:
                ch = find_schema_changes(a, b)
            except Exception as e:  # noqa: BLE001
                viol(key, f"find_schema_changes{nm} raised {type(e).__name__}: {e}", rep)
                continue
            if ch:
                viol(key, f"find_schema_changes{nm} reports {ch[0].type.name}: {ch[0].description}",
                     dict(rep, changes=[c.description for c in ch[:5]]))
        d = G.first_diff(canon_dump(s), canon_dump(ss))
        if d:
            viol(key, f"sorting changed more than ordering: {d}", dict(rep, sorted=psorted))
        e0 = G.encode_schema(s, canon_defaults=True)
        ea = G.encode_schema(s, all_types=True)
        cases += [[4] + e0, [1] + e0, [2] + ea + ea, [2] + ea + G.encode_schema(ss, all_types=True)]
        meta.append((key, rep, e0, G.encode_schema(ss, canon_defaults=True), G.encode_schema(ss2, canon_defaults=True)))
    outs = m.run_batch(cases)
    for i, (key, rep, e0, es, es2) in enumerate(meta):
        o_echo, o_sort, o_d1, o_d2 = outs[4 * i:4 * i + 4]
        if o_echo != [1] + e0:
            raise RuntimeError("wire echo test failed (harness/model codec bug)")
        if o_sort != [1] + es:
            j = next((j for j, (a, b) in enumerate(zip(o_sort, [1] + es)) if a != b), -1)
            viol(key, f"lexicographic_sort_schema differs from the model sort (wire offset {j})",
                 dict(rep, impl_around=es[max(0, j - 20):j + 10], model_around=o_sort[max(0, j - 19):j + 11]))
        if es2 != es:
            viol(key, "sorting twice differs from sorting once (wire)", rep)
        if o_d1 != [1, 0]:
            raise RuntimeError("model diff s s is not empty: contradicts the proved theorem C19_diff_refl")
        if o_d2 != [1, 0]:
            # the second schema is the IMPLEMENTATION's sorted schema: by C19_sort_no_diff the model finds no
            # difference between s and any reordering of s, so a difference means sorting changed more than order
            viol(key, "the model's change detector finds differences between the schema and the implementation's "
                      f"lexicographic_sort_schema of it (wire {o_d2[:12]})", dict(rep, model_diff=o_d2[:40]))

    import time
    ck.extra['t_sort'] = round(time.time() - ck.t0, 1)
    # (M) single-edit mutants
    nmut = 4 if quick else 8
    cases, meta = [], []
    for spec, mode, s in specs:
        for _ in range(nmut):
            r = mutate(spec, rng)
            if r is None:
                ck.count("mutant_not_applicable")
                continue
            mut, op = r
            sdl_a, sdl_b = G.spec_to_sdl(spec), G.spec_to_sdl(mut)
            try:
                a = build_schema(sdl_a)
                b = build_schema(sdl_b)
            except Exception:  # noqa: BLE001  (the edit made the SDL unbuildable)
                ck.count("mutant_unbuildable")
                continue
            rep = {"relation": "mutant", "edit": op, "sdl_old": sdl_a, "sdl_new": sdl_b}
            key = f"mutant:{op}:{sdl_a}:{sdl_b}"
            for old, new, dirn in ((a, b, "old->new"), (b, a, "new->old")):
                try:
                    ch = find_schema_changes(old, new)
                except Exception as e:  # noqa: BLE001
                    viol(key, f"find_schema_changes raised {type(e).__name__}: {e} ({op}, {dirn})", rep)
                    continue
                po, pn = print_schema(old), print_schema(new)
                ck.note_case(("mut", sdl_a, sdl_b, dirn), nontrivial=bool(ch))
                ck.count("edit_" + op)
                if ch and po == pn:
                    viol(key, f"change reported ({ch[0].type.name}: {ch[0].description}) but the printed schemas are identical",
                         dict(rep, direction=dirn))
                if op == "reorder" and ch:
                    viol(key, f"pure reordering reported as change: {ch[0].description}", dict(rep, direction=dirn))
                cases.append([2] + G.encode_schema(old, all_types=True) + G.encode_schema(new, all_types=True))
                meta.append((key, rep, dirn, sorted(c.type.value for c in ch), [c.description for c in ch[:6]]))
    outs = m.run_batch(cases)
    kinds_seen = set()
    for (key, rep, dirn, kinds, descs), o in zip(meta, outs):
        mc = decode_changes(o)
        if mc is None:
            raise RuntimeError("model could not decode a schema pair")
        mk = sorted(k for k, _ in mc)
        kinds_seen |= set(kinds)
        if mk != kinds:
            viol(key, f"change kinds differ from the model diff ({rep['edit']}, {dirn}): impl {kinds} model {mk}",
                 dict(rep, direction=dirn, impl=kinds, model=mk, impl_descriptions=descs,
                      model_changes=[(k, ["".join(p)] if isinstance(p, str) else list(p)) for k, p in mc[:8]]))
    ck.count("mutant_pairs", len(cases))
    ck.extra["change_kinds_seen"] = sorted(kinds_seen)

    ck.extra['t_mut'] = round(time.time() - ck.t0, 1)
    # (E) extension pairs
    next_ = 2 if quick else 4
    ecases, emeta = [], []
    for spec, mode, _s in specs:
        sdl_a = G.spec_to_sdl(spec)
        s = build_schema(sdl_a)
        for j in range(next_):
            defs, labels = gen_extension(spec, rng)
            sdl_b = "\n\n".join(defs)
            rep = {"relation": "extend", "mode": mode, "sdl_a": sdl_a, "sdl_b": sdl_b}
            key = f"extend:{sdl_a}:{sdl_b}"
            try:
                before_print, before_dump = print_schema(s), G.dump(s)
                doc = parse(sdl_b) if defs else parse("{ a }")
            except Exception as e:  # noqa: BLE001
                ck.count("extension_unparsable")
                continue
            try:
                ext = extend_schema(s, doc)
                if validate_schema(ext):
                    raise ValueError("extended schema invalid")
            except Exception as e:  # noqa: BLE001   B is not valid against A: outside the quantifier
                ck.count("extension_invalid")
                ck.extra.setdefault("extension_invalid_sample", f"{type(e).__name__}: {e}"[:300])
                continue
            ck.note_case(("ext", sdl_a, sdl_b), nontrivial=bool(defs))
            for l in set(labels):
                ck.count("ext_" + l)
            if print_schema(s) != before_print or G.dump(s) != before_dump:
                viol(key, "extend_schema changed the original schema", rep)
            if not defs:
                if ext is not s:
                    viol(key, "extension with an executable-only document did not return the original schema", rep)
                continue
            try:
                both = build_schema(sdl_a + "\n\n" + sdl_b)
            except Exception as e:  # noqa: BLE001
                viol(key, f"build_schema(A + B) raised {type(e).__name__}: {e} although B extends build(A)", rep)
                continue
            pe, pb = print_schema(ext), print_schema(both)
            if pe != pb:
                viol(key, "print_schema(extend_schema(build A, B)) != print_schema(build_schema(A + B))",
                     dict(rep, extended=pe, together=pb))
            else:
                d = G.first_diff(G.dump(ext), G.dump(both))
                if d:
                    viol(key, f"extend_schema(build A, B) differs from build_schema(A + B): {d}", rep)
            ch = find_schema_changes(ext, both) + find_schema_changes(both, ext)
            if ch:
                viol(key, f"find_schema_changes(extend, together) reports {ch[0].description}", rep)
            # the model: extend (enc sA) (enc B) and build (enc (A + B)) against the real results
            ecases.append([7] + G.encode_schema(s) + G.w_defs(doc, drop_specified=True))
            emeta.append((key, rep, "Extend.extend", G.encode_schema(ext)))
            ecases.append([6] + G.w_defs(parse(sdl_a + "\n\n" + sdl_b), drop_specified=True))
            emeta.append((key, rep, "Build.build", G.encode_schema(both)))
        # no-op documents return the identical object
        noops = ["{ a }", "query Q { __typename }", "fragment F on %s { __typename }" % spec.query,
                 "query { ...F } fragment F on %s { __typename }" % spec.query]
        from graphql.language import DocumentNode
        noop_docs = [(nd, parse(nd)) for nd in noops] + [("<empty document>", DocumentNode(definitions=()))]
        bases = [("build_schema(A)", s)]
        if len(ecases) % 3 == 0:
            bases.append(("build_schema(A, assume_valid=True)", build_schema(sdl_a, assume_valid=True)))
        for bname, base in bases:
            for nd, ndoc in noop_docs:
                # under every combination of the options of extend_schema
                for av, avs in ((False, False), (True, False), (False, True), (True, True)):
                    nkey = f"noop:{nd}:{bname}:{av}:{avs}:{sdl_a}"
                    nrep = {"relation": "noop identity", "sdl_a": sdl_a, "document": nd, "base": bname,
                            "assume_valid": av, "assume_valid_sdl": avs}
                    try:
                        r = extend_schema(base, ndoc, assume_valid=av, assume_valid_sdl=avs)
                    except Exception as e:  # noqa: BLE001
                        viol(nkey, f"extend_schema with a document without type-system definitions raised "
                             f"{type(e).__name__}: {e}", nrep)
                        continue
                    if r is not base:
                        viol(nkey, "extend_schema with a document without type-system definitions did not return the "
                             f"original schema object (assume_valid={av}, assume_valid_sdl={avs}, base {bname})", nrep)
        # adding one scalar: exactly one TYPE_ADDED
        try:
            r = extend_schema(s, parse("scalar ZzAdded"))
            ch = find_schema_changes(s, r)
            if r is s or [c.type.name for c in ch] != ["TYPE_ADDED"]:
                viol("addscalar:" + sdl_a, f"extend with 'scalar ZzAdded': changes {[c.description for c in ch]}",
                     {"relation": "extend adds exactly the new type", "sdl_a": sdl_a})
        except Exception as e:  # noqa: BLE001
            viol("addscalar:" + sdl_a, f"extend with 'scalar ZzAdded' raised {type(e).__name__}: {e}",
                 {"relation": "extend adds exactly the new type", "sdl_a": sdl_a})
    for (key, rep, what, want), o in zip(emeta, m.run_batch(ecases)):
        if o != [1] + want:
            j = next((j for j, (a, b) in enumerate(zip(o, [1] + want)) if a != b), -1)
            viol(key, f"model {what} differs from the implementation's schema (wire offset {j})",
                 dict(rep, impl_around=want[max(0, j - 21):j + 9], model_around=o[max(0, j - 20):j + 10]))
    ck.count("model_extend_build_cases", len(ecases))
    ck.samples.append({"base_sdl": G.spec_to_sdl(specs[0][0])[:600]} if specs else {})
    return ck.finish()


def replay(path):
    from graphql import build_schema, parse, print_schema
    from graphql.utilities import extend_schema, find_schema_changes
    d = json.loads(open(path).read())
    print(json.dumps({k: v for k, v in d.items() if k not in ("sdl_a", "sdl_b", "sdl_old", "sdl_new", "sdl")}, indent=1)[:3000])
    rel = d.get("relation")
    try:
        if rel == "extend":
            s = build_schema(d["sdl_a"])
            ext = extend_schema(s, parse(d["sdl_b"]))
            both = build_schema(d["sdl_a"] + "\n\n" + d["sdl_b"])
            same = print_schema(ext) == print_schema(both)
            print("extend == build(A+B):", same)
            return 0 if same else 1
        if rel == "mutant":
            a, b = build_schema(d["sdl_old"]), build_schema(d["sdl_new"])
            ch = find_schema_changes(a, b)
            print("changes:", [c.description for c in ch], "printed equal:", print_schema(a) == print_schema(b))
            return 1
    except Exception as e:  # noqa: BLE001
        print("replay raised", type(e).__name__, e)
        return 1
    return 1
