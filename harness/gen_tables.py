"""Behavioural sweep of the implementation's finite tables -> coq/theories/Gen/Tables.v.

The sweep *calls* the implementation (it does not read its source), so a harmless rewrite
keeps the tables; a behavioural change alters Tables.v and the obligations in
Gen/TableChecks.v are re-checked by coqc on the next build.
"""
from __future__ import annotations

import importlib

from . import common


def ranges(pred, lo=0, hi=0x110000):
    out, start = [], None
    for c in range(lo, hi):
        try:
            ok = bool(pred(chr(c)))
        except Exception:
            ok = False
        if ok and start is None:
            start = c
        elif not ok and start is not None:
            out.append((start, c - 1))
            start = None
    if start is not None:
        out.append((start, hi - 1))
    return out


def coq_ranges(rs):
    return "[" + "; ".join(f"({a}, {b})" for a, b in rs) + "]"


def coq_list(xs):
    return "[" + "; ".join(str(x) for x in xs) + "]"


def lexer_first(text):
    """(kind, start, end, value) of first token via the public Lexer, or None on error."""
    from graphql.language import Lexer, Source
    from graphql.error import GraphQLSyntaxError

    try:
        t = Lexer(Source(text)).advance()
    except Exception:  # any failure (incl. defects under test) = "not a token"
        return None
    return (t.kind.name, t.start, t.end, t.value)


KIND_CODE = {
    "SOF": 0, "EOF": 1, "BANG": 2, "DOLLAR": 3, "AMP": 4, "PAREN_L": 5, "PAREN_R": 6,
    "DOT": 7, "SPREAD": 8, "COLON": 9, "EQUALS": 10, "AT": 11, "BRACKET_L": 12,
    "BRACKET_R": 13, "BRACE_L": 14, "PIPE": 15, "BRACE_R": 16, "NAME": 17, "INT": 18,
    "FLOAT": 19, "STRING": 20, "BLOCK_STRING": 21, "COMMENT": 22,
}

# code points swept through the public Lexer (behavioural, refactor-proof)
LEX_SWEEP = list(range(0, 0x2100)) + [0x2028, 0x2029, 0x3000, 0xD7FF, 0xD800, 0xDBFF, 0xDC00,
                                      0xDFFF, 0xE000, 0xFEFF, 0xFFFE, 0xFFFF, 0x10000, 0x1F600,
                                      0x10FFFF]


def sweep():
    out = {}
    # ---- direct per-character predicates (all code points), when they exist
    def opt(modname, fn):
        try:
            return getattr(importlib.import_module(modname), fn)
        except Exception:
            return None

    for nm, mod, fn in [
        ("digit", "graphql.language.character_classes", "is_digit"),
        ("letter", "graphql.language.character_classes", "is_letter"),
        ("name_start", "graphql.language.character_classes", "is_name_start"),
        ("name_continue", "graphql.language.character_classes", "is_name_continue"),
        ("unicode_scalar", "graphql.language.lexer", "is_unicode_scalar_value"),
    ]:
        f = opt(mod, fn)
        out[nm + "_fn_present"] = f is not None
        out[nm + "_tbl"] = ranges(f) if f else None

    # ---- behavioural classes seen through the public Lexer
    sw = LEX_SWEEP
    lex_digit, lex_ns, lex_nc, lex_ign, punct = [], [], [], [], []
    for c in sw:
        ch = chr(c)
        r = lexer_first(ch)
        if r and r[0] == "INT":
            lex_digit.append(c)
        if r and r[0] == "NAME":
            lex_ns.append(c)
        if r and r[0] not in ("INT", "NAME", "EOF", "COMMENT", "FLOAT", "STRING", "BLOCK_STRING") \
                and r[2] - r[1] == 1:
            punct.append((c, KIND_CODE[r[0]]))
        r2 = lexer_first("a" + ch)
        if r2 and r2[0] == "NAME" and r2[2] == 2:
            lex_nc.append(c)
        r3 = lexer_first(ch + "a")
        if r3 and r3[0] == "NAME" and r3[1] == 1 and r3[2] == 2:
            lex_ign.append(c)
    out["lex_digit"] = lex_digit
    out["lex_name_start"] = lex_ns
    out["lex_name_continue"] = lex_nc
    out["lex_ignored"] = lex_ign
    out["lex_punct"] = punct
    # line terminators as seen by the lexer: second token's line number
    from graphql.language import Lexer, Source
    from graphql.error import GraphQLSyntaxError
    lts = []
    for c in sw:
        try:
            lx = Lexer(Source("#" + chr(c) + "a"))
            t = lx.advance()
            if t.kind.name == "NAME" and t.line == 2:
                lts.append(c)
        except Exception:
            pass
    out["lex_line_terminators"] = lts

    # ---- print_string escape table (per code point) and the lexer's escape decoding
    from graphql.language.print_string import print_string
    esc = []
    for c in list(range(0, 0x100)) + [0x2028, 0x2029, 0xFEFF, 0xFFFF, 0x10000, 0x10FFFF]:
        s = print_string(chr(c))
        esc.append((c, [ord(x) for x in s[1:-1]]))
    out["print_string_tbl"] = esc
    out["print_string_passthrough"] = ranges(
        lambda ch: print_string(ch) == '"' + ch + '"' and len(print_string(ch)) == 3)
    dec = []
    for c in range(0x20, 0x7F):
        r = lexer_first('"\\' + chr(c) + '"')
        if r and r[0] == "STRING" and c != ord("u"):
            dec.append((c, [ord(x) for x in r[3]]))
    out["escape_decode_tbl"] = dec
    hexd = []
    for c in range(0, 0x100):
        r = lexer_first('"\\u000' + chr(c) + '"')
        if r and r[0] == "STRING" and len(r[3]) == 1:
            hexd.append((c, ord(r[3])))
    out["hex_digit_tbl"] = hexd
    # ---- QUERY_DOCUMENT_KEYS completeness against the dataclass fields of every node class
    import dataclasses
    from graphql.language import ast as A
    missing, unknown = [], []
    todo, classes = [A.Node], []
    while todo:
        c = todo.pop()
        classes.append(c)
        todo += c.__subclasses__()
    keys = getattr(A, "QUERY_DOCUMENT_KEYS", {})
    for c in classes:
        if c.__name__.startswith("Const") or not dataclasses.is_dataclass(c):
            continue
        listed = keys.get(c.kind, ())
        fnames = []
        for f in dataclasses.fields(c):
            ann = str(f.type)
            fnames.append(f.name)
            if f.name != "loc" and "Node" in ann and c.__subclasses__() == [] or (
                    f.name != "loc" and "Node" in ann and c.kind in keys):
                if c.kind in keys or c.__subclasses__() == []:
                    if f.name not in listed and c.kind != "ast":
                        missing.append(f"{c.kind}.{f.name}")
        for k in listed:
            if c.kind in keys and k not in fnames:
                unknown.append(f"{c.kind}.{k}")
    # ---- validation key table: QUERY_DOCUMENT_KEYS minus exactly the description keys
    try:
        from graphql.validation import validate as V
        vkeys = getattr(V, "query_document_keys_to_validate", None)
    except Exception:  # noqa: BLE001
        vkeys = None
    if vkeys is None:
        out["vkeys_present"] = False
        out["vkeys_with_description"], out["vkeys_dropped_other"], out["vkeys_extra"] = [], [], []
    else:
        out["vkeys_present"] = True
        out["vkeys_with_description"] = sorted(k for k, ks in vkeys.items() if "description" in ks)
        out["vkeys_dropped_other"] = sorted(f"{k}.{x}" for k, ks in keys.items() for x in ks
                                            if x != "description" and x not in vkeys.get(k, ()))
        out["vkeys_extra"] = sorted(f"{k}.{x}" for k, ks in vkeys.items() for x in ks if x not in keys.get(k, ()))
    out["keys_missing"] = sorted(set(missing))
    out["keys_unknown"] = sorted(set(unknown))
    return out


def render(t) -> str:
    L = ["(* GENERATED on every run by harness/gen_tables.py from /repo's working tree. *)",
         "From GV Require Import Base.Prelude.", ""]
    for nm in ("digit", "letter", "name_start", "name_continue", "unicode_scalar"):
        tbl = t[nm + "_tbl"]
        if tbl is None:
            L.append(f"Definition {nm}_tbl : option (list (N * N)) := None.")
        else:
            L.append(f"Definition {nm}_tbl : option (list (N * N)) := Some {coq_ranges(tbl)}.")
    for nm in ("lex_digit", "lex_name_start", "lex_name_continue", "lex_ignored",
               "lex_line_terminators"):
        L.append(f"Definition {nm}_tbl : list N := {coq_list(t[nm])}.")
    L.append("Definition lex_punct_tbl : list (N * N) := "
             + "[" + "; ".join(f"({a}, {b})" for a, b in t["lex_punct"]) + "].")
    L.append("Definition lex_sweep_max : N := 8447.")
    for nm in ("print_string_tbl", "escape_decode_tbl"):
        L.append(f"Definition {nm} : list (N * list N) := ["
                 + "; ".join(f"({a}, {coq_list(b)})" for a, b in t[nm]) + "].")
    L.append("Definition print_string_passthrough : list (N * N) := "
             + coq_ranges(t["print_string_passthrough"]) + ".")
    L.append("Definition hex_digit_tbl : list (N * N) := ["
             + "; ".join(f"({a}, {b})" for a, b in t["hex_digit_tbl"]) + "].")
    L.append(f"(* node-valued fields not listed in QUERY_DOCUMENT_KEYS: {t['keys_missing']} *)")
    L.append(f"Definition keys_missing_count : N := {len(t['keys_missing'])}.")
    L.append(f"(* listed keys that are not fields: {t['keys_unknown']} *)")
    L.append(f"Definition keys_unknown_count : N := {len(t['keys_unknown'])}.")
    L.append(f"(* validation key table: kinds still listing 'description': {t['vkeys_with_description']}; other keys dropped: {t['vkeys_dropped_other']}; extra keys: {t['vkeys_extra']} *)")
    L.append(f"Definition vkeys_with_description_count : N := {len(t['vkeys_with_description'])}.")
    L.append(f"Definition vkeys_dropped_other_count : N := {len(t['vkeys_dropped_other'])}.")
    L.append(f"Definition vkeys_extra_count : N := {len(t['vkeys_extra'])}.")
    L.append("")
    return "\n".join(L)


def regenerate():
    t = sweep()
    txt = render(t)
    changed = common.write_if_changed(common.COQ / "theories" / "Gen" / "Tables.v", txt)
    return changed, t


if __name__ == "__main__":
    print(regenerate()[0])
