"""CPARSER - the recursive-descent parser: implementation vs the Coq model Lang/Parser.v.

Theorems: coq/theories/Properties/ParserThms.v (totality / fuel, unparse round trip, token limit,
layout independence).  Correspondence: parse, parse_value, parse_const_value, parse_type,
parse_schema_coordinate against the extracted model on bounded-exhaustive strings, generated
documents (all flag combinations), fixture prefixes and token mutants; compared: Ok vs syntax
error, error position, the full tree, token_count, max_tokens around the count, and
tokens_of(model tree) vs the re-lexed print_ast(impl tree)."""
from __future__ import annotations

import json
import re
import time
from concurrent.futures import ThreadPoolExecutor

from . import common, gen_doc, lexcorr
from . import parsecorr as pc
from .common import Check, Model, cps, from_cps

PID = "CPARSER"
THMS = "ParserThms"

ASSUMPTIONS = [
    "parser model: Lang/Parser.v, written from parser.py production by production; syntax errors are compared by "
    "position only (messages are not modelled); the model reports an error as the index of the blamed token and the "
    "entry point maps it to that token's start",
    "lazy lexing is modelled by a pseudo token K_LEXERR at the place where the lexer fails (raised when the parser "
    "advances onto it or looks ahead at it); the lexer itself is Lang/Lexer.v (C01/C09/C10)",
    "max_tokens is modelled by a floor on the length of the remaining token list (Parser.over); shown equivalent to "
    "the implementation's counter only by this correspondence and by ParserThms.parser_token_limit_*",
    "nesting depth is unbounded in the model; inputs on which the implementation hits Python's recursion limit are "
    "classified out of fragment and counted",
    "tokens_of (Lang/Unparse.v) is tied to printer.print_ast by comparing it with the significant tokens of the "
    "re-lexed print_ast output of the implementation's tree",
]

TOK_ALPHA = ["{", "}", "(", ")", "[", "]", ":", "!", "$", "@", "=", "|", "&", "...", "a", "on",
             "query", "fragment", "type", "extend", '"s"', "1"]
COORD_ALPHA = ["a", "b", ".", "(", ")", ":", "@", " "]
FLAGS = [(False, False), (True, False), (False, True), (True, True)]
WORKERS = 6


# --------------------------------------------------------------------------- proofs accounting

def account_proofs(ck, br):
    f = common.COQ / "theories" / "Properties" / f"{THMS}.v"
    ck.checker_cmd = ("cd /verif/coq && coq_makefile -f _CoqProject <all theories/*.v> -o Makefile && make -j16 "
                      f"theories/Properties/{THMS}.vo theories/Extract/ExtractParser.vo && "
                      f"coqc -Q theories GV theories/Properties/{THMS}.v")
    if not f.exists():
        ck.degraded.append(f"Properties/{THMS}.v not present: correspondence only")
        if not br.ok:
            ck.proof_breaks.append(f"build failed at {br.failed_file}: " + br.log[-800:])
        return br.ok
    deps = common.dep_closure([f"Properties/{THMS}.v", "Extract/ExtractParser.v"])
    ck.extra["coq_files"] = deps
    bad = common.scan_forbidden(deps)
    if bad:
        ck.proof_breaks.append("forbidden construct: " + "; ".join(bad[:5]))
    names = re.findall(r"^\s*(?:Theorem|Lemma|Corollary)\s+(\w+)", f.read_text(), re.M)
    ck.theorems = names
    ck.obligations = len(names)
    ck.partial = [n for n in names if n.endswith("_partial")]
    if not br.ok:
        ck.proof_breaks.append(f"build failed at {br.failed_file}: " + br.log[-800:])
        return False
    ok, names2, assumptions, out = common.check_property_file(THMS, timeout=1200)
    ck.print_assumptions = assumptions
    if ok:
        ck.discharged = len(names2)
        for n, a in zip(names2, assumptions):
            if not a.startswith("Closed under"):
                ck.proof_breaks.append(f"{n} depends on axioms: {a}")
    else:
        ck.proof_breaks.append(f"coqc Properties/{THMS}.v failed: " + out[-800:])
    return ok


# --------------------------------------------------------------------------- model runner

def run_model(cases):
    m = Model("parser")
    if len(cases) < 4000:
        return m.run_batch(cases)
    k = (len(cases) + WORKERS - 1) // WORKERS
    chunks = [cases[i:i + k] for i in range(0, len(cases), k)]
    with ThreadPoolExecutor(WORKERS) as ex:
        outs = list(ex.map(m.run_batch, chunks))
    return [o for c in outs for o in c]


class Batch:
    """(which, text, max_tokens, xfa, xdd) items: model in the background, impl in the foreground."""

    def __init__(self, ck, label):
        self.ck, self.label, self.items = ck, label, []

    def add(self, which, text, mt=None, xfa=False, xdd=False):
        self.items.append((which, text, mt, xfa, xdd))

    def run(self):
        """-> list of (item, impl wire | None (out of fragment), model wire)"""
        ck, items = self.ck, self.items
        if not items:
            return []
        cases = [pc.model_case(0, *it) for it in items]
        with ThreadPoolExecutor(1) as ex:
            fut = ex.submit(run_model, cases)
            impl = []
            for it in items:
                try:
                    impl.append(pc.impl_parse(*it))
                except pc.OutOfFragment:
                    impl.append(None)
            outs = fut.result()
        res = []
        for it, i, o in zip(items, impl, outs):
            res.append((it, i, o))
            judge(ck, self.label, it, i, o)
        return res


def item_key(label, it):
    which, text, mt, xfa, xdd = it
    return f"{pc.ENTRIES[which]}:{mt}:{int(xfa)}{int(xdd)}:{text!r}"


def judge(ck, label, it, i, o):
    which, text, mt, xfa, xdd = it
    if i is None:
        ck.count("skipped_out_of_fragment")
        return
    ck.count(label)
    ok = o and o[0] == 0
    nt = (ok and o[1] >= 3) or (o and o[0] == 1 and o[1] > 0)
    ck.note_case((which, text, mt, xfa, xdd), nontrivial=bool(nt),
                 sample={"entry": pc.ENTRIES[which], "text": text[:120], "result": str(pc.describe(o))[:160]}
                 if nt and label.startswith("gen") else None)
    ck.count("accept" if ok else "reject")
    if mt is not None:
        ck.count("with_max_tokens")
    replay = {"entry": which, "text": cps(text), "max_tokens": mt, "xfa": xfa, "xdd": xdd,
              "impl": pc.describe(i), "model": pc.describe(o)}
    if i[0] == 2:
        ck.violation("raises:" + item_key(label, it),
                     f"{pc.ENTRIES[which]} entry point raised {i[1]} (not the library's syntax error) on {text[:80]!r}"
                     f" (max_tokens={mt}, experimental={xfa},{xdd})",
                     dict(replay, relation="the only exception a parsing entry point may raise is GraphQLSyntaxError"))
        return
    if not pc.same_result(which, i, o):
        ck.violation("parser:" + item_key(label, it),
                     f"{pc.ENTRIES[which]} of {text[:80]!r} (max_tokens={mt}, experimental={xfa},{xdd}): implementation "
                     f"{str(pc.describe(i))[:300]} but the grammar model gives {str(pc.describe(o))[:300]}",
                     dict(replay, relation="parser = model (outcome, error position, tree, token_count)"))


# --------------------------------------------------------------------------- derived checks

def limits_and_unparse(ck, results, rng, frac=1.0):
    """For accepted inputs: max_tokens n-1, n, n+1 (model and direct law), tokens_of vs print_ast,
    parse(print_ast(d)) == d.  For rejected documents: a limit around the failing token."""
    from graphql.language import print_ast
    b = Batch(ck, "limit")
    unp = []
    for (it, i, o) in results:
        which, text, mt, xfa, xdd = it
        if i is None or mt is not None or not o:
            continue
        if rng.random() > frac:
            continue
        if o[0] == 0:
            n = o[1]
            for k in sorted({max(n - 1, 0), n, n + 1}):
                b.add(which, text, k, xfa, xdd)
            unp.append(it)
        elif o[0] == 1 and which == 0:
            try:
                toks = len(pc.sig_tokens(text[:o[1]]))
            except Exception:  # noqa: BLE001
                continue
            for k in sorted({max(toks - 1, 0), toks, toks + 1}):
                b.add(which, text, k, xfa, xdd)
    res = b.run()
    # direct statement of the token-limit law on the implementation (documents)
    by = {}
    for (it, i, o) in res:
        by.setdefault((it[0], it[1], it[3], it[4]), []).append((it[2], i))
    for (it0, i0, o0) in results:
        which, text, mt, xfa, xdd = it0
        if which != 0 or i0 is None or i0[0] != 0 or mt is not None:
            continue
        n = i0[1]
        for (k, i) in by.get((which, text, xfa, xdd), []):
            if i is None:
                continue
            ck.count("limit_law")
            accepted = i[0] == 0
            if accepted != (n <= k) or (accepted and i != i0):
                ck.violation(f"limit:{k}:{text!r}",
                             f"document with {n} tokens and max_tokens={k}: "
                             f"{'accepted' if accepted else 'rejected'} ({str(pc.describe(i))[:120]})",
                             {"relation": "a token limit of n accepts exactly the documents with at most n tokens",
                              "entry": 0, "text": cps(text), "max_tokens": k, "xfa": xfa, "xdd": xdd})
    # unparse: tokens_of(model tree) = significant tokens of print_ast(impl tree)
    if unp:
        outs = run_model([pc.model_case(1, *it) for it in unp])
        for it, o in zip(unp, outs):
            which, text, mt, xfa, xdd = it
            try:
                d = pc.impl_call(which, text, None, xfa, xdd)
            except Exception:  # noqa: BLE001
                continue
            replay = {"entry": which, "text": cps(text), "max_tokens": None, "xfa": xfa, "xdd": xdd, "unparse": True}
            try:
                printed = print_ast(d)
                back = pc.sig_tokens(printed, coord=(which == 4))
            except RecursionError:
                ck.count("skipped_out_of_fragment")
                continue
            except Exception as e:  # noqa: BLE001
                ck.violation(f"print:{which}:{text!r}",
                             f"print_ast of the tree of {text[:80]!r} cannot be printed/re-lexed: {type(e).__name__}: {e}",
                             dict(replay, relation="print_ast output lexes"))
                continue
            ck.count("unparse")
            want = [(k, list(v)) for (k, v) in pc.dec_tokens(o)] if o and o[0] == 0 else None
            if want != [(k, list(v)) for (k, v) in back]:
                ck.violation(f"unparse:{which}:{xfa}{xdd}:{text!r}",
                             f"tokens_of(model tree) differs from the tokens of print_ast for {text[:80]!r}: "
                             f"printed {printed[:120]!r}",
                             dict(replay, relation="tokens_of = significant tokens of print_ast", printed=printed,
                                  model_tokens=str(want)[:400], printer_tokens=str(back)[:400]))
            # direct: parse(print_ast(d)) == d
            try:
                d2 = pc.impl_call(which, printed, None, xfa, xdd)
                same = pc.enc_node(d2) == pc.enc_node(d)
                why = "a different tree"
            except RecursionError:
                continue
            except Exception as e:  # noqa: BLE001
                same, why = False, f"{type(e).__name__}: {str(e)[:80]}"
            ck.count("print_parse_roundtrip")
            if not same:
                ck.violation(f"roundtrip:{which}:{xfa}{xdd}:{printed!r}",
                             f"parse(print_ast(d)) != d for d = parse({text[:80]!r}): printed {printed[:100]!r} gives {why}",
                             dict(replay, relation="parse(print_ast(d)) == d", printed=printed))


RESERVED = ["true", "false", "null", "on", "implements", "repeatable", "extend", "query", "mutation",
            "subscription", "fragment", "schema", "scalar", "type", "interface", "union", "enum", "input",
            "directive", "QUERY", "BOGUS"]


def name_mutants(lexemes, rng, k):
    """Replace a name lexeme by a reserved word / keyword (the `on`, true|false|null, keyword rules)."""
    idx = [i for i, lx in enumerate(lexemes) if lx and (lx[0].isalpha() or lx[0] == "_")]
    out = []
    for _ in range(k):
        if not idx:
            break
        l = list(lexemes)
        l[rng.choice(idx)] = rng.choice(RESERVED)
        out.append(l)
    return out


def mutants(lexemes, rng, k):
    out = []
    pool = TOK_ALPHA + ["implements", "repeatable", "schema", "scalar", "union", "enum", "input", "directive",
                        "interface", "mutation", "subscription", "true", "null", "1.5", '"""b"""', "QUERY", "#c\n", "."]
    for _ in range(k):
        if not lexemes:
            break
        l = list(lexemes)
        i = rng.randrange(len(l))
        r = rng.random()
        if r < 0.35:
            del l[i]
        elif r < 0.6:
            l.insert(i, l[i])
        elif r < 0.9:
            l[i] = rng.choice(pool)
        else:
            l.insert(i, rng.choice(pool))
        out.append(l)
    return out


# --------------------------------------------------------------------------- run

def run(tier):
    ck = Check(PID, tier)
    ck.assumptions += ASSUMPTIONS
    has_thms = (common.COQ / "theories" / "Properties" / f"{THMS}.v").exists()
    br = common.build(PID, models=("parser",),
                      extra_targets=(f"theories/Properties/{THMS}.vo",) if has_thms else ())
    account_proofs(ck, br)
    if not br.ok:
        return ck.finish()
    core(ck, tier, ("corpus", "A", "B", "C", "D", "E", "F"))
    return ck.finish()


def core(ck, tier, fam):
    """Parser correspondence (implementation vs extracted Lang/Parser.v), reporting into `ck`.
    `fam`: which case families to run; used by ./check CPARSER (all) and as the parser part of
    ./check C01 (corpus, A, C, E, F), C08 (corpus, D) and C09 (B, D)."""
    quick = tier == "quick"
    rng = ck.rng
    n = 4 if quick else 5
    ck.rule = (
        f"(A) all strings of length <= {n} over the 16-symbol lexical alphabet x the five entry points; "
        f"(B) all sequences of <= {n} symbols of the token alphabet {TOK_ALPHA!r} (documents; <= {n - 1} for the other "
        f"entries, <= 3 under each experimental flag combination); (C) schema-coordinate strings <= {5 if quick else 6} "
        f"over {COORD_ALPHA!r}; (D) grammar-generated documents/values/types under the four flag combinations with "
        "random layout; (E) every prefix of the kitchen-sink fixtures (quick: every prefix of the executable one, "
        "every 4th of the SDL one); (F) token deletion/duplication/substitution mutants of generated documents. "
        "Compared per case: Ok vs syntax error, error position, whole tree (generic encoding), token_count; for "
        "accepted inputs max_tokens in {n-1,n,n+1} and tokens_of(model tree) vs re-lexed print_ast(impl tree), "
        "parse(print_ast(d)) == d and the token-limit law directly on the implementation. "
        "non-trivial = accepted with >= 3 tokens, or rejected at a position > 0")
    t0 = time.time()
    # ---- corpus
    if "corpus" in fam:
        b = Batch(ck, "corpus")
        for c in common.load_corpus(PID):
            b.add(c.get("entry", 0), from_cps(c["text"]), c.get("max_tokens"), c.get("xfa", False), c.get("xdd", False))
        res = b.run()
        limits_and_unparse(ck, res, rng)
    # ---- (A) lexical alphabet
    if "A" in fam:
        b = Batch(ck, "exh_lex")
        for s in common.strings_upto(lexcorr.LEX_ALPHA16, n):
            t = "".join(s)
            for w in range(5):
                b.add(w, t)
        res_a = b.run()
        limits_and_unparse(ck, res_a, rng, frac=0.02 if quick else 0.01)
        del res_a
    # ---- (B) token alphabet
    if "B" in fam:
        b = Batch(ck, "exh_tok")
        for s in common.strings_upto(TOK_ALPHA, n):
            t = " ".join(s)
            b.add(0, t)
            if len(s) <= n - 1:
                for w in (1, 2, 3):
                    b.add(w, t)
            if len(s) <= 3:
                for (xfa, xdd) in FLAGS[1:]:
                    b.add(0, t, None, xfa, xdd)
        res_b = b.run()
        limits_and_unparse(ck, res_b, rng, frac=0.02 if quick else 0.005)
        del res_b
    # ---- (C) coordinates
    if "C" in fam:
        b = Batch(ck, "exh_coord")
        for s in common.strings_upto(COORD_ALPHA, 5 if quick else 6):
            b.add(4, "".join(s))
        res_c = b.run()
        limits_and_unparse(ck, res_c, rng, frac=0.2)
        del res_c
    ck.extra["t_exhaustive_s"] = round(time.time() - t0, 1)
    docs = []
    # ---- (D) generated
    if "F" in fam or "D" in fam:
        t1 = time.time()
        b = Batch(ck, "gen")
        ndocs = 100 if quick else 600
        for (xfa, xdd) in FLAGS:
            for j in range(ndocs):
                g = gen_doc.Gen(rng, depth=rng.choice([1, 2, 2, 3]), experimental=False)
                g.exp = xfa
                lex = g.document()
                if xdd and not xfa:
                    # directives on directive definitions / directive extensions only
                    g.exp = True
                    lex = lex + g.type_def(ext=rng.random() < 0.3)
                    g.exp = False
                docs.append((lex, xfa, xdd))
                text = gen_doc.join_random(lex, rng) if j % 2 else gen_doc.join_min(lex)
                b.add(0, text, None, xfa, xdd)
                # the same text under the other flag settings (flags off = the experimental syntax is an error)
                fx2 = rng.choice(FLAGS)
                if fx2 != (xfa, xdd):
                    b.add(0, text, None, *fx2)
            for j in range(ndocs):
                g = gen_doc.Gen(rng, depth=3, experimental=xfa)
                c = rng.random() < 0.5
                b.add(2 if c else 1, gen_doc.join_random(g.value(c), rng), None, xfa, xdd)
                if not c:
                    b.add(2, gen_doc.join_min(g.value(False)), None, xfa, xdd)
                b.add(3, gen_doc.join_random(g.type_ref(3), rng), None, xfa, xdd)
        res_d = b.run()
        limits_and_unparse(ck, res_d, rng)
        del res_d
        ck.extra["t_generated_s"] = round(time.time() - t1, 1)
    # ---- (E) fixture prefixes
    if "E" in fam:
        t2 = time.time()
        b = Batch(ck, "prefix")
        fxs = gen_doc.fixtures()
        for fi, f in enumerate(fxs):
            step = 1 if (not quick or fi == 0) else 4
            for i in range(0, len(f) + 1, step):
                b.add(0, f[:i], None, True, True)
            b.add(0, f, None, False, False)
        res_e = b.run()
        limits_and_unparse(ck, res_e, rng, frac=0.03 if quick else 0.1)
        del res_e
        ck.extra["t_prefixes_s"] = round(time.time() - t2, 1)
    # ---- (F) mutants
    if "F" in fam:
        t3 = time.time()
        b = Batch(ck, "mutant")
        for (lex, xfa, xdd) in docs:
            if len(lex) > 160:
                continue
            for l in mutants(lex, rng, 6 if quick else 10) + name_mutants(lex, rng, 6 if quick else 10):
                b.add(0, gen_doc.join_min(l), None, xfa, xdd)
        res_f = b.run()
        limits_and_unparse(ck, res_f, rng, frac=0.3)
        del res_f
        ck.extra["t_mutants_s"] = round(time.time() - t3, 1)
    ck.extra["parser_exhaustive"] = {"families": list(fam), "lexical_alphabet_len": n, "token_alphabet_len": n, "coordinate_len": 5 if quick else 6}
    ck.extra["parser_rule"] = ck.rule




def replay(path):
    d = json.loads(open(path).read())
    br = common.build(PID, models=("parser",))
    if not br.ok:
        print("build failed:", br.log[-500:])
        return 2
    text = from_cps(d["text"])
    it = (d.get("entry", 0), text, d.get("max_tokens"), d.get("xfa", False), d.get("xdd", False))
    print("input:", repr(text), "entry:", pc.ENTRIES[it[0]], "max_tokens:", it[2], "flags:", it[3], it[4])
    ck = Check(PID, "replay")
    ck.known = []
    res = Batch(ck, "replay")
    res.add(*it)
    out = res.run()
    for (_, i, o) in out:
        print("implementation:", pc.describe(i) if i is not None else "out of fragment")
        print("model         :", pc.describe(o))
    limits_and_unparse(ck, out, ck.rng)
    for key, what, _ in ck.violations:
        print("VIOLATION:", what)
    return 1 if ck.violations else 0
