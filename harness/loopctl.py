"""Controlled asyncio loop: the harness decides the order in which awaitables complete."""
from __future__ import annotations

import asyncio


class Controller:
    """Creates futures identified by a label; completes them in a chosen priority order.

    run(coro_factory, priority): steps a private event loop one ready-batch at a time; whenever the
    loop is quiescent (the main task is not done and nothing is ready), the pending future with
    the highest priority (lowest rank in `priority`, then creation order) is completed."""

    def __init__(self, max_steps=20000):
        self.loop = None
        self.pending = []  # (label, future, value_or_exc, is_exc)
        self.completed_order = []
        self.max_steps = max_steps

    def future(self, label, value=None, exc=None):
        fut = self.loop.create_future()
        self.pending.append((label, fut, exc if exc is not None else value, exc is not None))
        return fut

    def _step(self):
        self.loop.call_soon(self.loop.stop)
        self.loop.run_forever()

    def _ready(self):
        # CPython implementation detail: BaseEventLoop._ready is the deque of ready callbacks
        return len(getattr(self.loop, "_ready", ()))

    def run(self, make_awaitable, priority):
        """priority: list of labels (earlier = completes earlier); unknown labels last, FIFO."""
        rank = {lab: i for i, lab in enumerate(priority)}
        self.loop = asyncio.new_event_loop()
        self.pending = []
        self.completed_order = []
        try:
            result = make_awaitable(self)
            if not hasattr(result, "__await__"):
                return ("sync", result)
            task = self.loop.create_task(self._wrap(result))
            steps = 0
            while not task.done():
                steps += 1
                if steps > self.max_steps:
                    task.cancel()
                    self._step()
                    return ("hang", None)
                self._step()
                if task.done():
                    break
                if self._ready() == 0:
                    live = [(rank.get(lab, 10 ** 6), i, lab, fut, v, is_exc)
                            for i, (lab, fut, v, is_exc) in enumerate(self.pending) if not fut.done()]
                    if not live:
                        # nothing we can complete: give timers a chance, then declare a hang
                        self._step()
                        if task.done():
                            break
                        if self._ready() == 0:
                            task.cancel()
                            self._step()
                            return ("hang", None)
                        continue
                    live.sort(key=lambda x: (x[0], x[1]))
                    _, _, lab, fut, v, is_exc = live[0]
                    self.completed_order.append(lab)
                    if is_exc:
                        fut.set_exception(v)
                    else:
                        fut.set_result(v)
            if task.cancelled():
                return ("cancelled", None)
            if task.exception() is not None:
                return ("raised", task.exception())
            return ("async", task.result())
        finally:
            try:
                # drain: let cancelled tasks settle, then close
                for _ in range(5):
                    self._step()
                leftovers = [t for t in asyncio.all_tasks(self.loop) if not t.done()]
                self.leftover_tasks = len(leftovers)
                for t in leftovers:
                    t.cancel()
                for _ in range(5):
                    self._step()
                for lab, fut, v, is_exc in self.pending:
                    if not fut.done():
                        fut.cancel()
                    elif not fut.cancelled() and fut.exception() is not None:
                        pass  # mark retrieved
                self.loop.run_until_complete(self.loop.shutdown_asyncgens())
            finally:
                self.loop.close()

    @staticmethod
    async def _wrap(aw):
        return await aw
