"""CRULES - the schema-independent validation rules of C12: implementation vs the Coq model Valid/Rules.v.

Theorems: coq/theories/Properties/C12rules.v (soundness/completeness of each rule against its
declarative specification, fuel sufficiency, description independence, layout independence).
Correspondence: for generated documents the real rule run ALONE (validate(schema, doc, [Rule])) and
TOGETHER with all specified rules (errors attributed to the reporting rule instance) against the
extracted model, as multisets of (rule, paths of the AST nodes the error points at); plus the context
functions (get_fragment_spreads, get_variable_usages, get_recursively_referenced_fragments,
get_recursive_variable_usages) and the visitor key table directly.

`run(tier)` = ./check CRULES; `core(ck, tier, model_ok)` is the part ./check C12 calls."""
from __future__ import annotations

import json
import re
import time
from collections import Counter

from . import common, gen_doc
from . import parsecorr as pc
from .common import Check, Model, cps, from_cps

PID = "CRULES"
THMS = "C12rules"
MODEL = "rules"
BIG = 10 ** 9

RULES = [
    (1, "ExecutableDefinitionsRule"), (2, "UniqueOperationNamesRule"), (3, "LoneAnonymousOperationRule"),
    (4, "KnownFragmentNamesRule"), (5, "UniqueFragmentNamesRule"), (6, "NoUnusedFragmentsRule"),
    (7, "NoFragmentCyclesRule"), (8, "UniqueVariableNamesRule"), (9, "NoUndefinedVariablesRule"),
    (10, "NoUnusedVariablesRule"), (11, "UniqueArgumentNamesRule"), (12, "UniqueInputFieldNamesRule"),
]
RULE_CODE = {n: c for c, n in RULES}
RULE_NAME = {c: n for c, n in RULES}

ASSUMPTIONS = [
    "CRULES model: Valid/Rules.v - twelve rules that never consult the schema, as functions of the parser AST "
    "(Lang/Ast.v); an error is (rule, paths of the AST nodes of GraphQLError.nodes); message wording is not modelled",
    "the extraction layer of Valid/Rules.v (definitions, names, get_fragment_spreads order, variable usages, the "
    "visitor key table) is tied to the implementation only by this correspondence, including a direct comparison of "
    "the four context functions and of the key table; the theorems are about the model",
    "node identity on the implementation side is object identity mapped to the node's path in the document; documents "
    "are parsed WITH locations (structurally equal location-free nodes share entries of the context caches, which is "
    "not observable through messages and locations)",
    "VariableUsageVisitor runs with the default visitor keys (descriptions included); the model walks with the "
    "validation key table (descriptions excluded): the two agree on every parser output because a description is a "
    "StringValue without children",
]

SCHEMA_SDL = """
schema { query: Q mutation: M subscription: S }
type Q { f(x: Int, y: Int, z: I): Q g(x: Int, y: [Int], z: I): Q h: Int a: Int b: Int c: Int id: ID name: String }
type M { f(x: Int): Q h: Int }
type S { f(x: Int): Q h: Int }
type T { f: T g: T h: Int }
input I { x: Int y: Int z: I }
directive @d(x: Int, y: Int, z: I) repeatable on QUERY | MUTATION | SUBSCRIPTION | FIELD | FRAGMENT_DEFINITION | FRAGMENT_SPREAD | INLINE_FRAGMENT | VARIABLE_DEFINITION
"""


# --------------------------------------------------------------------------- proofs accounting

def account_proofs(ck, br):
    f = common.COQ / "theories" / "Properties" / f"{THMS}.v"
    ck.checker_cmd = ("cd /verif/coq && coq_makefile -f _CoqProject <all theories/*.v> -o Makefile && make -j16 "
                      f"theories/Properties/{THMS}.vo theories/Extract/ExtractRules.vo && "
                      f"coqc -Q theories GV theories/Properties/{THMS}.v")
    if not f.exists():
        ck.degraded.append(f"Properties/{THMS}.v not present: correspondence only")
        if not br.ok:
            ck.proof_breaks.append(f"build failed at {br.failed_file}: " + br.log[-800:])
        return br.ok
    deps = common.dep_closure([f"Properties/{THMS}.v", "Extract/ExtractRules.v"])
    ck.extra["coq_files"] = deps
    bad = common.scan_forbidden(deps)
    if bad:
        ck.proof_breaks.append("forbidden construct: " + "; ".join(bad[:5]))
    names = re.findall(r"^\s*(?:Theorem|Lemma|Corollary)\s+(\w+)", f.read_text(), re.M)
    ck.theorems = names
    ck.obligations = len(names)
    ck.partial = [n for n in names if n.endswith("_partial")]
    if not br.ok:
        ck.proof_breaks.append(f"build failed at {br.failed_file}: " + br.log[-800:])
        return False
    ok, names2, assumptions, out = common.check_property_file(THMS, timeout=1200)
    ck.print_assumptions = assumptions
    if ok:
        ck.discharged = len(names2)
        for n, a in zip(names2, assumptions):
            if not a.startswith("Closed under"):
                ck.proof_breaks.append(f"{n} depends on axioms: {a}")
    else:
        ck.proof_breaks.append(f"coqc Properties/{THMS}.v failed: " + out[-800:])
    return ok


# --------------------------------------------------------------------------- implementation side

def node_paths(doc):
    """id(node) -> path = tuple of (attribute index, element index), attribute indices as parsecorr.enc_node."""
    from graphql.language import Node
    out = {}

    def walk(n, path):
        out[id(n)] = path
        for i, f in enumerate(pc.node_fields(type(n))):
            v = getattr(n, f)
            if isinstance(v, Node):
                walk(v, path + ((i, 0),))
            elif isinstance(v, (tuple, list)):
                for j, c in enumerate(v):
                    if isinstance(c, Node):
                        walk(c, path + ((i, j),))
    walk(doc, ())
    return out


def node_at(doc, path):
    n = doc
    for (i, j) in path:
        v = getattr(n, pc.node_fields(type(n))[i])
        n = v[j] if isinstance(v, (tuple, list)) else v
    return n


def rule_classes():
    import graphql.validation as v
    return {name: getattr(v, name) for _, name in RULES}


def observe(code, errors, paths):
    """-> list of (rule code, tuple of node paths); None for a node that is not in the document."""
    out = []
    for e in errors:
        out.append((code, tuple(paths.get(id(n)) for n in (e.nodes or ()))))
    return out


def impl_alone(schema, doc, paths):
    """-> {code: list of (code, paths)} | {code: ('raised', name)}"""
    from graphql.validation import validate
    from graphql.validation.validate import ValidationAbortedError
    res = {}
    cls = rule_classes()
    for code, name in RULES:
        try:
            errs = validate(schema, doc, [cls[name]], max_errors=BIG)
            if any(isinstance(e, ValidationAbortedError) for e in errs):
                res[code] = ("raised", "aborted")
            else:
                res[code] = observe(code, errs, paths)
        except RecursionError:
            res[code] = ("raised", "RecursionError")
        except Exception as e:  # noqa: BLE001
            res[code] = ("raised", type(e).__name__)
    return res


_TAGGED = {}


def tagged_rules(tags, order=None):
    """All specified rules (in the given order), each wrapped so that the errors it reports are
    attributed to it."""
    from graphql.validation import specified_rules
    out = []
    for rc in (order if order is not None else specified_rules):
        key = rc
        mk = _TAGGED.get(key)
        if mk is None:
            def mk(tags, rc=rc):
                class Tagged(rc):  # type: ignore[misc, valid-type]
                    def report_error(self, error):
                        tags[id(error)] = rc.__name__
                        super().report_error(error)
                Tagged.__name__ = rc.__name__
                return Tagged
            _TAGGED[key] = mk
        out.append(mk(tags))
    return out


def impl_together(schema, doc, paths, order=None):
    """-> {code: list of (code, paths)} for the modelled rules | ('raised', name)"""
    from graphql.validation import validate
    tags = {}
    try:
        errs = validate(schema, doc, tagged_rules(tags, order), max_errors=BIG)
    except RecursionError:
        return ("raised", "RecursionError")
    except Exception as e:  # noqa: BLE001
        return ("raised", type(e).__name__)
    res = {code: [] for code, _ in RULES}
    for e in errs:
        name = tags.get(id(e))
        code = RULE_CODE.get(name)
        if code is not None:
            res[code] += observe(code, [e], paths)
    return res


def impl_context(schema, doc, paths):
    """The four context functions per definition, as the model's op 3 reports them."""
    from graphql.language import FragmentDefinitionNode, OperationDefinitionNode
    from graphql.utilities import TypeInfo
    from graphql.validation import ValidationContext
    ti = TypeInfo(schema)
    ti.enter(doc)
    ctx = ValidationContext(schema, doc, ti, lambda e: None)
    out = []
    for d in doc.definitions:
        p = paths[id(d)]
        if isinstance(d, OperationDefinitionNode):
            sp = [paths.get(id(s)) for s in ctx.get_fragment_spreads(d.selection_set)]
            us = [paths.get(id(u.node)) for u in list(ctx.get_variable_usages(d))]
            rf = [paths.get(id(f)) for f in ctx.get_recursively_referenced_fragments(d)]
            ru = [paths.get(id(u.node)) for u in ctx.get_recursive_variable_usages(d)
                  if not u.fragment_variable_definition]
            out.append((0, p, sp, us, rf, ru))
        elif isinstance(d, FragmentDefinitionNode):
            sp = [paths.get(id(s)) for s in ctx.get_fragment_spreads(d.selection_set)]
            us = [paths.get(id(u.node)) for u in ctx.get_variable_usages(d)]
            out.append((1, p, sp, us))
        else:
            out.append((2, p))
    return out


def strip_descriptions(n):
    """A copy of the tree without descriptions (attribute positions unchanged)."""
    from graphql.language import Node
    kw = {}
    for f in pc.node_fields(type(n)):
        v = getattr(n, f)
        if f == "description":
            v = None
        elif isinstance(v, Node):
            v = strip_descriptions(v)
        elif isinstance(v, (tuple, list)):
            v = tuple(strip_descriptions(c) if isinstance(c, Node) else c for c in v)
        kw[f] = v
    return type(n)(loc=n.loc, **kw)


def impl_tables():
    """the model's op 2 answer computed from the implementation's classes and key table"""
    import inspect

    from graphql.language import ast
    from graphql.validation.validate import query_document_keys_to_validate as keys
    by_kind = {}
    for _, c in vars(ast).items():
        if inspect.isclass(c) and issubclass(c, ast.Node) and c.kind in pc.KIND_INDEX and not c.__name__.startswith("Const"):
            by_kind[c.kind] = c
    out = []
    for kind in pc.KINDS:
        c = by_kind[kind]
        fs = pc.node_fields(c)
        ks = [fs.index(k) for k in keys.get(kind, ())]
        out += [len(ks)] + ks + [fs.index("description") + 1 if "description" in fs else 0]
    return out


# --------------------------------------------------------------------------- model side

def dec_paths(w, i):
    n = w[i]
    i += 1
    ps = []
    for _ in range(n):
        ln = w[i]
        i += 1
        ps.append(tuple((w[i + 2 * k], w[i + 2 * k + 1]) for k in range(ln)))
        i += 2 * ln
    return ps, i


def dec_path(w, i):
    ln = w[i]
    i += 1
    return tuple((w[i + 2 * k], w[i + 2 * k + 1]) for k in range(ln)), i + 2 * ln


def dec_errors(w):
    """op 0/1/4 answer -> {code: list of (code, paths)} | ('model', reason)"""
    if not w or w[0] != 0:
        return ("model", w[:4])
    n, i = w[1], 2
    res = {code: [] for code, _ in RULES}
    for _ in range(n):
        code = w[i]
        ps, i = dec_paths(w, i + 1)
        res.setdefault(code, []).append((code, tuple(ps)))
    return res


def dec_context(w):
    if not w or w[0] != 0:
        return None
    n, i = w[1], 2
    out = []
    for _ in range(n):
        t = w[i]
        p, i = dec_path(w, i + 1)
        if t == 2:
            out.append((2, p))
            continue
        sp, i = dec_paths(w, i)
        us, i = dec_paths(w, i)
        if t == 1:
            out.append((1, p, sp, us))
            continue
        opt = []
        for _ in range(2):
            if w[i] == 1:
                x, i = dec_paths(w, i + 1)
                opt.append(x)
            else:
                i += 1
                opt.append(None)
        out.append((0, p, sp, us, opt[0], opt[1]))
    return out


# --------------------------------------------------------------------------- targeted generator

FRAGS = ["A", "B", "C", "D", "E"]
VARS = ["a", "b", "c", "d"]
ARGS = ["x", "y", "z"]
FIELDS = ["f", "g", "h"]
OPNAMES = ["Q1", "Q2", "Q3"]
TYPEDEFS = [
    ["type", "T", "{", "f", ":", "Int", "}"],
    ["scalar", "Sc", "@d", "(", "x", ":", "1", "x", ":", "2", ")"],
    ["schema", "{", "query", ":", "Q", "}"],
    ["extend", "schema", "@d", "(", "y", ":", "1", "y", ":", "2", "x", ":", "3", ")"],
    ["extend", "type", "T", "@d"],
    ["directive", "@e", "(", "x", ":", "I", "=", "{", "x", ":", "1", "x", ":", "2", "}", ")", "on", "FIELD"],
    ["input", "J", "{", "f", ":", "I", "=", "{", "z", ":", "{", "y", ":", "1", "y", ":", "2", "}", "x", ":", "1", "z", ":", "1", "}", "}"],
    ['"""doc"""', "enum", "En", "{", '"v"', "V", "@d", "(", "x", ":", "1", ")", "}"],
    ["interface", "If", "{", "f", "(", '"arg"', "x", ":", "Int", "@d", "(", "x", ":", "1", "x", ":", "1", ")", ")", ":", "Int", "}"],
    ["union", "Un", "=", "T", "|", "Q"],
]


class TGen:
    """Documents in which violations of the modelled rules are likely: few names, many repetitions."""

    def __init__(self, rng, xfa=False, nfr=None):
        self.r = rng
        self.xfa = xfa
        self.frs = FRAGS[:nfr or rng.randint(2, 5)]
        self.vars = VARS[:rng.randint(1, 4)]
        self.pdesc = rng.choice([0.0, 0.0, 0.3])

    def p(self, x):
        return self.r.random() < x

    def desc(self):
        return [self.r.choice(['"d"', '"""block\n  d"""', '""'])] if self.p(self.pdesc) else []

    def value(self, d, const):
        r = self.r.random()
        if d <= 0 or r < 0.3:
            if not const and self.p(0.6):
                return ["$", self.r.choice(self.vars)]
            return [self.r.choice(["1", "true", "null", '"s"', "EN", "1.5"])]
        if r < 0.45:
            out = ["["]
            for _ in range(self.r.randint(0, 3)):
                out += self.value(d - 1, const)
            return out + ["]"]
        if r < 0.8:
            out = ["{"]
            for _ in range(self.r.randint(0, 4)):
                out += [self.r.choice(ARGS), ":"] + self.value(d - 1, const)
            return out + ["}"]
        if not const:
            return ["$", self.r.choice(self.vars)]
        return ["1"]

    def args(self, const, p=0.4):
        if not self.p(p):
            return []
        out = ["("]
        for _ in range(self.r.randint(1, 4)):
            out += [self.r.choice(ARGS), ":"] + self.value(2, const)
        return out + [")"]

    def directives(self, const, p=0.25):
        out = []
        while self.p(p):
            out += ["@d"] + self.args(const, 0.7)
        return out

    def selection_set(self, d):
        out = ["{"]
        for _ in range(self.r.randint(1, 3 if d > 0 else 2)):
            out += self.selection(d)
        return out + ["}"]

    def selection(self, d):
        r = self.r.random()
        if r < 0.4 or d <= 0 and r < 0.6:
            out = ([self.r.choice(FIELDS), ":"] if self.p(0.15) else []) + [self.r.choice(FIELDS)]
            out += self.args(False) + self.directives(False)
            if d > 0 and self.p(0.45):
                out += self.selection_set(d - 1)
            return out
        if r < 0.85 or d <= 0:
            out = ["...", self.r.choice(self.frs if self.p(0.92) else FRAGS + ["Zz"])]
            if self.xfa:
                out += self.args(False, 0.3)
            return out + self.directives(False, 0.15)
        out = ["..."] + (["on", self.r.choice(["Q", "T"])] if self.p(0.5) else []) + self.directives(False, 0.15)
        return out + self.selection_set(d - 1)

    def vardefs(self, p=0.5):
        if not self.p(p):
            return []
        out = ["("]
        for _ in range(self.r.randint(1, 3)):
            out += self.desc() + ["$", self.r.choice(self.vars), ":", self.r.choice(["Int", "[Int]", "I", "Int!"])]
            if self.p(0.3):
                out += ["="] + self.value(2, True)
            out += self.directives(True, 0.15)
        return out + [")"]

    def operation(self):
        if self.p(0.25):
            return self.selection_set(self.r.randint(0, 2))
        out = self.desc() + [self.r.choice(["query", "query", "mutation", "subscription"])]
        if self.p(0.7):
            out.append(self.r.choice(OPNAMES))
        return out + self.vardefs() + self.directives(False, 0.2) + self.selection_set(self.r.randint(0, 2))

    def fragment(self, name=None):
        out = self.desc() + ["fragment", name or self.r.choice(self.frs)]
        if self.xfa:
            out += self.vardefs(0.4)
        return out + ["on", self.r.choice(["Q", "T"])] + self.directives(False, 0.15) + self.selection_set(self.r.randint(0, 2))

    def document(self):
        parts = []
        for _ in range(self.r.choice([0, 1, 1, 1, 2, 2, 3])):
            parts.append(self.operation())
        if self.p(0.8):
            names = list(self.frs)
            self.r.shuffle(names)
            for nm in names[:self.r.randint(1, len(names))]:
                parts.append(self.fragment(nm))
            while self.p(0.2):
                parts.append(self.fragment())
        else:
            for _ in range(self.r.randint(0, 3)):
                parts.append(self.fragment())
        while self.p(0.12):
            parts.append(list(self.r.choice(TYPEDEFS)))
        if not parts:
            parts.append(self.operation())
        self.r.shuffle(parts)
        return [lx for p in parts for lx in p]

    def graph_document(self):
        """fragment graph given by a random multigraph: cycles sharing nodes, self loops, unknown targets."""
        k = len(self.frs)
        parts = []
        for nm in self.frs:
            body = []
            for _ in range(self.r.choice([0, 1, 1, 2, 2, 3])):
                tgt = self.r.choice(self.frs + (["Zz"] if self.p(0.1) else []))
                sp = ["...", tgt]
                r = self.r.random()
                if r < 0.5:
                    body += sp
                elif r < 0.8:
                    body += [self.r.choice(FIELDS), "{"] + sp + ["}"]
                else:
                    body += ["...", "{", "f", "{"] + sp + ["}", "}"]
                if self.p(0.3):
                    body += ["f", "(", "x", ":", "$", self.r.choice(self.vars), ")"]
            if not body or self.p(0.3):
                body.append(self.r.choice(FIELDS))
            parts.append(["fragment", nm, "on", "T", "{"] + body + ["}"])
            if self.p(0.1):
                parts.append(["fragment", nm, "on", "T", "{", "...", self.r.choice(self.frs), "}"])
        for _ in range(self.r.choice([0, 1, 1, 2])):
            op = ["query"] + ([self.r.choice(OPNAMES)] if self.p(0.6) else [])
            op += self.vardefs(0.6) + ["{"]
            for _ in range(self.r.randint(1, 2)):
                op += ["...", self.r.choice(self.frs)] if self.p(0.8) else ["f", "(", "x", ":", "$", self.r.choice(VARS), ")"]
            parts.append(op + ["}"])
        self.r.shuffle(parts)
        return [lx for p in parts for lx in p] if k else ["{", "f", "}"]


# --------------------------------------------------------------------------- the check

def same_multiset(a, b):
    return Counter(a) == Counter(b)


def fmt(doc, obs):
    """errors with start offsets for messages"""
    out = []
    for code, ps in obs:
        offs = []
        for p in ps:
            try:
                n = node_at(doc, p)
                offs.append(n.loc.start if n.loc else None)
            except Exception:  # noqa: BLE001
                offs.append("?")
        out.append((RULE_NAME.get(code, code), offs))
    return out


def judge_document(ck, schema, text, xfa, model_out, ctx_out, erased_out, label):
    """Compare one document; returns True when it is non-trivial."""
    from graphql import parse
    try:
        doc = parse(text, experimental_fragment_arguments=xfa)
    except Exception:  # noqa: BLE001
        ck.count("skipped_unparseable")
        return None
    paths = node_paths(doc)
    from graphql.validation import specified_rules
    alone = impl_alone(schema, doc, paths)
    perm = list(specified_rules)
    ck.rng.shuffle(perm)
    togs = [("specified order", impl_together(schema, doc, paths)),
            ("reversed order", impl_together(schema, doc, paths, list(reversed(specified_rules)))),
            ("order " + ",".join(r.__name__[:-4] for r in perm), impl_together(schema, doc, paths, perm))]
    tog = togs[0][1]
    model = dec_errors(model_out) if model_out is not None else None
    replay = {"text": cps(text), "xfa": xfa}
    nontrivial = any(isinstance(v, list) and v for v in alone.values())
    ck.count(label)
    if model is not None and not isinstance(model, dict):
        ck.violation(f"model:{text!r}", f"the model gives no answer ({model}) for {text[:100]!r}",
                     dict(replay, relation="fuel is sufficient / the tree decodes"))
        model = None
    for code, name in RULES:
        a = alone[code]
        if not isinstance(a, list):
            ck.count("skipped_rule_raised")
            ck.count(f"raised_{name}_{a[1]}")
            continue
        if a:
            ck.count(f"errors_{name}", len(a))
            ck.count(f"docs_with_{name}")
        if any(p is None for _, ps in a for p in ps):
            ck.violation(f"foreign-node:{name}:{text!r}",
                         f"{name} reports an error whose node is not a node of the document, on {text[:100]!r}",
                         dict(replay, relation="error nodes are nodes of the validated document", rule=name))
            continue
        for how, tg in togs:
            if not isinstance(tg, dict):
                continue
            t = tg[code]
            if not same_multiset(a, t):
                ck.violation(f"alone-together:{name}:{text!r}",
                             f"{name} alone reports {fmt(doc, a)} but among all specified rules ({how}) {fmt(doc, t)} on {text[:100]!r}",
                             dict(replay, relation="rule alone = rule among all specified rules, in any order (multiset of (rule, nodes))",
                                  rule=name, order=how, alone=str(fmt(doc, a)), together=str(fmt(doc, t))))
                break
            if a != t:
                ck.count("order_differs_alone_together")
        if model is not None:
            m = model.get(code, [])
            if not same_multiset(a, m):
                ck.violation(f"model:{name}:{text!r}",
                             f"{name} reports {fmt(doc, a)} (rule, start offsets) but the model {fmt(doc, m)} on {text[:100]!r}",
                             dict(replay, relation="rule = Valid/Rules.v (multiset of (rule, node paths))", rule=name,
                                  impl=str(a), model=str(m)))
            elif a != m:
                ck.count("order_differs_model")
                ck.count(f"order_differs_{name}")
    for how, tg in togs:
        if not isinstance(tg, dict):
            ck.count("skipped_together_raised")
            ck.count(f"together_raised_{tg[1]}")
    # the context functions
    if ctx_out is not None:
        want = dec_context(ctx_out)
        try:
            got = impl_context(schema, doc, paths)
        except Exception as e:  # noqa: BLE001
            got = None
            ck.count(f"context_raised_{type(e).__name__}")
        if got is not None and want is not None:
            ck.count("context_compared")
            g2 = [tuple(list(x) if isinstance(x, list) else x for x in t) for t in got]
            if g2 != want:
                bad = next((i for i, (x, y) in enumerate(zip(g2, want)) if x != y), None)
                ck.violation(f"context:{text!r}",
                             f"context functions (spreads, usages, referenced fragments, recursive usages) differ from the "
                             f"model for definition {bad} of {text[:100]!r}: implementation {g2[bad] if bad is not None else g2} "
                             f"model {want[bad] if bad is not None else want}",
                             dict(replay, relation="get_fragment_spreads / get_variable_usages / "
                                  "get_recursively_referenced_fragments / get_recursive_variable_usages = model (ordered)"))
    # descriptions
    if erased_out is not None and model is not None:
        e = dec_errors(erased_out)
        if e != model:
            ck.violation(f"model-erase:{text!r}", f"model: erasing descriptions changes the errors on {text[:100]!r}",
                         dict(replay, relation="theorem instance: rules (erase_descriptions d) = rules d"))
        if '"' in text:
            try:
                d2 = strip_descriptions(doc)
                p2 = node_paths(d2)
                a2 = impl_alone(schema, d2, p2)
                ck.count("descriptions_stripped")
                if any(isinstance(a2[c], list) and isinstance(alone[c], list) and a2[c] != alone[c] for c, _ in RULES):
                    ck.violation(f"descriptions:{text!r}",
                                 f"removing the descriptions changes the errors of a modelled rule on {text[:100]!r}",
                                 dict(replay, relation="errors unchanged by descriptions"))
            except Exception:  # noqa: BLE001
                ck.count("skipped_strip_failed")
    sample = None
    if nontrivial and label == "targeted":
        sample = {"text": text[:200], "errors": str([fmt(doc, v) for v in alone.values() if isinstance(v, list) and v])[:400]}
    ck.note_case(("crules", text, xfa), nontrivial=nontrivial, sample=sample)
    return nontrivial


def check_tables(ck, m):
    want = m.run_batch([[2]])[0]
    got = impl_tables()
    ck.count("key_table_compared")
    if want != got:
        ck.violation("tables", f"visitor key table / description indices differ: implementation {got} model {want}",
                     {"relation": "Valid/Rules.vkeys, desc_index = query_document_keys_to_validate over dataclass field order",
                      "tables": True})


def core(ck, tier, model_ok, budget_s=None):
    """The rule correspondence, reporting into `ck` (./check CRULES and the rule part of ./check C12)."""
    from graphql import build_schema, parse

    quick = tier == "quick"
    rng = ck.rng
    t0 = time.time()
    budget = budget_s if budget_s is not None else (15 if quick else 240)
    schema = build_schema(SCHEMA_SDL)
    m = Model(MODEL) if model_ok else None
    if m is None:
        ck.degraded.append("rules model not built: implementation-only checks (alone vs together)")
    rule_text = (
        "documents: (T) targeted generator over 2-5 fragment names, 1-4 variable names, 3 argument names (duplicate "
        "operation/fragment/variable/argument/input-field names, undefined and unused variables through nested and cyclic "
        "spreads, unknown and unused fragments, self cycles and cycles sharing nodes, anonymous + named operations, "
        "type-system definitions inside executable documents, duplicates at depth, descriptions, fragment arguments under "
        "the experimental flag); (G) fragment multigraphs; (R) grammar-random documents of gen_doc (executable and mixed). "
        "Per document: each of the 12 rules ALONE (validate(schema, doc, [Rule])) and TOGETHER with all specified rules "
        "in the specified, the reversed and a random order (errors attributed to the reporting rule instance) vs the extracted model, as multisets of (rule, paths of the error's "
        "AST nodes) - equivalently (rule, start offsets); the four context functions vs the model's tables (ordered); the "
        "visitor key table; descriptions removed; the model applied to the parser model's tree of the text. "
        "non-trivial = at least one error of a modelled rule")
    ck.extra["rules_rule"] = rule_text
    if not ck.rule:
        ck.rule = rule_text
    if m is not None:
        check_tables(ck, m)
    # ---- documents
    docs = []
    for c in common.load_corpus(PID):
        if "text" in c:
            docs.append((from_cps(c["text"]), bool(c.get("xfa")), "corpus"))
    total = max(60, int(budget * 13))          # about 20 documents per second; the rest is head room
    nT, nG, nR = int(total * 0.65), int(total * 0.23), int(total * 0.12)
    for i in range(nT):
        xfa = i % 5 == 0
        g = TGen(rng, xfa)
        lex = g.document()
        docs.append((gen_doc.join_min(lex) if i % 3 else gen_doc.join_random(lex, rng), xfa, "targeted"))
    for i in range(nG):
        g = TGen(rng, False)
        docs.append((gen_doc.join_min(g.graph_document()), False, "graph"))
    for i in range(nR):
        g = gen_doc.Gen(rng, depth=2, experimental=False)
        try:
            docs.append((gen_doc.join_min(g.document("exec" if i % 3 else "mixed")), False, "grammar_random"))
        except Exception:  # noqa: BLE001
            ck.count("generator_failed")
    # ---- model in one batch
    cases, idx = [], []
    for k, (text, xfa, label) in enumerate(docs):
        try:
            d = parse(text, experimental_fragment_arguments=xfa)
            w = pc.enc_node(d)
        except Exception:  # noqa: BLE001
            continue
        idx.append(k)
        cases.append(w)
    outs = {}
    if m is not None and cases:
        o0 = m.run_batch([[0] + w for w in cases])
        o3 = m.run_batch([[3] + w for w in cases])
        o4 = m.run_batch([[4] + w for w in cases])
        for k, a, b, c in zip(idx, o0, o3, o4):
            outs[k] = (a, b, c)
        # the parser model's tree of the text gives the same answer
        sub = idx[:: max(1, len(idx) // (150 if quick else 1500))]
        o1 = m.run_batch([[1, 1 if docs[k][1] else 0] + cps(docs[k][0]) for k in sub])
        for k, o in zip(sub, o1):
            ck.count("via_parser_model")
            if o != outs[k][0]:
                ck.violation(f"parser-route:{docs[k][0]!r}",
                             f"model rules on the parser model's tree differ from the rules on the implementation's tree for {docs[k][0][:100]!r}",
                             {"text": cps(docs[k][0]), "xfa": docs[k][1], "relation": "parse_text tree = implementation tree (CPARSER)"})
    ck.extra["rules_t_model_s"] = round(time.time() - t0, 1)
    done = 0
    for k, (text, xfa, label) in enumerate(docs):
        if time.time() - t0 > budget:
            ck.count("rules_stopped_on_time_budget")
            break
        o = outs.get(k, (None, None, None))
        judge_document(ck, schema, text, xfa, o[0], o[1], o[2], label)
        done += 1
    ck.count("rules_documents", done)
    ck.extra["rules_t_s"] = round(time.time() - t0, 1)


def run(tier):
    ck = Check(PID, tier)
    ck.assumptions += ASSUMPTIONS
    has_thms = (common.COQ / "theories" / "Properties" / f"{THMS}.v").exists()
    br = common.build(PID, models=(MODEL,),
                      extra_targets=(f"theories/Properties/{THMS}.vo",) if has_thms else ())
    account_proofs(ck, br)
    core(ck, tier, br.ok, budget_s=90 if tier == "quick" else 900)
    return ck.finish()


def replay(path):
    from graphql import build_schema
    d = json.loads(open(path).read())
    br = common.build(PID, models=(MODEL,))
    ck = Check(PID, "replay")
    ck.known = []
    m = Model(MODEL) if br.ok else None
    if d.get("tables"):
        if m is not None:
            check_tables(ck, m)
    else:
        from graphql import parse
        text, xfa = from_cps(d["text"]), bool(d.get("xfa"))
        print("input:", repr(text), "experimental_fragment_arguments:", xfa)
        o = (None, None, None)
        if m is not None:
            w = pc.enc_node(parse(text, experimental_fragment_arguments=xfa))
            o = tuple(m.run_batch([[op] + w])[0] for op in (0, 3, 4))
        judge_document(ck, build_schema(SCHEMA_SDL), text, xfa, o[0], o[1], o[2], "replay")
    for key, what, _ in ck.violations:
        print("VIOLATION:", what)
    print("STILL FAILING" if ck.violations else "passes now")
    return 1 if ck.violations else 0
