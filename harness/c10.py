"""C10 - every reported source location is the true line and column."""
from __future__ import annotations

import json
import re

from . import common
from .common import Check, Model, cps

ALPHA = ["a", " ", "\n", "\r", "\x0c", "\x85", " ", "#", '"', "{", "}"]
ASSUMPTIONS = [
    "C10 model: Lang/Location.v (get_location as regex split of the prefix, render_line, scan_lines)",
    "error excerpts are compared through str(error): the line printed after '<line> |'",
    "the rendered text is compared with the Render model exactly (both branches); message wording of errors is not",
]


def impl_get_location(body, pos):
    from graphql.language import Source
    loc = Source(body).get_location(pos)
    return [loc.line, loc.column]


def all_tokens(body):
    """Every token of the source incl. comments, or the syntax error."""
    from graphql.language import Lexer, Source, TokenKind
    lx = Lexer(Source(body))
    while lx.advance().kind != TokenKind.EOF:
        pass
    out, t = [], lx.token
    while t.prev is not None:
        t = t.prev
    while t is not None:
        out.append(t)
        t = t.next
    return out


def excerpt_line(text, line_num):
    """Content printed for line `line_num` in a rendered location ('' if blank)."""
    for ln in text.split("\n")[1:]:
        pre, sep, rest = ln.partition("|")
        if sep and pre.strip() == str(line_num):
            return rest[1:] if rest.startswith(" ") else rest
    return None


def run(tier):
    from graphql import GraphQLError, GraphQLSyntaxError, Source, SourceLocation, parse

    ck = Check("C10", tier)
    ck.assumptions += ASSUMPTIONS
    br = common.build("C10")
    ck.proofs(br)
    if not br.ok:
        # cannot run the model: report the break (search below still runs on impl-only predicates)
        return ck.finish()
    m = Model()
    n = 4 if tier == "quick" else 5
    ck.rule = (f"(A) all strings of length <= {n} over {ALPHA!r} x all offsets 0..len: impl get_location vs "
               "extracted model (= spec by theorem C10_location_spec); (B) token line/column of every token "
               "incl. comments of every such string that lexes, and of block-string templates; (C) syntax errors "
               "of those that do not parse: locations, str(), formatted, excerpt line vs model render_line; "
               "(D) location offsets {1,2,7}^2; (E) validation/execution error locations on templated documents. "
               "non-trivial = the text contains at least one of CR, LF, FF, U+0085, U+2028 before the offset")

    # ---- (A) get_location x offsets -------------------------------------------------
    strs = ["".join(s) for s in common.strings_upto(ALPHA, n)]
    for c in common.load_corpus("C10"):
        strs.insert(0, c["body"])
    cases, meta = [], []
    for s in strs:
        for pos in range(len(s) + 1):
            cases.append([1, pos] + cps(s))
            meta.append((s, pos))
    res = m.run_batch(cases)
    special = set("\n\r\x0c\x85 ")
    for (s, pos), want in zip(meta, res):
        try:
            got = impl_get_location(s, pos)
        except Exception as e:  # noqa: BLE001
            got = ["raised", type(e).__name__]
        ck.note_case(("loc", s, pos), nontrivial=bool(special & set(s[:pos])))
        if got != want:
            ck.violation(f"get_location:{s!r}:{pos}",
                         f"get_location({s!r}, {pos}) = {got}, specification says {want}",
                         {"relation": "get_location = location_spec", "body": cps(s), "pos": pos,
                          "impl": got, "model": want})
    ck.count("get_location_cases", len(cases))
    # the same Source OBJECT queried repeatedly, in ascending, descending and shuffled order: the answer for an
    # offset must not depend on earlier lookups (expected = the model's answers above)
    from graphql.language import Source as _Source
    want_of = {}
    for (s_, pos), want in zip(meta, res):
        want_of.setdefault(s_, {})[pos] = want
    nhist = 0
    for s_ in strs[::(7 if tier == "quick" else 3)]:
        offs_ = list(range(len(s_) + 1))
        shuffled = offs_[:]
        ck.rng.shuffle(shuffled)
        for order_name, order in (("ascending", offs_), ("descending", offs_[::-1]), ("shuffled", shuffled),
                                  ("each-twice", [o for o in offs_ for _ in (0, 1)])):
            src_obj = _Source(s_)
            for pos in order:
                try:
                    loc = src_obj.get_location(pos)
                    got = [loc.line, loc.column]
                except Exception as e:  # noqa: BLE001
                    got = ["raised", type(e).__name__]
                nhist += 1
                if got != want_of[s_][pos]:
                    ck.violation(f"get_location-history:{s_!r}:{order_name}:{pos}",
                                 f"get_location({pos}) on a Source({s_!r}) that answered earlier lookups ({order_name} order) = {got}, "
                                 f"specification says {want_of[s_][pos]}",
                                 {"relation": "get_location is independent of earlier lookups on the same Source", "body": cps(s_),
                                  "pos": pos, "order": [int(x) for x in order], "impl": got, "model": want_of[s_][pos]})
                    break
    ck.evaluations += nhist
    ck.count("get_location_history_lookups", nhist)
    ck.samples.append({"body": strs[len(strs) // 2], "offsets": "all"})
    ck.exhaustive = True

    # ---- (B) token line/column ; (C) syntax errors -----------------------------------
    blk = []
    for j in common.strings_upto(["a", "\n", "\r", "\x0c", " ", " "], 3 if tier == "quick" else 4):
        js = "".join(j)
        blk.append('"""' + js + '""" a ?')
        blk.append('"""' + js + '""" a "b"')
        blk.append('{ f(x: """' + js + '""") # c\n }')
        blk.append('#' + js + '\n"""' + js + '"""\r\n a')
    long_line = "{ " + "a " * 70 + "  ? }"
    extra = ['{\n?', '" " ?', '" " ?', "{\r\n?", "{\r?", "a\r", "{ a\x0c}", long_line,
             "\n\n" + long_line, "{ a }\n" * 3 + "?"]
    tok_cases, tok_meta, err_items = [], [], []
    for s in strs + blk + extra:
        try:
            toks = all_tokens(s)
        except GraphQLSyntaxError:
            toks = None
        except Exception as e:  # noqa: BLE001  (C01's business, but a location cannot be reported)
            ck.violation(f"lexer-raises:{s!r}", f"lexing {s!r} raised {type(e).__name__}",
                         {"relation": "lexer total", "body": cps(s), "impl": type(e).__name__})
            toks = None
        if toks:
            for t in toks:
                tok_cases.append([1, t.start] + cps(s))
                tok_meta.append((s, t.kind.name, t.start, [t.line, t.column]))
        try:
            parse(s)
        except GraphQLSyntaxError as e:
            err_items.append((s, e))
        except Exception:  # noqa: BLE001
            pass
    res = m.run_batch(tok_cases)
    for (s, kind, start, got), want in zip(tok_meta, res):
        ck.note_case(("tok", s, start), nontrivial=bool(special & set(s[:start])))
        if kind == "SOF":
            want = [0, 0]
        if got != want:
            ck.violation(f"token:{s!r}:{start}",
                         f"token {kind} at offset {start} of {s!r} has line/column {got}, true location {want}",
                         {"relation": "Token.line/column = get_location(start)", "body": cps(s),
                          "start": start, "impl": got, "model": want})
    ck.count("token_cases", len(tok_cases))

    offs = [(1, 1)] + ([(2, 7), (7, 1), (2, 2)] if tier == "quick" else
                       [(a, b) for a in (1, 2, 7) for b in (1, 2, 7)][1:])
    ecases, emeta = [], []
    for s, e in err_items:
        pos = e.positions[0]
        ecases.append([1, pos] + cps(s))
        emeta.append(("loc", s, e, None))
    res = m.run_batch(ecases)
    rcases, rmeta = [], []
    for (_, s, e, _), want in zip(emeta, res):
        pos = e.positions[0]
        ck.note_case(("err", s), nontrivial=bool(special & set(s[:pos])))
        got = [e.locations[0].line, e.locations[0].column] if e.locations else None
        key = f"syntax-error:{s!r}"
        if got != want:
            ck.violation(key, f"syntax error of {s!r} at offset {pos} located at {got}, true location {want}",
                         {"relation": "error location = get_location(position)", "body": cps(s),
                          "pos": pos, "impl": got, "model": want})
        try:
            fm = e.formatted
            assert fm["locations"] == [{"line": got[0], "column": got[1]}]
        except Exception as ex:  # noqa: BLE001
            ck.violation(key, f".formatted of syntax error of {s!r} failed: {type(ex).__name__}",
                         {"relation": "formatted never fails", "body": cps(s)})
        for (ol, oc) in offs:
            rcases.append([2, oc - 1, want[0]] + cps(s))
            rmeta.append((s, pos, want, ol, oc))
    res = m.run_batch(rcases)
    for (s, pos, want, ol, oc), r in zip(rmeta, res):
        key = f"render:{s!r}:{ol}:{oc}"
        ck.evaluations += 1
        try:
            parse(Source(s, "n", SourceLocation(ol, oc)))
            continue
        except GraphQLSyntaxError as e2:
            try:
                txt = str(e2)
            except Exception as ex:  # noqa: BLE001
                ck.violation(key, f"str() of the syntax error of {s!r} (offset {ol}:{oc}) raised {type(ex).__name__}",
                             {"relation": "rendering never fails", "body": cps(s), "offset": [ol, oc],
                              "impl": type(ex).__name__})
                continue
        line_num = want[0] + ol - 1
        col_num = want[1] + (oc - 1 if want[0] == 1 else 0)
        head = txt.split("\n")
        hdr = next((h for h in head if h.startswith("n:")), None)
        if hdr != f"n:{line_num}:{col_num}":
            ck.violation(key, f"rendered header {hdr!r} for {s!r} with offset {ol}:{oc}, expected n:{line_num}:{col_num}",
                         {"relation": "printed line:column follow the offset rule", "body": cps(s),
                          "offset": [ol, oc], "impl": hdr, "model": [line_num, col_num]})
            continue
        if r[0] != 1:
            continue
        want_line = common.from_cps(r[1:])
        if len(want_line) > 120:
            continue
        # the excerpt part follows the header line
        i = head.index(hdr)
        got_line = excerpt_line("\n".join(head[i:]), line_num)
        if got_line is None or got_line != want_line:
            ck.violation(key, f"excerpt for {s!r} shows {got_line!r}, the named line is {want_line!r}",
                         {"relation": "excerpt shows the named line", "body": cps(s), "offset": [ol, oc],
                          "impl": got_line, "model": want_line})
    ck.count("syntax_errors", len(err_items))
    ck.count("renderings", len(rcases))

    # ---- (E) validation and execution errors -----------------------------------------
    from graphql import build_schema, execute_sync, validate
    schema = build_schema("type Query { a: Int  f(s: String): Int  o: Query  n: Int! }")
    junk = ["", "\n", "\r", "\r\n", "# \n", "#\x0c\r", '#\x85\n', "\n\r", " \r\n\r "]
    docs = []
    for j1 in junk:
        for j2 in junk:
            docs.append("{" + j1 + 'f(s: " \x0c")' + j2 + "zz }")
            docs.append('{' + j1 + 'o {' + j2 + 'a zz } }')
            docs.append('{' + j1 + '""" ' + j2.replace("#", "") + '"""' + j2 + "zz }") if False else None
    vcases, vmeta = [], []
    for d in docs:
        try:
            ast = parse(d)
        except GraphQLError:
            continue
        errs = validate(schema, ast)
        for e in errs:
            for node, loc in zip(e.nodes or [], e.locations or []):
                vcases.append([1, node.loc.start] + cps(d))
                vmeta.append((d, "validation", node.loc.start, [loc.line, loc.column], d.index("zz")))
    # execution error: resolver of `a` raises
    def boom(*_a, **_k):
        raise RuntimeError("boom")
    for j1 in junk:
        for j2 in junk:
            d = "{" + j1 + "o {" + j2 + "a } }"
            r = execute_sync(schema, parse(d), {"o": {"a": boom}})
            for e in r.errors or []:
                for loc in e.locations or []:
                    start = d.index("a }")
                    vcases.append([1, start] + cps(d))
                    vmeta.append((d, "execution", start, [loc.line, loc.column], start))
    res = m.run_batch(vcases)
    for (d, kind, start, got, exp_start), want in zip(vmeta, res):
        ck.note_case((kind, d), nontrivial=True)
        if start != exp_start or got != want:
            ck.violation(f"{kind}-error:{d!r}",
                         f"{kind} error in {d!r} located at {got} (node start {start}), true location {want}",
                         {"relation": f"{kind} error location = get_location(node start)", "body": cps(d),
                          "pos": start, "impl": got, "model": want})
    # GraphQLError built from ANY node of a parsed document (the Document node included, whose Location starts at the
    # SOF token) must carry get_location(node.loc.start)
    from graphql import GraphQLError as _GE
    from graphql.language import Node as _Node
    ncases, nmeta = [], []
    ndocs = ["{ a }", "\n\n  { a\r\n b }", "# c\r{ o { a } }", "query Q($v: Int = 1) @d { a(x: [1, {k: $v}]) ...F }\nfragment F on T {\r a }",
             '"""d"""\ntype T implements I & J @x { f(a: Int = 2): [T!]! }\r\nextend schema { query: T }']
    for d in ndocs:
        try:
            ast = parse(d)
        except GraphQLError:
            continue
        stack, nodes_ = [ast], []
        while stack:
            n_ = stack.pop()
            nodes_.append(n_)
            for k in n_.keys:
                v = getattr(n_, k, None)
                if isinstance(v, _Node):
                    stack.append(v)
                elif isinstance(v, (list, tuple)):
                    stack.extend(x for x in v if isinstance(x, _Node))
        for n_ in nodes_:
            if n_.loc is None:
                continue
            for nodes_arg in ([n_], [ast, n_]):
                try:
                    e = _GE("m", nodes_arg)
                    got = [[l.line, l.column] for l in (e.locations or [])]
                    fm = e.formatted.get("locations")
                    if fm != [{"line": a, "column": b} for a, b in got]:
                        got = ["formatted differs", fm]
                except Exception as ex:  # noqa: BLE001
                    got = ["raised", type(ex).__name__]
                for x in nodes_arg:
                    ncases.append([1, x.loc.start] + cps(d))
                nmeta.append((d, [x.kind for x in nodes_arg], [x.loc.start for x in nodes_arg], got, len(nodes_arg)))
    nres = m.run_batch(ncases)
    i_ = 0
    for d, kinds, starts, got, k_ in nmeta:
        want = nres[i_:i_ + k_]
        i_ += k_
        ck.evaluations += 1
        ck.note_case(("node-error", d, tuple(kinds), tuple(starts)), nontrivial=True)
        if got != want:
            ck.violation(f"node-error:{d!r}:{kinds}:{starts}",
                         f"GraphQLError built from node(s) {kinds} starting at {starts} of {d!r} carries locations {got}, true locations {want}",
                         {"relation": "error location = get_location(node start)", "body": cps(d), "pos": starts[-1],
                          "impl": got, "model": want})
    ck.count("node_error_cases", len(nmeta))
    ck.count("validation_execution_errors", len(vcases))
    ck.samples.append({"document": docs[5]})

    # ---- (R) complete rendered text of print_source_location vs Lang/Render.v -----------
    from graphql.language import print_source_location
    rn = 3 if tier == "quick" else 4
    rstrs = ["".join(x) for x in common.strings_upto(["a", " ", "\n", "\r", "\u2028"], rn)]
    roffs = [(1, 1), (1, 3), (4, 1), (9, 12), (99, 100)]
    rc, rm = [], []
    name = "GraphQL request"
    for s_ in rstrs:
        nl = len(re.split("\r\n|[\n\r]", s_))
        for pos in range(len(s_) + 1):
            line, col = impl_get_location(s_, pos)
            for (ol, oc) in roffs:
                rc.append([4, oc - 1, ol - 1, line, col, len(name)] + cps(name) + cps(s_))
                rm.append((name, s_, ol, oc, line, col))
        # a line number one past the end must be the IndexError (model: None)
        rc.append([4, 0, 0, nl + 1, 1, 1] + cps("n") + cps(s_))
        rm.append(("n", s_, 1, 1, nl + 1, 1))
    # long lines ("minified documents"): lengths around 120/160/240, columns around the 80-multiples,
    # with and without neighbouring lines, first-line column offset pushing a line over 120
    pat = "".join(chr(48 + (i // 10) % 10) if i % 10 == 0 else "abcdefghi"[i % 10 - 1] for i in range(400))
    lens = [119, 120, 121, 122, 159, 160, 161, 200, 240, 241, 320] if tier == "quick" else list(range(115, 126)) + list(range(155, 166)) + [200, 239, 240, 241, 242, 320, 321, 400]
    for L in lens:
        for pre, post in (("", ""), ("x\n", ""), ("", "\ny"), ("x\r\n", "\ry\nz")):
            body = pre + pat[:L] + post
            line = 1 + (1 if pre else 0)
            cols = sorted({1, 2, 79, 80, 81, 82, 119, 120, 121, 159, 160, 161, 162, 239, 240, 241, L - 1, L, L + 1}
                          | ({ck.rng.randint(1, L + 1) for _ in range(6)} if tier != "quick" else set()))
            for col in cols:
                if col < 1 or col > L + 1:
                    continue
                for (ol, oc) in ((1, 1), (1, 2), (1, 80), (5, 41)):
                    rc.append([4, oc - 1, ol - 1, line, col, 1] + cps("n") + cps(body))
                    rm.append(("n", body, ol, oc, line, col))
    rres = m.run_batch(rc)
    nlong = 0
    for (nm, body, ol, oc, line, col), r in zip(rm, rres):
        ck.evaluations += 1
        key = f"render-text:{body[:40]!r}:{len(body)}:{ol}:{oc}:{line}:{col}"
        try:
            got = print_source_location(Source(body, nm, SourceLocation(ol, oc)), SourceLocation(line, col))
        except IndexError:
            got = None
        except Exception as ex:  # noqa: BLE001
            got = f"raised {type(ex).__name__}"
        want = common.from_cps(r[1:]) if r and r[0] == 1 else None
        longline = any(len(x) > 120 for x in re.split("\r\n|[\n\r]", " " * (oc - 1) + body))
        nlong += longline
        ck.note_case(("render", body, ol, oc, line, col), nontrivial=longline or ("\n" in body or "\r" in body))
        if got != want:
            ck.violation(key, f"print_source_location text differs from the model for line {line} column {col} "
                              f"offset {ol}:{oc} of a {len(body)}-character body",
                         {"relation": "print_source_location = Render.print_source_location", "body": cps(body),
                          "offset": [ol, oc], "line": line, "column": col, "name": nm, "impl": got, "model": want})
    ck.count("render_text_cases", len(rc))
    ck.count("render_text_long_line_cases", nlong)
    ck.rule += (" (R) complete text of print_source_location vs the extracted Render model: all strings of length <= "
                f"{rn} over {{a, space, LF, CR, U+2028}} x all offsets x 5 location offsets, a line index one past "
                "the end (IndexError <-> None), and long lines (lengths around 120/160/240/320, columns around the "
                "multiples of 80, neighbours, first-line column offsets)")
    return ck.finish()


def replay(path):
    d = json.loads(open(path).read())
    body = common.from_cps(d["body"])
    if "line" in d:
        from graphql import Source, SourceLocation
        from graphql.language import print_source_location
        ol, oc = d["offset"]
        try:
            got = print_source_location(Source(body, d.get("name", "n"), SourceLocation(ol, oc)),
                                        SourceLocation(d["line"], d["column"]))
        except Exception as ex:  # noqa: BLE001
            got = f"raised {type(ex).__name__}"
        print("impl text:", repr(got)); print("model text:", repr(d.get("model")))
        return 0 if got == d.get("model") else 1
    if "pos" in d:
        print("impl get_location:", impl_get_location(body, d["pos"]), "model/spec:", d.get("model"))
    else:
        print(d)
    return 0
