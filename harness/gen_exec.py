"""Shared generator and codecs of the execution model `exec` (properties C02, C13).

* type-directed generation of (schema SDL, operation text, variables, data graph)
* encoders of implementation objects (GraphQLSchema, DocumentNode, Python data) to the model's wire
  tree (coq/theories/Exec/Wire.v) and the decoder of the model's answers
* the implementation runner: execute_sync with default-like resolvers over dict/list data that
  raise where the data graph says so and record their keyword arguments
"""
from __future__ import annotations

import collections.abc
import functools
import math

from . import common  # noqa: F401  (sets sys.path for graphql)


class OutOfFragment(Exception):
    """The input is outside the modelled fragment: classify, skip, count."""


# --------------------------------------------------------------------------- wire trees

def W(tag, ints=(), kids=()):
    return (tag, list(ints), list(kids))


def flatten(w, out=None):
    out = [] if out is None else out
    stack = [w]
    while stack:
        t = stack.pop()
        out.append(t[0])
        out.append(len(t[1]))
        out.extend(t[1])
        out.append(len(t[2]))
        stack.extend(reversed(t[2]))
    return out


def unflatten(ints):
    pos = 0

    def rd():
        nonlocal pos
        tag, ni = ints[pos], ints[pos + 1]
        pos += 2
        vals = ints[pos:pos + ni]
        pos += ni
        nk = ints[pos]
        pos += 1
        kids = [rd() for _ in range(nk)]
        return (tag, vals, kids)

    return rd()


LIMIT = 1 << 62


def w_str(s, tag=0):
    return W(tag, [ord(c) for c in s])


def zints(z):
    if abs(z) >= LIMIT:
        raise OutOfFragment("integer too large for the wire")
    return [0 if z >= 0 else 1, abs(z)]


def fints(x: float):
    if not math.isfinite(x):
        raise OutOfFragment("non-finite float")
    n, d = x.as_integer_ratio()
    if abs(n) >= LIMIT or d >= LIMIT:
        raise OutOfFragment("float ratio too large for the wire")
    return zints(n) + [d]


def w_opt(x):
    return W(20) if x is None else W(21, [], [x])


def w_list(xs):
    return W(5, [], xs)


def w_pair(k, v):
    return W(51, [], [w_str(k), v])


# --------------------------------------------------------------------------- schema -> wire

def enc_type(t):
    from graphql import GraphQLList, GraphQLNonNull
    if isinstance(t, GraphQLNonNull):
        return W(3, [], [enc_type(t.of_type)])
    if isinstance(t, GraphQLList):
        return W(2, [], [enc_type(t.of_type)])
    return W(1, [], [w_str(t.name)])


def enc_value_ast(node):
    from graphql.language import ast as A
    if isinstance(node, A.NullValueNode):
        return W(10)
    if isinstance(node, A.IntValueNode):
        if node.value.lstrip("-") != str(abs(int(node.value))) or node.value == "-0":
            raise OutOfFragment("int literal text differs from its value")
        return W(11, zints(int(node.value)))
    if isinstance(node, A.FloatValueNode):
        return W(12, fints(float(node.value)))
    if isinstance(node, A.StringValueNode):
        return w_str(node.value, 13)
    if isinstance(node, A.BooleanValueNode):
        return W(14, [1 if node.value else 0])
    if isinstance(node, A.EnumValueNode):
        return w_str(node.value, 15)
    if isinstance(node, A.VariableNode):
        return w_str(node.name.value, 16)
    if isinstance(node, A.ListValueNode):
        return W(17, [], [enc_value_ast(v) for v in node.values])
    if isinstance(node, A.ObjectValueNode):
        return W(18, [], [w_pair(f.name.value, enc_value_ast(f.value)) for f in node.fields])
    raise OutOfFragment("value node kind")


def enc_default(x):
    """Default of an argument (GraphQLArgument) -> optional wire value."""
    from graphql.pyutils import Undefined
    d = getattr(x, "default", None)
    if d is not None:
        if d.literal is None:
            raise OutOfFragment("programmatic default value")
        return w_opt(enc_value_ast(d.literal))
    if getattr(x, "default_value", Undefined) is not Undefined:
        raise OutOfFragment("legacy default_value")
    return w_opt(None)


def enc_fields(fields):
    out = []
    for name, f in fields.items():
        if f.resolve is not None or f.subscribe is not None:
            raise OutOfFragment("field with its own resolver")
        args = []
        for an, a in f.args.items():
            if getattr(a, "out_name", None):
                raise OutOfFragment("out_name")
            args.append(W(30, [], [w_str(an), enc_type(a.type), enc_default(a)]))
        out.append(W(31, [], [w_str(name), enc_type(f.type), w_list(args)]))
    return w_list(out)


def enc_schema(schema):
    from graphql import (GraphQLEnumType, GraphQLInputObjectType, GraphQLInterfaceType, GraphQLObjectType,
                         GraphQLUnionType, is_specified_scalar_type)
    entries = []
    for name, t in schema.type_map.items():
        if name.startswith("__") or is_specified_scalar_type(t):
            continue
        if isinstance(t, GraphQLEnumType):
            for vn, v in t.values.items():
                if v.value != vn:
                    raise OutOfFragment("enum with internal values")
            d = W(41, [], [w_list([w_str(v) for v in t.values])])
        elif isinstance(t, GraphQLObjectType):
            if t.is_type_of is not None:
                raise OutOfFragment("is_type_of")
            d = W(42, [], [enc_fields(t.fields), w_list([w_str(i.name) for i in t.interfaces])])
        elif isinstance(t, GraphQLInterfaceType):
            if t.resolve_type is not None:
                raise OutOfFragment("resolve_type")
            d = W(43, [], [enc_fields(t.fields)])
        elif isinstance(t, GraphQLUnionType):
            if t.resolve_type is not None:
                raise OutOfFragment("resolve_type")
            d = W(44, [], [w_list([w_str(m.name) for m in t.types])])
        elif isinstance(t, GraphQLInputObjectType):
            if t.out_type is not GraphQLInputObjectType.out_type:
                raise OutOfFragment("input object out_type")
            fs = []
            for fn, f in t.fields.items():
                if getattr(f, "out_name", None):
                    raise OutOfFragment("out_name")
                fs.append(W(30, [], [w_str(fn), enc_type(f.type), enc_default(f)]))
            d = W(46, [1 if t.is_one_of else 0], [w_list(fs)])
        else:
            raise OutOfFragment(f"type kind of {name}")
        entries.append(W(40, [], [w_str(name), d]))
    if schema.query_type is None:
        raise OutOfFragment("no query type")
    mut = schema.mutation_type
    return W(45, [], [w_list(entries), w_str(schema.query_type.name),
                      w_opt(None if mut is None else w_str(mut.name))])


# --------------------------------------------------------------------------- document -> wire

def enc_args(arguments):
    return w_list([w_pair(a.name.value, enc_value_ast(a.value)) for a in arguments or ()])


def enc_dirs(directives):
    out = []
    for d in directives or ():
        if d.name.value in ("defer", "stream", "experimental_disableErrorPropagation"):
            raise OutOfFragment("@" + d.name.value)
        out.append(W(50, [], [w_str(d.name.value), enc_args(d.arguments)]))
    return w_list(out)


def enc_selset(ss):
    from graphql.language import ast as A
    out = []
    for sel in (ss.selections if ss else ()):
        if isinstance(sel, A.FieldNode):
            if sel.name.value in ("__schema", "__type"):
                raise OutOfFragment("introspection field")
            out.append(W(52, [], [w_opt(w_str(sel.alias.value) if sel.alias else None),
                                  w_str(sel.name.value), enc_args(sel.arguments),
                                  enc_dirs(sel.directives), enc_selset(sel.selection_set)]))
        elif isinstance(sel, A.FragmentSpreadNode):
            if getattr(sel, "arguments", None):
                raise OutOfFragment("fragment arguments")
            out.append(W(53, [], [w_str(sel.name.value), enc_dirs(sel.directives)]))
        else:
            tc = sel.type_condition
            out.append(W(54, [], [w_opt(w_str(tc.name.value) if tc else None),
                                  enc_dirs(sel.directives), enc_selset(sel.selection_set)]))
    return w_list(out)


def enc_type_ast(t):
    from graphql.language import ast as A
    if isinstance(t, A.NonNullTypeNode):
        return W(3, [], [enc_type_ast(t.type)])
    if isinstance(t, A.ListTypeNode):
        return W(2, [], [enc_type_ast(t.type)])
    return W(1, [], [w_str(t.name.value)])


def enc_doc(doc, operation_name=None):
    from graphql.language import ast as A
    ops = [d for d in doc.definitions if isinstance(d, A.OperationDefinitionNode)]
    if operation_name is not None:
        ops = [o for o in ops if o.name and o.name.value == operation_name]
    if len(ops) != 1:
        raise OutOfFragment("operation selection")
    op = ops[0]
    if op.operation.value not in ("query", "mutation"):
        raise OutOfFragment("subscription")
    for d in op.directives or ():
        if d.name.value == "experimental_disableErrorPropagation":
            raise OutOfFragment("error propagation disabled")
    vdefs = [W(55, [], [w_str(v.variable.name.value), enc_type_ast(v.type),
                        w_opt(enc_value_ast(v.default_value) if v.default_value else None)])
             for v in op.variable_definitions or ()]
    frags = []
    for d in doc.definitions:
        if isinstance(d, A.FragmentDefinitionNode):
            if getattr(d, "variable_definitions", None):
                raise OutOfFragment("fragment variables")
            frags.append(W(56, [], [w_str(d.name.value), w_str(d.type_condition.name.value),
                                    enc_selset(d.selection_set)]))
    return W(57, [0 if op.operation.value == "query" else 1],
             [w_list(vdefs), enc_selset(op.selection_set), w_list(frags)])


# --------------------------------------------------------------------------- runtime values

def enc_json_value(v):
    """A variable value as supplied by a client (JSON)."""
    if v is None:
        return W(10)
    if isinstance(v, bool):
        return W(14, [1 if v else 0])
    if isinstance(v, int):
        return W(11, zints(v))
    if isinstance(v, float):
        return W(12, fints(v))
    if isinstance(v, str):
        return w_str(v, 13)
    if isinstance(v, list):
        return W(17, [], [enc_json_value(x) for x in v])
    if isinstance(v, dict) and all(isinstance(k, str) for k in v):
        return W(18, [], [w_pair(k, enc_json_value(x)) for k, x in v.items()])
    raise OutOfFragment("variable value kind")


def enc_vars(variables):
    return w_list([w_pair(k, enc_json_value(v)) for k, v in (variables or {}).items()])


class Raise(Exception):
    """Data-graph marker: the resolver raises / the list item is an exception."""


# Data-graph marker: a value no leaf type can serialise (a plain builtins `object`).
BAD = object()


def enc_data(d):
    if d is None:
        return W(60)
    if isinstance(d, Raise):
        return W(69)
    if d is BAD:
        return W(65)
    if isinstance(d, bool):
        return W(64, [1 if d else 0])
    if isinstance(d, int):
        return W(61, zints(d))
    if isinstance(d, float):
        return W(62, fints(d))
    if isinstance(d, str):
        return w_str(d, 63)
    if isinstance(d, list):
        return W(68, [], [enc_data(x) for x in d])
    if isinstance(d, dict):
        tn = d.get("__typename", "")
        if not isinstance(tn, str):
            raise OutOfFragment("__typename value")
        return W(66, [], [w_str(tn), w_list([W(67, [], [w_str(k), enc_data(v)])
                                             for k, v in d.items() if k != "__typename"])])
    raise OutOfFragment("data value kind")


def data_to_jsonable(d):
    if isinstance(d, Raise):
        return {"$raise": True}
    if d is BAD:
        return {"$bad": True}
    if isinstance(d, list):
        return [data_to_jsonable(x) for x in d]
    if isinstance(d, dict):
        return {k: data_to_jsonable(v) for k, v in d.items()}
    if isinstance(d, float):
        return {"$float": list(d.as_integer_ratio())}
    return d


def data_from_jsonable(d):
    if isinstance(d, list):
        return [data_from_jsonable(x) for x in d]
    if isinstance(d, dict):
        if d.get("$raise"):
            return Raise("boom")
        if d.get("$bad"):
            return BAD
        if "$float" in d:
            return d["$float"][0] / d["$float"][1]
        return {k: data_from_jsonable(v) for k, v in d.items()}
    return d


# --------------------------------------------------------------------------- canonical observables

def s_of(ints):
    return "".join(map(chr, ints))


def z_of(ints):
    return ints[1] if ints[0] == 0 else -ints[1]


def canon_wvalue(w):
    tag, ints, kids = w
    if tag == 10:
        return ("null",)
    if tag == 11:
        return ("int", z_of(ints))
    if tag == 12:
        return ("float", z_of(ints), ints[2])
    if tag == 13:
        return ("str", s_of(ints))
    if tag == 14:
        return ("bool", bool(ints[0]))
    if tag == 15:
        return ("enum", s_of(ints))
    if tag == 17:
        return ("list", tuple(canon_wvalue(k) for k in kids))
    if tag == 18:
        return ("obj", tuple((s_of(kv[2][0][1]), canon_wvalue(kv[2][1])) for kv in kids))
    return ("?", tag)


def canon_wjson(w):
    tag, ints, kids = w
    if tag == 70:
        return None
    if tag == 71:
        return ("int", z_of(ints))
    if tag == 72:
        return ("float", z_of(ints), ints[2])
    if tag == 73:
        return ("str", s_of(ints))
    if tag == 74:
        return ("bool", bool(ints[0]))
    if tag == 75:
        return ("list", tuple(canon_wjson(k) for k in kids))
    if tag == 76:
        return ("obj", tuple((s_of(kv[2][0][1]), canon_wjson(kv[2][1])) for kv in kids))
    return ("?", tag)


def canon_pyjson(v):
    """Response data of the implementation, key order kept."""
    if v is None:
        return None
    if isinstance(v, bool):
        return ("bool", v)
    if isinstance(v, int):
        return ("int", v)
    if isinstance(v, float):
        if not math.isfinite(v):
            return ("float", repr(v), 0)
        return ("float",) + v.as_integer_ratio()
    if isinstance(v, str):
        return ("str", v)
    if isinstance(v, (list, tuple)):
        return ("list", tuple(canon_pyjson(x) for x in v))
    if isinstance(v, dict):
        return ("obj", tuple((k, canon_pyjson(x)) for k, x in v.items()))
    return ("?", repr(v))


def enc_pyjson(v):
    """Implementation response data -> wire json (for the extracted shape checker)."""
    if v is None:
        return W(70)
    if isinstance(v, bool):
        return W(74, [1 if v else 0])
    if isinstance(v, int):
        return W(71, zints(v))
    if isinstance(v, float):
        return W(72, fints(v))
    if isinstance(v, str):
        return w_str(v, 73)
    if isinstance(v, (list, tuple)):
        return W(75, [], [enc_pyjson(x) for x in v])
    if isinstance(v, dict):
        return W(76, [], [W(77, [], [w_str(k), enc_pyjson(x)]) for k, x in v.items()])
    raise OutOfFragment("response value kind")


def canon_pyarg(v, t):
    """A keyword argument received by a resolver, read at its declared type."""
    from graphql import GraphQLEnumType, GraphQLInputObjectType, GraphQLList, GraphQLNonNull
    while isinstance(t, GraphQLNonNull):
        t = t.of_type
    if v is None:
        return ("null",)
    if isinstance(t, GraphQLInputObjectType):
        if isinstance(v, dict):
            return ("obj", tuple((k, canon_pyarg(x, t.fields[k].type) if k in t.fields else ("?", k))
                                 for k, x in v.items()))
        return ("?", repr(v))
    if isinstance(t, GraphQLList):
        if isinstance(v, list):
            return ("list", tuple(canon_pyarg(x, t.of_type) for x in v))
        return ("?", repr(v))
    if isinstance(v, bool):
        return ("bool", v)
    if isinstance(v, int):
        return ("int", v)
    if isinstance(v, float):
        return ("float",) + v.as_integer_ratio()
    if isinstance(v, str):
        return ("enum", v) if isinstance(t, GraphQLEnumType) else ("str", v)
    return ("?", repr(v))


def canon_wpath(w):
    out = []
    for seg in w[2]:
        out.append(s_of(seg[1]) if seg[0] == 81 else seg[1][0])
    return tuple(out)


CAUSES = ["args", "raise", "null_in_nonnull", "non_list", "bad_leaf", "unresolvable_type"]


def dec_response(ints):
    """Model answer -> dict(kind=..., data, errors (sorted list of paths), calls)."""
    if ints == [999999]:
        return {"kind": "bad-wire"}
    w = unflatten(ints)
    if w[0] == 90:
        return {"kind": "request-error"}
    if w[0] == 91:
        return {"kind": "out-of-fuel"}
    data, errs, calls = w[2]
    cl = []
    for c in calls[2]:
        p, f, args = c[2]
        cl.append((canon_wpath(p), s_of(f[1]),
                   tuple((s_of(a[2][0][1]), canon_wvalue(a[2][1])) for a in args[2])))
    causes = {canon_wpath(e[2][0]): CAUSES[e[1][0]] for e in errs[2]}
    return {"kind": "response", "data": canon_wjson(data),
            "errors": sorted((canon_wpath(e[2][0]) for e in errs[2]), key=repr), "calls": cl,
            "causes": causes}


# --------------------------------------------------------------------------- implementation runner

def as_mappings(d, counter=None):
    """A copy of the data graph in which a share of the objects are Mappings that are not dicts
    (MappingProxyType, UserDict, ChainMap): resolvers and the default type resolver must read fields
    and __typename from any Mapping.  Deterministic (by position), so reruns serve the same graph."""
    import collections
    import types
    counter = [0] if counter is None else counter
    if isinstance(d, list):
        return [as_mappings(x, counter) for x in d]
    if isinstance(d, dict):
        counter[0] += 1
        k = counter[0] % 7
        m = {key: as_mappings(v, counter) for key, v in d.items()}
        if k == 1:
            return types.MappingProxyType(m)
        if k == 3:
            return collections.UserDict(m)
        if k == 5:
            return collections.ChainMap(m)
        return m
    return d


def make_resolver(log, fields=None):
    def resolver(source, info, **args):
        fdef = info.parent_type.fields.get(info.field_name)
        if fields is not None:
            fields[tuple(info.path.as_list())] = (info.parent_type.name, info.field_name, info.return_type)
        cargs = tuple((k, canon_pyarg(v, fdef.args[k].type) if fdef and k in fdef.args else ("?", k))
                      for k, v in args.items())
        log.append((tuple(info.path.as_list()), info.field_name, cargs))
        v = source.get(info.field_name) if isinstance(source, collections.abc.Mapping) else None
        if isinstance(v, Raise):
            raise v
        return v
    return resolver


def run_impl(schema, doc, data, variables, operation_name=None):
    """execute_sync over the data graph; canonical observables of the response."""
    from graphql import execute_sync
    log, fields = [], {}
    res = execute_sync(schema, doc, root_value=as_mappings(data), variable_values=variables,
                       operation_name=operation_name, field_resolver=make_resolver(log, fields))
    errs = res.errors or []
    if res.data is None and errs and all(e.path is None for e in errs):
        return {"kind": "request-error", "messages": [e.message for e in errs], "raw": None}
    if any(e.path is None for e in errs):
        return {"kind": "pathless-error", "messages": [e.message for e in errs], "raw": res.data}
    return {"kind": "response", "data": canon_pyjson(res.data),
            "errors": sorted((tuple(e.path) for e in errs), key=repr),
            "calls": log, "messages": [e.message for e in errs], "raw": res.data, "fields": fields}


def null_directive_condition(schema, doc, op, variables):
    """A variable that is null or has no value reaches the `if` of @skip/@include."""
    from graphql.execution.values import get_variable_values
    from graphql.language import ast as A, visit, Visitor
    coerced = get_variable_values(schema, op.variable_definitions or (), variables)
    if isinstance(coerced, list):
        return False
    bad = []

    class V(Visitor):
        def enter_directive(self, node, *_):
            if node.name.value in ("skip", "include"):
                for a in node.arguments or ():
                    if isinstance(a.value, A.VariableNode) and coerced.coerced.get(a.value.name.value) is None:
                        bad.append(a.value.name.value)
    visit(doc, V())
    return bool(bad)


# --------------------------------------------------------------------------- generation: schema

SCALARS = ["Int", "Float", "String", "Boolean", "ID"]
OUT_WRAPS = ["T", "T", "T", "T!", "T!", "[T]", "[T!]", "[T]!", "[T!]!", "[[T]]", "[[T!]]!", "[[T!]!]", "[[T]!]!"]
IN_WRAPS = ["T", "T", "T", "T!", "T!", "[T]", "[T!]", "[T!]!", "[[T]]", "[[T!]]"]
FIELD_NAMES = ["a", "b", "c", "d", "e", "f", "g", "h", "id", "name"]


def wrap(pattern, base):
    return pattern.replace("T", base)


@functools.lru_cache(maxsize=None)
def parse_type(s):
    """'[[T!]]!' -> nested ('nn', ('list', ...)) / ('named', T)."""
    if s.endswith("!"):
        return ("nn", parse_type(s[:-1]))
    if s.startswith("["):
        return ("list", parse_type(s[1:-1]))
    return ("named", s)


def type_str(t):
    if t[0] == "nn":
        return type_str(t[1]) + "!"
    if t[0] == "list":
        return "[" + type_str(t[1]) + "]"
    return t[1]


def named(t):
    while t[0] != "named":
        t = t[1]
    return t[1]


class GSchema:
    """Generated schema description: enums, interfaces, objects, unions with ordered fields."""

    def __init__(self, rng):
        self.rng = rng
        r = rng
        self.enums = {"Color": ["RED", "GREEN", "BLUE"][: r.randint(2, 3)]}
        if r.random() < 0.5:
            self.enums["Size"] = ["S", "M"]
        n_obj = r.randint(2, 4)
        self.objects = ["Query"] + [f"T{i}" for i in range(n_obj)]
        self.has_mutation = r.random() < 0.25
        self.ifaces = [f"I{i}" for i in range(r.randint(1, 2))]
        self.iface_parent = {}
        if len(self.ifaces) == 2 and r.random() < 0.5:
            self.iface_parent["I1"] = "I0"          # I1 implements I0
        self.implements = {o: [] for o in self.objects}
        for o in self.objects[1:]:
            for i in self.ifaces:
                if r.random() < 0.6:
                    self.implements[o].append(i)
            for i in list(self.implements[o]):
                p = self.iface_parent.get(i)
                if p and p not in self.implements[o]:
                    self.implements[o].append(p)
        # every interface has at least one implementor
        for i in self.ifaces:
            if not any(i in v for v in self.implements.values()):
                o = r.choice(self.objects[1:])
                self.implements[o].append(i)
                p = self.iface_parent.get(i)
                if p and p not in self.implements[o]:
                    self.implements[o].append(p)
        self.unions = {}
        for u in range(r.randint(1, 2)):
            k = r.randint(1, min(3, n_obj))
            self.unions[f"U{u}"] = r.sample(self.objects[1:], k)
        self.leafs = SCALARS + list(self.enums)
        self.composites = self.objects[1:] + self.ifaces + list(self.unions)
        # input object types: fields of leaf types or of earlier input types (no cycles)
        self.inputs = {}          # name -> (is_one_of, [(field, typestr, default | None)])
        for i in range(r.choice([0, 1, 2, 2, 3])):
            fs = []
            for fn in r.sample(["p", "q", "r", "s", "t"], r.randint(1, 4)):
                base = r.choice(list(self.inputs)) if self.inputs and r.random() < 0.3 else r.choice(self.leafs)
                ts = wrap(r.choice(IN_WRAPS), base)
                default = (self.lit(parse_type(ts), allow_null=True)
                           if r.random() < (0.6 if ts.endswith("!") else 0.35) else None)
                fs.append((fn, ts, default))
            self.inputs[f"In{i}"] = (False, fs)
        if r.random() < 0.45:
            fs = []
            for fn in r.sample(["a", "b", "c"], r.randint(2, 3)):
                base = r.choice(list(self.inputs)) if self.inputs and r.random() < 0.3 else r.choice(self.leafs)
                fs.append((fn, wrap(r.choice(["T", "T", "[T]", "[T!]"]), base), None))
            self.inputs["Pick"] = (True, fs)
        self.fields = {}      # type -> list of (name, typestr, args[(name, typestr, default|None)])
        for i in self.ifaces:
            inherited = list(self.fields.get(self.iface_parent.get(i), []))
            names = {f[0] for f in inherited}
            own = []
            pool = FIELD_NAMES[:5] if i == "I0" else FIELD_NAMES[5:]     # disjoint per interface
            for fn in r.sample(pool, r.randint(1, 3)):
                if fn not in names:
                    own.append(self.gen_field(fn, None))
            self.fields[i] = inherited + own
        for idx, o in enumerate(self.objects):
            fs, names = [], set()
            for i in self.implements[o]:
                for f in self.fields[i]:
                    if f[0] not in names:
                        names.add(f[0])
                        fs.append(self.covariant(f, idx))
            for fn in r.sample(FIELD_NAMES, r.randint(2, 5)):
                if fn not in names:
                    names.add(fn)
                    fs.append(self.gen_field(fn, idx))
            if o == "Query" and not any(named(parse_type(f[1])) in self.composites for f in fs):
                fs.append(("root", r.choice(self.composites), []))
            r.shuffle(fs)
            self.fields[o] = fs
        if self.has_mutation:
            self.fields["Mutation"] = [self.gen_field(fn, -1) for fn in r.sample(FIELD_NAMES, 3)]

    def poss(self, t):
        if t in self.objects or t == "Mutation":
            return {t}
        if t in self.ifaces:
            return {o for o, v in self.implements.items() if t in v}
        if t in self.unions:
            return set(self.unions[t])
        return set()

    def gen_field(self, fn, idx):
        """idx: position of the owning object in self.objects (None for interfaces)."""
        r = self.rng
        if r.random() < 0.55:
            base, pat = r.choice(self.leafs), r.choice(OUT_WRAPS)
        else:
            base, pat = r.choice(self.composites), r.choice(OUT_WRAPS)
            if pat == "T!":
                # outermost non-null composite only towards later object types (finite conforming data)
                ok = idx is not None and all(self.objects.index(p) > idx for p in self.poss(base))
                if not ok:
                    pat = "T"
        args = []
        if r.random() < 0.45:
            for an in r.sample(["x", "y", "z", "w"], r.randint(1, 3)):
                abase, apat = r.choice(self.leafs), r.choice(IN_WRAPS)
                if self.inputs and r.random() < 0.3:
                    abase = r.choice(list(self.inputs))
                at = wrap(apat, abase)
                default = None
                if r.random() < 0.5:
                    default = self.lit(parse_type(at), allow_null=True)
                args.append((an, at, default))
        return (fn, wrap(pat, base), args)

    def covariant(self, f, idx):
        """An object's version of an interface field: same, or a covariant type."""
        fn, ts, args = f
        r = self.rng
        t = parse_type(ts)
        if r.random() < 0.25 and t[0] != "nn":
            base = named(t)
            if base in self.leafs or t[0] == "list":
                ts = ts + "!"
        elif r.random() < 0.2 and named(t) in self.ifaces + list(self.unions):
            cands = sorted(self.poss(named(t)))
            if cands:
                ts = ts.replace(named(t), r.choice(cands))
        return (fn, ts, args)

    # literal text of a valid constant for an input type
    def lit(self, t, allow_null=False, depth=0, vh=None, encl=False):
        """vh(typestr, has_default, enclosing_default) -> '$var': optional hook that may put variables
        inside (as input field values and as list items); encl = the argument / input field whose
        value this literal is (part of) has a default."""
        r = self.rng
        if t[0] == "nn":
            return self.lit(t[1], False, depth, vh, encl)
        if allow_null and r.random() < 0.12:
            return "null"
        if t[0] == "list":
            if r.random() < 0.15 and depth < 2:
                inner = t[1][1] if t[1][0] == "nn" else t[1]
                if inner[0] == "named":
                    return self.lit(inner, False, depth + 1, vh, encl)       # list of one
            items = []
            for _ in range(r.randint(0, 3)):
                if vh and r.random() < 0.2:
                    items.append(vh(type_str(t[1]), False, encl))           # a variable as list item
                else:
                    items.append(self.lit(t[1], True, depth + 1, vh, encl))
            return "[" + ", ".join(items) + "]"
        n = t[1]
        if n in self.inputs:
            one_of, fs = self.inputs[n]
            if one_of:
                fn, ts, _ = r.choice(fs)
                ft = parse_type(ts)
                if vh and r.random() < 0.3:
                    return "{" + f"{fn}: {vh(ts + '!', False)}" + "}"      # variable of non-null type
                return "{" + f"{fn}: {self.lit(ft, False, depth + 1, vh)}" + "}"
            parts = []
            for fn, ts, default in fs:
                required = ts.endswith("!") and default is None
                if not required and r.random() < 0.4:
                    continue
                if vh and r.random() < 0.35:
                    parts.append(f"{fn}: {vh(ts, default is not None)}")
                else:
                    parts.append(f"{fn}: {self.lit(parse_type(ts), True, depth + 1, vh, default is not None)}")
            r.shuffle(parts)
            return "{" + ", ".join(parts) + "}"
        if n == "Int":
            return str(r.choice([0, 1, -1, 7, 42, -300, 2147483647, -2147483648]))
        if n == "Float":
            return r.choice(["0.5", "-1.25", "3", "2.0", "1e2", "-4", "0.125", "6.5e1"])
        if n == "String":
            return r.choice(['"s"', '""', '"RED"', '"a b"', '"\\u00e9"', '"7"'])
        if n == "Boolean":
            return r.choice(["true", "false"])
        if n == "ID":
            return r.choice(['"id1"', "5", '"x"', "0", "-12", '"007"'])
        return r.choice(self.enums[n])

    def build_programmatic(self, rng, styles=("legacy", "value", "literal")):
        """The same schema assembled with the type constructors instead of from SDL; every default of
        an argument / input field is given, at random, in one of `styles`:
          legacy  - default_value=<internal, already coerced Python value>
          value   - default=GraphQLDefaultInput(value=<external Python value>)
          literal - default=GraphQLDefaultInput(literal=<const value node>)   (what SDL building does)
        Requests must be answered exactly as by the SDL-built schema."""
        import graphql as g
        from graphql.language import parse_const_value
        from graphql.type.definition import GraphQLDefaultInput
        from graphql.utilities import value_from_ast_untyped
        from graphql.utilities.coerce_input_value import coerce_input_literal
        types = {n: getattr(g, "GraphQL" + n) for n in SCALARS}

        def ty(t):
            if t[0] == "nn":
                return g.GraphQLNonNull(ty(t[1]))
            if t[0] == "list":
                return g.GraphQLList(ty(t[1]))
            return types[t[1]]

        def default_kw(ts, text):
            if text is None:
                return {}
            node = parse_const_value(text)
            style = rng.choice(styles)
            if style == "literal":
                return {"default": GraphQLDefaultInput(literal=node)}
            if style == "value":
                return {"default": GraphQLDefaultInput(value=value_from_ast_untyped(node))}
            return {"default_value": coerce_input_literal(node, ty(parse_type(ts)))}

        def args_of(args):
            return {an: g.GraphQLArgument(ty(parse_type(at)), **default_kw(at, d)) for an, at, d in args}

        def fields_of(tn):
            return lambda: {fn: g.GraphQLField(ty(parse_type(ts)), args_of(args))
                            for fn, ts, args in self.fields[tn]}
        for e, vs in self.enums.items():
            types[e] = g.GraphQLEnumType(e, {v: g.GraphQLEnumValue(v) for v in vs})
        for n, (one_of, fs) in self.inputs.items():       # in dependency order: defaults are coerced now
            types[n] = g.GraphQLInputObjectType(
                n, {fn: g.GraphQLInputField(ty(parse_type(ts)), **default_kw(ts, d)) for fn, ts, d in fs},
                is_one_of=one_of)
        for i in self.ifaces:
            p = self.iface_parent.get(i)
            types[i] = g.GraphQLInterfaceType(i, fields_of(i), interfaces=(lambda p=p: [types[p]]) if p else None)
        for o in self.objects + (["Mutation"] if self.has_mutation else []):
            types[o] = g.GraphQLObjectType(
                o, fields_of(o), interfaces=lambda o=o: [types[i] for i in self.implements.get(o, [])])
        for u, ms in self.unions.items():
            types[u] = g.GraphQLUnionType(u, lambda ms=ms: [types[m] for m in ms])
        tag = g.GraphQLDirective(
            "tag", [getattr(g.DirectiveLocation, x) for x in
                    ("FIELD", "FRAGMENT_SPREAD", "INLINE_FRAGMENT", "QUERY", "MUTATION")],
            {"n": g.GraphQLArgument(g.GraphQLInt, **default_kw("Int", "1")),
             "s": g.GraphQLArgument(g.GraphQLList(g.GraphQLNonNull(g.GraphQLString)))},
            is_repeatable=True)
        return g.GraphQLSchema(query=types["Query"], mutation=types.get("Mutation") if self.has_mutation else None,
                               types=list(types.values()), directives=[*g.specified_directives, tag])

    def sdl(self):
        out = ["directive @tag(n: Int = 1, s: [String!]) repeatable on FIELD | FRAGMENT_SPREAD | INLINE_FRAGMENT | QUERY | MUTATION"]
        for e, vs in self.enums.items():
            out.append(f"enum {e} {{ {' '.join(vs)} }}")

        def fields(t):
            lines = []
            for fn, ts, args in self.fields[t]:
                a = ""
                if args:
                    a = "(" + ", ".join(f"{an}: {at}" + (f" = {d}" if d is not None else "")
                                        for an, at, d in args) + ")"
                lines.append(f"  {fn}{a}: {ts}")
            return "{\n" + "\n".join(lines) + "\n}"
        for i in self.ifaces:
            p = self.iface_parent.get(i)
            out.append(f"interface {i}" + (f" implements {p} " if p else " ") + fields(i))
        for o in self.objects:
            imp = self.implements[o]
            out.append(f"type {o}" + (" implements " + " & ".join(imp) + " " if imp else " ") + fields(o))
        if self.has_mutation:
            out.append("type Mutation " + fields("Mutation"))
        for u, ms in self.unions.items():
            out.append(f"union {u} = " + " | ".join(ms))
        for n, (one_of, fs) in self.inputs.items():
            body = "\n".join(f"  {fn}: {ts}" + (f" = {d}" if d is not None else "") for fn, ts, d in fs)
            out.append(f"input {n}" + (" @oneOf " if one_of else " ") + "{\n" + body + "\n}")
        return "\n".join(out)


# --------------------------------------------------------------------------- generation: documents

class DocGen:
    def __init__(self, rng, gs: GSchema, max_depth=3):
        self.rng, self.gs, self.max_depth = rng, gs, max_depth
        self.vars = {}       # name -> (typestr, default text | None)
        self.frags = {}      # name -> (cond, body text)
        self.used_fields = set()
        self.features = set()
        self.operation_name = None
        self.keymap = {}     # response key -> (field name, argument text), document wide
        self.altkey = {}

    # a variable of (a type usable at) the given input type
    def var_for(self, at, has_loc_default, encl_default=False):
        """A variable for a position of type `at`.  has_loc_default: the position itself (argument /
        input field) has a default; encl_default: the position is an item of a list literal that is
        (part of) the value of an argument / input field with a default."""
        r = self.rng
        t = parse_type(at)
        same = [n for n, (ts, _) in self.vars.items() if ts == at]
        if same and r.random() < 0.5:
            return "$" + r.choice(same)
        name = f"v{len(self.vars)}"
        vt, default = at, None
        k = r.random()
        if t[0] == "nn":
            if k < 0.2:
                # nullable variable with a default in a non-null position (allowed by the default)
                vt = type_str(t[1])
                default = self.gs.lit(t[1], False)
                self.features.add("nullable_var_default_in_nonnull_pos")
            elif k < 0.6 and has_loc_default:
                # nullable variable without default: allowed because the position has a default, which
                # applies when the variable has no value
                vt = type_str(t[1])
                self.features.add("nullable_var_in_nonnull_pos_with_arg_default")
            elif k < 0.45 and encl_default:
                # NOT valid: a list item position has no default of its own even if the enclosing
                # argument / input field has one; validate() must reject the document
                vt = type_str(t[1])
                self.features.add("near_miss:nullable_var_in_nonnull_item_of_defaulted_list")
            elif k < 0.7:
                default = self.gs.lit(t, False)
        else:
            if k < 0.3:
                vt = at + "!"                              # stricter variable type
            elif k < 0.65:
                default = self.gs.lit(t, True)
                self.features.add("var_default")
        self.vars[name] = (vt, default)
        return "$" + name

    def args_text(self, args):
        r = self.rng
        parts = []
        for an, at, default in args:
            required = at.endswith("!") and default is None
            if not required and r.random() < 0.3:
                continue
            k = r.random()
            if k < 0.35:
                parts.append(f"{an}: {self.var_for(at, default is not None)}")
                self.features.add("arg_variable")
            elif k < 0.5 and at.startswith("["):
                # variable inside a list literal
                it = parse_type(at)
                it = it[1] if it[0] == "nn" else it
                item_t = type_str(it[1])
                items = [self.var_for(item_t, False, default is not None), self.gs.lit(it[1], True)]
                r.shuffle(items)
                parts.append(f"{an}: [{', '.join(items)}]")
                self.features.add("var_in_list")
            else:
                vh = None
                if named(parse_type(at)) in self.gs.inputs:
                    self.features.add("input_object_literal")
                    if r.random() < 0.6:
                        def vh(ts, has_default, encl_default=False):
                            self.features.add("var_in_input_object")
                            return self.var_for(ts, has_default, encl_default)
                parts.append(f"{an}: {self.gs.lit(parse_type(at), True, 0, vh, default is not None)}")
        r.shuffle(parts)
        return "(" + ", ".join(parts) + ")" if parts else ""

    def directives(self):
        r = self.rng
        if r.random() > 0.22:
            if r.random() < 0.04:
                self.features.add("custom_directive")
                return " " + r.choice(["@tag", "@tag(n: 2)", '@tag(s: ["a"]) @tag'])
            return ""
        out = []
        for d in r.sample(["skip", "include"], r.choice([1, 1, 2])):
            k = r.random()
            if k < 0.5:
                v = r.choice(["true", "false"])
            else:
                v = self.var_for("Boolean!", False)
                self.features.add("directive_variable")
            out.append(f"@{d}(if: {v})")
            self.features.add("skip_include")
        return " " + " ".join(out)

    def conds_for(self, parent):
        """Type conditions that can apply to a value of type `parent`."""
        gs = self.gs
        pp = gs.poss(parent)
        return [t for t in list(gs.fields) + list(gs.unions) if gs.poss(t) & pp]

    def selset(self, parent, depth, scope=None):
        """Selection set text for a value of composite type `parent`."""
        r, gs = self.rng, self.gs
        scope = {} if scope is None else scope      # response key -> (field, args text)
        fields = gs.fields.get(parent, [])
        items = []
        n = r.randint(1, 4) if depth > 0 else r.randint(1, 2)
        history = []
        for _ in range(n):
            k = r.random()
            if fields and (k < 0.5 or (k < 0.62 and not history)):
                fd = r.choice(fields)
                items.append(self.field(fd, depth, scope, history))
            elif history and k < 0.62:
                # the same field again under the same key: merged from several selections
                fd, key, at = r.choice(history)
                items.append(self.field(fd, depth, scope, history, force=(key, at)))
                self.features.add("merged_repeat")
            elif k < 0.66 and len(gs.poss(parent)) > 1:
                x = self.exclusive_alias(parent, depth)
                if x:
                    items.append(x)
            elif k < 0.7:
                items.append("__typename" if r.random() < 0.7 else "t: __typename")
            elif k < 0.86:
                cond = r.choice(self.conds_for(parent) + [None])
                target = cond or parent
                body = self.selset(target, depth, scope if r.random() < 0.8 else None)
                items.append(("... on " + cond if cond else "...") + self.directives() + " " + body)
                self.features.add("inline_fragment")
                if cond and cond != parent:
                    self.features.add("abstract_condition" if cond not in gs.objects else "object_condition")
            else:
                items.append(self.spread(parent, depth))
        if not items:
            items.append("__typename")
        return "{ " + " ".join(items) + " }"

    def exclusive_alias(self, parent, depth):
        """One response key for DIFFERENT fields under type conditions on different object types
        (valid: the parent types are distinct objects; the fields have the same response shape)."""
        r, gs = self.rng, self.gs
        objs = sorted(gs.poss(parent))
        o1, o2 = r.sample(objs, 2)

        def shape(ts):
            t = parse_type(ts)
            n = named(t)
            return ts if n in gs.leafs else ts.replace(n, "<composite>")
        pairs = [(f1, f2) for f1 in gs.fields[o1] for f2 in gs.fields[o2]
                 if f1[0] != f2[0] and shape(f1[1]) == shape(f2[1])
                 and not any(a[1].endswith("!") and a[2] is None for a in f1[2] + f2[2])]
        if not pairs:
            return None
        f1, f2 = r.choice(pairs)
        key = f"x{len(self.keymap)}"
        self.keymap[key] = ("<exclusive>", "")
        self.features.add("same_key_different_fields_on_exclusive_types")
        self.used_fields.update((f1[0], f2[0]))

        def sub(fd):
            base = named(parse_type(fd[1]))
            if base in gs.composites or base in gs.objects:
                return " { __typename }" if depth <= 0 else " " + self.selset(base, depth - 1)
            return ""
        return f"... on {o1} {{ {key}: {f1[0]}{sub(f1)} }} ... on {o2} {{ {key}: {f2[0]}{sub(f2)} }}"

    def field(self, fd, depth, scope, history, force=None):
        r, gs = self.rng, self.gs
        fn, ts, args = fd
        self.used_fields.add(fn)
        if force:
            key, at = force
        else:
            at = self.args_text(args)
            key = fn
            if r.random() < 0.3:
                key = r.choice(["k1", "k2", "k3", r.choice(FIELD_NAMES)])
                self.features.add("alias")
            # document-wide: one response key <-> one (field, arguments); otherwise fields conflict
            if self.keymap.get(key, (fn, at)) != (fn, at):
                if r.random() < 0.93:
                    key = self.altkey.setdefault((fn, at), f"u{len(self.altkey)}")
                else:
                    self.features.add("deliberate_conflict")
            elif key in scope:
                self.features.add("colliding_key_same_field")
        self.keymap.setdefault(key, (fn, at))
        scope.setdefault(key, (fn, at))
        history.append((fd, key, at))
        base = named(parse_type(ts))
        sub = ""
        if base in gs.composites or base in gs.objects:
            if depth <= 0:
                sub = " { __typename }"
            else:
                sub = " " + self.selset(base, depth - 1)
        head = fn if key == fn else f"{key}: {fn}"
        return head + at + self.directives() + sub

    def spread(self, parent, depth):
        r, gs = self.rng, self.gs
        pp = gs.poss(parent)
        usable = [n for n, (c, _) in self.frags.items() if gs.poss(c) & pp]
        if usable and r.random() < 0.6:
            name = r.choice(usable)
            self.features.add("fragment_reuse")
        else:
            cond = r.choice(self.conds_for(parent))
            body = self.selset(cond, max(depth - 1, 0))
            name = f"F{len(self.frags)}"
            self.frags[name] = (cond, body)
        self.features.add("fragment_spread")
        return f"...{name}" + self.directives()

    def document(self):
        r, gs = self.rng, self.gs
        kind, root = "query", "Query"
        if gs.has_mutation and r.random() < 0.15:
            kind, root = "mutation", "Mutation"
        body = self.selset(root, self.max_depth)
        vdefs = ""
        if self.vars:
            vdefs = "(" + ", ".join(f"${n}: {t}" + (f" = {d}" if d is not None else "")
                                    for n, (t, d) in self.vars.items()) + ")"
        text = f"{kind} Q{vdefs} {body}"
        for n, (c, b) in self.frags.items():
            text += f"\nfragment {n} on {c} {b}"
        self.operation_name = None
        if r.random() < 0.1:
            # a second, unrelated operation: the request then names the one to execute
            text = "query Other { __typename }\n" + text if r.random() < 0.5 else text + "\nquery Other { __typename }"
            self.operation_name = "Q"
            self.features.add("multiple_operations")
        return text

    # runtime values for the declared variables
    def json_value(self, t, allow_null=True, depth=0):
        r, gs = self.rng, self.gs
        if t[0] == "nn":
            return self.json_value(t[1], False, depth)
        if allow_null and r.random() < 0.12:
            return None
        if t[0] == "list":
            if r.random() < 0.12 and t[1][0] != "list" and not (t[1][0] == "nn" and t[1][1][0] == "list"):
                return self.json_value(t[1], False, depth + 1)        # a list of one
            return [self.json_value(t[1], True, depth + 1) for _ in range(r.randint(0, 3))]
        n = t[1]
        if n in gs.inputs:
            one_of, fs = gs.inputs[n]
            if one_of:
                fn, ts, _ = r.choice(fs)
                return {fn: self.json_value(parse_type(ts), False, depth + 1)}
            out = {}
            for fn, ts, default in fs:
                required = ts.endswith("!") and default is None
                if required or r.random() < 0.6:
                    out[fn] = self.json_value(parse_type(ts), True, depth + 1)
            return out
        if n == "Int":
            return r.choice([0, 3, -9, 2147483647, -2147483648, 100])
        if n == "Float":
            return r.choice([0.5, -2.75, 4, 1e3, -0.0, 12])
        if n == "String":
            return r.choice(["v", "", "GREEN", "two words"])
        if n == "Boolean":
            return r.choice([True, False])
        if n == "ID":
            return r.choice(["i", 12, "0", -3])
        return r.choice(gs.enums[n])

    def variables(self):
        r = self.rng
        out = {}
        for n, (ts, default) in self.vars.items():
            t = parse_type(ts)
            k = r.random()
            must = t[0] == "nn" and default is None
            if must or k < 0.55:
                out[n] = self.json_value(t)
            elif k < 0.62 and t[0] != "nn":
                out[n] = None
            if n in out and r.random() < 0.015:
                out[n] = r.choice([{"bad": 1}, "not-a-value", 2 ** 40, [[[[1]]]], 1.5, True])
        if r.random() < 0.05:
            out["unused_extra"] = 1
        return out


# --------------------------------------------------------------------------- generation: data

class DataGen:
    """Data graph for a schema; p_bad = probability of each kind of non-conformity."""

    def __init__(self, rng, gs: GSchema, used_fields, p_bad=0.04, all_nonnull=False):
        self.rng, self.gs, self.used, self.p = rng, gs, used_fields, p_bad
        self.all_nonnull = all_nonnull      # also generate unselected non-null fields (conformance)
        self.injected = []
        self.nodes = 0                       # size budget: beyond it the graph is closed off minimally

    def leaf(self, n):
        r = self.rng
        if n == "Int":
            return r.choice([0, 1, -5, 2147483647, -2147483648, 77])
        if n == "Float":
            return r.choice([0.5, -1.75, 3.0, 1024.0, 0.0078125, -0.0])
        if n == "String":
            return r.choice(["txt", "", "RED", "x y"])
        if n == "Boolean":
            return r.choice([True, False])
        if n == "ID":
            return r.choice(["id-1", "42", ""])
        return r.choice(self.gs.enums[n])

    def value(self, t, depth, nullable=True):
        r, gs, p = self.rng, self.gs, self.p
        self.nodes += 1
        if self.nodes > 2500:
            depth = min(depth, 0)
        if p and r.random() < p:
            self.injected.append("raise")
            return Raise("boom")
        if t[0] == "nn":
            if p and r.random() < p * 1.5:
                self.injected.append("null_in_nonnull")
                return None
            return self.value(t[1], depth, False)
        if nullable and r.random() < 0.12:
            return None
        if t[0] == "list":
            if p and r.random() < p / 2:
                self.injected.append("non_list")
                return 5
            if depth <= 0:
                return []
            return [self.value(t[1], depth) for _ in range(r.choice([0, 1, 1, 2, 2, 3]))]
        n = t[1]
        if n in gs.leafs:
            if p and r.random() < p:
                self.injected.append("bad_leaf")
                if n == "Int" and r.random() < 0.5:
                    return 2 ** 31
                if n in gs.enums and r.random() < 0.5:
                    return "NOT_A_MEMBER"
                return BAD
            return self.leaf(n)
        # composite
        if depth <= 0 and nullable:
            return None
        if n in gs.objects:
            rt = n
            if p and r.random() < p / 2:
                # a value that is not an object at an object-typed position: CompleteValue does not
                # inspect it, every sub-field resolves to null
                self.injected.append("non_object_at_object_position")
                return r.choice(["id-1", 5, True, 0.5, [1, "x"], [], BAD])
        else:
            rt = r.choice(sorted(gs.poss(n)))
        obj = self.obj(rt, depth - 1)
        if p and r.random() < p:
            self.injected.append("bad_typename")
            k = r.random()
            if k < 0.3:
                obj.pop("__typename", None)
            elif k < 0.6:
                obj["__typename"] = "NoSuchType"
            elif k < 0.8:
                obj["__typename"] = r.choice(gs.objects)
            else:
                obj["__typename"] = r.choice(gs.ifaces + list(gs.enums))
        return obj

    def obj(self, rt, depth):
        r = self.rng
        d = {"__typename": rt}
        for fn, ts, _ in self.gs.fields[rt]:
            t = parse_type(ts)
            if fn in self.used or r.random() < 0.05 or (self.all_nonnull and t[0] == "nn"):
                if self.p and r.random() < self.p / 2 :
                    self.injected.append("missing_key")
                    continue
                d[fn] = self.value(t, depth)
        return d
