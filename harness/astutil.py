"""Structural view of implementation AST nodes, locations ignored."""
from dataclasses import fields, is_dataclass


def norm(x):
    from graphql.language import Node
    if isinstance(x, Node):
        return (type(x).__name__.replace("Const", ""),) + tuple(
            (f.name, norm(getattr(x, f.name))) for f in fields(x) if f.name != "loc")
    if isinstance(x, (list, tuple)):
        return tuple(norm(i) for i in x)
    if hasattr(x, "value") and x.__class__.__module__.startswith("graphql") and not isinstance(x, (str, int)):
        return ("enum", x.value)
    return x


def parse_opts(exp):
    return dict(experimental_fragment_arguments=exp,
                experimental_directives_on_directive_definitions=exp)
