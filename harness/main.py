"""Entry point: ./check Cxx [--tier quick|thorough] [--replay file]."""
import argparse
import importlib
import sys
import traceback

from . import common


def main():
    ap = argparse.ArgumentParser()
    ap.add_argument("pid")
    ap.add_argument("--tier", default=None)
    ap.add_argument("--replay", default=None)
    a = ap.parse_args()
    tier = a.tier or common.tier_from_env()
    pid = a.pid.upper()
    try:
        mod = importlib.import_module(f"harness.{pid.lower()}")
    except ModuleNotFoundError:
        print(f"no check for {pid}")
        return 2
    try:
        if a.replay:
            return mod.replay(a.replay)
        return mod.run(tier)
    except SystemExit:
        raise
    except BaseException:
        traceback.print_exc()
        print(f"[{pid}] harness error (not a verdict)")
        return 2


if __name__ == "__main__":
    sys.exit(main())
