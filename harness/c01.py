"""C01 - the request pipeline is total: bad input becomes errors, never a crash."""
from __future__ import annotations

import json
import math

from . import common, gen_doc, lexcorr
from .common import Check, Model, cps

ASSUMPTIONS = [
    "C01 model: Lang/Lexer.v (both lexers); theorems: totality and escape bounds (Properties/C01.v)",
    "parser, validation and execution are exercised directly on the implementation (any exception other than GraphQLSyntaxError out of a parse entry point, any exception out of graphql_sync, or an ill-formed response is by itself a failing input of the property)",
    "resolver exception classes are Exception subclasses (BaseException-only classes such as KeyboardInterrupt are outside the quantifier)",
    "nesting depth <= 100 (property's bound)",
]


def entry_points():
    from graphql.language import parse, parse_const_value, parse_type, parse_value
    from graphql.language.parser import parse_schema_coordinate
    return {"parse": parse, "parse_value": parse_value, "parse_const_value": parse_const_value,
            "parse_type": parse_type, "parse_schema_coordinate": parse_schema_coordinate}


def outcome(fn, text):
    from graphql.error import GraphQLSyntaxError
    try:
        fn(text)
        return "ok"
    except GraphQLSyntaxError:
        return "syntax"
    except RecursionError:
        return "recursion" if nesting_depth(text) > 100 else "raised:RecursionError"
    except Exception as e:  # noqa: BLE001
        return "raised:" + type(e).__name__


def nesting_depth(text):
    d = m = 0
    for ch in text:
        if ch in "{[(":
            d += 1
            m = max(m, d)
        elif ch in "}])":
            d -= 1
    return m


def wf_response(res):
    """Response-format predicate (GraphQL spec section 7.1) on ExecutionResult.formatted."""
    try:
        f = res.formatted
    except Exception as e:  # noqa: BLE001
        return f"formatted raised {type(e).__name__}"
    if not isinstance(f, dict) or not set(f) <= {"data", "errors", "extensions"}:
        return "unexpected keys"
    if "errors" in f:
        errs = f["errors"]
        if not isinstance(errs, list) or not errs:
            return "errors present but empty"
        for e in errs:
            if not isinstance(e, dict) or not isinstance(e.get("message"), str):
                return "error without message"
            if "locations" in e:
                ls = e["locations"]
                if not isinstance(ls, list) or not ls:
                    return "empty locations"
                for l in ls:
                    if not (isinstance(l.get("line"), int) and isinstance(l.get("column"), int)
                            and l["line"] >= 1 and l["column"] >= 1):
                        return f"bad location {l}"
            if not set(e) <= {"message", "locations", "path", "extensions"}:
                return f"unexpected error entry keys {sorted(e)}"
            if "extensions" in e and not isinstance(e["extensions"], dict):
                return "error extensions is not a map"
            if "path" in e:
                if not isinstance(e["path"], list) or not all(
                        isinstance(p, (str, int)) and not isinstance(p, bool) for p in e["path"]):
                    return "bad path"
    if "data" not in f and "errors" not in f:
        return "neither data nor errors"
    if "data" in f and f["data"] is not None and not isinstance(f["data"], dict):
        return "data is not an object"
    try:
        json.dumps(f, allow_nan=True)
    except Exception as e:  # noqa: BLE001
        return f"not JSON-representable: {type(e).__name__}"
    return None


class HostileStr(Exception):
    def __str__(self):
        raise RuntimeError("hostile __str__")


class HostileEq(Exception):
    def __eq__(self, other):
        raise RuntimeError("hostile __eq__")

    __hash__ = Exception.__hash__


class ExtList(Exception):
    extensions = ["UPSTREAM", 502]


class ExtStr(Exception):
    def __init__(self):
        super().__init__("x")
        self.extensions = "code"


class ExtDict(Exception):
    extensions = {"code": 1}


class MsgAttr(Exception):
    message = 42
    locations = "nope"
    path = 7


def exc_pool():
    from graphql import GraphQLError
    return [
        lambda: ValueError("v"), lambda: KeyError("k"), lambda: ZeroDivisionError(), lambda: TypeError(),
        lambda: AssertionError("a"), lambda: StopIteration(), lambda: UnicodeDecodeError("utf-8", b"\xff", 0, 1, "bad"),
        lambda: GraphQLError("g"), lambda: GraphQLError("g", path=["x", 1]), lambda: HostileEq(),
        lambda: MsgAttr("m"), lambda: RecursionError("r"), lambda: MemoryError(), lambda: OSError(5, "io"),
        lambda: LookupError("\ud800"), lambda: HostileStr(), lambda: ExtList("e"), lambda: ExtStr(),
        lambda: ExtDict("d"),
    ]


def run(tier):
    from graphql import build_schema, graphql_sync

    ck = Check("C01", tier)
    ck.assumptions += ASSUMPTIONS
    br = common.build("C01", models=("lang", "parser"))
    ck.proofs(br)
    m = Model() if br.ok else None
    quick = tier == "quick"
    rng = ck.rng
    eps = entry_points()
    n = 3 if quick else 4
    ck.rule = (f"(i) all strings of length <= {n} over the 16-symbol alphabet through the five parse entry points "
               f"(outcome class) and <= {n + 1} through both lexers vs the extracted model; (ii) every prefix and sampled "
               "single-character substitutions/insertions (24 symbols incl. unpaired surrogates) of the kitchen-sink fixtures "
               "and generated documents, nesting depth up to 100; (iii) graphql_sync on generated requests x variables x "
               "operation names x raising resolvers: response format predicate. non-trivial = input of >= 3 tokens or "
               "rejected after a non-empty accepted prefix / request reaching execution")
    strs = ["".join(s) for s in common.strings_upto(lexcorr.LEX_ALPHA16, n + 1)]
    corpus = [c["body"] for c in common.load_corpus("C01")]
    if m is not None:
        lexcorr.compare(ck, m, corpus + strs, relation="lexer outcome = model outcome")
        lexcorr.compare(ck, m, lexcorr.escape_family(rng, 0 if quick else 40), relation="lexer outcome = model outcome",
                        key_prefix="lexesc")
        coord_alpha = ["a", "A", "_", "1", ".", "(", ")", ":", "@", " ", "\n", "#", "\ud800", "é"]
        cstrs = ["".join(s) for s in common.strings_upto(coord_alpha, 3 if quick else 4)]
        lexcorr.compare(ck, m, cstrs, coord=True, relation="coordinate lexer outcome = model outcome",
                        key_prefix="coordlex")
        ck.exhaustive = True
    # (i) entry points on short strings
    short = [s for s in strs if len(s) <= n] + corpus
    for s in short:
        for nm, fn in eps.items():
            o = outcome(fn, s)
            ck.evaluations += 1
            if o not in ("ok", "syntax"):
                ck.violation(f"{nm}:{s!r}", f"{nm}({s!r}) -> {o}",
                             {"relation": "parse entry points raise only GraphQLSyntaxError", "entry": nm,
                              "body": cps(s), "impl": o})
    ck.count("short_strings_x_entry_points", len(short) * len(eps))
    # (ii) prefixes and substitutions
    subs = list('"\\u{}#\n\r.e-0x $@:!|&=[]') + ["\ud800", "\udc00", "\U0001F600", "\ufeff", '"""']
    sources = gen_doc.fixtures()
    for i in range(40 if quick else 1000):
        g = gen_doc.Gen(rng, depth=3, experimental=False)
        sources.append(gen_doc.join_random(g.document(), rng))
    deep = 100
    sources += ["{a" * deep + "}" * deep, "{f(x:" + "[" * deep + "]" * deep + ")}",
                "query($v:" + "[" * deep + "Int" + "]" * deep + "){a}", "{f(x:" + "{a:" * deep + "1" + "}" * deep + ")}",
                "{" + "...on T{" * (deep - 1) + "a" + "}" * deep]
    values = ["[" * deep + "]" * deep, "{a:" * deep + "1" + "}" * deep, '"\\u{10FFFF}"', '"""\\"""', "$x", "-"]
    types = ["[" * deep + "T" + "]" * deep, "[T!]!", "T!!", "["]
    coords = ["A.b(c:)", "@d(a:)", "A", "A.", "@", "A.b(c", "A .b"]
    def mutants(src, k):
        yield src
        step = max(1, len(src) // k)
        for i in range(0, len(src) + 1, step if quick else 1):
            yield src[:i]
        for _ in range(k):
            i = rng.randrange(len(src) + 1)
            c = rng.choice(subs)
            yield src[:i] + c + src[i + 1:]
            yield src[:i] + c + src[i:]
    per = 120 if quick else 600
    for src in sources:
        for mt in mutants(src, per if len(src) > 300 else min(per, 40)):
            o = outcome(eps["parse"], mt)
            ck.note_case(("parse", mt), nontrivial=len(mt) > 5)
            if o not in ("ok", "syntax"):
                ck.violation(f"parse:{mt!r}", f"parse of a mutated document -> {o}: {mt[:120]!r}",
                             {"relation": "parse raises only GraphQLSyntaxError", "entry": "parse",
                              "body": cps(mt), "impl": o})
    for pool, names in ((values, ("parse_value", "parse_const_value")), (types, ("parse_type",)),
                        (coords, ("parse_schema_coordinate",))):
        for src in pool:
            for mt in mutants(src, 30):
                for nm in names:
                    o = outcome(eps[nm], mt)
                    ck.note_case((nm, mt), nontrivial=len(mt) > 2)
                    if o not in ("ok", "syntax"):
                        ck.violation(f"{nm}:{mt!r}", f"{nm} of {mt[:120]!r} -> {o}",
                                     {"relation": "parse entry points raise only GraphQLSyntaxError", "entry": nm,
                                      "body": cps(mt), "impl": o})
    # (iii) requests
    schema = build_schema("""
      type Query { a: Int  s(x: String = "d", n: Int!): String  o: Query  nn: Int!  l: [Int!]  e: E  i(v: In): Int  one(o: One, os: [One!]): Int
                   u: U  it: I }
      type Mutation { m(x: Int): Int }
      type Subscription { a: Int  o: Query }
      enum E { A B LONGER }  input In { a: Int! = 1  b: [In!]  c: E  longer: Int  one: One }
      input One @oneOf { x: Int  y: String  z: One }
      interface I { a: Int }  type T implements I { a: Int  t: String }  union U = T | Query
    """)
    pool = exc_pool()
    docs = ["{ a }", "{ a nn }", "{ o { o { nn a } } l }", "query Q($v: Int!, $w: In = {a: 2}) { s(n: $v) i(v: $w) }",
            "query A { a } query B { nn }", "mutation M { m(x: 1) m2: m }", "{ u { __typename ... on T { t } } it { a } }",
            "{ e l }", "{ __schema { types { name } } }", "{ a", "{ zz }", "query Q($v: Int!) { s(n: $v) }",
            "subscription S { a }", "subscription { ... @defer(label: 5) { a } }", "subscription { a @skip(if: 3) }",
            "subscription { ... @include(if: $zz) { a } }", "{ ... @defer(label: 5, if: 3) { a } l @stream(initialCount: \"x\") }",
            "query Q($w: In) { i(v: $w) }", "query Q($v: [Int!]) { a }",
            "mutation { ...F } fragment F on Mutation { m ...F }", "subscription { ...F } fragment F on Subscription { a ...F }",
            "{ ...F } fragment F on Query { a ...G } fragment G on Query { o { ...F } ...F }",
            "mutation { ...F @defer } fragment F on Mutation { ...G } fragment G on Mutation { m ...F @defer }",
            "{ o { ...F } } fragment F on Query { o { ...F } }", "{ u { __typename @stream } it { __typename @stream a @stream } }",
            "{ u { __typename @defer } l @stream(initialCount: -1) }",
            # OneOf literals with zero / unknown / several / null members, at every nesting
            "{ one(o: {}) }", "{ one(o: {zz: 1}) }", "{ one(o: {x: 1, y: \"s\"}) }", "{ one(o: {x: null}) }", "{ one(os: [{}]) }",
            "{ one(o: {z: {}}) }", "{ one(o: {z: {z: {zz: 1}}}) }", "{ i(v: {one: {}}) }", "{ i(v: {b: [{one: {zz: null}}]}) }",
            "query Q($p: One = {}) { one(o: $p) }", "query Q($p: [One!] = [{}, {x: 1, y: \"\"}]) { one(os: $p) }",
            "query Q($v: Int) { one(o: {x: $v}) }", "query Q($v: One) { one(o: $v) }", "{ one(o: []) }", "{ one(o: 1) }", "{ s(n: 1, x: \"\\ud800\") }", "fragment F on Query { a } { ...F ...F }"]
    # names with digit runs beyond CPython's int<->str conversion limit, defined in the document and referred to by
    # a near miss (suggestion sorting), as type, input type, directive, fragment, variable, argument and field names
    dig = "1" * 4400
    # (the near miss differs in letter case only, so the quadratic edit-distance computation is short-circuited)
    docs += ["type T%s { x: Int } { ... on t%s { a } }" % (dig, dig), "query($v: i%s) { a } input I%s { x: Int }" % (dig, dig),
             "directive @D%s on FIELD { a @d%s }" % (dig, dig), "fragment F%s on Query { a } { ...f%s }" % (dig, dig),
             "enum E%s { A%s } { a }" % (dig, dig)]
    for i in range(30 if quick else 400):
        g = gen_doc.Gen(rng, depth=2)
        docs.append(gen_doc.join_random(g.operation(), rng))
    var_pool = [None, {}, {"v": 1}, {"v": None}, {"v": "1"}, {"v": 2 ** 40}, {"v": float("nan")}, {"v": [1]},
                {"v": {"a": 1}}, {"w": {"a": None}}, {"w": {"b": [{"a": 1, "zz": 2}]}}, {"v": 1, "w": "x"},
                {"v": True}, {"v": 1.5}, {"v": object()}, {"w": {"c": "C"}}, {"v": 1, "extra": math.inf},
                {"v": b"1"}, {"w": [1, 2]}, {"v": -2 ** 31 - 1}, {"w": {1: "x"}}, {1: 2, "v": 1}, {"w": {None: 1, "a": 1}},
                {"w": {("t",): 1}}, {"v": [None, {2: 3}]}, {"w": {"b": [{3.5: 1}]}}, {"v": {}}, {"v": {"zz": 1}}, {"v": {"x": None}},
                {"v": {"x": 1, "y": "s"}}, {"w": {"one": {}}}, {"p": {}}, {"p": [{}]}]
    op_pool = [None, "", "Q", "A", "B", "nope", "\ud800", "M", "S"]
    nreq = 0
    for d in docs:
        for _ in range(4 if quick else 12):
            vars_ = rng.choice(var_pool)
            op = rng.choice(op_pool)
            mk = rng.choice(pool)
            mode = rng.randint(0, 3)
            def raising(*_a, **_k):
                raise mk()
            root = {"a": raising if mode == 0 else 1, "nn": raising if mode == 1 else (None if mode == 2 else 3),
                    "s": (lambda *_a, **k: str(k)), "l": [1, None, 2] if mode == 3 else raising,
                    "e": "A" if mode else "Z", "i": raising, "m": raising if mode < 2 else 5,
                    "u": {"__typename": "T", "t": raising}, "it": {"__typename": "T" if mode else "Nope", "a": 1}}
            root["o"] = root
            try:
                res = graphql_sync(schema, d, root_value=root, variable_values=vars_, operation_name=op)
                bad = wf_response(res)
            except RecursionError:
                # only tolerated beyond the property's nesting bound
                bad = None if nesting_depth(d) > 100 else "graphql_sync raised RecursionError on a document of nesting depth <= 100"
            except Exception as e:  # noqa: BLE001
                bad = f"graphql_sync raised {type(e).__name__}: {e!r}"[:200]
            nreq += 1
            ck.note_case(("req", d, repr(vars_), op, mode, nreq % 16), nontrivial=True)
            if bad:
                try:
                    exc_name = type(mk()).__name__
                except Exception:  # noqa: BLE001
                    exc_name = "?"
                ck.violation(f"request:{d!r}:{vars_!r}:{op!r}:{exc_name}:{mode}",
                             f"graphql_sync({d!r}, variables={vars_!r}, operation_name={op!r}, resolver raising {exc_name}): {bad}",
                             {"relation": "request returns a well-formed result", "document": d,
                              "variables": repr(vars_), "operation_name": op, "raises": exc_name, "mode": mode,
                              "impl": bad})
    # hostile variable values, type-directed: every value of the universe for a variable of every input type
    import decimal
    import fractions

    class HostileRepr:
        def __repr__(self):
            raise RuntimeError("hostile __repr__")

    class HostileHash:
        __hash__ = None

        def __eq__(self, other):
            raise RuntimeError("hostile __eq__")

    class DictSub(dict):
        pass

    class StrSub(str):
        __slots__ = ()

        def lower(self):
            raise RuntimeError("hostile lower")

    huge = 10 ** 5000
    universe = [huge, -huge, 2 ** 31, -2 ** 31 - 1, 2 ** 53 + 1, float("nan"), float("inf"), -0.0, 1e308 * 10, "", "\u0130",
                "\u0130\u0130\u0130", "a\u0130", "\ud800", "A", "a", "b", "1", "1e999", "0x10", " 1 ", "true", b"", bytearray(b"1"),
                [], [[]], [huge], [None], [1, "\u0130"], {}, {"\u0130": 1}, {"a": huge}, {"c": "\u0130"}, {"c": "\u0130\u0130\u0130"}, {"\u0130\u0130\u0130": 1}, {"l\u0130nger": 1}, {"zz": 1}, {"A": 1}, {"aa": 1},
                {"a": 1, "b": [{"a": 1, "c": "b"}]}, {"b": {"a": 1}}, {"x": 1}, {"x": None}, {"x": 1, "y": "s"}, {"z": {}}, [{}], [{"x": 1}, {"zz": 2}], {"b": [[]]}, DictSub(a=1), StrSub("A"), object(),
                HostileRepr(), HostileHash(), (1, 2), {1, 2}, frozenset(), range(3), iter([1]), decimal.Decimal("1.5"),
                fractions.Fraction(1, 3), 1j, True, False, None, type, len, NotImplemented, Ellipsis]
    vtypes = [("Int", "s(n: 1) q: i(v: {a: $v})"), ("Int!", "s(n: $v)"), ("Float", "a"), ("String", "s(n: 1, x: $v)"),
              ("Boolean", "a @skip(if: $v)" if False else "a"), ("ID", "a"), ("E", "i(v: {c: $v})"), ("In", "i(v: $v)"),
              ("[Int!]", "a"), ("[In]", "a"), ("[[E!]]!", "a"), ("In!", "i(v: $v)"), ("One", "one(o: $v)"), ("[One!]", "one(os: $v)")]
    nhost = 0
    for ty, sel in vtypes:
        d = "query Q($v: %s) { %s }" % (ty, sel)
        for val in universe:
            root = {"a": 1, "s": (lambda *_a, **k: "x"), "i": (lambda *_a, **k: 1)}
            try:
                res = graphql_sync(schema, d, root_value=root, variable_values={"v": val})
                bad = wf_response(res)
            except Exception as e:  # noqa: BLE001
                bad = f"graphql_sync raised {type(e).__name__}: {e!r}"[:200]
            nreq += 1
            nhost += 1
            try:
                rv = repr(val)[:60]
            except Exception:  # noqa: BLE001
                rv = type(val).__name__
            ck.note_case(("hostile-var", ty, rv), nontrivial=True)
            if bad:
                ck.violation(f"hostile-variable:{ty}:{rv}",
                             f"graphql_sync({d!r}, variables={{'v': {rv}}}): {bad}",
                             {"relation": "request returns a well-formed result", "document": d,
                              "variables": rv, "impl": bad})
    ck.count("hostile_variable_requests", nhost)
    # custom scalars whose value/literal/output coercion raises every exception class of the pool (also classes that are
    # neither GraphQLError nor TypeError/ValueError): variables at top level, in lists, in input objects; literals; results
    from graphql import (GraphQLArgument, GraphQLField, GraphQLInputField, GraphQLInputObjectType, GraphQLInt, GraphQLList,
                         GraphQLNonNull, GraphQLObjectType, GraphQLScalarType, GraphQLSchema)
    import decimal as _dec
    more_excs = pool + [lambda: _dec.InvalidOperation(), lambda: AttributeError("a"), lambda: OverflowError("o"),
                        lambda: IndexError("i"), lambda: ArithmeticError(), lambda: BufferError(), lambda: EOFError(),
                        lambda: NotImplementedError(), lambda: RuntimeError("r"), lambda: SystemError("s"), lambda: UnicodeError("u")]
    ncustom = 0
    for mk in more_excs:
        def boom(*_a, _mk=mk, **_k):
            raise _mk()
        for where in ("parse_value", "parse_literal", "serialize"):
            kw = {"parse_value": (boom if where == "parse_value" else (lambda v: v)),
                  "parse_literal": (boom if where == "parse_literal" else None),
                  "serialize": (boom if where == "serialize" else (lambda v: v))}
            odd = GraphQLScalarType("Odd", **{k: v for k, v in kw.items() if v is not None})
            in_odd = GraphQLInputObjectType("InOdd", {"o": GraphQLInputField(odd), "os": GraphQLInputField(GraphQLList(GraphQLNonNull(odd)))})
            args = {"o": GraphQLArgument(odd), "os": GraphQLArgument(GraphQLList(odd)), "i": GraphQLArgument(in_odd)}
            q = GraphQLObjectType("Query", {"odd": GraphQLField(odd, args=args, resolve=lambda *_a, **_k: 1),
                                            "odds": GraphQLField(GraphQLList(GraphQLNonNull(odd)), resolve=lambda *_a: [1, 2]),
                                            "a": GraphQLField(GraphQLInt, resolve=lambda *_a: 1)})
            cschema = GraphQLSchema(q)
            creqs = [("query($v: Odd) { odd(o: $v) a }", {"v": 1}), ("query($v: [Odd]) { odd(os: $v) a }", {"v": [1, None, "x"]}),
                     ("query($v: InOdd) { odd(i: $v) a }", {"v": {"o": 1, "os": [2]}}), ("query($v: Odd = 5) { odd(o: $v) }", {}),
                     ("{ odd(o: 1, os: [2, \"s\"], i: {o: {k: [1]}, os: [3]}) a }", None), ("{ odds a }", None),
                     ("query($v: Odd!) { odd(o: $v) }", {"v": None})]
            for d, vars_ in creqs:
                try:
                    res = graphql_sync(cschema, d, variable_values=vars_)
                    bad = wf_response(res)
                except Exception as e:  # noqa: BLE001
                    bad = f"graphql_sync raised {type(e).__name__}: {e!r}"[:200]
                nreq += 1
                ncustom += 1
                try:
                    exc_name = type(mk()).__name__
                except Exception:  # noqa: BLE001
                    exc_name = "?"
                ck.note_case(("custom-scalar", where, exc_name, d), nontrivial=True)
                if bad:
                    ck.violation(f"custom-scalar:{where}:{exc_name}:{d!r}",
                                 f"custom scalar whose {where} raises {exc_name}: graphql_sync({d!r}, variables={vars_!r}): {bad}",
                                 {"relation": "request returns a well-formed result", "document": d, "variables": repr(vars_),
                                  "scalar_hook": where, "raises": exc_name, "impl": bad})
    ck.count("custom_scalar_requests", ncustom)
    # every exception class of the pool, raised at a nullable and at a non-null position
    for mk in pool:
        for d, fld in (("{ a o { a } }", "a"), ("{ nn }", "nn"), ("{ o { o { nn } } a }", "nn"), ("mutation M { m }", "m")):
            def raising(*_a, _mk=mk, **_k):
                raise _mk()
            root = {"a": 1, "nn": 2, "m": 3}
            root[fld] = raising
            root["o"] = root
            try:
                res = graphql_sync(schema, d, root_value=root)
                bad = wf_response(res)
                if not bad and not (res.errors and all(e.path for e in res.errors)):
                    bad = "resolver exception did not surface as a located error with a path"
            except Exception as e:  # noqa: BLE001
                bad = f"graphql_sync raised {type(e).__name__}: {e!r}"[:200]
            nreq += 1
            try:
                exc_name = type(mk()).__name__
            except Exception:  # noqa: BLE001
                exc_name = "?"
            ck.note_case(("exc", d, exc_name), nontrivial=True)
            if bad:
                ck.violation(f"resolver-exception:{exc_name}:{d}", f"resolver raising {exc_name} in {d!r}: {bad}",
                             {"relation": "resolver exceptions surface as located errors in a well-formed result",
                              "document": d, "raises": exc_name, "impl": bad})
    ck.count("requests", nreq)
    # parser model (the totality theorems are about it) vs the five real entry points: outcome class, error
    # position, whole tree - corpus, all short strings, coordinates, fixture prefixes, token mutants
    if br.ok:
        from . import cparser
        rule0 = ck.rule
        cparser.core(ck, tier, ("corpus", "A", "C", "E", "F"))
        ck.rule = rule0 + " (iv) parser model correspondence: see coverage.parser_rule"
    ck.samples.append({"document": docs[3], "variables": repr(var_pool[10])})
    ck.samples.append({"source_prefix_of": "kitchen_sink.graphql"})
    return ck.finish()


def replay(path):
    d = json.loads(open(path).read())
    print(json.dumps(d, indent=1)[:2000])
    if "body" in d and "entry" in d:
        print("impl now:", outcome(entry_points()[d["entry"]], common.from_cps(d["body"])))
    return 0
